import glob, os, re
from concurrent.futures import ThreadPoolExecutor


def _branch_stage(c):
    """model-branch coverage, computed in Coq (Router/C12Branch.v) over the case files of this run:
    which arms of the models the generated cases reached.  Reported in the evidence, never judged."""
    rundir = os.path.join(c["root"], "run", "C12")
    theories = os.path.join(c["root"], "coq", "theories")
    cov = c["meta"].setdefault("coverage_extra", {})
    mods = sorted(os.path.basename(f)[:-3] for f in glob.glob(os.path.join(rundir, "cases_*.vo")))
    if not mods or not os.path.exists(os.path.join(theories, "Router", "C12Branch.vo")):
        cov["model_branches"] = "not computed (no compiled case files or Router/C12Branch.vo missing)"
        return []
    chunks = [mods[i:i + 8] for i in range(0, len(mods), 8)]

    def one(arg):
        i, ms = arg
        f = os.path.join(rundir, "branches_%03d.v" % i)
        with open(f, "w") as fh:
            fh.write("From SC Require Import Base.Prelude Router.C12Judge Router.C12Branch.\n")
            fh.write("Require %s.\n" % " ".join(ms))
            fh.write("Definition H := Eval vm_compute in (branch_hist (%s)).\nPrint H.\n" % " ++ ".join(m + ".cases" for m in ms))
            if i == 0:
                fh.write("Definition A := Eval vm_compute in (map (fun k => (k, 0)) all_classes).\nPrint A.\n")
        return c["sh"](["coqc", "-Q", theories, "SC", f], cwd=rundir, timeout=1200)

    hist, allc, bad = {}, [], 0
    with ThreadPoolExecutor(max_workers=int(os.environ.get("COQ_JOBS", "16"))) as ex:
        for rc, out in ex.map(one, list(enumerate(chunks))):
            if rc != 0:
                bad += 1
                continue
            flat = re.sub(r"\s+", "", out)
            mh = re.search(r"H=(\[.*?\]):list", flat)
            for k, n in re.findall(r'\("([^"]*)"(?:%string)?,(\d+)\)', mh.group(1) if mh else ""):
                hist[k] = hist.get(k, 0) + int(n)
            ma = re.search(r"A=(\[.*?\]):list", flat)
            if ma:
                allc = [k for k, _ in re.findall(r'\("([^"]*)"(?:%string)?,(\d+)\)', ma.group(1))]
    cov["model_branches"] = dict(sorted(hist.items()))
    cov["model_branches_unhit"] = [k for k in allc if k not in hist]
    cov["model_branches_note"] = "computed in Coq by Router/C12Branch.branch_hist over %d case files%s" % (
        len(mods), "" if not bad else " (%d chunk(s) did not evaluate)" % bad)
    h = c["meta"].setdefault("histogram", {})
    for k, n in hist.items():
        h["model:" + k] = n
    return []


CFG = {
    "extra": _branch_stage,
    "harness_pkg": "c12",
    "coq_modules": ["Router.C12Judge", "Router.TableProofs", "Router.RouterCbProofs", "Router.RegistryWProofs", "Router.NameTreeProofs", "Router.RouteWProofs", "Router.C12SchedProofs", "Router.RouterCbWProofs", "Router.C12Branch"],
    "judge_module": "Router.C12Judge",
    "allowed_axioms": [],
    "theorems": ["C12_registry_is_map", "C12_log_is_transitions", "C12_has_get_agree", "C12_notfound_touches_nothing",
                 "C12_single_factory_commit", "C12_all_return_same_client", "C12_concurrent_notfound_touches_nothing",
                 "C12_pump_transparent", "C12_pump_header_error", "C12_pump_caller_send_error", "C12_unary_transparent",
                 "C12_default_name_only_empty", "C12_default_name_sequence", "C12_default_name_only_name_field", "C12_stream_session_per_message", "C12_all_routed", "C12_every_method_routed",
                 "C12_judge_sound", "C12_judge_sound_hist", "C12_stream_ok_sound", "C12_log_is_transitions_nil_refuted", "C12_all_routed_v0_refuted",
                 "C12_callbacks_are_transitions", "C12_cb_run_erases", "C12_cb_single_factory_commit",
                 "C12_callback_order_not_guaranteed_add_add", "C12_callback_order_not_guaranteed_add_remove", "C12_callback_order_not_guaranteed_get_remove", "C12_perm_eqb_sound",
                 "C12_registryW_is_map", "C12_getW_cases", "C12_getW_call_counts", "C12_get_is_getW", "C12_perm_eqb_complete", "C12_cb_report_twice_needs_commit_twice",
                 "C12_percall_callbacks_are_transitions", "C12_percall_single_commit", "C12_percall_same_client",
                 "C12_default_name_tree", "C12_default_name_nested_untouched", "C12_default_name_tree_shape",
                 "C12_default_name_no_string_name", "C12_default_name_idempotent", "C12_default_name_tree_renders",
                 "C12_get_results_clean", "C12_routeW_is_map", "C12_routeW_notfound_touches_nothing", "C12_routeW_forwards_once",
                 "C12_routeW_no_nil_deref", "C12_judge_sound_routew", "C12_judge_ok_means_guard"],
    "level_text": "Theorems (Props/C12.v, closed under the global context): for all operation sequences the registry of pkg/router refines a plain functional map and its change log replays to the registry with each entry's Old the value replaced; for every schedule of any number of concurrent first Gets of one name (induction over schedules with an invariant) at most one factory client is committed, exactly one Auto change is logged and every returned client is that one, and all threads finish after three turns each; a Get that finds nothing changes nothing (also concurrently); for every child script the generated stream pump hands the caller exactly the child's header, messages, trailer and status, and a failing caller Send yields the delivered prefix, the caller's error and a cancelled child; the default-name interceptor changes only empty string name fields, also over message trees (nested messages with their own name fields are never touched). With the onChange callbacks as steps of their own (they run after the lock is released): for every schedule of any Get/Add/Remove threads the callbacks delivered plus the changes still to be reported are a permutation of the transition log, erasing callback steps gives a run of the block-level LTS, with Gets alone callbacks equal transitions in order; the property fixes which transitions are reported, not the arrival order of callbacks of concurrent committers (three recorded witnesses C12_callback_order_not_guaranteed_*, observations only). With per-call fallback/factory outcomes (nil,nil / nil,err / client+err / client,nil) and any subset of the three options the registry still refines a plain map, and the numbers of fallback/factory calls are as specified. The whole lookup chain is modelled value by value (RouteW.v: router.Get over its named results child/exists/err with invoke handing the Factory's value back even on a miss, the generated GetXxxClient, the head of every generated method): Get's two results are exactly (client, nil) or (nil, NotFound) whatever is left in the variables (C12_get_results_clean); every history on a generated router (typed Add refusing nil, Remove, Has, Router.Get, GetXxxClient, unary and streaming methods, any option subset, per-call outcomes) equals the plain map's in both results of every Get, who was called, transcripts, call counts, contents and log (C12_routeW_is_map); a name for which registry, fallback and factory yield no client (a client returned next to an error is none) gives (nil, NotFound) from both getters and NotFound with nobody called from every method, the router unchanged (C12_routeW_notfound_touches_nothing); no method ever calls a nil client. With per-call outcomes UNDER CONCURRENCY (RouterCbW.v: every Get thread carries what its own fallback call and its own factory call return): for every schedule callbacks are a permutation of the transitions; for concurrent first Gets of one name at most one client is ever committed, it is what some caller's own factory returned after its own fallback missed, exactly one Auto change is reported, and every result is the caller's own fallback client, THE committed client, or NotFound when both of its own calls yielded nothing (C12_percall_single_commit, C12_percall_same_client). The judge is proved sound for EVERY case kind (C12_judge_sound: guard and agreement with the model imply the property predicate; boolean equalities reflect equality, perm_eqb decides multiset equality; for the schedule kinds via the model-run theorems, positivity of factory identities along every run and an invariant tying the callbacks delivered so far to what every finished call returned; guards: sequence/session cases -- a type has at most one field called name; schedule cases -- identities non-nil; a case outside the guard is reported, never skipped). all_routed is re-proved by vm_compute on every run over Gen/Routers.v, regenerated from the compiled service descriptors and go/ast over all checked-in *_router.pb.go/*_wrap.pb.go. The models are tied to the code by a differential run of every method of all 65 generated routers against fake per-name clients (who was called, with which request bytes; messages, status, header, trailer received), ~200 bare-registry histories, ~2500 forced interleavings of concurrent Get/Add/Remove through verif yield points in router.Get (all interleavings for 2 and 3 threads), ~1600 schedules in which the harness's onChange parks on entry (all interleavings of 11 two/three-thread configurations), 975 schedules with per-call fallback/factory outcomes (all interleavings of 12 two-thread configurations incl. client+error vs client, error vs client, two clients, no fallback / no factory configured; 300 random), 200 histories over the 8 option subsets with a fresh fallback/factory outcome per Get (call counts observed), 130 histories on the generated routers built from an option subset (through router.WithFactory or the generated WithXxxClientFactory) in which every Router.Get / GetXxxClient / unary / streaming lookup has its own fallback/factory outcome incl. client+error and both results of every Get are observed, names drawn from classes (empty, blank ASCII, unicode white space, padded, case variants, odd) and passed to Coq byte-exactly, interceptor calls with varied FullMethod / stream kinds / explicit-presence and JSON-name-crossed name fields / sub-messages with their own names, the typed accessors AddXxxClient/RemoveXxxClient/GetXxxClient and HoldsType of every router, the interceptors on the request types of all services, and a byte-for-byte regeneration of all routers and wrappers with the in-tree generators. Model-branch coverage (which arm of every model each case took, Router/C12Branch.v) is computed in Coq over the case files of the run and reported in the evidence (coverage.model_branches, model_branches_unhit).",
    "level_note": "Trusted: Coq kernel + vm_compute; the hand models of router.go, the generated method bodies (one unary and one stream body; the translator checks by go/ast that every router method has the same normalised body and the required calls) and replaceEmptyNameField, validated only on generated inputs; fake grpc.ClientConnInterface/ServerStream stand in for transports (a ClientStream whose Header() fails is modelled but neither transport in the tree produces it; then the trailer is not forwarded); unary header/trailer metadata and caller request metadata are not forwarded by the routers and are outside the property; the child is not cancelled by the pump when the caller's SendHeader fails (left to the transport ending the server context); the per-name concurrent models (RouterGet.v, RouterCb.v) fix per name whether the factory succeeds, the per-call one (RouterCbW.v) assumes onChange configured; with nil clients stored through the untyped Add the log is ambiguous (refuted theorem included); lock-protected blocks are taken as atomic; yield points at the two gaps of Get and at the entry of the harness's onChange callback.",
    "trusted_base": [
        "harness/c12/translate.go (go/ast fact extraction from *_router.pb.go, *_wrap.pb.go; descriptor walk) and harness/c12/table_gen.go (constructor table, generated by mktable.go, staleness reported as a Direct)",
        "protodesc.ToFileDescriptorProto of the compiled descriptors as input to cmd/protoc-gen-router/-wrapper instead of protoc output (source comments absent; the templates do not use them)",
        "internal/verifhook yield points in router.Get assumed not to change behaviour; sync.RWMutex critical sections taken as atomic steps",
    ],
    "assumptions": ["request/response messages compared by deterministic marshalling", "status compared as (code, message); a plain Go error is Unknown with its text",
                    "the controller runs one thread at a time; in KSched cases onChange callbacks run right after the block that precedes them, in KSchedCb cases they are scheduled separately"],
}
