import os, re, hashlib

def _race_stage(c):
    """build harness/c13 with -race and run generated scenarios through the wrapper: a data race with a
    frame in pkg/wrap is a violation (Direct class "race")."""
    h = os.path.join(c["root"], "harness")
    out = os.path.join(c["build"], "c13-racebin")
    modflag = []
    if c["repo"] != "/repo":
        alt = os.path.join(c["build"], "alt-%s.mod" % hashlib.sha1(c["repo"].encode()).hexdigest()[:8])
        if os.path.exists(alt):
            modflag = ["-modfile=" + alt]
            out += "-alt"
    env = dict(c["env"], CGO_ENABLED="1")
    rc, log = c["sh"](["go", "build", "-race", "-tags", "verif", "-o", out] + modflag + ["./c13"], cwd=h, timeout=900, env=env)
    if rc != 0:
        c["meta"].setdefault("coverage_extra", {})["race_stage"] = "not run: -race build failed or timed out"
        return []
    env = dict(env, GORACE="halt_on_error=0 exitcode=0")
    rc, log = c["sh"]([out, "racerun", str(c["seed"])], timeout=600, env=env)
    reports = [r for r in log.split("==================") if "WARNING: DATA RACE" in r]
    inwrap = [r for r in reports if "sc-golang/pkg/wrap." in r]
    c["meta"].setdefault("coverage_extra", {})["race_stage"] = "ran (harness built with -race, scenarios through the wrapper): %d race report(s), %d with a pkg/wrap frame; exit %d" % (len(reports), len(inwrap), rc)
    if inwrap:
        lines = [l for l in inwrap[0].splitlines() if l.strip()][:24]
        return [{"what": "data race involving pkg/wrap while running generated call scenarios through wrap.ServerToClient (go build -race): " + " | ".join(l.strip() for l in lines)[:1500],
                 "class": "race", "replay": {"cmd": "c13 (built with -race) racerun %d" % c["seed"], "reports": len(inwrap)}}]
    return []

CFG = {
        "extra": _race_stage,
        "harness_pkg": "c13",
        "coq_modules": ["Wrap.C13Judge", "Wrap.SitesProofs", "Wrap.GrpcFactsProofs"],
        "judge_module": "Wrap.C13Judge",
        "allowed_axioms": [],
        "theorems": ["C13_wrapper_equals_grpc", "C13_no_goroutine_left", "C13_unknown_method_unimplemented",
                     "C13_shape_mismatch_internal", "C13_copies_isolated", "C13_send_copied_before_return",
                     "C13_send_leaves_sender_object", "C13_metadata_copied_at_set_time", "C13_incoming_metadata_cloned",
                     "C13_every_boundary_site_copies", "C13_method_table_is_service_desc", "C13_model_repairs_match_source",
                     "C13_unwrap_fully_innermost", "C13_unwrap_fully_is_plain", "C13_unwrap_fully_idempotent",
                     "C13_judge_sound", "C13_judge_complete", "C13_grpc_fact_table_matches_spec", "C13_grpc_assumptions_general",
                     "C13_header_on_return_v0_refuted", "C13_late_set_header_v0_refuted",
                     "C13_context_error_v0_refuted", "C13_send_after_cancel_v0_refuted", "C13_copy_on_receive_v0_refuted",
                     "C13_trailer_after_cancel_refuted", "C13_response_then_error_refuted",
                     "C13_header_after_context_end_v0_refuted", "C13_header_after_context_end_equal",
                     "C13_client_misuse_equal", "C13_client_misuse_v0_refuted"],
        "level_text": "Theorem C13_wrapper_equals_grpc (Props/C13.v, closed under the global context): for every call shape, every request metadata, every state of the calling context (live, cancelled, past its deadline) and every scenario of the rendezvous fragment (all client/handler script pairs and all schedules of their local steps in which every send meets a receiver and no header block is in flight when the client's context ends, by cancel or by deadline expiry, at any point, the handler then either finishing at once or going on to set/send headers, set trailers, try to send or receive and return anything), the model of pkg/wrap produces the same client transcript (sends, messages in order, terminal outcome with code and message, header and trailer metadata) and the same handler-side transcript (incl. the request metadata the handler is given) as the gRPC reference, except on two recorded classes (trailer visible after the client's context ended; client-streaming response followed by an error) for which refutation witnesses are proved; what a handler's RecvMsg / SendMsg / SendHeader return after it has seen its context end is part of the handler-side transcript (they fail on both transports). Two former classes are repaired in /repo with _v0_refuted witnesses for the code before (c7073e6: SendHeader after the client's context ended published headers; 4da6978: SendMsg after CloseSend / a second CloseSend panicked -- now Internal / nil as on a real connection, C13_client_misuse_equal). Further theorems: every call of the fragment runs to completion with the handler goroutine ended, unknown methods give Unimplemented, any stream description other than the method's shape gives Internal, messages are copied across the boundary and the copy is taken before SendMsg returns (heap model with arbitrary writes in between; the table of boundary sites of stream.go is regenerated from the source on every run and every site is proved to go through its copying function), UnwrapFully returns the innermost object, the judge is complete w.r.t. the models for every case kind. The reference model's assumptions about a real connection are 18 named facts (Wrap/GrpcFacts.v), each with a general lemma about the model and a directed scenario with a hand-written expected transcript in a generated table (Gen/GrpcFacts.v) that is re-proved against the reference model on every run (C13_grpc_fact_table_matches_spec) and executed against the bufconn server on every run (KFact cases: observed = expected). Every run executes ~3000 generated scenarios through wrap.ServerToClient and through a real grpc.Server on bufconn with the same scripted TestApi server, compares the two real transcripts directly (C13_ok) and each with its model in Coq, scribbles over sent/received messages and keeps modifying the metadata maps it passed in or was given (handler and client side, with re-submission of the same map) to detect sharing, reuses every message the moment SendMsg has returned, drives deadline expiry during the call through a context whose end the driver triggers (both transports), and inspects goroutine dumps for pkg/wrap frames after every call; a second harness binary built with -race runs ~900 scenarios through the wrapper (race reports with a pkg/wrap frame are violations).",
        "level_note": "Trusted: Coq kernel + vm_compute; the hand model of stream.go/wrap.go and the gRPC reference GrpcSpec (an oracle, validated against bufconn only on generated scenarios); the lock-step harness and its canonicaliser (user metadata keys only, status.Convert, context errors and Canceled/DeadlineExceeded as classes). Outside the fragment and not judged: transport buffering and flow control, real timers (a deadline is a context that ends with DeadlineExceeded at a step chosen by the scenario, before or during the call; no timer fires concurrently with a send), more than one response on a non-server-streaming method, what SetHeader returns to a handler after the client's context ended (the wrapper accepts metadata nobody will see, a real server refuses it; no client-visible effect), what follows a refused SendMsg-after-CloseSend (grpc-go aborts the call, the wrapper does not), a server RecvMsg after that with the client half-closed (random select in stream.go). Go scheduler and channel semantics are taken as rendezvous semantics; goroutine termination is proved for the model and observed by goroutine dumps.",
        "trusted_base": [
            "modelled, not verified: grpc-go client/server behaviour (Wrap/GrpcSpec.v), validated by the three-way comparison against a bufconn server on every run; its assumptions are the named facts of Wrap/GrpcFacts.v, each run as a directed scenario on bufconn every run",
            "modelled, not verified: Go unbuffered channel and select semantics in pkg/wrap/stream.go as rendezvous steps; proto.Merge / marshal-unmarshal as a content copy (Wrap/Copy.v), observed by scribbling over messages after the call",
            "harness/c13: lock-step driver, scripted TestApi server, transcript canonicaliser",
        ],
        "assumptions": ["rendezvous fragment: every send meets a ready receiver; nothing in flight at a client cancel",
                        "deadline expiry is the calling context ending with DeadlineExceeded at a scenario step (a context controlled by the driver), not a timer",
                        "status codes returned by handlers are 1..16; metadata restricted to three user keys"],
    }
