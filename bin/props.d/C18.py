CFG = {
        "harness_pkg": "c18",
        "coq_modules": ["Timeline.C18Judge"],
        "level_text": "Theorems (Props/C18.v, closed under the global context) state for all timestamps, periods, segment lists, shifts, cuts and mode lists that comparison is the chronological order with results -1/0/1, Intersect/Connected decide common point / touching closures, and magnitude-at, cut, shift, sum and the mode operations commute with reading a segment list as a step function. The model is tied to the code by evaluating it in Coq against ~9000 observed calls per run (exhaustive small grid + random 64-bit and segment inputs) together with an independent arithmetic/pointwise oracle.",
        "level_note": "Trusted: Coq kernel + vm_compute; the hand model of pkg/time and segmentpb/modepb (validated by the correspondence only on generated inputs); integer magnitudes (exact float32), small durations (no int64 overflow), shapes ignored; Sum's pointwise law needs magnitudes >= 0 (refuted otherwise, theorem included); non-mutation of arguments is observed by deep copies, not proved.",
        "judge_module": "Timeline.C18Judge",
        "allowed_axioms": [],
        "theorems": ["C18_compare_contract","C18_compare_antisym","C18_compare_trans","C18_intersect_iff_common_point","C18_connected_iff_touch","C18_intersect_symmetric","C18_connected_symmetric","C18_magnitude_at","C18_active_at","C18_duration","C18_max","C18_cut_preserves","C18_shift_is_translation","C18_sum_is_pointwise","C18_sum_negative_tail_refuted","C18_mode_magnitude_at","C18_mode_shift","C18_mode_shift_no_start","C18_mode_cut","C18_mode_sum","C18_mode_sum_no_start","C18_judge_sound","C18_compare_v0_refuted","C18_compare_v0_wrong_order","C18_intersect_v0_refuted"],
        "trusted_base": [
            "modelled, not verified: timestamppb/durationpb conversions (AsTime, AsDuration, New) as exact integer nanoseconds; float32 magnitudes restricted to integers below 2^24; time.Duration overflow not modelled (theorems are over Z, harness lengths are small)",
        ],
        "assumptions": ["segment shapes are not modelled", "sort.Slice tie order modelled as stable (result independent of it, proved: sum meaning is order-free)"],
    }
