CFG = {
    "harness_pkg": "c02",
    "coq_modules": ["Conc.Judge"],
    "judge_module": "Conc.Judge",
    "allowed_axioms": [],
    "theorems": ["C02_two_adds_v0_refuted"],
    "level_text": "WIP",
    "level_note": "WIP",
    "trusted_base": [],
    "assumptions": [],
}
