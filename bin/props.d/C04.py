CFG = {'allowed_axioms': [],
 'assumptions': ['one caller at a time',
                 'the correspondence runs over three scalar fields of TestAllTypes with top-level masks (flat) and over full TestAllTypes / trait '
                 'messages with nested masks (tree); theorems are over an abstract algebra'],
 'coq_modules': ['Resource.Judge', 'Resource.TreeJudge04', 'Resource.HeldJudge', 'Resource.Held04Proofs'],
 'generators': ['C04', 'C04T', 'C04H'],
 'harness_pkg': 'cres',
 'judge_module': 'Resource.Judge',
 'level_note': 'Trusted: Coq kernel + vm_compute; hand models Resource/Impl.v + Pull.v; single writer, backpressured, receiving subscriber (lossy '
               'and concurrent delivery are C09/C03); quiescence by a two-write barrier (the directed and tree cases then cancel and wait for the '
               'consumer goroutine to end, no sleeps; the older random cases keep a 25 ms sleep fallback when the barrier itself is filtered out). '
               'C04H settles a backpressured subscriber by a second write issued from a goroutine while the harness goroutine receives (bus '
               'backpressure: the call returns once the Pull goroutine has taken the event, i.e. has finished with the previous one); the lossy '
               'scenarios are judged by the oracle only. The cancel-during-delivery family contains one 3 ms pause that selects the interleaving '
               '(not a verdict).',
 'level_text': 'Theorems (Props/C04.v, closed, arbitrary message algebra / read mask / history): every call publishes nothing or exactly one event '
               'that describes the transition (id, old = stored before, new = stored after, REMOVE iff gone, time = stored change time = the '
               'explicit write time whatever it is, else the clock; also for Delete and Value.Set); failed calls publish nothing; ADD iff absent '
               'before; for EVERY call sequence from every sorted contents (induction over the history): each call publishes at most one event, a '
               'subscriber opened at any point gets the seed of the contents at that point followed by exactly the events of the later calls in '
               'order, projected by its read mask, and its folded view equals the final List; seeds are one ADD per item in id order, flagged, '
               'stored time, exactly the final one last-seed; updates-only has no seed; Value stream exact; with an equivalence a change is '
               'delivered exactly when what the subscriber is SENT (after the read mask) is not equivalent to what it holds — for a Collection (the '
               'held map of the code since /repo 3a50d70, Resource/Pull.v pull_collection_held; ANY comparer, read mask AND include predicate, every '
               'history with deletes, re-adds, items leaving and re-entering the filter): the subscriber starts out holding what List with its '
               'options shows, the stream is the seed followed by exactly those changes of the equivalence-free stream whose new value is not '
               'equivalent to what it holds for the id (the value last SENT, nothing after a delivered REMOVE - so a re-add or a return into the '
               'filter is delivered whatever its value), its fold is equivalent to the final List id by id (reflexive comparer), and the '
               'old-against-new comparison it replaced gives the same stream for equivalence relations (refuted for a non-transitive comparer); a '
               'write that changes only masked-out fields is suppressed. Tied to the code per run by ~320 random histories with a real backpressured '
               'subscriber + ~170 directed histories (equivalence x read mask x writes outside the mask; explicit write times at the boundaries: '
               'zero time.Time, epoch, epoch-1ns, before the previous change, year 9999, max int64 ns; 2-3 simultaneous Value subscribers with '
               'different masks) over the flat algebra, and ~150 histories over FULL messages (TestAllTypes and trait messages Brightness, '
               'AirTemperature, ElectricMode, OnOff, EnergyLevel; nested read masks via WithReadMask/WithReadPaths, WithNoDuplicates / '
               'WithMessageEquivalence / WithEquivalence(projection), WithInitialRecord / WithInitialValue; Resource/TreeJudge04.v). Every field of '
               'every event is compared with the model; on the observation alone: count, per-id old/new chain, fold = final List, seed time = the '
               'time the event of that write carried (witness subscriber), k-th event <-> k-th successful write (explicit time exact, clock readings '
               'increasing, new value = projection of what the call returned), and with an equivalence: no delivered event has equivalent old/new, '
               'delivered values = committed values de-duplicated against the last delivered one. Plus (generator C04H, judge Resource/HeldJudge.v) '
               '~260 scenarios per run of a collection WITH an equivalence (none / no-duplicates / one field) x include predicate x read mask x '
               'seeded / updates-only x backpressure / lossy over 1-3 ids with scripted delete / re-add equivalent / re-add different / leave the '
               'filter / re-enter equivalent / re-enter different / update steps: with backpressure delivery is settled after EVERY write and the '
               'fold of the stream received so far is compared with List with the same options up to the equivalence, id by id; and a directed '
               'family with 3-5 backpressured subscribers where one cancels while a write is half-way delivered (each survivor: exactly one event '
               'per successful write).',
 'theorems': ['C04_one_event_per_effective_write',
              'C04_no_event_for_failed_write',
              'C04_kind_and_old_new',
              'C04_stream_is_seed_then_script',
              'C04_seeds_shape',
              'C04_last_seed_flag',
              'C04_updates_only_no_seed',
              'C04_value_stream_exact',
              'C04_equivalence_suppresses_exactly_equivalent',
              'C04_pull_id_ignores_other_ids',
              'C04_pull_id_closed_iff_removed',
              'C04_history_one_event_per_effective_write',
              'C04_history_stream',
              'C04_history_fold_is_final_list',
              'C04_collection_equivalence_exact',
              'C04_masked_out_write_suppressed',
              'C04_visible_write_delivered',
              'C04_value_event_time',
              'C04_delete_event',
              'C04_event_time_v0_refuted',
              'C04_value_pull_raw_last_v0_refuted',
              'C04_nonvacuous',
              'C04_nonvacuous_equivalence_reflexive',
              'C04_nonvacuous_masked_out',
              'C04_nonvacuous_zero_write_time',
              'C04_held_stream_exact',
              'C04_held_without_equivalence',
              'C04_held_delivered_iff_not_equivalent_to_held',
              'C04_remove_delivered_holds_nothing',
              'C04_readd_after_remove_delivered',
              'C04_held_fold_equivalent_to_final_list',
              'C04_oldnew_v0_is_held_for_equivalence_relations',
              'C04_oldnew_v0_refuted',
              'C04_nonvacuous_readd_equivalent',
              'C04_nonvacuous_reenter_equivalent',
              'C04_nonvacuous_equivalence_presence'],
 'trusted_base': ['modelled, not verified: pkg/masks (flat form in Resource/Flat.v; tree form Masks/*.v, the subject of C05/C06), '
                  'proto.Equal/Clone/Merge (Msg/Msg.v), sync.RWMutex (sequential use), minibus with backpressured listeners']}
