CFG = {
    "harness_pkg": "c02",
    "coq_modules": ["Conc.Judge"],
    "judge_module": "Conc.Judge",
    "allowed_axioms": [],
    "theorems": ["C03_multi_writer_refuted"],
    "level_text": "WIP",
    "level_note": "WIP",
    "trusted_base": [],
    "assumptions": [],
}
