CFG = {
    "harness_pkg": "c02",
    "coq_modules": ["Conc.Judge"],
    "judge_module": "Conc.Judge",
    "allowed_axioms": [],
    "theorems": ["C03_collection_converges_without_overlap", "C03_value_converges_without_overlap",
                 "C03_single_writer_converges_partial", "C03_concurrent_deletes_converge",
                 "C03_multi_writer_refuted", "C03_update_delete_refuted"],
    "level_text": "Theorems (Props/C03.v, closed, arbitrary message algebra / read mask / program / schedule): the C02 transition system extended with subscribers (Pull = snapshot + Listen in one step under the read lock; a publication reaches the subscribers present when it starts; backpressured, always-receiving consumers). For EVERY program and schedule in which no commit happens while another thread's publication on the same resource is pending, once all calls have returned a seeded Collection.Pull's folded view equals List with the same read mask and a Value.Pull's last event is the final (masked) value, for a subscription opened at any schedule position (nothing missed, nothing duplicated into a wrong state). Commits never overlap when one writer runs at a time (single-writer clause, proved for all schedules) and for any number of concurrent Deletes (they publish under the lock). With two overlapping writers the claim is refuted on the faithful model and on the code: Set/Update publish after releasing the lock, so [W1.save; W2.save; W2.publish; W1.publish] leaves the view stale (known finding coq:1). Tied to the code by ~770 forced schedules (1-2 writers + subscriber at every position, 4 read-option variants) + sampled 1-3 writers / 1-2 subscribers, comparing every delivered event with the model; predicate: folded view = final read on the observation; 3 lock-held probes per run check on the code that a seeded subscribe holds the read lock from snapshot to Listen and that Delete publishes under the write lock.",
    "level_note": "Trusted: as C02, plus minibus.Bus.Send as synchronous delivery to the listeners present (its own interleavings are C10's subject), Pull's forwarding goroutine as an order-preserving pipe; quiescence by a two-write sentinel. Not covered by the theorems (oracle only): Collection subscribers with updates-only; include predicates, PullID, equivalences (not generated).",
    "trusted_base": [
        "minibus.Bus modelled as atomic delivery to the listeners registered when Send starts; Pull's consumer goroutine as a FIFO pipe (backpressure, consumer always receiving)",
        "as C02: Conc/Lts.v hand model, RWMutex, yield points, gate controller",
    ],
    "assumptions": ["subscribers are backpressured and keep receiving (lossy delivery is C09)",
                    "no include predicate / equivalence / PullID in the concurrent programs"],
}
