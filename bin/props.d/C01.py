CFG = {
    "harness_pkg": "cres",
    "coq_modules": ["Resource.Judge"],
    "judge_module": "Resource.Judge",
    "allowed_axioms": [],
    "theorems": [],
    "level_text": "in progress",
    "level_note": "in progress",
    "claimed": False,
}
