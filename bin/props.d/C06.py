CFG = {
    "harness_pkg": "cmsg",
    "coq_modules": ["Masks.C06Judge", "Masks.C06JudgeProofs"],
    "judge_module": "Masks.C06Judge",
    "allowed_axioms": [],
    "theorems": ["C06_filter_is_projection", "C06_nil_is_identity", "C06_empty_is_empty", "C06_never_panics",
                 "C06_valid_never_panics", "C06_validate_ok_iff", "C06_invalid_detected", "C06_normalize_spec",
                 "C06_judge_sound", "C06_filter_v0_is_projection",
                 "C06_parent_and_child_v0_refuted", "C06_unvalidated_panics_v0_refuted"],
    "level_text": "Theorems (Props/C06.v, closed under the global context) over ALL schemas, all schema-conformant message trees and all read masks: the model of ResponseFilter.FilterClone/Filter (paths cut at fields with nothing to select inside, normalized, then fmutils' nested-mask Filter) equals an independent projection defined on the set of paths, for every mask without empty path segments - valid or not, normalized or not, parent+child and through-repeated-message paths included; nil mask = identity, empty mask = empty message; no mask whatsoever makes the read panic; Validate answers OK exactly for masks all of whose paths are good (so unknown segments and continuations through scalar/map/repeated fields give InvalidArgument). The model is tied to pkg/masks/get.go and to resource.Value.Get / Collection.List / Value.Pull / Collection.Pull (new AND old value of every event of ~45 masked, backpressured streams over Add/Update/Delete and WithInclude transitions) by evaluating it in Coq against ~1200 observed reads per run, together with the projection oracle and a validity oracle built from the Go descriptors.",
    "level_note": "Trusted: Coq kernel + vm_compute; the hand models of fieldmaskpb (IsValid, normalizePaths, lessPath) and fmutils (NestedMaskFromPaths, Filter incl. its panics), validated only by the correspondence on generated inputs; messages as canonical populated-field trees (unknown fields, type names not represented); path strings as segment lists (strings.Split in the harness). Non-mutation of the message read and of the caller's mask is observed on deep copies (Direct violation class read-mutated:<op> / mask-mutated:<op>), not proved: value trees have no aliasing. Masks with empty path segments are covered by the no-panic and validation clauses and by model agreement, not by the projection clause.",
    "trusted_base": [
        "modelled, not verified: google.golang.org/protobuf fieldmaskpb (IsValid/numValidPaths, normalizePaths, lessPath, hasPathPrefix), github.com/mennanov/fmutils v0.1.1 (NestedMaskFromPaths, NestedMask.Filter with its panics), proto.Clone/Reset on value trees",
        "harness/vmsg: proto.Message -> canonical tree (Range + sort by field number, map entries by key), descriptor -> Gen/Schema.v, path string -> segments",
        "validity oracle of C06_ok: masks are built valid / corrupted by construction from the Go descriptors (harness/vmsg/rand.go)",
    ],
    "assumptions": ["messages conform to their schema (C06_guard; every generated message does)",
                    "ASCII field names and values; no unknown fields; no proto2 groups"],
}
