CFG = {'allowed_axioms': [],
 'assumptions': ['one caller at a time',
                 'messages restricted to three scalar fields of TestAllTypes and top-level field masks in the correspondence (theorems are over an '
                 'abstract algebra)'],
 'coq_modules': ['Resource.Judge',
                 'Resource.C08Judge',
                 'Resource.IncludeProofs',
                 'Resource.IncludeTableProofs',
                 'Resource.IncludeDenoteProofs',
                 'Resource.HeldJudge',
                 'Resource.Held04Proofs',
                 'Resource.JudgeSound08',
                 'Resource.JudgeSound08x',
                 'Resource.IncludeMatchProofs'],
 'generators': ['C08', 'C08x', 'C08H'],
 'harness_pkg': 'cres',
 'judge_module': 'Resource.Judge',
 'level_note': 'Trusted: as C04 and C09 (Go channel/select semantics: the lossy scenario relies on the merge stage keeping FIFO order by id so that '
               'a plug write on its own id is what the Pull goroutine holds while the reader stalls). Predicates are drawn from a family (true, '
               'id-in-set, field>=k, negation, true-on-absent) for execution; the theorems cover all functions. The message-level end-to-end '
               'theorems take the token reading of a history (tokens = stored message pointers) as a hypothesis. Equivalence together with include: '
               'modelled by the held map (Resource/Pull.v pull_collection_held), theorems C08_held_*; the lossy C08H scenarios are judged by the '
               'oracle only.',
 'level_text': 'Theorems (Props/C08.v, closed, arbitrary message algebra, ANY predicate as a function, any read mask): the include decision table '
               '(start => ADD, stop => REMOVE, stays in => delivered, stays out => dropped, absent values never match) for EVERY change kind incl. '
               'the REPLACE the lossy merge stage produces; the step law (what include returns is a legal edit of the FILTERED collection leading to '
               'the filtered new state); the end-to-end law in BOTH delivery modes: (a) backpressure: for every history folding the filtered stream '
               'yields List with the same predicate and mask (invariant proof over spec_step runs, and over valid edit scripts), (b) lossy: composed '
               "with C09's merge state machine (m_run reused), for EVERY schedule of Send/Recv actions (any number of ids, any reader pace) the "
               'received filtered stream is an edit script of the filtered collection whose fold is the filter of the unfiltered lossy view at every '
               'moment, and after draining it is the filtered collection after the whole history; both restated on messages (fold with apply_change '
               '= c_list with the same options) through a token interpretation; a prompt lossy reader sees exactly the backpressured stream; the '
               'seed is the filtered list. Tied to the code by: Gen/IncludeTable.v, regenerated every run from the real include over 6 kinds x '
               'nil-ness x predicate answers x seed flags (768 rows; obligations: code = model on every row, every legal row obeys the fold law, '
               'table complete, input untouched); ~1500 cases per run: backpressured histories x predicates (model vs code on every event), the '
               'table rows as cases, public-API lossy+include scenarios with 1-2 stalled-then-draining subscribers and scripted delete/re-add of '
               'matching<->non-matching versions (every field of every event vs m_run+include, fold vs List), two backpressured subscribers, write '
               "during seed, and the booking server's booking_intersects predicate vs PeriodsIntersect's model and its arithmetic reference over the "
               'full grid of period shapes (List and Pull). Include together with an EQUIVALENCE on the collection (held map of Collection.Pull '
               'since /repo 3a50d70): for every history - items leaving and re-entering the filter, deletes, re-adds - any predicate, mask and '
               'reflexive comparer, the fold of the stream is equivalent to List with the same options id by id; an item is in the fold iff it is in '
               'the filtered List when the comparer tells a value from nothing; fold = List for a comparer deciding equality; the invariant holds '
               'along any chain of described events. Tied to the code by generator C08H (~260 scenarios per run: include x equivalence x mask x '
               'backpressure / lossy, scripted leave / re-enter equivalent / re-enter different / delete / re-add steps; with backpressure the fold '
               'is compared with List(include) after EVERY write up to the equivalence, every event field with the held-map model) and by an '
               "equivalence drawn for a third of C08's random histories. Judge soundness (theorems, all inputs): for generator C08's backpressured cases with ANY options (writable mask, id function, include, mask, equivalence) and ANY observation, agreement with the model implies C08_ok (so verdict 2 cannot occur there; carried across cc_matches/list_eqb/same_map/equiv_map and impl_step -> spec_step on the flat algebra); for C08H the END clause of C08H_ok follows from agreement (marks stay oracle); for C08x: ANY table row that agrees obeys the fold law, the booking predicate's model equals its arithmetic reference for all periods with valid timestamps (inverted included) hence BookList soundness and the listing clause of BookPull, and for the lossy public-API cases the clause 'nothing delivered mentions a rejected version' follows from agreement. Model-level: in both delivery modes, every schedule, every kind and predicate, every delivered change carries only versions the predicate accepts; a change between two rejected versions is never delivered.",
 'theorems': ['C08_decision_table',
              'C08_filtered_fold_is_filtered_list',
              'C08_seed_is_filtered_list',
              'C08_filtered_fold_any_described_chain',
              'C08_polarity_v0_refuted',
              'C08_absent_v0_refuted',
              'C08_include_every_kind',
              'C08_replace_decisions',
              'C08_include_step_law',
              'C08_backpressure_fold_is_filtered',
              'C08_lossy_fold_any_schedule',
              'C08_lossy_drained_fold_is_filtered_list',
              'C08_lossy_prompt_reader_is_backpressure',
              'C08_table_matches_model',
              'C08_table_obeys_law',
              'C08_table_complete',
              'C08_table_input_untouched',
              'C08_include_is_pull_include',
              'C08_backpressure_fold_is_list_M',
              'C08_lossy_fold_is_list_M',
              'C08_held_fold_equivalent_to_filtered_list',
              'C08_held_fold_same_presence',
              'C08_held_fold_is_list_for_equality',
              'C08_held_fold_any_described_chain',
              'C08_held_without_equivalence',
              'C08_judge_sound_cpull',
              'C08_judge_sound',
              'C08_judge_sound_held_partial',
              'C08_judge_sound_row',
              'C08_booking_predicate_is_reference',
              'C08_judge_sound_booklist',
              'C08_judge_sound_bookpull_partial',
              'C08_judge_sound_lossy_matching_partial',
              'C08_judge_sound_nonvacuous_lossy',
              'C08_judge_sound_nonvacuous',
              'C08_judge_sound_nonvacuous_equivalence',
              'C08_judge_sound_nonvacuous_row_and_booking',
              'C08_delivered_versions_all_match',
              'C08_include_returns_matching',
              'C08_stays_out_never_delivered',
              'C08_nonvacuous_delivered_match',
              'C08_nonvacuous',
              'C08_nonvacuous_lossy_replace',
              'C08_nonvacuous_rep',
              'C08_nonvacuous_leave_and_return_equal'],
 'trusted_base': ['modelled, not verified: pkg/masks on flat messages (Resource/Flat.v), proto.Equal/Clone/Merge on three scalar fields, '
                  'sync.RWMutex (sequential use), minibus with one backpressured listener',
                  'translator harness/cres/include.go: runs resource.VerifInclude (build tag verif) on kinds 0..5 x old/new nil-ness x predicate '
                  'answers on old/new/nil x seed flags; values are opaque marker messages compared by pointer',
                  'lossy scenario: the reader is stalled by not receiving; a plug write per phase occupies the Pull goroutine, a barrier write ends '
                  'the drain (no sleeps; 20 s give-up timer only)']}
