CFG = {
        "harness_pkg": "c10",
        "coq_modules": ["Bus.C10Judge"],
        "judge_module": "Bus.C10Judge",
        "allowed_axioms": [],
        "harness_timeout": 1500,
        "theorems": ["C10_no_send_on_closed", "C10_closed_only_after_cancel", "C10_cancel_closes",
                     "C10_delivered_when_live", "C10_exactly_once_in_order", "C10_others_unaffected",
                     "C10_pipe_terminates", "C10_pipe_progress", "C10_pipe_shape_invariant", "C10_pipe_close_needs_cancel",
                     "C10_pullid_ends_on_remove", "C10_pullid_v0_refuted"],
        "level_text": "Theorems (Props/C10.v, closed under the global context) over a transition-system model of internal/minibus/bus.go and of the forwarding goroutines of Value.Pull / Collection.Pull / PullID / DropExcess / mergeCollectionExcess, for ALL schedules (any number of listeners, senders, cancels, consumers that stop receiving): no send ever targets a closed channel; a channel closes only after its cancel; after a cancel a measure that no step increases and every step of the subscription's goroutines decreases is positive only while one of them is enabled, and is zero exactly when the channel is closed; after the close every schedule of the forwarding chain is bounded by a measure and ends with all goroutines gone; events reach every listener registered before and not cancelled until the end of a Send, and every listener's log is per-sender strictly ordered (so: in order, never twice) and holds only events of calls made; a sender only ever waits for a cancelled listener while that listener's stop holds the lock; PullID ends on REMOVE and ends its inner Pull (refuted for the code before fix 728882a). The model is tied to the code on every run by ~4000 scripted executions of the real code forced through the yield points of bus.go one action at a time (all observations compared with the set of model states reachable under every interleaving of the unparked goroutines) plus free-running stress with cancels injected at the yield points, judged by an oracle on the recorded run.",
        "level_note": "Proved about the hand-written model, not about Go: sync.RWMutex (writer-preferring), unbuffered channel rendezvous, select and context cancellation are taken at their textbook semantics; the Go scheduler is not modelled, so liveness is stated as variant + enabledness and becomes 'eventually' only under weak fairness; real-time bounds (close seen within 3 s, Value.Set's 5 s timeout) are measured by the harness, not proved; the link between the two models (the listener channel of Bus.v is the source of Pipe.v) is by construction of the models, not a theorem; filters/equivalence in the forwarders are not modelled (they only skip a send).",
        "trusted_base": [
            "model of Go primitives: RWMutex as 'held by the goroutines whose pc is in the critical section' with writer preference, channels as rendezvous, select as a choice among ready cases, context cancel as a monotone flag",
            "harness quiescence detection: a goroutine dump (runtime.Stack) in which every goroutine with frames of internal/minibus, pkg/resource or the harness is in a blocked state; the verif yield points only park goroutines",
        ],
        "assumptions": ["weak fairness of the Go scheduler for the 'eventually closed' reading of C10_cancel_closes",
                        "at most one writer blocked at a time in the scripted resource cases (no assumption on the wake-up order of several blocked senders)"],
    }
