CFG = {
        "harness_pkg": "c10",
        "coq_modules": ["Bus.C10Judge"],
        "judge_module": "Bus.C10Judge",
        "allowed_axioms": [],
        "theorems": ["C10_no_send_on_closed"],
        "level_text": "WIP",
        "level_note": "WIP",
        "trusted_base": [],
        "assumptions": [],
    }
