import os, hashlib

def _race_stage(c):
    """build harness/c17 with -race and run the free-running shapes (no step discipline) through
    pkg/group: a data race with a frame in pkg/group is a violation (Direct class "race").  The Go race
    detector treats close(ch) as a write and a send as a read of the channel, so a member goroutine whose
    WaitGroup.Done precedes its send races with the closer on EVERY schedule (Done -> Wait is the only
    happens-before edge between them)."""
    h = os.path.join(c["root"], "harness")
    out = os.path.join(c["build"], "c17-racebin")
    modflag = []
    if c["repo"] != "/repo":
        alt = os.path.join(c["build"], "alt-%s.mod" % hashlib.sha1(c["repo"].encode()).hexdigest()[:8])
        if os.path.exists(alt):
            modflag = ["-modfile=" + alt]
            out += "-alt"
    env = dict(c["env"], CGO_ENABLED="1")
    rc, log = c["sh"](["go", "build", "-race", "-tags", "verif", "-o", out] + modflag + ["./c17"], cwd=h, timeout=600, env=env)
    if rc != 0:
        c["meta"].setdefault("coverage_extra", {})["race_stage"] = "not run: -race build failed or timed out"
        return []
    env = dict(env, GORACE="halt_on_error=0 exitcode=0")
    rc, log = c["sh"]([out, "c17-freerun", "40"], timeout=300, env=env)
    reports = [r for r in log.split("==================") if "WARNING: DATA RACE" in r]
    ingroup = [r for r in reports if "sc-golang/pkg/group." in r]
    c["meta"].setdefault("coverage_extra", {})["race_stage"] = "ran (harness built with -race, 50 free-running shapes x 40 calls per caller through pkg/group): %d race report(s), %d with a pkg/group frame; exit %d" % (len(reports), len(ingroup), rc)
    if ingroup:
        lines = [l for l in ingroup[0].splitlines() if l.strip()][:24]
        return [{"what": "data race involving pkg/group while running free-running group calls (go build -race): " + " | ".join(l.strip() for l in lines)[:1500],
                 "class": "race", "replay": {"cmd": "c17 (built with -race) c17-freerun 40", "reports": len(ingroup)}}]
    return []

CFG = {
        "extra": _race_stage,
        "harness_pkg": "c17",
        "coq_modules": ["Group.C17Judge", "Group.ExecAwareProofs", "Group.ContractProofs", "Group.ExecProcProofs",
                        "Group.C17PJudge", "Group.ExecPcProofs", "Group.ExecPcClosed", "Group.ExecPcOneProofs", "Group.ExecShape",
                        "Group.TraitGroupJudge", "Group.TraitGroupProofs", "Group.TraitGroupPullProofs", "Group.TraitGroupPullReduce"],
        "generators": ["C17", "C17P", "C17T"],
        "judge_module": "Group.C17Judge",
        "allowed_axioms": [],
        "theorems": ["C17_model_meets_contract", "C17_upto_contract_aware", "C17_upto_contract",
                     "C17_all_fails_iff_some_member_fails", "C17_most_fails_iff_more_than_half_fail",
                     "C17_any_fails_iff_all_fail", "C17_one_contract", "C17_fast_contract",
                     "C17_fast_errs_iff_every_member_fails", "C17_race_contract",
                     "C17_execute_places_single_result", "C17_never_panics", "C17_goroutines_end", "C17_received_once", "C17_release_order_is_receive_order",
                     "C17_model_ok", "C17_judge_sound",
                     "C17_never_panics_v0_refuted", "C17_goroutines_end_v0_refuted",
                     "C17_call_returns", "C17_never_sends_on_closed_channel", "C17_empty_group_returns", "C17_never_stopping_caller_receives_all",
                     "C17_event_model_extends_model", "C17_first_error_observed", "C17_upto_error_is_first_observed",
                     "C17_fast_returns_first_success_else_first_error_observed", "C17_race_returns_first_observed",
                     "C17_received_sequence_closed_form", "C17_offered_sequence_closed_form", "C17_one_under_parent_cancel_meets_contract", "C17_event_model_meets_contract_ev", "C17_parent_cancel_judge_sound", "C17_return_and_cancel_step_closed_form",
                     "C17_call_returns_under_events", "C17_never_panics_under_events", "C17_scripted_sequence_law", "C17_scripted_judge_sound", "C17_execute_dispatch_from_source",
                     "C17_execute_each_shape_from_source",
                     "C17_trait_unary_error_mapping", "C17_trait_unary_meets_contract", "C17_onoff_reduce_closed_form",
                     "C17_light_reduce_is_mean_without_holes", "C17_light_reduce_closed_form",
                     "C17_light_reduce_with_holes_is_not_mean_witness", "C17_onoff_unary_contract", "C17_light_unary_contract",
                     "C17_onoff_all_reduces_every_member", "C17_light_all_is_mean", "C17_trait_single_strategy_uses_own_index",
                     "C17_trait_unary_model_ok", "C17_trait_unary_judge_sound",
                     "C17_pull_sent_are_reductions", "C17_pull_onoff_sent_are_reductions", "C17_pull_light_sent_are_reductions",
                     "C17_pull_stream_up_to_date", "C17_pull_onoff_reduce_closed_form", "C17_pull_light_reduce_closed_form",
                     "C17_pull_returns_with_execute", "C17_pull_returns_once_members_returned", "C17_pull_failed_send_waits",
                     "C17_pull_all_first_error_cancels_everyone"],
        "level_text": "Theorems (Props/C17.v, closed under the global context) about a step-by-step Gallina model of pkg/group/exec.go (the loop bodies of ExecuteUpTo/Fast/Race, ExecuteOne, Execute's dispatch and result placement, members released in a completion order, context cancellation reaching cancellation-aware members) state, for EVERY member count, outcome vector, mix of context-ignoring and cancellation-aware members, and completion order (permutation), that the model equals a closed-form contract (C17_model_meets_contract), from which: All/Most/Any fail exactly when some / more than half / all members fail by themselves, the error is the first failing member's in completion order (never a context error), results sit at the member's own index (nil for aware members cancelled before they finished), the call waits for all members, the context is cancelled at the first step at which the outcome is decided and every aware member still running sees it at that step; One tries members in index order; Fast returns the first success (errs iff all fail), Race the first response, both cancel the rest at that step; Execute never panics (any input whatever). In a process model of executeEach (member goroutines, channel of capacity cap, closer, caller with an early-return rule, arbitrary scheduler) every goroutine inevitably ends once the members have returned when cap >= n or the caller never leaves early, each response is received at most once, and under the harness's step discipline (one member returns at a time, only when quiescent) the order of receipt equals the order of release. The model is tied to the code on every run by executing the real functions with channel-gated members for all member counts 0-4 x all outcome assignments x all orders x strategies 0-7 (plus cancellation-aware members, direct entry points, n=5 with all orders, random groups up to 8) and comparing each observation (result, invoked members, cancel step, return step, per-member ctx.Done step, goroutine dump) in Coq with the model and with the closed-form contract, which does not use the model. Second wave: (1) the PARENT context cancelled from outside (before the call or at any step) is an event of the model Group/ExecPc.v, which carries along the sequence of responses that reached the receiving loop; for ANY members and ANY event list the call, once returned, returned its loop's law on a well-formed received sequence (C17_first_error_observed: ExecuteUpTo fails iff more than the budget received responses carry an error and returns the FIRST error of that sequence - a member's own or, after a parent cancellation, an aware member's context error; Fast the first success else the first error response; Race the first response), returns once every member was released (C17_call_returns_under_events), never panics (C17_never_panics_under_events), and without a parent cancellation is the old model (C17_event_model_extends_model); generator C17P drives the real functions through all cancellation points for n <= 4 (sub-gated so that simultaneously cancelled members return in index order) and compares with the event model and with a closed-form contract (received sequence = released up to q ++ flushed in index order ++ context-ignoring later ones) which is proved EQUAL to the event model for every API, member count, release order and cancellation point under the generator's guard (C17_event_model_meets_contract_ev: all fields - returned value = the loop's law on that sequence, cancel step = min(q, return step), return step = time of the first response ending the loop else the latest member return, who saw ctx.Done; C17_parent_cancel_judge_sound), plus scripted response sequences with arbitrary messages/errors (same error value from several members, errors.Is-equal distinct errors, nil-message successes) compared with the fold of recv and the closed-form law (proved equal, C17_scripted_sequence_law). (2) In the process model the caller's loop ends too on every schedule for every member count (C17_call_returns), the empty group returns and only the closer can move (C17_empty_group_returns), and a caller that never leaves early has received every member exactly once when its loop ends (C17_never_stopping_caller_receives_all). (3) Gen/GroupExec.v is regenerated from pkg/group/exec.go on every run (go/ast): Execute's switch as a table is proved to be the model's dispatch for every integer and executeEach's shape (channel capacity len(members), all.Add(len(members)), member goroutines that send before Done, one closer) is the one the process model was written from (C17_execute_dispatch_from_source, C17_execute_each_shape_from_source). (4) Trait groups: The two callers of group.Execute (pkg/trait/onoffpb/group.go, pkg/trait/lightpb/group.go) are covered by a second generator (C17T) and Group/TraitGroup*.v: for unary calls the error mapping, the reducers in closed form (onoff: ON if any populated slot is ON, else the first value that is not UNSPECIFIED; light: arithmetic mean over Q when every slot is populated, explicit index-weighted sum otherwise) and, through the contract, which members' values are reduced at which index; for Pull, over every event list: each message sent is the reduction of each member's latest change at its own index and differs from the previous one, the stream is up to date after every processed message, Pull returns exactly when and at the step Execute returns (with Execute's error, or the failed Send's), and with strategy All the first stream end cancels every aware member at that step.",
        "level_note": "Goroutine termination and the release-order/receive-order link are proved for the process model (textbook channel semantics, arbitrary scheduler) and observed through goroutine dumps; the Go scheduler/runtime is not modelled, and the process model and the decision model are two models (related by C17_received_once and C17_release_order_is_receive_order, not by a full refinement proof). Trusted: Coq kernel + vm_compute, the hand model (tied to the code by the correspondence), the harness (quiescence detection from runtime.Stack states, canonicalisation of messages/errors to integers). Members that never return are outside the property. The closed-form contract for parent cancellation (contract_ev, incl. ExecuteOne's one_spec) is PROVED equal to the event model under the C17P guard for every API and every member count (C17_event_model_meets_contract_ev), so the received sequence of C17_first_error_observed is explicit under that guard (C17_received_sequence_closed_form); without the guard (a member released twice or never, several parent cancellations) only the existential statement holds. The order in which simultaneously cancelled members return is fixed to index order in both model and harness (other orders are schedules the check does not drive; the trace theorems hold for whatever sequence is received). Trait groups: levels are exact rationals in the model; observations of levels are only compared when every float32 intermediate of the reducer is exactly representable (conservative test in the guard), so rounding is not modelled; the lightpb reducer weights by member index, so with an unpopulated slot the result is not the mean of the values present (C17_light_reduce_with_holes_is_not_mean_witness: an observation, not a finding); that the goroutine running Execute inside Pull ends is modelled and observed (goroutine dump), not proved; the Pull judge's closed-form predicate is not proved equivalent to the model (only the unary judge is: C17_trait_unary_judge_sound); Pull with strategy One is not modelled.",
        "trusted_base": [
            "modelled, not verified: Go channel/WaitGroup/context semantics (rendezvous or buffered FIFO channel, close after all senders, cancellation observed by every waiting member at once); the harness's step discipline (one member released per step, quiescence judged from a stop-the-world runtime.Stack dump) makes the order of receipt equal the chosen completion order",
        ],
        "assumptions": ["members return when released (or, if cancellation-aware, when their context is cancelled)",
                        "completion order = order in which responses reach the receiving loop",
                        "trait groups: proto.Clone/Merge/Equal on the messages involved behave as copy / field-wise copy / structural equality; float32 arithmetic is exact on the guarded inputs"],
    }
