CFG = {
        "harness_pkg": "c17",
        "coq_modules": ["Group.C17Judge"],
        "judge_module": "Group.C17Judge",
        "allowed_axioms": [],
        "theorems": ["C17_never_panics_v0_refuted"],
        "level_text": "wip",
        "level_note": "wip",
        "trusted_base": [],
        "assumptions": [],
    }
