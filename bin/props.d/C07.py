CFG = {
    "harness_pkg": "c07",
    "coq_modules": ["Alias.C07Judge", "Alias.C07JudgeProofs"],
    "judge_module": "Alias.C07Judge",
    "allowed_axioms": [],
    "theorems": [],
    "level_text": "",
    "level_note": "",
    "trusted_base": [],
    "assumptions": [],
}
