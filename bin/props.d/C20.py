CFG = {
    "harness_pkg": "c20",
    "coq_modules": ["Traits.C20Judge"],
    "judge_module": "Traits.C20Judge",
    "allowed_axioms": [],
    "theorems": ["C20_parent_sequences"],
    "level_text": "TODO",
    "level_note": "TODO",
    "trusted_base": [],
    "assumptions": [],
}
