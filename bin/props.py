"""Per-property configuration for bin/check."""

TRUSTED_BASE = [
    "Coq 8.16.1 kernel and coqc; vm_compute (bytecode VM) used inside proofs of finite obligations and to evaluate cases; no native_compute",
    "hand-written Gallina models under coq/theories/*, tied to /repo's working tree only through the correspondence run of this check (Go harness /verif/harness, built with -tags verif against /repo)",
    "Go harness: generators, canonicalisers (messages -> trees, errors -> codes), Coq literal printer (harness/vcoq)",
    "no axioms declared by the development; no Admitted; guard/positivity/universe checks on",
]

HOOK_COMMITS = []

import glob, importlib.util, os

PROPS = {}
for _f in sorted(glob.glob(os.path.join(os.path.dirname(os.path.abspath(__file__)), "props.d", "C*.py"))):
    _spec = importlib.util.spec_from_file_location("props_" + os.path.basename(_f)[:-3], _f)
    _m = importlib.util.module_from_spec(_spec)
    _spec.loader.exec_module(_m)
    PROPS[os.path.basename(_f)[:-3]] = _m.CFG
