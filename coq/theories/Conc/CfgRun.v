(* Run-level version of the remembered-read variant (Conc/CfgLts.v trans_rem; NOT the code).

   `step` of Conc/Lts.v has `trans` built in.  `step_tr tr` below is the same definition with the atomic
   step function as a parameter (`step_tr_trans`: with `trans` it IS `step`, by conversion), so that the
   variant can be RUN: `run_rem eqv` executes a schedule with the get closure that remembers its first read.

     run_rem_exact / run_rem_none   with an exact equivalence (WithNoDuplicates) or none, the variant's run of
                                    every program under every schedule is the code's run, state for state;
     run_rem_tolerance_refuted      with a tolerance it is not: a forced schedule on which WithExpectedValue(5)
                                    succeeds while 7 is stored, the history is NOT linearizable (C02_ok = false),
                                    and the code's run of the same schedule reports Aborted. *)
From SC Require Import Base.Prelude Resource.Impl Resource.Spec Resource.Pull Resource.Flat Resource.Judge
  Conc.Lts Conc.LtsProofs Conc.CfgLts Conc.CfgProofs Conc.Judge.

Set Implicit Arguments.

Section CfgRun.
  Variable M : Type.
  Variable m_eqb : M -> M -> bool.
  Variable m_empty : M.
  Variable writer : Type.
  Variable w_validate : writer -> option Z.
  Variable w_merge : writer -> M -> M -> M.
  Variable rmask : Type.
  Variable clock_at : Z -> Z.
  Variable str_ltb : string -> string -> bool.
  Variable idfun : option (string -> string).
  Variable v0 v1 : bool.
  Variable prog : list (call M writer rmask).

  Notation state := (state M rmask).
  Notation predicted := (predicted m_eqb m_empty w_merge (rmask := rmask)).

  Variable tr : call M writer rmask -> pc M -> world M -> option (pc M * world M * effect M rmask).

  Definition step_tr (t : nat) (s : state) : state :=
    match nth_error prog t, nth_error (st_pcs s) t with
    | Some c, Some p =>
        match tr c p (st_w s) with
        | Some (p', w', eff) =>
          if gate_open v1 t s p eff then
            let wit' := match predicted c p, predicted c p' with
                        | None, Some r => st_wit s ++ [(t, r, st_k s)]
                        | _, _ => st_wit s
                        end in
            let del_commit := is_some (del_ev p eff) in
            let pendv' := if is_some (saved_v p') then st_pendv s ++ [t] else drop_tid t (st_pendv s) in
            let pendc' := if is_some (saved_c p') then st_pendc s ++ [t] else drop_tid t (st_pendc s) in
            let overlap' :=
              st_overlap s ||
              (if is_some (saved_v p') then negb (is_nil (st_pendv s))
               else if is_some (saved_c p') then negb (is_nil (st_pendc s))
               else del_commit && negb (is_nil (st_pendc s))) in
            let reordered' :=
              st_reordered s ||
              (if is_pv p then negb (head_is t (st_pendv s))
               else if is_pc p then negb (head_is t (st_pendc s))
               else del_commit && negb (is_nil (st_pendc s))) in
            let vsubs' := match eff with
                          | EPubV e => map (fun u => mkVS (vs_tid u) (vs_ro u) (vs_at u) (vs_evs u ++ [e]) (vs_left u)) (st_vsubs s)
                          | ESubV ro => st_vsubs s ++ [mkVS t ro (w_v (st_w s)) [] (st_leftv s)]
                          | _ => st_vsubs s
                          end in
            let csubs' := match eff with
                          | EPubC e => map (fun u => if existsb (Nat.eqb t) (cs_skip u) then u
                                                     else mkCS (cs_tid u) (cs_ro u) (cs_at u) (cs_evs u ++ [e]) (cs_skip u)
                                                               (cs_left u) (cs_cnt u))
                                           (st_csubs s)
                          | ESubC ro => st_csubs s ++ [mkCS t ro (w_c (st_w s)) [] (if v0 || ro_updates_only ro then [] else st_pendc s)
                                                            (st_leftc s) (st_cntc s)]
                          | _ => st_csubs s
                          end in
            let cntv' := if is_some (saved_v p') then S (st_cntv s) else st_cntv s in
            let leftv' := if is_pv p then st_tkt s t else st_leftv s in
            let cntc' := if is_some (saved_c p') || del_commit then S (st_cntc s) else st_cntc s in
            let leftc' := if is_pc p then st_tkt s t else if del_commit then S (st_cntc s) else st_leftc s in
            let tkt' := if is_some (saved_v p') then (fun x => if Nat.eqb x t then S (st_cntv s) else st_tkt s x)
                        else if is_some (saved_c p') then (fun x => if Nat.eqb x t then S (st_cntc s) else st_tkt s x)
                        else st_tkt s in
            let logv' := st_logv s ++ olist (saved_v p') in
            let logc' := st_logc s ++ olist (saved_c p') ++ olist (del_ev p eff) in
            mkSt w' (set_nth t p' (st_pcs s)) vsubs' csubs' wit' (S (st_k s)) (st_stutter s)
                 pendv' pendc' overlap' reordered' cntv' leftv' cntc' leftc' tkt' logv' logc'
          else stutter s
        | None => stutter s
        end
    | _, _ => stutter s
    end.

  Definition run_tr (sched : list nat) (s : state) : state := fold_left (fun s t => step_tr t s) sched s.
End CfgRun.

Section CfgRunProofs.
  Variable M : Type.
  Variable m_eqb : M -> M -> bool.
  Variable m_empty : M.
  Variable writer : Type.
  Variable w_validate : writer -> option Z.
  Variable w_merge : writer -> M -> M -> M.
  Variable rmask : Type.
  Variable clock_at : Z -> Z.
  Variable str_ltb : string -> string -> bool.
  Variable idfun : option (string -> string).
  Variable v0 v1 : bool.
  Variable prog : list (call M writer rmask).

  Notation trans := (trans m_eqb m_empty w_validate w_merge clock_at str_ltb idfun v0 (rmask := rmask)).
  Notation step := (step m_eqb m_empty w_validate w_merge clock_at str_ltb idfun v0 v1 prog).
  Notation run := (run m_eqb m_empty w_validate w_merge clock_at str_ltb idfun v0 v1 prog).
  Notation step_tr := (step_tr m_eqb m_empty w_merge v0 v1 prog).
  Notation run_tr := (run_tr m_eqb m_empty w_merge v0 v1 prog).

  (* the parametrised step with the code's atomic step function is the step of Conc/Lts.v *)
  Lemma step_tr_trans t s : step_tr trans t s = step t s.
  Proof. reflexivity. Qed.

  Lemma step_tr_ext tr1 tr2 : (forall c p w, tr1 c p w = tr2 c p w) -> forall t s, step_tr tr1 t s = step_tr tr2 t s.
  Proof.
    intros H t s. unfold CfgRun.step_tr.
    destruct (nth_error prog t) as [c|]; [|reflexivity].
    destruct (nth_error (st_pcs s) t) as [p|]; [|reflexivity]. rewrite H. reflexivity.
  Qed.

  Lemma run_tr_ext tr1 tr2 : (forall c p w, tr1 c p w = tr2 c p w) -> forall sched s, run_tr tr1 sched s = run_tr tr2 sched s.
  Proof.
    intros H. induction sched as [|t r IH]; intros s; [reflexivity|].
    unfold CfgRun.run_tr in *. simpl. rewrite (step_tr_ext tr1 tr2 H). apply IH.
  Qed.

  Lemma run_tr_trans sched s : run_tr trans sched s = run sched s.
  Proof. reflexivity. Qed.

  (* the run of the variant under the equivalence eqv *)
  Definition run_rem (eqv : option (option M -> option M -> bool)) (sched : list nat) (s : state M rmask) : state M rmask :=
    run_tr (trans_rem m_eqb m_empty w_validate w_merge clock_at str_ltb v0 eqv idfun) sched s.

  Theorem run_rem_none sched s : run_rem None sched s = run sched s.
  Proof.
    unfold run_rem. rewrite <- run_tr_trans. apply run_tr_ext. intros c p w. apply trans_rem_none.
  Qed.

  Theorem run_rem_exact cmp sched s : (forall a b, cmp a b = true -> a = b) -> run_rem (Some cmp) sched s = run sched s.
  Proof.
    intros H. unfold run_rem. rewrite <- run_tr_trans. apply run_tr_ext. intros c p w. apply trans_rem_exact. exact H.
  Qed.
End CfgRunProofs.

(* ---------- refuted for a tolerance, as a RUN ----------
   stored 5, tolerance 3 on field a.  T0: Set 6 expecting 5.  T1: Set 7.  Schedule: T0 reads 5, T1 reads, T1 saves 7,
   T0 re-validates -- the remembering closure answers the re-read with the remembered 5 (|5 - 7| <= 3) -- and saves 6. *)
Definition rem_prog : list fcall :=
  [FSet (mkF 6 0 0) (mkFWO None None None None false (Some (mkF 5 0 0)) false None false None None false false false false);
   FSet (mkF 7 0 0) (mkFWO None None None None false None false None false None None false false false false)].
Definition rem_sched : list nat := [0; 1; 1; 1; 0; 0]%nat.

Definition f_run_rem (eqv : option ceqv) (prog : list fcall) (sched : list nat) (vinit : option fmsg) :=
  run_rem fmsg_eqb fzero fw_validate fw_merge fclock str_ltb None false false (map to_call prog)
          (option_map interp_ceqv eqv) sched (init (map to_call prog) (init_v vinit) (init_c [])).

Example run_rem_tolerance_refuted :
  let s := f_run_rem (Some (CqTol Fa 3)) rem_prog rem_sched (Some (mkF 5 0 0)) in
  let s' := f_run false None rem_prog rem_sched (Some (mkF 5 0 0)) [] in
  (* the variant: both writes succeed, 6 is stored at the end; no stutter, all done *)
  map (@result_of fmsg) (st_pcs s) = [Some (OVal (inl (mkF 6 0 0))); Some (OVal (inl (mkF 7 0 0)))] /\
  v_val (w_v (st_w s)) = Some (mkF 6 0 0) /\ st_stutter s = O /\
  (* that history is not linearizable *)
  C02_ok (CaseSched None (Some (mkF 5 0 0)) [] rem_prog rem_sched
                    [mkFO (Some (mkF 6 0 0)) 0; mkFO (Some (mkF 7 0 0)) 0] (Some (mkF 6 0 0)) [] [] [] []) = false /\
  (* the code on the same schedule: the first write is Aborted *)
  map (@result_of fmsg) (st_pcs s') = [Some (OLost 10); Some (OVal (inl (mkF 7 0 0)))] /\
  v_val (w_v (st_w s')) = Some (mkF 7 0 0).
Proof. vm_compute. repeat split; reflexivity. Qed.
