(* C02: every schedule of every program of concurrent calls is linearizable, with a constructive
   witness: the ghost list st_wit built alongside the run.  For the repaired code (v0 = false),
   an arbitrary message algebra whose proto.Equal decides equality, arbitrary callbacks, clock
   and id order. *)
From SC Require Import Base.Prelude Resource.Impl Resource.Spec Resource.Pull Resource.ImplProofs Resource.SpecProofs Conc.Lts.
From Coq Require Import Sorted.

Set Implicit Arguments.

Lemma nth_error_set_nth_same {A} (l : list A) : forall t x, (t < List.length l)%nat -> nth_error (set_nth t x l) t = Some x.
Proof.
  induction l as [|y r IH]; intros t x H; simpl in *; [lia|].
  destruct t; simpl; [reflexivity|]. apply IH. lia.
Qed.

Lemma nth_error_set_nth_other {A} (l : list A) : forall t t' x, t <> t' -> nth_error (set_nth t x l) t' = nth_error l t'.
Proof.
  induction l as [|y r IH]; intros t t' x H; [destruct t; reflexivity|].
  destruct t, t'; simpl; try reflexivity; try congruence. apply IH. congruence.
Qed.

Lemma length_set_nth {A} (l : list A) : forall t x, List.length (set_nth t x l) = List.length l.
Proof. induction l as [|y r IH]; intros t x; [destruct t; reflexivity|]. destruct t; simpl; [reflexivity|]. rewrite IH. reflexivity. Qed.

Section Proofs.
  Variable M : Type.
  Variable m_eqb : M -> M -> bool.
  Variable m_empty : M.
  Variable writer : Type.
  Variable w_validate : writer -> option Z.
  Variable w_merge : writer -> M -> M -> M.
  Variable rmask : Type.
  Variable clock_at : Z -> Z.
  Variable str_ltb : string -> string -> bool.
  Variable idfun : option (string -> string).

  (* proto.Equal on canonical messages decides equality (NaN payloads identified): part of the
     trusted base, so that "the re-validation passed" means the change was computed from the
     value that is stored now *)
  Hypothesis m_eqb_eq : forall a b, m_eqb a b = true -> a = b.
  Hypothesis ltb_irrefl : forall a, str_ltb a a = false.
  Hypothesis ltb_trans : forall a b c, str_ltb a b = true -> str_ltb b c = true -> str_ltb a c = true.
  Hypothesis ltb_total : forall a b, str_ltb a b = false -> str_ltb b a = false -> a = b.

  Notation wopts := (wopts M writer).
  Notation vstate := (vstate M).
  Notation cstate := (cstate M).
  Notation item := (item M).
  Notation call := (call M writer rmask).
  Notation pc := (pc M).
  Notation outcome := (outcome M).
  Notation world := (world M).
  Notation state := (state M rmask).
  Notation apply_id := (apply_id idfun).
  Notation change_fn := (change_fn m_eqb m_empty w_merge).
  Notation trans := (trans m_eqb m_empty w_validate w_merge clock_at str_ltb idfun false (rmask := rmask)).
  Notation predicted := (predicted m_eqb m_empty w_merge (rmask := rmask)).
  Notation spec_call := (spec_call m_eqb m_empty w_validate w_merge clock_at str_ltb idfun (rmask := rmask)).
  Notation c_get_fn := (c_get_fn m_empty false).
  Notation del_check := (del_check m_eqb).
  Notation sorted := (sorted str_ltb).

  Local Arguments Nat.leb : simpl never.

  Lemma om_eqb_eq (a b : option M) : om_eqb m_eqb a b = true -> a = b.
  Proof.
    destruct a, b; simpl; intros H; try discriminate; [|reflexivity].
    f_equal. apply m_eqb_eq. exact H.
  Qed.

  (* ---------- what may be assumed about a thread parked at p ---------- *)
  Definition stamps_ok (w : world) : Prop := forall id, w_stamp w id <= w_saves w.

  (* the item a Delete saw is still the stored one whenever the stored stamp is the one it saw *)
  Definition seen_ok (id : string) (seen : option (item * Z)) (w : world) : Prop :=
    match seen with
    | Some (it, st) => st <= w_saves w /\ forall it', lookup_st id w = Some (it', st) -> it' = it
    | None => True
    end.

  (* no generated ids.  NOT a hypothesis of the C02 theorems any more: a call with WithGenIDIfAbsent
     and an empty id is, in Lts.v, a call whose rng offers no candidate (Aborted at the first read,
     as the reference replayed with cands = [] says); candidates are the subject of GenLts.v.  Kept
     because the C03 lemmas of SubProofs.v are stated with it. *)
  Definition call_ok (c : call) : Prop :=
    match c with
    | CUpdate id0 _ o => String.eqb (apply_id id0) "" && wo_gen_id o = false
    | _ => True
    end.

  Definition pc_wf (c : call) (p : pc) (w : world) : Prop :=
    match c, p with
    | _, PStart => True
    | _, PDone _ => True
    | CSet _ o, PRead _ _ => w_validate (wo_writer o) = None
    | CSet _ _, PSavedV _ _ => True
    | CUpdate id0 _ o, PRead old cr =>
        w_validate (wo_writer o) = None /\ (cr = true -> wo_create o = true /\ old = Some m_empty) /\
        String.eqb (apply_id id0) "" && wo_gen_id o = false
    | CUpdate _ _ _, PSavedC _ _ => True
    | CDelete id0 _, PDel seen _ => seen_ok (apply_id id0) seen w
    | CSubID _ _, POpen => True
    | _, _ => False
    end.

  (* ---------- how a step changes the memory ---------- *)
  Inductive world_step (w w' : world) : Prop :=
  | ws_same : w' = w -> world_step w w'
  | ws_value : w_c w' = w_c w -> w_stamp w' = w_stamp w -> w_saves w' = w_saves w -> world_step w w'
  | ws_save id it :
      w_v w' = w_v w -> c_items (w_c w') = insert str_ltb id it (c_items (w_c w)) ->
      w_stamp w' = (fun k => if String.eqb k id then w_saves w + 1 else w_stamp w k) ->
      w_saves w' = w_saves w + 1 -> world_step w w'
  | ws_delete id :
      w_v w' = w_v w -> c_items (w_c w') = remove id (c_items (w_c w)) ->
      w_stamp w' = w_stamp w -> w_saves w' = w_saves w -> world_step w w'.

  Lemma trans_world c p w p' w' eff : trans c p w = Some (p', w', eff) -> world_step w w'.
  Proof.
    unfold Lts.trans. intros H.
    destruct c as [msg o|id0 msg o|id0 o|ro|ro|id1 ro]; destruct p as [|old cr|nv e|nv e|seen n|r|]; try discriminate.
    - destruct (w_validate (wo_writer o)); inversion H; subst; apply ws_same; reflexivity.
    - destruct (change_fn o msg old); [|inversion H; subst; apply ws_same; reflexivity].
      destruct (om_eqb m_eqb old (v_val (w_v w))); [|inversion H; subst; apply ws_same; reflexivity].
      destruct (update_time clock_at o (v_reads (w_v w))) as [t reads]. inversion H; subst.
      apply ws_value; reflexivity.
    - inversion H; subst; apply ws_same; reflexivity.
    - destruct (w_validate (wo_writer o)); [inversion H; subst; apply ws_same; reflexivity|].
      destruct (String.eqb (apply_id id0) "" && wo_gen_id o); [inversion H; subst; apply ws_same; reflexivity|].
      destruct (c_get_fn o (apply_id id0) false (c_items (w_c w))) as [[b|code] cr]; inversion H; subst; apply ws_same; reflexivity.
    - destruct (change_fn o msg old); [|inversion H; subst; apply ws_same; reflexivity].
      destruct (c_get_fn o (apply_id id0) cr (c_items (w_c w))) as [[b|code] cr']; [|inversion H; subst; apply ws_same; reflexivity].
      destruct (om_eqb m_eqb old (Some b)); [|inversion H; subst; apply ws_same; reflexivity].
      destruct (update_time clock_at o (c_reads (w_c w))) as [t reads]. inversion H; subst.
      eapply ws_save; reflexivity.
    - inversion H; subst; apply ws_same; reflexivity.
    - inversion H; subst; apply ws_same; reflexivity.
    - destruct (Nat.leb 5 n); [inversion H; subst; apply ws_same; reflexivity|].
      destruct (del_check o seen); [inversion H; subst; apply ws_same; reflexivity|].
      destruct (same_ptr seen (lookup_st (apply_id id0) w)); [|inversion H; subst; apply ws_same; reflexivity].
      destruct seen as [[it st]|]; [|discriminate].
      destruct (update_time clock_at o (c_reads (w_c w))) as [t reads]. inversion H; subst.
      eapply ws_delete; reflexivity.
    - inversion H; subst; apply ws_same; reflexivity.
    - inversion H; subst; apply ws_same; reflexivity.
    - inversion H; subst; apply ws_same; reflexivity.
    - inversion H; subst; apply ws_same; reflexivity.
  Qed.

  Lemma world_step_stamps w w' : world_step w w' -> stamps_ok w -> stamps_ok w'.
  Proof.
    intros [->|Hc Hs Hn|id it Hv Hi Hs Hn|id Hv Hi Hs Hn] H; unfold stamps_ok in *; intros k; auto.
    - rewrite Hs, Hn. apply H.
    - rewrite Hs, Hn. destruct (String.eqb k id); [lia|]. specialize (H k). lia.
    - rewrite Hs, Hn. apply H.
  Qed.

  Lemma world_step_sorted w w' : world_step w w' -> sorted (c_items (w_c w)) -> sorted (c_items (w_c w')).
  Proof.
    intros [->|Hc Hs Hn|id it Hv Hi Hs Hn|id Hv Hi Hs Hn] H; auto.
    - rewrite Hc. exact H.
    - rewrite Hi. apply insert_sorted; auto.
    - rewrite Hi. apply remove_sorted; auto.
  Qed.

  Lemma world_step_seen w w' id seen :
    world_step w w' -> stamps_ok w -> sorted (c_items (w_c w)) -> seen_ok id seen w -> seen_ok id seen w'.
  Proof.
    intros W Hst Hso H. destruct seen as [[it st]|]; [|exact I]. destruct H as [Hle Hsame].
    destruct W as [->|Hc Hs Hn|id' it' Hv Hi Hs Hn|id' Hv Hi Hs Hn].
    - split; assumption.
    - split; [lia|]. intros it2. unfold lookup_st. rewrite Hc, Hs. apply Hsame.
    - split; [lia|]. intros it2. unfold lookup_st. rewrite Hi, Hs.
      destruct (String.eqb_spec id id') as [->|Hne].
      + rewrite (lookup_insert_same str_ltb). intros E. inversion E. lia.
      + rewrite (lookup_insert_other str_ltb) by congruence. apply Hsame.
    - split; [lia|]. intros it2. unfold lookup_st. rewrite Hi, Hs.
      destruct (String.eqb_spec id id') as [->|Hne].
      + rewrite (lookup_remove_same str_ltb ltb_irrefl ltb_trans) by exact Hso. discriminate.
      + rewrite lookup_remove_other by congruence. apply Hsame.
  Qed.

  (* a thread's assumptions survive the steps of the others *)
  Lemma pc_wf_world c p w w' :
    world_step w w' -> stamps_ok w -> sorted (c_items (w_c w)) -> pc_wf c p w -> pc_wf c p w'.
  Proof.
    intros W Hst Hso H.
    destruct c as [msg o|id0 msg o|id0 o|ro|ro|id1 ro]; destruct p as [|old cr|nv e|nv e|seen n|r|]; simpl in *; auto.
    eapply world_step_seen; eauto.
  Qed.

  Lemma seen_ok_fresh id w : stamps_ok w -> seen_ok id (lookup_st id w) w.
  Proof.
    intros Hst. unfold seen_ok, lookup_st.
    destruct (lookup id (c_items (w_c w))) as [it|]; [|exact I].
    split; [apply Hst|]. intros it' E. inversion E. reflexivity.
  Qed.

  (* ... and its own step re-establishes them *)
  Lemma trans_wf c p w p' w' eff :
    trans c p w = Some (p', w', eff) -> stamps_ok w -> sorted (c_items (w_c w)) -> pc_wf c p w -> pc_wf c p' w'.
  Proof.
    intros H Hst Hso Hwf. pose proof (trans_world _ _ _ H) as W.
    unfold Lts.trans in H.
    destruct c as [msg o|id0 msg o|id0 o|ro|ro|id1 ro]; destruct p as [|old cr|nv e|nv e|seen n|r|]; try discriminate; simpl in Hwf.
    - destruct (w_validate (wo_writer o)) eqn:V; inversion H; subst; simpl; auto.
    - destruct (change_fn o msg old); [|inversion H; subst; exact I].
      destruct (om_eqb m_eqb old (v_val (w_v w))); [|inversion H; subst; exact I].
      destruct (update_time clock_at o (v_reads (w_v w))) as [t reads]. inversion H; subst. exact I.
    - inversion H; subst; exact I.
    - destruct (w_validate (wo_writer o)) eqn:V; [inversion H; subst; exact I|].
      destruct (String.eqb (apply_id id0) "" && wo_gen_id o) eqn:G; [inversion H; subst; exact I|].
      unfold Lts.c_get_fn in H.
      destruct (lookup (apply_id id0) (c_items (w_c w))) as [it|].
      + destruct (wo_expect_absent o); inversion H; subst; simpl; auto. split; [exact V|]. split; [discriminate|exact G].
      + destruct (wo_create o) eqn:Cr; inversion H; subst; simpl; auto.
    - destruct (change_fn o msg old); [|inversion H; subst; exact I].
      destruct (c_get_fn o (apply_id id0) cr (c_items (w_c w))) as [[b|code] cr']; [|inversion H; subst; exact I].
      destruct (om_eqb m_eqb old (Some b)); [|inversion H; subst; exact I].
      destruct (update_time clock_at o (c_reads (w_c w))) as [t reads]. inversion H; subst. exact I.
    - inversion H; subst; exact I.
    - inversion H; subst. simpl. apply seen_ok_fresh. exact Hst.
    - destruct (Nat.leb 5 n); [inversion H; subst; exact I|].
      destruct (del_check o seen); [inversion H; subst; exact I|].
      destruct (same_ptr seen (lookup_st (apply_id id0) w)).
      + destruct seen as [[it st]|]; [|discriminate].
        destruct (update_time clock_at o (c_reads (w_c w))) as [t reads]. inversion H; subst. exact I.
      + inversion H; subst. simpl. apply seen_ok_fresh. exact Hst.
    - inversion H; subst; exact I.
    - inversion H; subst; exact I.
    - inversion H; subst; exact I.
    - inversion H; subst; exact I.
  Qed.

  (* ---------- the checks of Delete against the reference ---------- *)
  Lemma del_check_form (o : wopts) seen r : del_check o seen = Some r -> exists m e, r = ODel m e.
  Proof.
    unfold Lts.del_check. destruct seen as [[it st]|].
    - destruct (match wo_check o with Some chk => chk (Some (it_body it)) | None => None end).
      + intros E; inversion E; eauto.
      + destruct (match wo_expected o with Some e => m_eqb (it_body it) e | None => true end); intros E; inversion E; eauto.
    - intros E; inversion E; eauto.
  Qed.

  Lemma del_check_spec (w : world) id0 (o : wopts) m e :
    del_check o (lookup_st (apply_id id0) w) = Some (ODel m e) ->
    spec_c_delete m_eqb clock_at idfun (w_c w) id0 o = (w_c w, m, e, []).
  Proof.
    unfold Lts.del_check, lookup_st, spec_c_delete.
    destruct (lookup (apply_id id0) (c_items (w_c w))) as [it|].
    - destruct (wo_check o) as [chk|].
      + destruct (chk (Some (it_body it))); [intros E; inversion E; reflexivity|].
        destruct (match wo_expected o with Some e0 => m_eqb (it_body it) e0 | None => true end); intros E; inversion E; reflexivity.
      + destruct (match wo_expected o with Some e0 => m_eqb (it_body it) e0 | None => true end); intros E; inversion E; reflexivity.
    - intros E; inversion E; reflexivity.
  Qed.

  Lemma del_check_pass (c : cstate) id0 (o : wopts) it st :
    del_check o (Some (it, st)) = None -> lookup (apply_id id0) (c_items c) = Some it ->
    spec_c_delete m_eqb clock_at idfun c id0 o =
    (let '(t, reads) := update_time clock_at o (c_reads c) in
     (mkC (remove (apply_id id0) (c_items c)) reads, Some (it_body it), None,
      [mkCE (apply_id id0) t KRemove (Some (it_body it)) None])).
  Proof.
    unfold Lts.del_check, spec_c_delete. intros D L. rewrite L.
    destruct (wo_check o) as [chk|].
    - destruct (chk (Some (it_body it))); [discriminate|].
      destruct (match wo_expected o with Some e0 => m_eqb (it_body it) e0 | None => true end); [|discriminate].
      reflexivity.
    - destruct (match wo_expected o with Some e0 => m_eqb (it_body it) e0 | None => true end); [|discriminate].
      reflexivity.
  Qed.

  (* ---------- the reference, in the shape of the protocol ---------- *)
  Definition set_ref (s : vstate) (msg : M) (o : wopts) : vstate * (M + Z) * list (vevent M) :=
    match w_validate (wo_writer o) with
    | Some code => (s, inr code, [])
    | None =>
        match change_fn o msg (v_val s) with
        | inr code => (s, inr code, [])
        | inl nv => let '(t, reads) := update_time clock_at o (v_reads s) in
                    (mkV (Some nv) t reads, inl nv, [mkVE nv t])
        end
    end.

  Lemma spec_set_eq s msg o :
    spec_v_set m_eqb m_empty w_validate w_merge clock_at s msg o = set_ref s msg o.
  Proof.
    unfold spec_v_set, set_ref. destruct (w_validate (wo_writer o)); [reflexivity|].
    rewrite change_fn_is_spec. destruct (precondition m_eqb o (v_val s)); reflexivity.
  Qed.

  Definition upd_ref (s : cstate) (id0 : string) (msg : M) (o : wopts) : cstate * (M + Z) * list (cevent M) :=
    match w_validate (wo_writer o) with
    | Some code => (s, inr code, [])
    | None =>
        if String.eqb (apply_id id0) "" && wo_gen_id o then (s, inr 10, []) else
        let id := apply_id id0 in
        match lookup id (c_items s) with
        | Some it =>
            if wo_expect_absent o then (s, inr 6, []) else
            match change_fn o msg (Some (it_body it)) with
            | inr code => (s, inr code, [])
            | inl nv => let '(t, reads) := update_time clock_at o (c_reads s) in
                        (mkC (insert str_ltb id (mkItem nv t) (c_items s)) reads, inl nv,
                         [mkCE id t KUpdate (Some (it_body it)) (Some nv)])
            end
        | None =>
            if wo_create o then
              match change_fn o msg (Some m_empty) with
              | inr code => (s, inr code, [])
              | inl nv => let '(t, reads) := update_time clock_at o (c_reads s) in
                          (mkC (insert str_ltb id (mkItem nv t) (c_items s)) reads, inl nv,
                           [mkCE id t KAdd None (Some nv)])
              end
            else (s, inr 5, [])
        end
    end.

  Lemma spec_update_eq s id0 msg o :
    (let '(c', r, ev, _) := spec_c_update m_eqb m_empty w_validate w_merge clock_at str_ltb idfun s id0 msg o [] in (c', r, ev))
    = upd_ref s id0 msg o.
  Proof.
    unfold spec_c_update, upd_ref. destruct (w_validate (wo_writer o)); [reflexivity|].
    destruct (String.eqb (apply_id id0) "" && wo_gen_id o) eqn:G; [destruct (String.eqb (apply_id id0) ""), (wo_gen_id o); try discriminate; reflexivity|]. simpl.
    destruct (lookup (apply_id id0) (c_items s)) as [it|].
    - destruct (wo_expect_absent o); [reflexivity|]. simpl option_map.
      rewrite change_fn_is_spec. destruct (precondition m_eqb o (Some (it_body it))); [reflexivity|].
      unfold write_time, update_time. destruct (wo_time o); reflexivity.
    - destruct (wo_create o); simpl; [|reflexivity].
      rewrite change_fn_is_spec. destruct (precondition m_eqb o (Some m_empty)); [reflexivity|].
      unfold write_time, update_time. destruct (wo_time o); reflexivity.
  Qed.

  (* the reference for one call, with the events it publishes *)
  Definition spec_call_ev (vc : vstate * cstate) (c : call)
    : (vstate * cstate) * outcome * list (vevent M) * list (cevent M) :=
    match c with
    | CSet msg o => let '(v', r, ev) := set_ref (fst vc) msg o in ((v', snd vc), OVal r, ev, [])
    | CUpdate id0 msg o => let '(c', r, ev) := upd_ref (snd vc) id0 msg o in ((fst vc, c'), OVal r, [], ev)
    | CDelete id0 o =>
        let '(c', r, e, ev) := spec_c_delete m_eqb clock_at idfun (snd vc) id0 o in ((fst vc, c'), ODel r e, [], ev)
    | CSubV _ | CSubC _ | CSubID _ _ => (vc, OSub, [], [])
    end.

  Lemma spec_call_ev_fst vc c :
    spec_call vc c = (fst (fst (fst (spec_call_ev vc c))), snd (fst (fst (spec_call_ev vc c)))).
  Proof.
    destruct c as [msg o|id0 msg o|id0 o|ro|ro|id1 ro]; simpl.
    - rewrite spec_set_eq. destruct (set_ref (fst vc) msg o) as [[v' r] ev]. reflexivity.
    - pose proof (spec_update_eq (snd vc) id0 msg o) as E.
      destruct (spec_c_update m_eqb m_empty w_validate w_merge clock_at str_ltb idfun (snd vc) id0 msg o []) as [[[c' r] ev] cb].
      rewrite <- E. reflexivity.
    - destruct (spec_c_delete m_eqb clock_at idfun (snd vc) id0 o) as [[[c' r] e] ev]. reflexivity.
    - reflexivity.
    - reflexivity.
    - reflexivity.
  Qed.

  (* what a step commits: the events that will be (Set, Update) or are (Delete) published for it *)
  Definition committed (p p' : pc) (eff : effect M rmask) : list (vevent M) * list (cevent M) :=
    match p' with
    | PSavedV _ e => ([e], [])
    | PSavedC _ e => ([], [e])
    | _ => match p, eff with
           | PDel _ _, EPubC e => ([], [e])
           | _, _ => ([], [])
           end
    end.

  Definition mem (w : world) : vstate * cstate := (w_v w, w_c w).

  (* ---------- the heart: a step either leaves the memory alone or is the call's reference step ---------- *)
  Lemma trans_lin c p w p' w' eff :
    pc_wf c p w ->
    trans c p w = Some (p', w', eff) ->
    match predicted c p, predicted c p' with
    | None, Some r => spec_call_ev (mem w) c = (mem w', r, fst (committed p p' eff), snd (committed p p' eff))
    | None, None => mem w' = mem w /\ committed p p' eff = ([], [])
    | Some r, Some r' => r = r' /\ mem w' = mem w /\ committed p p' eff = ([], [])
    | Some _, None => False
    end.
  Proof.
    intros Hwf H. unfold Lts.trans in H.
    destruct c as [msg o|id0 msg o|id0 o|ro|ro|id1 ro]; destruct p as [|old cr|nv e|nv e|seen n|r|]; try discriminate; simpl in Hwf.
    - (* Set, start *)
      destruct (w_validate (wo_writer o)) eqn:V; inversion H; subst; clear H; simpl.
      + unfold set_ref. rewrite V. reflexivity.
      + destruct (change_fn o msg (v_val (w_v w'))) eqn:C.
        * split; reflexivity.
        * unfold set_ref. rewrite V, C. reflexivity.
    - (* Set, change + validate + save *)
      simpl predicted at 1. destruct (change_fn o msg old) as [nv|code] eqn:C.
      + destruct (om_eqb m_eqb old (v_val (w_v w))) eqn:E.
        * apply om_eqb_eq in E. subst old.
          destruct (update_time clock_at o (v_reads (w_v w))) as [t reads] eqn:U. inversion H; subst; clear H. simpl.
          unfold set_ref. rewrite Hwf, C, U. reflexivity.
        * inversion H; subst; clear H. simpl. split; reflexivity.
      + inversion H; subst; clear H. simpl. repeat split; reflexivity.
    - inversion H; subst; clear H. simpl. repeat split; reflexivity.
    - (* Update, start *)
      destruct (w_validate (wo_writer o)) eqn:V.
      { inversion H; subst; clear H. simpl. unfold upd_ref. rewrite V. reflexivity. }
      destruct (String.eqb (apply_id id0) "" && wo_gen_id o) eqn:G.
      { inversion H; subst; clear H. simpl. unfold upd_ref. rewrite V, G. reflexivity. }
      unfold Lts.c_get_fn in H.
      destruct (lookup (apply_id id0) (c_items (w_c w))) as [it|] eqn:L.
      + destruct (wo_expect_absent o) eqn:EA; inversion H; subst; clear H; simpl.
        * unfold upd_ref. rewrite V, G, L, EA. reflexivity.
        * destruct (change_fn o msg (Some (it_body it))) eqn:C.
          -- split; reflexivity.
          -- unfold upd_ref. rewrite V, G, L, EA, C. reflexivity.
      + destruct (wo_create o) eqn:Cr; inversion H; subst; clear H; simpl.
        * destruct (change_fn o msg (Some m_empty)) eqn:C.
          -- split; reflexivity.
          -- unfold upd_ref. rewrite V, G, L, Cr, C. reflexivity.
        * unfold upd_ref. rewrite V, G, L, Cr. reflexivity.
    - (* Update, change + validate + save *)
      destruct Hwf as (V & Hcr & G). simpl predicted at 1.
      destruct (change_fn o msg old) as [nv|code] eqn:C.
      2:{ inversion H; subst; clear H. simpl. repeat split; reflexivity. }
      unfold Lts.c_get_fn in H. destruct cr.
      + destruct (Hcr eq_refl) as [Cr ->].
        destruct (lookup (apply_id id0) (c_items (w_c w))) as [it|] eqn:L.
        * inversion H; subst; clear H. simpl. split; reflexivity.
        * destruct (om_eqb m_eqb (Some m_empty) (Some m_empty)).
          -- destruct (update_time clock_at o (c_reads (w_c w))) as [t reads] eqn:U. inversion H; subst; clear H. simpl.
             unfold upd_ref. rewrite V, G, L, Cr, C, U. reflexivity.
          -- inversion H; subst; clear H. simpl. split; reflexivity.
      + destruct (lookup (apply_id id0) (c_items (w_c w))) as [it|] eqn:L.
        * destruct (wo_expect_absent o) eqn:EA.
          { inversion H; subst; clear H. simpl. split; reflexivity. }
          destruct (om_eqb m_eqb old (Some (it_body it))) eqn:E.
          -- apply om_eqb_eq in E. subst old.
             destruct (update_time clock_at o (c_reads (w_c w))) as [t reads] eqn:U. inversion H; subst; clear H. simpl.
             unfold upd_ref. rewrite V, G, L, EA, C, U. reflexivity.
          -- inversion H; subst; clear H. simpl. split; reflexivity.
        * destruct (wo_create o) eqn:Cr.
          2:{ inversion H; subst; clear H. simpl. split; reflexivity. }
          destruct (om_eqb m_eqb old (Some m_empty)) eqn:E.
          -- apply om_eqb_eq in E. subst old.
             destruct (update_time clock_at o (c_reads (w_c w))) as [t reads] eqn:U. inversion H; subst; clear H. simpl.
             unfold upd_ref. rewrite V, G, L, Cr, C, U. reflexivity.
          -- inversion H; subst; clear H. simpl. split; reflexivity.
    - inversion H; subst; clear H. simpl. repeat split; reflexivity.
    - (* Delete, first read *)
      inversion H; subst; clear H. simpl.
      destruct (del_check o (lookup_st (apply_id id0) w')) as [r|] eqn:D; [|split; reflexivity].
      destruct (del_check_form _ _ D) as (m & e & ->).
      rewrite (del_check_spec _ _ _ D). reflexivity.
    - (* Delete, loop body *)
      simpl predicted at 1.
      destruct (Nat.leb 5 n) eqn:N5.
      { inversion H; subst; clear H. simpl. split; reflexivity. }
      destruct (del_check o seen) as [r|] eqn:D.
      { inversion H; subst; clear H. destruct (del_check_form _ _ D) as (m & e & ->). simpl. repeat split; reflexivity. }
      destruct (same_ptr seen (lookup_st (apply_id id0) w)) eqn:SP.
      + destruct seen as [[it st]|]; [|discriminate].
        destruct Hwf as [_ Hsame].
        unfold lookup_st in SP, Hsame.
        destruct (lookup (apply_id id0) (c_items (w_c w))) as [it2|] eqn:L; [|discriminate].
        simpl in SP. apply Z.eqb_eq in SP. subst st.
        specialize (Hsame it2 eq_refl). subst it2.
        pose proof (@del_check_pass (w_c w) id0 o _ _ D L) as S.
        destruct (update_time clock_at o (c_reads (w_c w))) as [t reads] eqn:U. inversion H; subst; clear H. simpl.
        rewrite S. reflexivity.
      + inversion H; subst; clear H. simpl.
        destruct (Nat.leb 5 (S n)); [split; reflexivity|].
        destruct (del_check o (lookup_st (apply_id id0) w')) as [r|] eqn:D2; [|split; reflexivity].
        destruct (del_check_form _ _ D2) as (m & e & ->).
        rewrite (del_check_spec _ _ _ D2). reflexivity.
    - inversion H; subst; clear H. simpl. split; reflexivity.
    - inversion H; subst; clear H. simpl. split; reflexivity.
    - inversion H; subst; clear H. simpl. split; reflexivity.
    - inversion H; subst; clear H. simpl. split; reflexivity.
  Qed.

  (* ================= all programs, all schedules ================= *)
  Variable prog : list call.
  Variable v0 : vstate.
  Variable c0 : cstate.
  Hypothesis c0_sorted : sorted (c_items c0).

  Notation step := (step m_eqb m_empty w_validate w_merge clock_at str_ltb idfun false false prog).
  Notation run := (run m_eqb m_empty w_validate w_merge clock_at str_ltb idfun false false prog).
  Notation replay := (replay m_eqb m_empty w_validate w_merge clock_at str_ltb idfun prog).
  Notation wit_tid := (@wit_tid M).
  Notation wit_out := (@wit_out M).
  Notation wit_k := (@wit_k M).

  Definition s0 : state := init prog v0 c0.
  Definition mem_at (sched : list nat) (k : nat) : vstate * cstate := mem (st_w (run (firstn k sched) s0)).

  Lemma run_snoc pre t s : run (pre ++ [t]) s = step t (run pre s).
  Proof. unfold Lts.run. rewrite fold_left_app. reflexivity. Qed.

  Lemma replay_snoc order : forall vc t c, nth_error prog t = Some c ->
    replay vc (order ++ [t]) =
    (let '(vc1, os) := replay vc order in let '(vc2, o) := spec_call vc1 c in (vc2, os ++ [o])).
  Proof.
    induction order as [|u r IH]; intros vc t c P; simpl.
    - rewrite P. destruct (spec_call vc c). reflexivity.
    - destruct (nth_error prog u) as [cu|].
      + destruct (spec_call vc cu) as [vc1 o1]. rewrite (IH vc1 t c P).
        destruct (replay vc1 r) as [vc2 os]. destruct (spec_call vc2 c). reflexivity.
      + apply IH. exact P.
  Qed.

  Lemma sorted_snoc {A} (R : A -> A -> Prop) (l : list A) y :
    StronglySorted R l -> (forall x, In x l -> R x y) -> StronglySorted R (l ++ [y]).
  Proof.
    induction 1 as [|a l Hs IH Ha]; intros Hy; simpl.
    - constructor; constructor.
    - constructor.
      + apply IH. intros x Hx. apply Hy. right. exact Hx.
      + apply Forall_app. split; [exact Ha|]. constructor; [|constructor]. apply Hy. left. reflexivity.
  Qed.

  Lemma firstn_snoc_le {A} (l : list A) x k : (k <= List.length l)%nat -> firstn k (l ++ [x]) = firstn k l.
  Proof.
    intros H. rewrite firstn_app. replace (k - List.length l)%nat with O by lia. simpl. apply app_nil_r.
  Qed.

  Record Inv (pre : list nat) (s : state) : Prop := {
    i_run : s = run pre s0;
    i_len : List.length (st_pcs s) = List.length prog;
    i_k : st_k s = List.length pre;
    i_replay : replay (v0, c0) (map wit_tid (st_wit s)) = (mem (st_w s), map wit_out (st_wit s));
    i_local : forall t c p, nth_error prog t = Some c -> nth_error (st_pcs s) t = Some p ->
              pc_wf c p (st_w s) /\ map wit_out (wit_of t (st_wit s)) = olist (predicted c p);
    i_stamps : stamps_ok (st_w s);
    i_sorted : sorted (c_items (w_c (st_w s)));
    i_rt : forall e, In e (st_wit s) -> nth_error pre (wit_k e) = Some (wit_tid e);
    i_ks : StronglySorted (fun a b => (wit_k a < wit_k b)%nat) (st_wit s);
    i_pt : forall e, In e (st_wit s) -> exists c, nth_error prog (wit_tid e) = Some c /\
           spec_call (mem_at pre (wit_k e)) c = (mem_at pre (S (wit_k e)), wit_out e)
  }.

  Lemma inv_init : Inv [] s0.
  Proof.
    constructor; simpl; try reflexivity.
    - rewrite map_length. reflexivity.
    - intros t c p P Q. rewrite nth_error_map in Q. destruct (nth_error prog t); [|discriminate].
      inversion Q. subst. split; [destruct c; exact I|reflexivity].
    - intros id. simpl. lia.
    - exact c0_sorted.
    - intros e [].
    - constructor.
    - intros e [].
  Qed.

  Lemma rt_bound pre s e : Inv pre s -> In e (st_wit s) -> (wit_k e < List.length pre)%nat.
  Proof. intros I H. apply nth_error_Some. rewrite (i_rt I _ H). discriminate. Qed.

  (* a schedule entry that changes nothing but the counters *)
  Lemma inv_frame pre s t s' :
    Inv pre s -> s' = step t s -> st_w s' = st_w s -> st_pcs s' = st_pcs s -> st_wit s' = st_wit s ->
    st_k s' = S (st_k s) -> Inv (pre ++ [t]) s'.
  Proof.
    intros I E Ew Ep Ewit Ek.
    constructor.
    - rewrite run_snoc, <- (i_run I). exact E.
    - rewrite Ep. apply (i_len I).
    - rewrite Ek, (i_k I), app_length. simpl. lia.
    - rewrite Ewit, Ew. apply (i_replay I).
    - rewrite Ewit, Ew, Ep. apply (i_local I).
    - rewrite Ew. apply (i_stamps I).
    - rewrite Ew. apply (i_sorted I).
    - rewrite Ewit. intros e H. rewrite nth_error_app1 by (eapply rt_bound; eauto). apply (i_rt I _ H).
    - rewrite Ewit. apply (i_ks I).
    - rewrite Ewit. intros e H. destruct (i_pt I _ H) as (c & P & HS). exists c. split; [exact P|].
      pose proof (@rt_bound _ _ _ I H) as B. unfold mem_at in *.
      rewrite !firstn_snoc_le by lia. exact HS.
  Qed.

  Lemma wit_of_app t (a b : list (nat * outcome * nat)) : wit_of t (a ++ b) = wit_of t a ++ wit_of t b.
  Proof. unfold wit_of. apply filter_app. Qed.

  Theorem inv_step pre s t : Inv pre s -> Inv (pre ++ [t]) (step t s).
  Proof.
    intros I. remember (step t s) as s' eqn:E. pose proof E as E0. unfold Lts.step in E.
    destruct (nth_error prog t) as [c|] eqn:P; [|subst s'; eapply inv_frame; eauto].
    destruct (nth_error (st_pcs s) t) as [p|] eqn:Q; [|subst s'; eapply inv_frame; eauto].
    destruct (trans c p (st_w s)) as [[[p' w'] eff]|] eqn:T; [|subst s'; eapply inv_frame; eauto].
    destruct (gate_open _ _ _ _ _) eqn:G; [|subst s'; eapply inv_frame; eauto].
    destruct (i_local I _ P Q) as [Hwf Hwit].
    pose proof (@trans_lin _ _ _ _ _ _ Hwf T) as L.
    pose proof (@trans_world _ _ _ _ _ _ T) as W.
    pose proof (@trans_wf _ _ _ _ _ _ T (i_stamps I) (i_sorted I) Hwf) as Hwf'.
    assert (Ht : (t < List.length (st_pcs s))%nat) by (apply nth_error_Some; rewrite Q; discriminate).
    set (new := match predicted c p, predicted c p' with
                | None, Some r => [(t, r, st_k s)]
                | _, _ => []
                end).
    assert (Ewit : st_wit s' = st_wit s ++ new).
    { subst s'. simpl. unfold new. destruct (predicted c p), (predicted c p'); try reflexivity; rewrite app_nil_r; reflexivity. }
    assert (Ew : st_w s' = w') by (subst s'; reflexivity).
    assert (Ep : st_pcs s' = set_nth t p' (st_pcs s)) by (subst s'; reflexivity).
    assert (Ek : st_k s' = S (st_k s)) by (subst s'; reflexivity).
    assert (Hnew : (new = [] /\ mem w' = mem (st_w s) /\ olist (predicted c p') = olist (predicted c p)) \/
                   (exists r, new = [(t, r, st_k s)] /\ spec_call (mem (st_w s)) c = (mem w', r) /\
                              predicted c p = None /\ predicted c p' = Some r)).
    { unfold new. destruct (predicted c p) as [r|] eqn:A, (predicted c p') as [r'|] eqn:B.
      - left. destruct L as (-> & Hm & _). auto.
      - contradiction.
      - right. exists r'. split; [reflexivity|]. split; [|auto].
        rewrite (@spec_call_ev_fst (mem (st_w s)) c), L. reflexivity.
      - left. destruct L as (Hm & _). auto. }
    clear E L.
    constructor.
    - rewrite run_snoc, <- (i_run I). exact E0.
    - rewrite Ep, length_set_nth. apply (i_len I).
    - rewrite Ek, (i_k I), app_length. simpl. lia.
    - rewrite Ewit, Ew. destruct Hnew as [(-> & Hm & _)|(r & -> & Hs & _)].
      + rewrite app_nil_r, Hm. apply (i_replay I).
      + rewrite !map_app. simpl. rewrite (replay_snoc _ _ _ P), (i_replay I), Hs. reflexivity.
    - intros t2 c2 p2 P2 Q2. rewrite Ep in Q2. rewrite Ewit, Ew, wit_of_app, map_app.
      destruct (Nat.eq_dec t t2) as [<-|Hne].
      + rewrite nth_error_set_nth_same in Q2 by exact Ht. inversion Q2. subst p2.
        rewrite P in P2. inversion P2. subst c2. split; [exact Hwf'|].
        rewrite Hwit. destruct Hnew as [(-> & _ & Ho)|(r & -> & _ & A & B)].
        * simpl. rewrite app_nil_r. symmetry. exact Ho.
        * simpl. unfold Lts.wit_tid. simpl. rewrite Nat.eqb_refl. rewrite A, B. reflexivity.
      + rewrite nth_error_set_nth_other in Q2 by exact Hne.
        destruct (i_local I _ P2 Q2) as [Hwf2 Hwit2]. split.
        * eapply pc_wf_world; eauto. apply (i_stamps I). apply (i_sorted I).
        * rewrite Hwit2. replace (wit_of t2 new) with (@nil (nat * outcome * nat)); [rewrite app_nil_r; reflexivity|].
          destruct Hnew as [(-> & _)|(r & -> & _)]; [reflexivity|].
          simpl. unfold Lts.wit_tid. simpl. destruct (Nat.eqb_spec t t2); [contradiction|reflexivity].
    - rewrite Ew. eapply world_step_stamps; eauto. apply (i_stamps I).
    - rewrite Ew. eapply world_step_sorted; eauto. apply (i_sorted I).
    - rewrite Ewit. intros e H. apply in_app_or in H. destruct H as [H|H].
      + rewrite nth_error_app1 by (eapply rt_bound; eauto). apply (i_rt I _ H).
      + destruct Hnew as [(-> & _)|(r & -> & _)]; [destruct H|].
        destruct H as [<-|[]]. unfold Lts.wit_k, Lts.wit_tid. simpl.
        rewrite (i_k I), nth_error_app2 by lia. rewrite Nat.sub_diag. reflexivity.
    - rewrite Ewit. destruct Hnew as [(-> & _)|(r & -> & _)]; [rewrite app_nil_r; apply (i_ks I)|].
      apply sorted_snoc; [apply (i_ks I)|]. intros x Hx. unfold Lts.wit_k at 2. simpl.
      rewrite (i_k I). eapply rt_bound; eauto.
    - rewrite Ewit. intros e H. apply in_app_or in H. destruct H as [H|H].
      + destruct (i_pt I _ H) as (c2 & P2 & HS). exists c2. split; [exact P2|].
        pose proof (@rt_bound _ _ _ I H) as B. unfold mem_at in *. rewrite !firstn_snoc_le by lia. exact HS.
      + destruct Hnew as [(-> & _)|(r & -> & Hs & _)]; [destruct H|].
        destruct H as [<-|[]]. exists c. unfold Lts.wit_k, Lts.wit_tid, Lts.wit_out. simpl. split; [exact P|].
        unfold mem_at. rewrite (i_k I).
        rewrite firstn_snoc_le by lia. rewrite firstn_all.
        replace (S (List.length pre)) with (List.length (pre ++ [t])) by (rewrite app_length; simpl; lia).
        rewrite firstn_all, run_snoc, <- (i_run I), <- E0, Ew. exact Hs.
  Qed.

  Theorem inv_run sched : Inv sched (run sched s0).
  Proof.
    induction sched as [|t pre IH] using rev_ind.
    - exact inv_init.
    - rewrite run_snoc. apply inv_step. exact IH.
  Qed.

  (* ---------- C02: linearizability with a constructive witness ---------- *)
  Theorem linearizable sched :
    let s := run sched s0 in
    (* replaying the witness order on the reference gives every linearized call its outcome and
       ends in the concrete memory: calls outside the witness had no effect *)
    replay (v0, c0) (map wit_tid (st_wit s)) = (mem (st_w s), map wit_out (st_wit s)) /\
    (* a call is in the witness exactly once, with the outcome it returns / is bound to return,
       and not at all if it lost a race (Aborted, Unavailable) *)
    (forall t c p, nth_error prog t = Some c -> nth_error (st_pcs s) t = Some p ->
                   map wit_out (wit_of t (st_wit s)) = olist (predicted c p)) /\
    (* each linearization point is a step of its own call ... *)
    (forall e, In e (st_wit s) -> nth_error sched (wit_k e) = Some (wit_tid e)) /\
    (* ... and the witness lists them in schedule order *)
    StronglySorted (fun a b => (wit_k a < wit_k b)%nat) (st_wit s).
  Proof.
    pose proof (inv_run sched) as I. simpl. repeat split.
    - apply (i_replay I).
    - intros t c p P Q. apply (i_local I _ P Q).
    - apply (i_rt I).
    - apply (i_ks I).
  Qed.

  (* at its linearization step the call takes the reference's step on the memory as it is then *)
  Theorem linearization_points sched e :
    In e (st_wit (run sched s0)) ->
    exists c, nth_error prog (wit_tid e) = Some c /\ nth_error sched (wit_k e) = Some (wit_tid e) /\
              spec_call (mem_at sched (wit_k e)) c = (mem_at sched (S (wit_k e)), wit_out e).
  Proof.
    intros H. pose proof (inv_run sched) as I. destruct (i_pt I _ H) as (c & P & HS).
    exists c. repeat split; auto. apply (i_rt I _ H).
  Qed.

  (* hence the order respects real time: a call all of whose steps come before all steps of another
     is linearized first *)
  Corollary real_time_order sched a b :
    In a (st_wit (run sched s0)) -> In b (st_wit (run sched s0)) ->
    (forall i j, nth_error sched i = Some (wit_tid a) -> nth_error sched j = Some (wit_tid b) -> (i < j)%nat) ->
    (wit_k a < wit_k b)%nat.
  Proof.
    intros Ha Hb H. pose proof (inv_run sched) as I. apply H; [apply (i_rt I _ Ha)|apply (i_rt I _ Hb)].
  Qed.

  Lemma wit_of_in t (wit : list (nat * outcome * nat)) e : In e (wit_of t wit) -> In e wit /\ wit_tid e = t.
  Proof. unfold wit_of. rewrite filter_In. intros [A B]. split; [exact A|]. apply Nat.eqb_eq. exact B. Qed.

  Lemma wit_of_single t (wit : list (nat * outcome * nat)) e : wit_of t wit = [e] -> In e wit.
  Proof. intros W. destruct (@wit_of_in t wit e) as [A _]; [rewrite W; left; reflexivity|exact A]. Qed.

  (* what a finished call returned *)
  Corollary returned_is_linearized sched t c r :
    nth_error prog t = Some c -> nth_error (st_pcs (run sched s0)) t = Some (PDone r) ->
    match r with
    | OLost _ | OSub => wit_of t (st_wit (run sched s0)) = []
    | _ => exists k, wit_of t (st_wit (run sched s0)) = [(t, r, k)]
    end.
  Proof.
    intros P Q. pose proof (inv_run sched) as I. destruct (i_local I _ P Q) as [_ H].
    assert (G : forall r', olist (predicted c (PDone r)) = [r'] ->
                exists k, wit_of t (st_wit (run sched s0)) = [(t, r', k)]).
    { intros r' E. rewrite E in H.
      destruct (wit_of t (st_wit (run sched s0))) as [|e [|e2 l]] eqn:W; try discriminate.
      assert (In e (wit_of t (st_wit (run sched s0)))) by (rewrite W; left; reflexivity).
      apply wit_of_in in H0. destruct H0 as [_ Ht]. destruct e as [[t' r''] k]. simpl in *.
      unfold Lts.wit_tid in Ht. simpl in Ht. unfold Lts.wit_out in H. simpl in H. inversion H. subst. eauto. }
    destruct r; simpl in *; try (apply G; reflexivity);
      destruct (wit_of t (st_wit (run sched s0))); try reflexivity; discriminate.
  Qed.

  (* ---------- corollaries ---------- *)
  Lemma change_fn_expected (o : wopts) msg old e nv :
    change_fn o msg old = inl nv -> wo_expected o = Some e -> om_eqb m_eqb old (Some e) = true.
  Proof.
    unfold Impl.change_fn. intros H He. rewrite He in H.
    destruct (om_eqb m_eqb old (Some e)); [reflexivity|discriminate].
  Qed.

  Lemma set_ref_ok s msg o v' nv ev :
    set_ref s msg o = (v', inl nv, ev) -> change_fn o msg (v_val s) = inl nv /\ v_val v' = Some nv.
  Proof.
    unfold set_ref. destruct (w_validate (wo_writer o)); [discriminate|].
    destruct (change_fn o msg (v_val s)) as [nv'|]; [|discriminate].
    destruct (update_time clock_at o (v_reads s)) as [tm reads]. intros H. inversion H. subst. auto.
  Qed.

  Lemma upd_ref_ok s id0 msg o c' nv ev :
    upd_ref s id0 msg o = (c', inl nv, ev) ->
    change_fn o msg (Some (match lookup (apply_id id0) (c_items s) with Some it => it_body it | None => m_empty end)) = inl nv /\
    option_map (@it_body M) (lookup (apply_id id0) (c_items c')) = Some nv.
  Proof.
    unfold upd_ref. destruct (w_validate (wo_writer o)); [discriminate|].
    destruct (String.eqb (apply_id id0) "" && wo_gen_id o); [discriminate|].
    destruct (lookup (apply_id id0) (c_items s)) as [it|].
    - destruct (wo_expect_absent o); [discriminate|].
      destruct (change_fn o msg (Some (it_body it))) as [nv'|]; [|discriminate].
      destruct (update_time clock_at o (c_reads s)) as [tm reads]. intros H. inversion H. subst.
      simpl. rewrite (lookup_insert_same str_ltb). auto.
    - destruct (wo_create o); [|discriminate].
      destruct (change_fn o msg (Some m_empty)) as [nv'|]; [|discriminate].
      destruct (update_time clock_at o (c_reads s)) as [tm reads]. intros H. inversion H. subst.
      simpl. rewrite (lookup_insert_same str_ltb). auto.
  Qed.

  (* a Set with an expected value succeeds only if the stored value satisfied it at the instant of
     the write *)
  Corollary set_cas_only_if_satisfied sched t msg o e nv :
    nth_error prog t = Some (CSet msg o) -> wo_expected o = Some e ->
    nth_error (st_pcs (run sched s0)) t = Some (PDone (OVal (inl nv))) ->
    exists k, nth_error sched k = Some t /\
              om_eqb m_eqb (v_val (fst (mem_at sched k))) (Some e) = true /\
              v_val (fst (mem_at sched (S k))) = Some nv.
  Proof.
    intros P He Q. destruct (returned_is_linearized _ _ P Q) as [k W].
    assert (Hin : In (t, OVal (inl nv), k) (st_wit (run sched s0))).
    { eapply wit_of_single. exact W. }
    destruct (linearization_points _ _ Hin) as (c & P2 & R & HS).
    unfold Lts.wit_tid, Lts.wit_k, Lts.wit_out in P2, R, HS. simpl fst in P2, R, HS. simpl snd in P2, R, HS.
    rewrite P in P2. inversion P2. subst c.
    exists k. split; [exact R|].
    remember (mem_at sched k) as mk. remember (mem_at sched (S k)) as mk'.
    rewrite spec_call_ev_fst in HS. simpl in HS.
    destruct (set_ref (fst mk) msg o) as [[v' r] ev] eqn:SR. simpl in HS.
    assert (E1 : (v', snd mk) = mk' /\ r = inl nv) by (inversion HS; auto). destruct E1 as [E1 ->].
    apply set_ref_ok in SR. destruct SR as [C V]. split; [exact (change_fn_expected _ _ _ C He)|].
    rewrite <- E1. exact V.
  Qed.

  Corollary update_cas_only_if_satisfied sched t id0 msg o e nv :
    nth_error prog t = Some (CUpdate id0 msg o) -> wo_expected o = Some e ->
    nth_error (st_pcs (run sched s0)) t = Some (PDone (OVal (inl nv))) ->
    exists k, nth_error sched k = Some t /\
              m_eqb (match lookup (apply_id id0) (c_items (snd (mem_at sched k))) with
                     | Some it => it_body it | None => m_empty end) e = true /\
              option_map (@it_body M) (lookup (apply_id id0) (c_items (snd (mem_at sched (S k))))) = Some nv.
  Proof.
    intros P He Q. destruct (returned_is_linearized _ _ P Q) as [k W].
    assert (Hin : In (t, OVal (inl nv), k) (st_wit (run sched s0))).
    { eapply wit_of_single. exact W. }
    destruct (linearization_points _ _ Hin) as (c & P2 & R & HS).
    unfold Lts.wit_tid, Lts.wit_k, Lts.wit_out in P2, R, HS. simpl fst in P2, R, HS. simpl snd in P2, R, HS.
    rewrite P in P2. inversion P2. subst c.
    exists k. split; [exact R|].
    remember (mem_at sched k) as mk. remember (mem_at sched (S k)) as mk'.
    rewrite spec_call_ev_fst in HS. simpl in HS.
    destruct (upd_ref (snd mk) id0 msg o) as [[c' r] ev] eqn:SR. simpl in HS.
    assert (E1 : (fst mk, c') = mk' /\ r = inl nv) by (inversion HS; auto). destruct E1 as [E1 ->].
    apply upd_ref_ok in SR. destruct SR as [C V]. split; [|rewrite <- E1; exact V].
    apply (change_fn_expected _ _ _ C) in He. simpl in He. exact He.
  Qed.

  (* a Delete removes exactly the item its precondition was evaluated on, at the instant of the
     removal *)
  Corollary delete_removes_what_it_checked sched t id0 o b :
    nth_error prog t = Some (CDelete id0 o) ->
    nth_error (st_pcs (run sched s0)) t = Some (PDone (ODel (Some b) None)) ->
    exists k it, nth_error sched k = Some t /\
                 lookup (apply_id id0) (c_items (snd (mem_at sched k))) = Some it /\ it_body it = b /\
                 del_check o (Some (it, 0)) = None /\
                 c_items (snd (mem_at sched (S k))) = remove (apply_id id0) (c_items (snd (mem_at sched k))).
  Proof.
    intros P Q. destruct (returned_is_linearized _ _ P Q) as [k W].
    assert (Hin : In (t, ODel (Some b) None, k) (st_wit (run sched s0))).
    { eapply wit_of_single. exact W. }
    destruct (linearization_points _ _ Hin) as (c & P2 & R & HS).
    unfold Lts.wit_tid, Lts.wit_k, Lts.wit_out in P2, R, HS. simpl fst in P2, R, HS. simpl snd in P2, R, HS.
    rewrite P in P2. inversion P2. subst c.
    exists k. remember (mem_at sched k) as mk. remember (mem_at sched (S k)) as mk'.
    simpl in HS. unfold spec_c_delete in HS.
    destruct (lookup (apply_id id0) (c_items (snd mk))) as [it|]; [|inversion HS].
    exists it. split; [exact R|]. split; [reflexivity|].
    unfold Lts.del_check.
    destruct (wo_check o) as [chk|].
    - destruct (chk (Some (it_body it))); [inversion HS|].
      destruct (match wo_expected o with Some e0 => m_eqb (it_body it) e0 | None => true end); [|inversion HS].
      destruct (write_time clock_at o (c_reads (snd mk))) as [tm reads].
      inversion HS. auto.
    - destruct (match wo_expected o with Some e0 => m_eqb (it_body it) e0 | None => true end); [|inversion HS].
      destruct (write_time clock_at o (c_reads (snd mk))) as [tm reads].
      inversion HS. auto.
  Qed.

  Lemma wit_tids_valid sched t : In t (map wit_tid (st_wit (run sched s0))) -> nth_error prog t <> None.
  Proof.
    rewrite in_map_iff. intros (e & <- & H). destruct (linearization_points _ _ H) as (c & P & _).
    rewrite P. discriminate.
  Qed.

  (* ---------- read-modify-write interceptors never lose an increment ---------- *)
  Section Increments.
    Variable measure : option M -> Z.
    Variable delta : nat -> Z.

    (* an unconditional Set whose new value adds d to the measured quantity of the old value *)
    Definition is_delta (c : call) (d : Z) : Prop :=
      match c with
      | CSet msg o =>
          w_validate (wo_writer o) = None /\ wo_expected o = None /\ wo_check o = None /\
          forall old, measure (Some (new_value m_empty w_merge o msg old)) = measure old + d
      | _ => False
      end.

    Hypothesis all_delta : forall t c, nth_error prog t = Some c -> is_delta c (delta t).

    Lemma replay_sum order : forall vc vc' os,
      (forall t, In t order -> nth_error prog t <> None) ->
      replay vc order = (vc', os) ->
      measure (v_val (fst vc')) = measure (v_val (fst vc)) + sumZ (map delta order) /\
      Forall (fun o => exists nv, o = OVal (inl nv)) os.
    Proof.
      induction order as [|t r IH]; intros vc vc' os Hv H; simpl in *.
      - inversion H. split; [lia|constructor].
      - destruct (nth_error prog t) as [c|] eqn:P; [|exfalso; apply (Hv t); auto].
        pose proof (all_delta _ P) as D. destruct c as [msg o|?|?|?|?|? ?]; simpl in D; try contradiction.
        destruct D as (V & E & C & Hm).
        destruct (spec_call vc (CSet msg o)) as [vc1 o1] eqn:S1.
        destruct (replay vc1 r) as [vc2 os2] eqn:R. inversion H. subst.
        destruct (IH _ _ _ (fun t H => Hv t (or_intror H)) R) as [IH1 IH2]. rewrite IH1.
        simpl in S1. unfold spec_v_set in S1. rewrite V in S1. unfold precondition in S1. rewrite E, C in S1.
        destruct (write_time clock_at o (v_reads (fst vc))) as [tm reads]. inversion S1. subst. simpl.
        rewrite Hm. split; [lia|]. constructor; eauto.
    Qed.

    (* every schedule: the stored quantity is the initial one plus the increments of exactly the
       calls that were linearized, and every linearized call reports success *)
    Theorem no_lost_increment sched :
      let s := run sched s0 in
      measure (v_val (w_v (st_w s))) =
      measure (v_val v0) + sumZ (map (fun e => delta (wit_tid e)) (st_wit s)) /\
      Forall (fun e => exists nv, wit_out e = OVal (inl nv)) (st_wit s).
    Proof.
      simpl. pose proof (inv_run sched) as I.
      destruct (replay_sum _ _ (wit_tids_valid sched) (i_replay I)) as [A B].
      simpl in A. rewrite map_map in A. split; [exact A|].
      rewrite Forall_map in B. exact B.
    Qed.
  End Increments.

  (* ---------- two concurrent Adds of one id never both succeed ---------- *)
  Definition present (id : string) (vc : vstate * cstate) : Prop := lookup id (c_items (snd vc)) <> None.
  Definition not_delete (c : call) : Prop := match c with CDelete _ _ => False | _ => True end.

  Lemma spec_keeps_present id vc c :
    not_delete c -> present id vc -> present id (fst (fst (fst (spec_call_ev vc c)))).
  Proof.
    intros ND Hp. destruct c as [msg o|id0 msg o|id0 o|ro|ro|id1 ro]; simpl in *; try contradiction; try exact Hp.
    - destruct (set_ref (fst vc) msg o) as [[v' r] ev]. exact Hp.
    - unfold upd_ref, present in *.
      destruct (w_validate (wo_writer o)); [exact Hp|].
      assert (G : forall it reads, lookup id (c_items (mkC (insert str_ltb (apply_id id0) it (c_items (snd vc))) reads)) <> None).
      { intros it reads. simpl. destruct (String.eqb_spec id (apply_id id0)) as [->|Hne].
        - rewrite (lookup_insert_same str_ltb). discriminate.
        - rewrite (lookup_insert_other str_ltb) by exact Hne. exact Hp. }
      destruct (String.eqb (apply_id id0) "" && wo_gen_id o); [exact Hp|].
      destruct (lookup (apply_id id0) (c_items (snd vc))) as [it|].
      + destruct (wo_expect_absent o); [exact Hp|].
        destruct (change_fn o msg (Some (it_body it))); [|exact Hp].
        destruct (update_time clock_at o (c_reads (snd vc))). apply G.
      + destruct (wo_create o); [|exact Hp].
        destruct (change_fn o msg (Some m_empty)); [|exact Hp].
        destruct (update_time clock_at o (c_reads (snd vc))). apply G.
  Qed.

  Lemma firstn_S_nth {A} (l : list A) k x : nth_error l k = Some x -> firstn (S k) l = firstn k l ++ [x].
  Proof.
    revert k. induction l as [|y r IH]; intros k H; destruct k; simpl in *; try discriminate.
    - inversion H. reflexivity.
    - rewrite (IH _ H). reflexivity.
  Qed.

  Hypothesis no_deletes : forall t c, nth_error prog t = Some c -> not_delete c.

  Lemma step_keeps_present id pre s t : Inv pre s -> present id (mem (st_w s)) -> present id (mem (st_w (step t s))).
  Proof.
    intros I Hp. unfold Lts.step.
    destruct (nth_error prog t) as [c|] eqn:P; [|exact Hp].
    destruct (nth_error (st_pcs s) t) as [p|] eqn:Q; [|exact Hp].
    destruct (trans c p (st_w s)) as [[[p' w'] eff]|] eqn:T; [|exact Hp].
    destruct (gate_open _ _ _ _ _) eqn:G; [|exact Hp].
    simpl. destruct (i_local I _ P Q) as [Hwf _].
    pose proof (@trans_lin _ _ _ _ _ _ Hwf T) as L.
    destruct (predicted c p), (predicted c p').
    - destruct L as (_ & -> & _). exact Hp.
    - contradiction.
    - pose proof (@spec_keeps_present id (mem (st_w s)) c (no_deletes _ P) Hp) as K. rewrite L in K. exact K.
    - destruct L as (-> & _). exact Hp.
  Qed.


  Lemma present_mono sched id i j : (i <= j)%nat -> present id (mem_at sched i) -> present id (mem_at sched j).
  Proof.
    induction 1 as [|j Hle IH]; intros Hp; [exact Hp|]. specialize (IH Hp). unfold mem_at in *.
    destruct (nth_error sched j) as [x|] eqn:N.
    - rewrite (firstn_S_nth _ _ N), run_snoc. eapply step_keeps_present; [apply inv_run|exact IH].
    - apply nth_error_None in N. rewrite !firstn_all2 in * by lia. exact IH.
  Qed.

  Lemma add_success_absent vc id0 msg o vc' nv :
    wo_expect_absent o = true ->
    spec_call vc (CUpdate id0 msg o) = (vc', OVal (inl nv)) ->
    lookup (apply_id id0) (c_items (snd vc)) = None /\ present (apply_id id0) vc'.
  Proof.
    intros EA H. rewrite spec_call_ev_fst in H. simpl in H.
    destruct (upd_ref (snd vc) id0 msg o) as [[c' r] ev] eqn:U. simpl in H.
    assert (E : (fst vc, c') = vc' /\ r = inl nv) by (inversion H; auto). destruct E as [<- ->].
    pose proof (upd_ref_ok _ _ _ _ U) as [_ V]. split.
    - unfold upd_ref in U. destruct (w_validate (wo_writer o)); [discriminate|].
      destruct (String.eqb (apply_id id0) "" && wo_gen_id o); [discriminate|].
      destruct (lookup (apply_id id0) (c_items (snd vc))); [|reflexivity]. rewrite EA in U. discriminate.
    - unfold present. simpl. destruct (lookup (apply_id id0) (c_items c')); [discriminate|discriminate].
  Qed.

  (* ---------- with Deletes: between two successful Adds of one id a Delete of it is linearized ---------- *)
  Lemma step_wit_incl t s e : In e (st_wit s) -> In e (st_wit (step t s)).
  Proof.
    intros H. unfold Lts.step.
    destruct (nth_error prog t) as [c|]; [|exact H].
    destruct (nth_error (st_pcs s) t) as [p|]; [|exact H].
    destruct (trans c p (st_w s)) as [[[p' w'] eff]|]; [|exact H].
    destruct (gate_open _ _ _ _ _) eqn:G; [|exact H].
    simpl. destruct (predicted c p), (predicted c p'); try exact H. apply in_or_app. left. exact H.
  Qed.

  Lemma run_wit_incl suf : forall s e, In e (st_wit s) -> In e (st_wit (run suf s)).
  Proof.
    induction suf as [|t r IH]; intros s e H; simpl; [exact H|]. apply IH. apply step_wit_incl. exact H.
  Qed.

  Lemma prefix_wit_incl sched n e : In e (st_wit (run (firstn n sched) s0)) -> In e (st_wit (run sched s0)).
  Proof.
    intros H. rewrite <- (firstn_skipn n sched) at 1. unfold Lts.run. rewrite fold_left_app.
    apply (run_wit_incl (skipn n sched)). exact H.
  Qed.

  (* the only step that makes a present id absent is the linearization of a successful Delete of it *)
  Lemma step_removes id pre s t :
    Inv pre s -> present id (mem (st_w s)) -> ~ present id (mem (st_w (step t s))) ->
    exists id0 o b, nth_error prog t = Some (CDelete id0 o) /\ apply_id id0 = id /\
                    In (t, ODel (Some b) None, List.length pre) (st_wit (step t s)).
  Proof.
    intros I Hp Hn. unfold Lts.step in *.
    destruct (nth_error prog t) as [c|] eqn:P; [|contradiction].
    destruct (nth_error (st_pcs s) t) as [p|] eqn:Q; [|contradiction].
    destruct (trans c p (st_w s)) as [[[p' w'] eff]|] eqn:T; [|contradiction].
    destruct (gate_open _ _ _ _ _) eqn:G; [|contradiction].
    simpl in *. destruct (i_local I _ P Q) as [Hwf _].
    pose proof (@trans_lin _ _ _ _ _ _ Hwf T) as L.
    destruct (predicted c p) as [r0|], (predicted c p') as [r|].
    - destruct L as (_ & E & _). rewrite E in Hn. contradiction.
    - contradiction.
    - destruct c as [msg o|id0 msg o|id0 o|ro|ro|id1 ro].
      + exfalso. pose proof (@spec_keeps_present id (mem (st_w s)) (CSet msg o) Logic.I Hp) as K. rewrite L in K. contradiction.
      + exfalso. pose proof (@spec_keeps_present id (mem (st_w s)) (CUpdate id0 msg o) Logic.I Hp) as K. rewrite L in K. contradiction.
      + simpl in L.
        destruct (spec_c_delete m_eqb clock_at idfun (w_c (st_w s)) id0 o) as [[[c1 r1] e1] ev1] eqn:SD.
        pose proof (f_equal (fun x => fst (fst (fst x))) L) as E1. simpl in E1.
        pose proof (f_equal (fun x => snd (fst (fst x))) L) as E2. simpl in E2.
        apply delete_outcomes in SD. simpl in SD.
        destruct SD as [(_ & -> & _)|[(it & code & _ & _ & -> & _)|(it & tm & Lk & -> & -> & Ei & _)]].
        * exfalso. apply Hn. rewrite <- E1. exact Hp.
        * exfalso. apply Hn. rewrite <- E1. exact Hp.
        * exists id0, o, (it_body it). split; [reflexivity|]. split.
          -- destruct (String.eqb_spec id (apply_id id0)) as [->|Hne]; [reflexivity|]. exfalso. apply Hn.
             unfold present. rewrite <- E1. simpl. rewrite Ei. rewrite lookup_remove_other by exact Hne. exact Hp.
          -- apply in_or_app. right. left. rewrite (i_k I), <- E2. reflexivity.
      + exfalso. pose proof (f_equal (fun x => fst (fst (fst x))) L) as E1. simpl in E1. rewrite <- E1 in Hn. apply Hn. exact Hp.
      + exfalso. pose proof (f_equal (fun x => fst (fst (fst x))) L) as E1. simpl in E1. rewrite <- E1 in Hn. apply Hn. exact Hp.
      + exfalso. pose proof (f_equal (fun x => fst (fst (fst x))) L) as E1. simpl in E1. rewrite <- E1 in Hn. apply Hn. exact Hp.
    - destruct L as (E & _). rewrite E in Hn. contradiction.
  Qed.

  Lemma present_dec id vc : present id vc \/ ~ present id vc.
  Proof. unfold present. destruct (lookup id (c_items (snd vc))); [left; discriminate|right; intros C; apply C; reflexivity]. Qed.

  Lemma present_lost sched id i j :
    (i <= j)%nat -> present id (mem_at sched i) -> ~ present id (mem_at sched j) ->
    exists m t3 id3 o3 b, (i <= m < j)%nat /\ nth_error prog t3 = Some (CDelete id3 o3) /\ apply_id id3 = id /\
                          In (t3, ODel (Some b) None, m) (st_wit (run sched s0)).
  Proof.
    induction 1 as [|j Hle IH]; intros Hp Hn; [contradiction|].
    destruct (present_dec id (mem_at sched j)) as [Hj|Hj].
    - unfold mem_at in *. destruct (nth_error sched j) as [x|] eqn:N.
      + rewrite (firstn_S_nth _ _ N), run_snoc in Hn.
        destruct (@step_removes id _ _ x (inv_run (firstn j sched)) Hj Hn) as (id3 & o3 & b & P & E & Hin).
        assert (Lj : List.length (firstn j sched) = j).
        { apply firstn_length_le. apply Nat.lt_le_incl. apply nth_error_Some. rewrite N. discriminate. }
        rewrite Lj in Hin. exists j, x, id3, o3, b. split; [lia|]. split; [exact P|]. split; [exact E|].
        apply (prefix_wit_incl sched (S j)). rewrite (firstn_S_nth _ _ N), run_snoc. exact Hin.
      + apply nth_error_None in N. rewrite !firstn_all2 in * by lia. contradiction.
    - destruct (IH Hp Hj) as (m & t3 & id3 & o3 & b & Hm & R). exists m, t3, id3, o3, b. split; [lia|exact R].
  Qed.

  (* both Adds are in the witness; in between, a successful Delete of the id is *)
  Theorem adds_separated_by_delete sched t1 t2 id1 id2 msg1 msg2 o1 o2 nv1 nv2 k1 k2 :
    nth_error prog t1 = Some (CUpdate id1 msg1 o1) -> nth_error prog t2 = Some (CUpdate id2 msg2 o2) ->
    apply_id id1 = apply_id id2 -> wo_expect_absent o2 = true ->
    In (t1, OVal (inl nv1), k1) (st_wit (run sched s0)) -> In (t2, OVal (inl nv2), k2) (st_wit (run sched s0)) ->
    (k1 < k2)%nat ->
    exists k3 t3 id3 o3 b, (k1 < k3 < k2)%nat /\ nth_error prog t3 = Some (CDelete id3 o3) /\
                           apply_id id3 = apply_id id1 /\ In (t3, ODel (Some b) None, k3) (st_wit (run sched s0)).
  Proof.
    intros P1 P2 Eid E2 W1 W2 Hlt.
    destruct (linearization_points _ _ W1) as (c1 & P1' & R1 & S1).
    destruct (linearization_points _ _ W2) as (c2 & P2' & R2 & S2).
    unfold Lts.wit_tid, Lts.wit_k, Lts.wit_out in P1', R1, S1, P2', R2, S2.
    simpl fst in P1', R1, S1, P2', R2, S2. simpl snd in P1', R1, S1, P2', R2, S2.
    rewrite P1 in P1'. inversion P1'. subst c1. rewrite P2 in P2'. inversion P2'. subst c2.
    destruct (@add_success_absent _ _ _ _ _ _ E2 S2) as [A2 _].
    assert (B1 : present (apply_id id1) (mem_at sched (S k1))).
    { remember (mem_at sched k1) as mk. remember (mem_at sched (S k1)) as mk'.
      rewrite spec_call_ev_fst in S1. simpl in S1.
      destruct (upd_ref (snd mk) id1 msg1 o1) as [[c' r] ev] eqn:U. simpl in S1.
      assert (E : (fst mk, c') = mk' /\ r = inl nv1) by (inversion S1; auto).
      destruct E as [E ->]. pose proof (upd_ref_ok _ _ _ _ U) as [_ V]. unfold present. rewrite <- E. simpl.
      destruct (lookup (apply_id id1) (c_items c')); [discriminate|discriminate V]. }
    assert (N2 : ~ present (apply_id id1) (mem_at sched k2)).
    { unfold present. rewrite Eid, A2. intros C. apply C. reflexivity. }
    destruct (@present_lost sched (apply_id id1) (S k1) k2 Hlt B1 N2) as (m & t3 & id3 & o3 & b & Hm & R).
    exists m, t3, id3, o3, b. split; [lia|exact R].
  Qed.

  Theorem adds_at_most_one sched t1 t2 id1 id2 msg1 msg2 o1 o2 nv1 nv2 :
    t1 <> t2 ->
    nth_error prog t1 = Some (CUpdate id1 msg1 o1) -> nth_error prog t2 = Some (CUpdate id2 msg2 o2) ->
    apply_id id1 = apply_id id2 -> wo_expect_absent o1 = true -> wo_expect_absent o2 = true ->
    nth_error (st_pcs (run sched s0)) t1 = Some (PDone (OVal (inl nv1))) ->
    nth_error (st_pcs (run sched s0)) t2 = Some (PDone (OVal (inl nv2))) -> False.
  Proof.
    intros Hne P1 P2 Eid E1 E2 Q1 Q2.
    destruct (returned_is_linearized _ _ P1 Q1) as [k1 W1].
    destruct (returned_is_linearized _ _ P2 Q2) as [k2 W2].
    apply wit_of_single in W1. apply wit_of_single in W2.
    destruct (linearization_points _ _ W1) as (c1 & P1' & R1 & S1).
    destruct (linearization_points _ _ W2) as (c2 & P2' & R2 & S2).
    unfold Lts.wit_tid, Lts.wit_k, Lts.wit_out in P1', R1, S1, P2', R2, S2.
    simpl fst in P1', R1, S1, P2', R2, S2. simpl snd in P1', R1, S1, P2', R2, S2.
    rewrite P1 in P1'. inversion P1'. subst c1. rewrite P2 in P2'. inversion P2'. subst c2.
    destruct (@add_success_absent _ _ _ _ _ _ E1 S1) as [A1 B1].
    destruct (@add_success_absent _ _ _ _ _ _ E2 S2) as [A2 B2].
    assert (k1 <> k2) by (intros ->; rewrite R1 in R2; inversion R2; contradiction).
    destruct (Nat.lt_ge_cases k1 k2) as [Hlt|Hge].
    - apply (@present_mono sched (apply_id id1) (S k1) k2) in B1; [|lia].
      unfold present in B1. rewrite Eid in B1. contradiction.
    - apply (@present_mono sched (apply_id id2) (S k2) k1) in B2; [|lia].
      unfold present in B2. rewrite <- Eid in B2. contradiction.
  Qed.
End Proofs.
