(* C03: every Value.Pull subscriber of a reachable state was registered by the thread whose call is that
   Value.Pull (with those read options), that thread has returned, and no thread registered two. *)
From SC Require Import Base.Prelude Resource.Impl Resource.Spec Resource.Pull Conc.Lts Conc.LtsProofs Conc.SubProofs.

Set Implicit Arguments.

Section VSubs.
  Variable M : Type.
  Variable m_eqb : M -> M -> bool.
  Variable m_empty : M.
  Variable writer : Type.
  Variable w_validate : writer -> option Z.
  Variable w_merge : writer -> M -> M -> M.
  Variable rmask : Type.
  Variable clock_at : Z -> Z.
  Variable str_ltb : string -> string -> bool.
  Variable idfun : option (string -> string).

  Notation call := (call M writer rmask).
  Notation state := (state M rmask).
  Notation vsub := (vsub M rmask).
  Notation trans := (trans m_eqb m_empty w_validate w_merge clock_at str_ltb idfun false (rmask := rmask)).

  Variable prog : list call.
  Variable v0 : vstate M.
  Variable c0 : cstate M.

  Notation step := (step m_eqb m_empty w_validate w_merge clock_at str_ltb idfun false false prog).
  Notation run := (run m_eqb m_empty w_validate w_merge clock_at str_ltb idfun false false prog).
  Notation s0 := (s0 prog v0 c0).

  Lemma vstep_shape t s :
    step t s = stutter s \/
    exists c p p' w' eff,
      nth_error prog t = Some c /\ nth_error (st_pcs s) t = Some p /\ trans c p (st_w s) = Some (p', w', eff) /\
      st_pcs (step t s) = set_nth t p' (st_pcs s) /\
      st_vsubs (step t s) =
        match eff with
        | EPubV e => map (fun u => mkVS (vs_tid u) (vs_ro u) (vs_at u) (vs_evs u ++ [e]) (vs_left u)) (st_vsubs s)
        | ESubV ro => st_vsubs s ++ [mkVS t ro (w_v (st_w s)) [] (st_leftv s)]
        | _ => st_vsubs s
        end.
  Proof.
    unfold Lts.step.
    destruct (nth_error prog t) as [c|] eqn:Pc; [|left; reflexivity].
    destruct (nth_error (st_pcs s) t) as [p|] eqn:Pp; [|left; reflexivity].
    destruct (Lts.trans m_eqb m_empty w_validate w_merge clock_at str_ltb idfun false c p (st_w s)) as [[[p' w'] eff]|] eqn:T;
      [|left; reflexivity].
    destruct (gate_open false t s p eff); [|left; reflexivity].
    right. exists c, p, p', w', eff. repeat split; try reflexivity. exact T.
  Qed.

  Record VSubsInv (s : state) : Prop := {
    vsu_call : forall u, In u (st_vsubs s) -> nth_error prog (vs_tid u) = Some (CSubV (vs_ro u));
    vsu_done : forall u, In u (st_vsubs s) -> exists r, nth_error (st_pcs s) (vs_tid u) = Some (PDone r);
    vsu_nodup : NoDup (map (@vs_tid M rmask) (st_vsubs s))
  }.

  Lemma vsubs_step t s : VSubsInv s -> VSubsInv (step t s).
  Proof.
    intros [Cl D N]. destruct (vstep_shape t s) as [E|(c & p & p' & w' & eff & Pc & Pp & T & Epc & Evs)].
    - rewrite E. split; assumption.
    - assert (Ht : (t < List.length (st_pcs s))%nat) by (apply nth_error_Some; congruence).
      assert (Other : forall u, In u (st_vsubs s) -> vs_tid u <> t).
      { intros u Hu Eq. destruct (D u Hu) as [r Hr]. rewrite Eq, Pp in Hr. inversion Hr; subst p.
        rewrite trans_not_done in T. discriminate T. }
      assert (Keep : forall u, In u (st_vsubs s) -> exists r, nth_error (st_pcs (step t s)) (vs_tid u) = Some (PDone r)).
      { intros u Hu. rewrite Epc, nth_error_set_nth_other by (intros Eq; apply (Other u Hu); symmetry; exact Eq). apply D, Hu. }
      destruct eff as [|e|e|ro|ro]; try (split; rewrite Evs; [exact Cl|exact Keep|exact N]).
      + (* a publication: the same subscribers *)
        split.
        * rewrite Evs. intros u Hu. apply in_map_iff in Hu. destruct Hu as (u1 & <- & Hu1). simpl. apply Cl, Hu1.
        * rewrite Evs. intros u Hu. apply in_map_iff in Hu. destruct Hu as (u1 & <- & Hu1). simpl. apply Keep, Hu1.
        * rewrite Evs, map_map. simpl. exact N.
      + (* a new subscriber: its call is that Value.Pull and its thread has just returned *)
        destruct (trans_effect m_eqb m_empty w_validate w_merge clock_at str_ltb idfun _ _ _ T) as ((Ec & _ & _) & _ & Hp').
        assert (Dn : exists r, p' = PDone r) by (destruct p'; try discriminate Hp'; eauto).
        destruct Dn as [r ->].
        split.
        * rewrite Evs. intros u Hu. apply in_app_or in Hu. destruct Hu as [Hu|[<-|[]]]; [apply Cl, Hu|].
          simpl. rewrite Pc, Ec. reflexivity.
        * rewrite Evs. intros u Hu. apply in_app_or in Hu. destruct Hu as [Hu|[<-|[]]]; [apply Keep, Hu|].
          exists r. simpl. rewrite Epc. apply nth_error_set_nth_same. exact Ht.
        * rewrite Evs, map_app. simpl.
          apply (SubProofs.nodup_snoc t N).
          intros Hin. apply in_map_iff in Hin. destruct Hin as (u & Eu & Hu). exact (Other u Hu Eu).
  Qed.

  Theorem vsubs_run sched : VSubsInv (run sched s0).
  Proof.
    induction sched as [|t pre IH] using rev_ind.
    - split; simpl; [intros u []|intros u []|constructor].
    - unfold Lts.run. rewrite fold_left_app. simpl. apply vsubs_step. exact IH.
  Qed.
End VSubs.
