(* Correspondence cases for C02 / C03 over the flat message algebra (Resource/Flat.v):
   a program of concurrent calls, the schedule that was forced on the implementation through the
   verifhook gates (or, for the gate-free stress, the recorded invocation/response stamps), and
   everything that was observed. *)
From SC Require Import Base.Prelude Resource.Impl Resource.Spec Resource.Pull Resource.Flat Resource.Judge
  Conc.Lts Conc.LossyPipe Conc.GenLts.

Inductive fcall :=
| FSet (msg : fmsg) (o : fwo)
| FUpdate (id : string) (msg : fmsg) (o : fwo)
| FAdd (id : string) (msg : fmsg) (o : fwo)
| FDelete (id : string) (o : fwo)
| FSubV (ro : fro)
| FSubC (ro : fro)
(* Collection.Pull (pid = None) / Collection.PullID (pid = Some id) WITHOUT backpressure.  The
   schedule entries naming this thread after its own steps (one for Pull, two for PullID) are
   receives of its consumer, one change each if one is offered (Conc/LossyPipe.v); once every
   thread has ended the consumer receives until nothing is offered any more *)
| FSubL (pid : option string) (ro : fro)
(* Collection.PullID: returns at once; its goroutine opens the inner Pull in a step of its own *)
| FSubID (id : string) (ro : fro).

(* what a call returned: message (nil = None) and gRPC code (0 = no error) *)
Record fout := mkFO { fo_msg : option fmsg; fo_code : Z }.

(* ---------- the configuration the resource was CONSTRUCTED with ----------
   The equivalence (resource.WithEquivalence / WithMessageEquivalence / WithNoDuplicates) of the shared
   Value and Collection.  It is the Pull de-duplication comparer and is usually NOT exact (electric demand
   and fan speed use a float tolerance; others ignore time fields):
     CqExact      WithNoDuplicates: proto.Equal
     CqField f    only field f is compared (every other field is ignored)
     CqTol f k    field f may differ by at most k, the other fields must be equal *)
Inductive ceqv := CqExact | CqField (f : fld) | CqTol (f : fld) (k : Z).

Definition ceqv_msg (e : ceqv) (a b : fmsg) : bool :=
  match e with
  | CqExact => fmsg_eqb a b
  | CqField f => getf f a =? getf f b
  | CqTol f k => (Z.abs (getf f a - getf f b) <=? k) && fmsg_eqb (setf f 0 a) (setf f 0 b)
  end.
Definition interp_ceqv (e : ceqv) (x y : option fmsg) : bool :=
  match x, y with
  | Some a, Some b => ceqv_msg e a b
  | None, None => true
  | _, _ => false
  end.
(* the other construction-time options are arguments of the cases already: the id interceptor (idf), an
   absent initial value (vinit = None), the initial contents *)
(* cf_writable: the writable fields the shared Value AND Collection are constructed with (resource.WithWritablePaths);
   None = writes are not restricted.  opt.go fieldUpdater: the union with the call's WithMoreWritablePaths, lifted
   by WithAllFieldsWritable (Resource/Flat.v mk_writer). *)
Record fcfg := mkCfg { cf_equiv : option ceqv; cf_writable : option (list fld) }.
Definition cfg_eq (cfg : fcfg) : option (option fmsg -> option fmsg -> bool) := option_map interp_ceqv (cf_equiv cfg).
Definition cfg_default := mkCfg None None.

Inductive ccase :=
(* a forced schedule: thread t runs prog[t]; results[t] is what it returned; finals are Get / List
   taken when all threads have returned; streams are what each subscriber thread received up to
   the sentinel *)
| CaseSched (idf : option idf) (vinit : option fmsg) (cinit : list (string * fmsg * Z))
            (prog : list fcall) (sched : list nat)
            (results : list fout) (final_v : option fmsg) (final_c : list (string * fmsg))
            (vstreams : list (nat * list ovchange)) (cstreams : list (nat * list ochange))
            (closed : list nat)     (* PullID threads whose channel had been closed by the time of the sentinel *)
(* a free-running history: call, invocation stamp, response stamp, result *)
| CaseHist (idf : option idf) (vinit : option fmsg) (cinit : list (string * fmsg * Z))
           (hist : list (fcall * Z * Z * fout)) (final_v : option fmsg) (final_c : list (string * fmsg))
(* a free-running program with subscribers (no gates, no schedule): the calls of prog were issued by
   goroutines running free on all cores; observed as in CaseSched.  Judged by the oracle alone. *)
| CaseFree (idf : option idf) (vinit : option fmsg) (cinit : list (string * fmsg * Z))
           (prog : list fcall) (results : list fout) (final_v : option fmsg) (final_c : list (string * fmsg))
           (vstreams : list (nat * list ovchange)) (cstreams : list (nat * list ochange)) (closed : list nat)
(* a forced schedule of Collection calls with generated ids and callbacks (Conc/GenLts.v): an Add / Update
   with an empty id and o_gen_id generates; cands[t] = the ten candidates (already base64-encoded) the rng
   of thread t's call produces; reported[t] = the ids its id callback received, in order; created[t] = the
   number of times its created callback was invoked *)
| CaseGen (idf : option idf) (cinit : list (string * fmsg * Z)) (prog : list fcall) (cands : list (list string))
          (sched : list nat) (results : list fout) (reported : list (list string)) (created : list Z)
          (final_c : list (string * fmsg))
(* CaseSched on resources constructed with the configuration cfg (no subscribers without backpressure) *)
| CaseCfg (cfg : fcfg) (idf : option idf) (vinit : option fmsg) (cinit : list (string * fmsg * Z))
          (prog : list fcall) (sched : list nat)
          (results : list fout) (final_v : option fmsg) (final_c : list (string * fmsg))
          (vstreams : list (nat * list ovchange)) (cstreams : list (nat * list ochange)) (closed : list nat).

(* ---------- instantiation ---------- *)
Notation lcall := (call fmsg fwriter (list fld)).
Notation loutcome := (outcome fmsg).

(* rw = the writable fields of the resource the call is issued on *)
Definition to_call_w (rw : option (list fld)) (c : fcall) : lcall :=
  match c with
  | FSet msg o => @CSet fmsg fwriter (list fld) msg (to_wopts rw o)
  | FUpdate id msg o => @CUpdate fmsg fwriter (list fld) id msg (to_wopts rw o)
  | FAdd id msg o => @CUpdate fmsg fwriter (list fld) id msg (as_add (to_wopts rw o))
  | FDelete id o => @CDelete fmsg fwriter (list fld) id (to_wopts rw o)
  | FSubV ro => @CSubV fmsg fwriter (list fld) (to_ropts ro)
  | FSubC ro | FSubL None ro => @CSubC fmsg fwriter (list fld) (to_ropts ro)
  | FSubID id ro | FSubL (Some id) ro => @CSubID fmsg fwriter (list fld) id (to_ropts ro)
  end.
Definition to_call : fcall -> lcall := to_call_w None.

Definition init_v (vinit : option fmsg) : vstate fmsg := mkV vinit (fclock 0) 1.
Definition init_c (cinit : list (string * fmsg * Z)) : cstate fmsg :=
  mkC (map (fun p => (fst (fst p), mkItem (snd (fst p)) (snd p))) cinit) 0.

(* v0: the pinned create path / no commit-number filter; v1: no turnstile (publication not ordered) *)
Definition f_run_gen_w (rw : option (list fld)) (v0 v1 : bool) (i : option idf) (prog : list fcall) (sched : list nat)
           (vinit : option fmsg) (cinit : list (string * fmsg * Z)) :=
  run fmsg_eqb fzero fw_validate fw_merge fclock str_ltb (idfun_of i) v0 v1 (map (to_call_w rw) prog) sched
      (init (map (to_call_w rw) prog) (init_v vinit) (init_c cinit)).
Definition f_run_gen := f_run_gen_w None.
Definition f_run (v0 : bool) := f_run_gen v0 false.
Definition f_run_w (rw : option (list fld)) (v0 : bool) := f_run_gen_w rw v0 false.
(* the code before the turnstile: pinned behaviour before the fix of known finding C03/1 *)
Definition f_run_v1 := f_run_gen false true.

Definition f_spec_call (i : option idf) :=
  spec_call fmsg_eqb fzero fw_validate fw_merge fclock str_ltb (idfun_of i) (rmask := list fld).

(* ---------- comparing results ---------- *)
Definition out_matches (r : loutcome) (b : fout) : bool :=
  match r with
  | OVal (inl m) => ofm_eqb (Some m) (fo_msg b) && (fo_code b =? 0)
  | OVal (inr c) => ofm_eqb None (fo_msg b) && (fo_code b =? c) && negb (c =? 0)
  | ODel m None => ofm_eqb m (fo_msg b) && (fo_code b =? 0)
  | ODel m (Some c) => ofm_eqb m (fo_msg b) && (fo_code b =? c) && negb (c =? 0)
  | OLost c => ofm_eqb None (fo_msg b) && (fo_code b =? c)
  | OSub => ofm_eqb None (fo_msg b) && (fo_code b =? 0)
  end.

Definition pc_matches (p : pc fmsg) (b : fout) : bool :=
  match p with PDone r => out_matches r b | _ => false end.

Fixpoint assoc_nat {A} (t : nat) (l : list (nat * A)) : option A :=
  match l with [] => None | (k, v) :: r => if Nat.eqb k t then Some v else assoc_nat t r end.

Definition vstream_of (u : vsub fmsg (list fld)) : list (vchange fmsg) :=
  pull_value fr_filter None (vs_at u) (vs_ro u) (vs_evs u).
Definition cstream_of (u : csub fmsg (list fld)) : list (cchange fmsg) :=
  pull_collection fr_filter None (cs_at u) (cs_ro u) (cs_evs u).

(* the same on a resource constructed with an equivalence: Value.Pull compares with the last value sent,
   Collection.Pull with the value the subscriber holds for the id (Resource/Pull.v) *)
Definition vstream_of_eq (eq : option (option fmsg -> option fmsg -> bool)) (u : vsub fmsg (list fld)) : list (vchange fmsg) :=
  pull_value fr_filter eq (vs_at u) (vs_ro u) (vs_evs u).
Definition cstream_of_eq (eq : option (option fmsg -> option fmsg -> bool)) (u : csub fmsg (list fld)) : list (cchange fmsg) :=
  match eq with
  | None => cstream_of u
  | Some _ => pull_collection_held fr_filter eq (cs_at u) (cs_ro u) (cs_evs u)
  end.

Definition final_list (c : cstate fmsg) : list (string * fmsg) := c_list fr_filter c None None.

Definition pull_id_of (t : nat) (prog : list fcall) : option string :=
  match nth_error prog t with Some (FSubID id _) => Some id | _ => None end.

Definition is_lossy (t : nat) (prog : list fcall) : bool :=
  match nth_error prog t with Some (FSubL _ _) => true | _ => false end.

(* ---------- subscribers without backpressure: the pipeline layer (Conc/LossyPipe.v) ---------- *)
Notation flsub := (lsub fmsg (list fld)).
Notation flchange := (lchange fmsg).

Definition lossy_of_prog (i : option idf) (prog : list fcall) (t : nat) : option (option string) :=
  match nth_error prog t with
  | Some (FSubL pid _) => Some (option_map (apply_id (idfun_of i)) pid)
  | _ => None
  end.

(* the number of schedule entries that are steps of the thread itself *)
Definition own_steps (prog : list fcall) (t : nat) : option nat :=
  match nth_error prog t with
  | Some (FSubL None _) => Some 1%nat
  | Some (FSubL (Some _) _) => Some 2%nat
  | _ => None
  end.

Fixpoint classify (prog : list fcall) (cnt : nat -> nat) (sched : list nat) : list sstep :=
  match sched with
  | [] => []
  | t :: r =>
      match own_steps prog t with
      | Some k =>
          if Nat.ltb (cnt t) k
          then SThread t :: classify prog (fun x => if Nat.eqb x t then S (cnt t) else cnt x) r
          else SRecv t :: classify prog cnt r
      | None => SThread t :: classify prog cnt r
      end
  end.

(* the merger's opaque tokens: positions in the tables of the ids / values the run's deliveries mention *)
Fixpoint index_of {A} (eqb : A -> A -> bool) (x : A) (l : list A) (n : Z) : Z :=
  match l with [] => n | y :: r => if eqb x y then n else index_of eqb x r (n + 1) end.

Definition tbl_vals (s : state fmsg (list fld)) : list fmsg :=
  flat_map (fun u => map (fun p => it_body (snd p)) (c_items (cs_at u)) ++
                     flat_map (fun e => olist (ce_old e) ++ olist (ce_new e)) (cs_evs u)) (st_csubs s).
Definition tbl_ids (s : state fmsg (list fld)) : list string :=
  flat_map (fun u => map fst (c_items (cs_at u)) ++ map (@ce_id fmsg) (cs_evs u)) (st_csubs s).

Definition tok_id (it : list string) (id : string) : Z := index_of String.eqb id it 0.
Definition id_at (it : list string) (z : Z) : string := nth (Z.to_nat z) it ""%string.
Definition tok_val (vt : list fmsg) (m : fmsg) : Z := index_of fmsg_eqb m vt 0.
Definition val_at (vt : list fmsg) (z : Z) : option fmsg := if z <? 0 then None else nth_error vt (Z.to_nat z).

Definition f_lrun_gen_w (rw : option (list fld)) (v0 v1 : bool) (i : option idf) (prog : list fcall) (sched : list nat)
           (vinit : option fmsg) (cinit : list (string * fmsg * Z)) : state fmsg (list fld) * list flsub :=
  let cprog := map (to_call_w rw) prog in
  let ss := classify prog (fun _ => O) sched in
  let s00 := init cprog (init_v vinit) (init_c cinit) in
  let splain := run fmsg_eqb fzero fw_validate fw_merge fclock str_ltb (idfun_of i) v0 v1 cprog (threads_of ss) s00 in
  let vt := tbl_vals splain in
  let it := tbl_ids splain in
  let '(s, ls) := lrun fr_filter None (tok_id it) (id_at it) (tok_val vt) (val_at vt)
                       fmsg_eqb fzero fw_validate fw_merge fclock str_ltb (idfun_of i) v0 v1 cprog
                       (lossy_of_prog i prog) ss (s00, []) in
  (s, map (drained fr_filter None (id_at it) (val_at vt)) ls).
Definition f_lrun_gen := f_lrun_gen_w None.
Definition f_lrun (v0 : bool) := f_lrun_gen v0 false.
Definition f_lrun_w (rw : option (list fld)) (v0 : bool) := f_lrun_gen_w rw v0 false.

Definition lc_matches (c : flchange) (o : ochange) : bool :=
  String.eqb (lc_id c) (oc_id o) && (lc_time c =? oc_time o) && (lc_kind c =? oc_kind o) &&
  ofm_eqb (lc_old c) (oc_old o) && ofm_eqb (lc_new c) (oc_new o) &&
  Bool.eqb (lc_seed c) (oc_seed o) && Bool.eqb (lc_last c) (oc_last o).

(* what the consumer of the subscription without backpressure of thread t received, in full *)
Definition lossy_matches (l : flsub) (vstreams : list (nat * list ovchange)) (cstreams : list (nat * list ochange))
           (closed : list nat) : bool :=
  match ls_pid l with
  | None =>
      match assoc_nat (ls_tid l) cstreams with
      | Some obs => list_match lc_matches (ls_gotc l) obs
      | None => false
      end
  | Some _ =>
      match assoc_nat (ls_tid l) vstreams with
      | Some obs => list_match vc_matches (ls_gotv l) obs && Bool.eqb (ls_closed l) (existsb (Nat.eqb (ls_tid l)) closed)
      | None => false
      end
  end.

(* the model version compared with the implementation: false = the repaired create path *)
Definition model_v0 := false.

(* ---------- generated ids and callbacks: the run of Conc/GenLts.v ---------- *)
Definition f_grun (i : option idf) (prog : list fcall) (cands : list (list string)) (sched : list nat)
           (cinit : list (string * fmsg * Z)) :=
  let cprog := map to_call prog in
  grun fmsg_eqb fzero fw_validate fw_merge fclock str_ltb (idfun_of i) model_v0 false cprog
       (fun t => nth t cands []) sched (ginit (rmask := list fld) cprog (init_v None) (init_c cinit)).

Fixpoint all_upto (n : nat) (f : nat -> bool) : bool :=
  match n with O => true | S k => f k && all_upto k f end.

(* a forced schedule against the model; eq = the equivalence the resources were constructed with.  The
   WRITE side of the comparison (results, final reads, number of steps) does not mention eq: the model of the
   write path has no equivalence in it.  Only what subscribers receive depends on it. *)
Definition agrees_sched (rw : option (list fld)) (eq : option (option fmsg -> option fmsg -> bool))
           (i : option idf) (vinit : option fmsg) (cinit : list (string * fmsg * Z)) (prog : list fcall) (sched : list nat)
           (results : list fout) (fv : option fmsg) (fc : list (string * fmsg))
           (vstreams : list (nat * list ovchange)) (cstreams : list (nat * list ochange)) (closed : list nat) : bool :=
      let '(s, ls) := f_lrun_w rw model_v0 i prog sched vinit cinit in
      (Nat.eqb (st_stutter s) 0) && all_done s &&
      list_match pc_matches (st_pcs s) results &&
      ofm_eqb (v_val (w_v (st_w s))) fv &&
      list_eqb kv_eqb (final_list (w_c (st_w s))) fc &&
      (Nat.eqb (List.length (st_vsubs s) + List.length (st_csubs s)) (List.length vstreams + List.length cstreams)) &&
      forallb (fun u => match assoc_nat (vs_tid u) vstreams with
                        | Some obs => list_match vc_matches (vstream_of_eq eq u) obs
                        | None => false end) (st_vsubs s) &&
      (* every subscriber without backpressure has its pipeline, compared change by change *)
      forallb (fun u => negb (is_lossy (cs_tid u) prog) || existsb (fun l => Nat.eqb (ls_tid l) (cs_tid u)) ls) (st_csubs s) &&
      forallb (fun l => lossy_matches l vstreams cstreams closed) ls &&
      forallb (fun u =>
                 if is_lossy (cs_tid u) prog then true else
                 match pull_id_of (cs_tid u) prog with
                 | Some id =>
                     (* PullID: the collection stream restricted to the id, ended by its removal *)
                     let '(vs, cl) := pull_id_from (apply_id (idfun_of i) id) (cstream_of_eq eq u) in
                     match assoc_nat (cs_tid u) vstreams with
                     | Some obs => list_match vc_matches vs obs && Bool.eqb cl (existsb (Nat.eqb (cs_tid u)) closed)
                     | None => false
                     end
                 | None =>
                     match assoc_nat (cs_tid u) cstreams with
                     | Some obs => list_match cc_matches (cstream_of_eq eq u) obs
                     | None => false
                     end
                 end) (st_csubs s).

Definition has_lossy (prog : list fcall) : bool :=
  existsb (fun c => match c with FSubL _ _ => true | _ => false end) prog.

Definition agrees (c : ccase) : bool :=
  match c with
  | CaseSched i vinit cinit prog sched results fv fc vstreams cstreams closed =>
      agrees_sched None None i vinit cinit prog sched results fv fc vstreams cstreams closed
  | CaseCfg cfg i vinit cinit prog sched results fv fc vstreams cstreams closed =>
      negb (has_lossy prog) &&
      agrees_sched (cf_writable cfg) (cfg_eq cfg) i vinit cinit prog sched results fv fc vstreams cstreams closed
  | CaseHist _ _ _ _ _ _ => true      (* no schedule to compare: judged by the oracle alone *)
  | CaseFree _ _ _ _ _ _ _ _ _ _ => true
  | CaseGen i cinit prog cands sched results reported created fc =>
      let gs := f_grun i prog cands sched cinit in
      let s := g_st gs in
      (Nat.eqb (st_stutter s) 0) && all_done s &&
      list_match pc_matches (st_pcs s) results &&
      list_eqb kv_eqb (final_list (w_c (st_w s))) fc &&
      Nat.eqb (List.length reported) (List.length prog) && Nat.eqb (List.length created) (List.length prog) &&
      all_upto (List.length prog)
        (fun t => list_eqb String.eqb (g_ids gs t) (nth t reported []) && (g_created gs t =? nth t created 0))
  end.

(* ---------- C02: the history is linearizable (oracle: search over one-at-a-time orders,
   through the sequential reference Spec.v only — the LTS is not used) ---------- *)
Record hcall := mkH { h_call : fcall; h_inv : Z; h_resp : Z; h_out : fout }.

Definition is_write_call (c : fcall) : bool :=
  match c with FSubV _ | FSubC _ | FSubL _ _ | FSubID _ _ => false | _ => true end.

(* Aborted from Set/Update and Unavailable from Delete: the call lost a race and must have had no
   effect.  (The generated checks never return these codes themselves.) *)
Definition is_lost (h : hcall) : bool :=
  match h_call h with
  | FSet _ _ | FUpdate _ _ _ | FAdd _ _ _ => fo_code (h_out h) =? 10
  | FDelete _ _ => fo_code (h_out h) =? 14
  | _ => false
  end.

Definition allowed_code (h : hcall) : bool :=
  let c := fo_code (h_out h) in
  match h_call h with
  | FSet _ _ => (c =? 0) || (c =? 10) || (c =? 9) || (c =? 3)
  | FUpdate _ _ _ | FAdd _ _ _ => (c =? 0) || (c =? 10) || (c =? 9) || (c =? 3) || (c =? 5) || (c =? 6)
  | FDelete _ _ => (c =? 0) || (c =? 14) || (c =? 9) || (c =? 5)
  | _ => c =? 0
  end.

(* a is before b in real time *)
Definition precedes (a b : hcall) : bool := h_resp a <? h_inv b.

Definition hcall_key_eqb (a b : hcall) : bool := (h_inv a =? h_inv b) && (h_resp a =? h_resp b).

Fixpoint remove_first (h : hcall) (l : list hcall) : list hcall :=
  match l with
  | [] => []
  | x :: r => if hcall_key_eqb x h then r else x :: remove_first h r
  end.

Definition final_matches (vc : vstate fmsg * cstate fmsg) (fv : option fmsg) (fc : list (string * fmsg)) : bool :=
  ofm_eqb (v_val (fst vc)) fv && list_eqb kv_eqb (final_list (snd vc)) fc.

(* depth-first search: linearize next any call that no pending call precedes and whose reference
   result is the observed one *)
Fixpoint lin_search (rw : option (list fld)) (i : option idf) (fuel : nat) (pending : list hcall) (vc : vstate fmsg * cstate fmsg)
         (fv : option fmsg) (fc : list (string * fmsg)) : bool :=
  match pending with
  | [] => final_matches vc fv fc
  | _ =>
    match fuel with
    | O => false
    | S f =>
      existsb (fun h =>
        negb (existsb (fun h' => precedes h' h) pending) &&
        (let '(vc', r) := f_spec_call i vc (to_call_w rw (h_call h)) in
         out_matches r (h_out h) && lin_search rw i f (remove_first h pending) vc' fv fc)) pending
    end
  end.

(* no two calls carry the same pair of stamps (remove_first identifies a call by its stamps) *)
Fixpoint keys_distinct (l : list hcall) : bool :=
  match l with
  | [] => true
  | h :: r => negb (existsb (hcall_key_eqb h) r) && keys_distinct r
  end.

Definition linearizable_b (rw : option (list fld)) (i : option idf) (vinit : option fmsg) (cinit : list (string * fmsg * Z))
           (hist : list hcall) (fv : option fmsg) (fc : list (string * fmsg)) : bool :=
  let writes := filter (fun h => is_write_call (h_call h)) hist in
  forallb allowed_code writes &&
  let eff := filter (fun h => negb (is_lost h)) writes in
  keys_distinct eff &&
  lin_search rw i (List.length eff) eff (init_v vinit, init_c cinit) fv fc.

(* invocation = index of the thread's first step, response = index of its last step *)
Fixpoint first_idx (t : nat) (k : Z) (sched : list nat) : Z :=
  match sched with [] => k | x :: r => if Nat.eqb x t then k else first_idx t (k + 1) r end.
Fixpoint last_idx (t : nat) (k : Z) (cur : Z) (sched : list nat) : Z :=
  match sched with [] => cur | x :: r => last_idx t (k + 1) (if Nat.eqb x t then k else cur) r end.

Fixpoint hist_of (t : nat) (prog : list fcall) (results : list fout) (sched : list nat) : list hcall :=
  match prog, results with
  | c :: pr, b :: rr => mkH c (2 * first_idx t 0 sched) (2 * last_idx t 0 (-1) sched + 1) b :: hist_of (S t) pr rr sched
  | _, _ => []
  end.

(* generated ids, judged on the observation alone (no LTS): a generating call that reported id g is
   replayed by the reference as the call of g that REQUIRES g to be unused at its linearization
   instant when it creates (the reference may pick any unused id, and g must have been one) *)
Definition f_is_gen (i : option idf) (c : fcall) : bool :=
  match c with
  | FAdd id _ o | FUpdate id _ o => String.eqb (apply_id (idfun_of i) id) "" && o_gen_id o
  | _ => false
  end.

Definition fwo_no_gen (o : fwo) : fwo :=
  mkFWO' (o_time o) (o_update o) (o_reset o) (o_more_writable o) (o_all_writable o) (o_expected o) (o_expect_absent o)
         (o_check o) (o_allow_missing o) (o_before o) (o_after o) (o_create o) (o_created_cb o) false (o_id_cb o)
         (o_more_update o).

Definition subst_one (i : option idf) (c : fcall) (rep : list string) : fcall :=
  if f_is_gen i c then
    match rep, c with
    | g :: _, FAdd _ msg o => FAdd g msg (fwo_no_gen o)
    | g :: _, FUpdate _ msg o => if o_create o then FAdd g msg (fwo_no_gen o) else FUpdate g msg (fwo_no_gen o)
    | _, _ => c
    end
  else c.

Fixpoint subst_reported (i : option idf) (t : nat) (prog : list fcall) (reported : list (list string)) : list fcall :=
  match prog with
  | [] => []
  | c :: r => subst_one i c (nth t reported []) :: subst_reported i (S t) r reported
  end.

(* a generating call reports at most one id, one of its rng's first ten candidates and not empty; it
   reports one whenever it succeeds; a call that does not generate reports none *)
Fixpoint gen_ok (i : option idf) (t : nat) (prog : list fcall) (cands : list (list string)) (results : list fout)
         (reported : list (list string)) : bool :=
  match prog, results with
  | c :: pr, b :: rr =>
      (match nth t reported [] with
       | [] => negb (f_is_gen i c) || negb (fo_code b =? 0)
       | [g] => f_is_gen i c && negb (String.eqb g "") && existsb (String.eqb g) (firstn 10 (nth t cands []))
       | _ => false
       end) && gen_ok i (S t) pr cands rr reported
  | _, _ => true
  end.

Definition is_delete_call (c : fcall) : bool := match c with FDelete _ _ => true | _ => false end.

(* the stored ids of the generating calls that created an item *)
Fixpoint created_ids (i : option idf) (t : nat) (prog : list fcall) (results : list fout) (reported : list (list string))
  : list string :=
  match prog, results with
  | c :: pr, b :: rr =>
      (match nth t reported [] with
       | g :: _ => if f_is_gen i c && (fo_code b =? 0) then [apply_id (idfun_of i) g] else []
       | [] => []
       end) ++ created_ids i (S t) pr rr reported
  | _, _ => []
  end.

Fixpoint gen_distinct (i : option idf) (l : list string) : bool :=
  match l with [] => true | x :: r => negb (existsb (String.eqb x) r) && gen_distinct i r end.

Definition C02_ok (c : ccase) : bool :=
  match c with
  | CaseSched i vinit cinit prog sched results fv fc _ _ _ =>
      linearizable_b None i vinit cinit (hist_of 0 prog results sched) fv fc
  | CaseHist i vinit cinit hist fv fc =>
      linearizable_b None i vinit cinit (map (fun p => mkH (fst (fst (fst p))) (snd (fst (fst p))) (snd (fst p)) (snd p)) hist) fv fc
  | CaseFree _ _ _ _ _ _ _ _ _ _ => true
  (* the configured equivalence is NOT an argument of the predicate: the sequential reference has none *)
  | CaseCfg cfg i vinit cinit prog sched results fv fc _ _ _ =>
      linearizable_b (cf_writable cfg) i vinit cinit (hist_of 0 prog results sched) fv fc
  | CaseGen i cinit prog cands sched results reported created fc =>
      linearizable_b None i None cinit (hist_of 0 (subst_reported i 0 prog reported) results sched) None fc &&
      gen_ok i 0 prog cands results reported &&
      (existsb is_delete_call prog || gen_distinct i (created_ids i 0 prog results reported))
  end.

(* ---------- C03: the folded view is the final read ---------- *)
Definition mask_of (ro : fro) (m : fmsg) : fmsg := match r_mask ro with Some k => fr_filter k m | None => m end.

Definition ids_of (l : list ochange) : list string := map oc_id l.

Definition cview_ok (ro : fro) (stream : list ochange) (fc : list (string * fmsg)) : bool :=
  let view := fold_view (map to_cc stream) in
  let final := map (fun kv => (fst kv, mask_of ro (snd kv))) fc in
  if r_updates_only ro then
    (* no seed: the view is right at every id an event mentioned *)
    forallb (fun id => ofm_eqb (view_lookup id view) (view_lookup id final)) (ids_of stream)
  else same_map view final.

Definition vview_ok (ro : fro) (stream : list ovchange) (fv : option fmsg) : bool :=
  match rev stream with
  | o :: _ => ofm_eqb (Some (ov_value o)) (option_map (mask_of ro) fv)
  | [] => r_updates_only ro || match fv with None => true | Some _ => false end
  end.

Fixpoint sub_ro (t : nat) (prog : list fcall) : option (bool * fro) :=
  match prog, t with
  | [], _ => None
  | FSubV ro :: _, O => Some (true, ro)
  | FSubC ro :: _, O | FSubL None ro :: _, O => Some (false, ro)
  | _ :: _, O => None
  | _ :: r, S t' => sub_ro t' r
  end.

(* PullID: unless its channel was closed (the item was removed), the last value delivered is the
   item's final masked value, and nothing was delivered for an item that is absent at the end *)
Definition pid_ok (id : string) (ro : fro) (stream : list ovchange) (is_closed : bool) (fc : list (string * fmsg)) : bool :=
  is_closed ||
  match rev stream with
  | o :: _ => ofm_eqb (Some (ov_value o)) (option_map (mask_of ro) (view_lookup id fc))
  | [] => r_updates_only ro || match view_lookup id fc with None => true | Some _ => false end
  end.

Definition pid_ro (t : nat) (prog : list fcall) : option (string * fro) :=
  match nth_error prog t with Some (FSubID id ro) | Some (FSubL (Some id) ro) => Some (id, ro) | _ => None end.

(* every subscriber's fold of what it received is the final read (model-free) *)
Definition c03_pred (i : option idf) (prog : list fcall) (fv : option fmsg) (fc : list (string * fmsg))
           (vstreams : list (nat * list ovchange)) (cstreams : list (nat * list ochange)) (closed : list nat) : bool :=
  forallb (fun p => match pid_ro (fst p) prog with
                    | Some (id, ro) => pid_ok (apply_id (idfun_of i) id) ro (snd p) (existsb (Nat.eqb (fst p)) closed) fc
                    | None =>
                        match sub_ro (fst p) prog with
                        | Some (true, ro) => vview_ok ro (snd p) fv
                        | _ => false end
                    end) vstreams &&
  forallb (fun p => match sub_ro (fst p) prog with
                    | Some (false, ro) => cview_ok ro (snd p) fc
                    | _ => false end) cstreams.

Definition C03_ok (c : ccase) : bool :=
  match c with
  | CaseSched i vinit cinit prog sched results fv fc vstreams cstreams closed =>
      c03_pred i prog fv fc vstreams cstreams closed
  | CaseFree i vinit cinit prog results fv fc vstreams cstreams closed =>
      c03_pred i prog fv fc vstreams cstreams closed
  | CaseHist _ _ _ _ _ _ => true
  | CaseGen _ _ _ _ _ _ _ _ _ => true
  | CaseCfg _ _ _ _ _ _ _ _ _ _ _ _ => true     (* with an equivalence the stream is C04's subject *)
  end.

(* Known finding C03/1 (a publication overtook an earlier commit: Set and Update published after
   releasing the lock with nothing ordering the publications) is FIXED by the turnstile
   (pkg/resource/turnstile.go).  The model's publish steps are enabled in commit order only, so a
   schedule in which a publication overtakes an earlier commit makes the model stutter: `agrees`
   fails, and with a stale view C03_ok fails as well -- verdict 3, a hard violation.  No
   observation is mapped to a known class any more. *)
Definition judge02 (c : ccase) : Z := verdict (agrees c) (C02_ok c) None.
Definition judge03 (c : ccase) : Z := verdict (agrees c) (C03_ok c) None.

(* the pinned commit's create path, for replaying the two-Adds witness *)
Definition agrees_v0 (c : ccase) : bool :=
  match c with
  | CaseSched i vinit cinit prog sched results fv fc _ _ _ =>
      let s := f_run true i prog sched vinit cinit in
      (Nat.eqb (st_stutter s) 0) && all_done s && list_match pc_matches (st_pcs s) results &&
      ofm_eqb (v_val (w_v (st_w s))) fv && list_eqb kv_eqb (final_list (w_c (st_w s))) fc
  | _ => true
  end.

(* debugging aid *)
Definition debug_case (c : ccase) :=
  match c with
  | CaseSched i vinit cinit prog sched results fv fc vstreams cstreams _ =>
      let '(s, ls) := f_lrun model_v0 i prog sched vinit cinit in
      Some (st_stutter s, st_pcs s, v_val (w_v (st_w s)), final_list (w_c (st_w s)),
            map vstream_of (st_vsubs s), map cstream_of (st_csubs s),
            map (fun l => (ls_tid l, ls_gotc l, ls_gotv l, ls_closed l)) ls)
  | _ => None
  end.

(* is the next step of thread t enabled (a publication is, only when every earlier commit has left) *)
Definition f_enabled (i : option idf) (prog : list fcall) (t : nat) (s : state fmsg (list fld)) : bool :=
  enabled fmsg_eqb fzero fw_validate fw_merge fclock str_ltb (idfun_of i) false false (map to_call prog) t s.
