(* The configured equivalence plays no role in the write path (Conc/CfgLts.v). *)
From SC Require Import Base.Prelude Resource.Impl Resource.Spec Resource.Pull Resource.Flat Resource.Judge
  Conc.Lts Conc.LtsProofs Conc.CfgLts Conc.Judge.
From Coq Require Import Sorted.

Section CfgProofs.
  Variable M : Type.
  Variable m_eqb : M -> M -> bool.
  Variable m_empty : M.
  Variable writer : Type.
  Variable w_validate : writer -> option Z.
  Variable w_merge : writer -> M -> M -> M.
  Variable rmask : Type.
  Variable r_filter : rmask -> M -> M.
  Variable clock_at : Z -> Z.
  Variable str_ltb : string -> string -> bool.
  Variable v0 v1 : bool.

  Notation rconfig := (rconfig M).
  Notation crun := (crun m_eqb m_empty w_validate w_merge clock_at str_ltb v0 v1).
  Notation observe := (observe m_eqb m_empty w_validate w_merge r_filter clock_at str_ltb v0 v1).
  Notation trans := (trans m_eqb m_empty w_validate w_merge clock_at str_ltb).
  Notation trans_rem := (trans_rem m_eqb m_empty w_validate w_merge clock_at str_ltb v0).

  (* the state reached -- every thread's result or parking place, the stored value and items with their
     versions, the linearization witness, the commit logs, the raw events offered to every subscriber --
     is the same whatever equivalence the resources were constructed with; for every program, every
     schedule, hence every prefix of a schedule *)
  Lemma crun_equiv_irrelevant : forall eq (rc : rconfig) (prog : list (call M writer rmask)) sched,
    crun (with_equiv eq rc) prog sched = crun rc prog sched.
  Proof. reflexivity. Qed.

  Lemma observe_state_equiv_irrelevant : forall eq (rc : rconfig) (prog : list (call M writer rmask)) sched,
    ob_state (observe (with_equiv eq rc) prog sched) = ob_state (observe rc prog sched).
  Proof. reflexivity. Qed.

  (* two configurations that differ in the equivalence only *)
  Lemma crun_same_but_equiv : forall (rc rc' : rconfig) (prog : list (call M writer rmask)) sched,
    rc_idfun rc = rc_idfun rc' -> rc_vinit rc = rc_vinit rc' -> rc_cinit rc = rc_cinit rc' ->
    crun rc prog sched = crun rc' prog sched.
  Proof. intros [e i v c] [e' i' v' c']; simpl; intros; subst; reflexivity. Qed.

  (* the configured run IS the run the C02 theorems are about *)
  Lemma crun_is_run : forall (rc : rconfig) (prog : list (call M writer rmask)) sched,
    crun rc prog sched =
    run m_eqb m_empty w_validate w_merge clock_at str_ltb (rc_idfun rc) v0 v1 prog sched
        (s0 prog (rc_vinit rc) (rc_cinit rc)).
  Proof. reflexivity. Qed.

  (* ---- the get closure that remembers its first read (NOT the code) ---- *)
  Lemma reread_exact : forall cmp (old cur : option M),
    (forall a b, cmp a b = true -> a = b) -> reread (Some cmp) old cur = cur.
  Proof.
    intros cmp old cur H. unfold reread. destruct old as [m|]; [|reflexivity].
    destruct (cmp (Some m) cur) eqn:E; [|reflexivity]. apply H. exact E.
  Qed.

  (* with no equivalence, or with one that cannot tell more values apart than equality does
     (WithNoDuplicates), remembering the first read changes no step of any call on any memory *)
  Lemma trans_rem_none : forall idfun (c : call M writer rmask) p w, trans_rem None idfun c p w = trans idfun v0 c p w.
  Proof. intros idfun c p w. destruct c, p; reflexivity. Qed.

  Lemma trans_rem_exact : forall cmp idfun (c : call M writer rmask) p w,
    (forall a b, cmp a b = true -> a = b) -> trans_rem (Some cmp) idfun c p w = trans idfun v0 c p w.
  Proof.
    intros cmp idfun c p w H. destruct c, p; try reflexivity.
    unfold trans_rem, Lts.trans. rewrite (reread_exact cmp old (v_val (w_v w)) H). reflexivity.
  Qed.
End CfgProofs.

(* ---------- on the flat algebra ---------- *)
Definition f_rc (cfg : fcfg) (i : option idf) (vinit : option fmsg) (cinit : list (string * fmsg * Z)) : rconfig fmsg :=
  mkRC (cfg_eq cfg) (idfun_of i) (init_v vinit) (init_c cinit).

Definition f_observe (cfg : fcfg) (i : option idf) vinit cinit (prog : list fcall) (sched : list nat) :=
  observe fmsg_eqb fzero fw_validate fw_merge fr_filter fclock str_ltb false false (f_rc cfg i vinit cinit)
          (map (to_call_w (cf_writable cfg)) prog) sched.

Definition no_opts : fwo := mkFWO None None None None false None false None false None None false false false false.
Definition plain_ro : fro := mkFRO None false None.

(* non-vacuity: the equivalence IS a parameter of the model -- a subscriber of a Value constructed with the
   tolerance 3 on the first field is not sent the write 5 -> 6, one of a Value without equivalence is;
   the states of the two runs are the same *)
Definition eq_prog : list fcall := [FSubV plain_ro; FSet (mkF 6 0 0) no_opts].
Definition eq_sched : list nat := [0; 1; 1; 1]%nat.

Example equivalence_visible_to_subscribers :
  map (fun p => List.length (snd p))
      (ob_vstreams (f_observe (mkCfg (Some (CqTol Fa 3)) None) None (Some (mkF 5 0 0)) [] eq_prog eq_sched)) = [1%nat] /\
  map (fun p => List.length (snd p))
      (ob_vstreams (f_observe (mkCfg None None) None (Some (mkF 5 0 0)) [] eq_prog eq_sched)) = [2%nat] /\
  v_val (w_v (st_w (ob_state (f_observe (mkCfg (Some (CqTol Fa 3)) None) None (Some (mkF 5 0 0)) [] eq_prog eq_sched)))) = Some (mkF 6 0 0).
Proof. vm_compute. repeat split. Qed.

(* the exact equivalence of the harness is exact; the others are not *)
Lemma ceqv_exact_is_exact : forall a b, interp_ceqv CqExact a b = true -> a = b.
Proof.
  intros [a|] [b|]; simpl; try discriminate; try reflexivity.
  unfold fmsg_eqb. destruct a, b; simpl. intro H.
  apply andb_true_iff in H. destruct H as [H H3]. apply andb_true_iff in H. destruct H as [H1 H2].
  apply Z.eqb_eq in H1, H2, H3. subst. reflexivity.
Qed.

(* REFUTED for a tolerance: the writer read 5 and expects 5; 7 is stored now (another write landed in
   the window); the remembering closure saves 6 -- WithExpectedValue(5) succeeds while 7 is stored --
   where the code's step is Aborted *)
Definition rem_world : world fmsg := mkWd (mkV (Some (mkF 7 0 0)) 1010 2) (mkC [] 0) (fun _ => 0) 0.
Definition rem_call : lcall := to_call (FSet (mkF 6 0 0)
  (mkFWO None None None None false (Some (mkF 5 0 0)) false None false None None false false false false)).

Example trans_rem_tolerance_refuted :
  (match trans_rem fmsg_eqb fzero fw_validate fw_merge fclock str_ltb false (Some (interp_ceqv (CqTol Fa 3))) None
                   rem_call (PRead (Some (mkF 5 0 0)) false) rem_world with
   | Some (PSavedV nv _, w', _) => fmsg_eqb nv (mkF 6 0 0) && ofm_eqb (v_val (w_v w')) (Some (mkF 6 0 0))
   | _ => false
   end) = true /\
  (match trans fmsg_eqb fzero fw_validate fw_merge fclock str_ltb None false
                   rem_call (PRead (Some (mkF 5 0 0)) false) rem_world with
   | Some (PDone (OLost 10), w', _) => ofm_eqb (v_val (w_v w')) (Some (mkF 7 0 0))
   | _ => false
   end) = true.
Proof. vm_compute. split; reflexivity. Qed.
