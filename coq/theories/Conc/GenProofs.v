(* C02, generated ids: every run of Conc/GenLts.v IS the run of Conc/Lts.v on the program in which
   each generating call is replaced by the call of the candidate it resolved -- for every program,
   candidate lists and schedule.  Everything proved about Lts.v (LtsProofs.v, DeleteProofs.v) then
   holds of runs with generated ids, with the reference replaying each such call as the call of
   its resolved id: an id among the rng's first ten candidates, non-empty, and (for an Add that
   succeeds) not stored at the linearization instant. *)
From SC Require Import Base.Prelude Resource.Impl Resource.Spec Resource.Pull Resource.ImplProofs Resource.SpecProofs
  Conc.Lts Conc.LtsProofs Conc.GenLts.
From Coq Require Import Sorted.

Set Implicit Arguments.

Section StepExt.
  Variable M : Type.
  Variable m_eqb : M -> M -> bool.
  Variable m_empty : M.
  Variable writer : Type.
  Variable w_validate : writer -> option Z.
  Variable w_merge : writer -> M -> M -> M.
  Variable rmask : Type.
  Variable clock_at : Z -> Z.
  Variable str_ltb : string -> string -> bool.
  Variable idfun : option (string -> string).
  Variable v0 v1 : bool.

  Notation call := (call M writer rmask).
  Notation state := (state M rmask).
  Notation step := (step m_eqb m_empty w_validate w_merge clock_at str_ltb idfun v0 v1).
  Notation run := (run m_eqb m_empty w_validate w_merge clock_at str_ltb idfun v0 v1).
  Notation trans := (trans m_eqb m_empty w_validate w_merge clock_at str_ltb idfun v0 (rmask := rmask)).

  (* a step of thread t looks at the program only at position t *)
  Lemma step_ext (p1 p2 : list call) t (s : state) : nth_error p1 t = nth_error p2 t -> step p1 t s = step p2 t s.
  Proof. intros E. unfold Lts.step. rewrite E. reflexivity. Qed.

  Lemma run_ext (p1 p2 : list call) sched :
    (forall t, In t sched -> nth_error p1 t = nth_error p2 t) -> forall s : state, run p1 sched s = run p2 sched s.
  Proof.
    induction sched as [|t r IH]; intros H s; simpl; [reflexivity|].
    rewrite (@step_ext p1 p2 t s) by (apply H; left; reflexivity).
    apply IH. intros u Hu. apply H. right. exact Hu.
  Qed.

  Lemma map_const_length {A B} (x : B) (l1 l2 : list A) :
    List.length l1 = List.length l2 -> map (fun _ => x) l1 = map (fun _ => x) l2.
  Proof.
    revert l2. induction l1 as [|a r IH]; intros [|b r2] H; simpl in *; try discriminate; [reflexivity|].
    f_equal. apply IH. lia.
  Qed.

  Lemma init_ext (p1 p2 : list call) v c : List.length p1 = List.length p2 -> init (rmask := rmask) p1 v c = init p2 v c.
  Proof. intros H. unfold init. rewrite (map_const_length (@PStart M) p1 p2 H). reflexivity. Qed.

  (* no step parks a thread at the start again *)
  Lemma trans_not_start (c : call) p w p' w' eff : trans c p w = Some (p', w', eff) -> p' <> PStart.
  Proof.
    intros H. unfold Lts.trans in H.
    destruct c, p; try discriminate;
      repeat match type of H with
             | context [match ?x with _ => _ end] => destruct x; try discriminate
             end;
      inversion H; subst; discriminate.
  Qed.

  Lemma trans_start_some (c : call) w : trans c PStart w <> None.
  Proof.
    unfold Lts.trans. destruct c; try discriminate.
    - destruct (w_validate (wo_writer o)); discriminate.
    - destruct (w_validate (wo_writer o)); [discriminate|].
      destruct (String.eqb (apply_id idfun id) "" && wo_gen_id o); [discriminate|].
      destruct (c_get_fn m_empty v0 o (apply_id idfun id) false (c_items (w_c w))) as [[b|code] cr]; discriminate.
  Qed.

  Lemma step_pc_not_start (p : list call) t (s : state) c :
    nth_error p t = Some c -> nth_error (st_pcs (step p t s)) t <> Some PStart.
  Proof.
    intros P. unfold Lts.step. rewrite P.
    destruct (nth_error (st_pcs s) t) as [q|] eqn:Q; [|simpl; rewrite Q; discriminate].
    destruct (trans c q (st_w s)) as [[[q' w'] eff]|] eqn:T.
    - destruct (gate_open v1 t s q eff) eqn:G.
      + simpl. rewrite nth_error_set_nth_same by (apply nth_error_Some; rewrite Q; discriminate).
        intros E. inversion E. eapply trans_not_start; eauto.
      + simpl. rewrite Q. intros E. inversion E. subst q.
        unfold gate_open in G. destruct v1; simpl in G; discriminate.
    - simpl. rewrite Q. intros E. inversion E. subst q. apply (@trans_start_some c (st_w s)). exact T.
  Qed.

  Lemma step_pcs_other (p : list call) u t (s : state) : t <> u -> nth_error (st_pcs (step p u s)) t = nth_error (st_pcs s) t.
  Proof.
    intros Hne. unfold Lts.step.
    destruct (nth_error p u) as [c|]; [|reflexivity].
    destruct (nth_error (st_pcs s) u) as [q|]; [|reflexivity].
    destruct (trans c q (st_w s)) as [[[q' w'] eff]|]; [|reflexivity].
    destruct (gate_open v1 u s q eff); [|reflexivity].
    simpl. apply nth_error_set_nth_other. congruence.
  Qed.
End StepExt.

Section GenProofs.
  Variable M : Type.
  Variable m_eqb : M -> M -> bool.
  Variable m_empty : M.
  Variable writer : Type.
  Variable w_validate : writer -> option Z.
  Variable w_merge : writer -> M -> M -> M.
  Variable rmask : Type.
  Variable clock_at : Z -> Z.
  Variable str_ltb : string -> string -> bool.
  Variable idfun : option (string -> string).

  Hypothesis m_eqb_eq : forall a b, m_eqb a b = true -> a = b.
  Hypothesis ltb_irrefl : forall a, str_ltb a a = false.
  Hypothesis ltb_trans : forall a b c, str_ltb a b = true -> str_ltb b c = true -> str_ltb a c = true.
  Hypothesis ltb_total : forall a b, str_ltb a b = false -> str_ltb b a = false -> a = b.

  Notation wopts := (wopts M writer).
  Notation vstate := (vstate M).
  Notation cstate := (cstate M).
  Notation call := (call M writer rmask).
  Notation pc := (pc M).
  Notation outcome := (outcome M).
  Notation state := (state M rmask).
  Notation apply_id := (apply_id idfun).
  Notation step := (step m_eqb m_empty w_validate w_merge clock_at str_ltb idfun false false).
  Notation run := (run m_eqb m_empty w_validate w_merge clock_at str_ltb idfun false false).
  Notation replay := (replay m_eqb m_empty w_validate w_merge clock_at str_ltb idfun).
  Notation spec_call := (spec_call m_eqb m_empty w_validate w_merge clock_at str_ltb idfun (rmask := rmask)).
  Notation predicted := (predicted m_eqb m_empty w_merge (rmask := rmask)).
  Notation sorted := (sorted str_ltb).
  Notation is_gen := (is_gen idfun (M := M) (writer := writer) (rmask := rmask)).
  Notation subst_call := (subst_call idfun (M := M) (writer := writer) (rmask := rmask)).
  Notation gstate := (gstate M rmask).

  Variable prog : list call.
  Variable cands : nat -> list string.
  Variable v0 : vstate.
  Variable c0 : cstate.
  Hypothesis c0_sorted : sorted (c_items c0).

  Notation gprog := (gprog idfun prog).
  Notation gstep := (gstep m_eqb m_empty w_validate w_merge clock_at str_ltb idfun false false prog cands).
  Notation grun := (grun m_eqb m_empty w_validate w_merge clock_at str_ltb idfun false false prog cands).
  Notation resolves := (resolves w_validate idfun prog cands).
  Definition g0 : gstate := ginit prog v0 c0.

  (* ---------- the program with the resolved calls substituted ---------- *)
  Lemma nth_subst_from res (l : list call) : forall k t,
    nth_error (subst_from idfun k res l) t = option_map (fun c => subst_call c (res (k + t)%nat)) (nth_error l t).
  Proof.
    induction l as [|c r IH]; intros k t; simpl; [destruct t; reflexivity|].
    destruct t; simpl; [rewrite Nat.add_0_r; reflexivity|].
    rewrite IH. replace (S k + t)%nat with (k + S t)%nat by lia. reflexivity.
  Qed.

  Lemma nth_gprog res t : nth_error (gprog res) t = option_map (fun c => subst_call c (res t)) (nth_error prog t).
  Proof. unfold GenLts.gprog. rewrite nth_subst_from. reflexivity. Qed.

  Lemma length_subst_from res (l : list call) : forall k, List.length (subst_from idfun k res l) = List.length l.
  Proof. induction l as [|c r IH]; intros k; simpl; [reflexivity|]. rewrite IH. reflexivity. Qed.

  Lemma length_gprog res : List.length (gprog res) = List.length prog.
  Proof. apply length_subst_from. Qed.

  Lemma gen_id_from_in cs : forall n (items : list (string * item M)) g,
    gen_id_from idfun cs n items = Some g ->
    In g (firstn n cs) /\ g <> ""%string /\ lookup (apply_id g) items = None.
  Proof.
    induction cs as [|c r IH]; intros n items g H; destruct n; simpl in *; try discriminate.
    destruct (String.eqb_spec c ""); simpl in H.
    - destruct (IH _ _ _ H) as (A & B & C). auto.
    - destruct (lookup (apply_id c) items) eqn:L; simpl in H.
      + destruct (IH _ _ _ H) as (A & B & C). auto.
      + inversion H. subst. auto.
  Qed.

  (* ---------- what a resolution is ---------- *)
  Lemma resolves_spec gs t g o :
    resolves gs t = Some (g, o) ->
    g_res gs t = None /\ nth_error (st_pcs (g_st gs)) t = Some PStart /\
    (exists id0 msg, nth_error prog t = Some (CUpdate id0 msg o) /\ is_gen (CUpdate id0 msg o) = true) /\
    In g (firstn 10 (cands t)) /\ g <> ""%string /\
    lookup (apply_id g) (c_items (w_c (st_w (g_st gs)))) = None.
  Proof.
    unfold GenLts.resolves. intros H.
    destruct (nth_error prog t) as [c|] eqn:P; [|discriminate].
    destruct c as [msg o'|id0 msg o'|id0 o'|ro|ro|id1 ro]; try discriminate.
    destruct (nth_error (st_pcs (g_st gs)) t) as [p|] eqn:Q; [|discriminate].
    destruct p; try discriminate.
    destruct (g_res gs t) eqn:R; [discriminate|].
    destruct (GenLts.is_gen idfun (CUpdate id0 msg o')) eqn:G; [|discriminate].
    destruct (w_validate (wo_writer o')); [discriminate|].
    destruct (gen_id_from idfun (cands t) 10 (c_items (w_c (st_w (g_st gs))))) as [g'|] eqn:GI; [|discriminate].
    inversion H. subst. destruct (gen_id_from_in _ _ _ GI) as (A & B & C).
    repeat split; auto. exists id0, msg. auto.
  Qed.

  Definition res_after (gs : gstate) (t : nat) : nat -> option string :=
    match resolves gs t with Some (g, _) => upd (g_res gs) t (Some g) | None => g_res gs end.

  Lemma gstep_res t gs : g_res (gstep t gs) = res_after gs t.
  Proof. reflexivity. Qed.
  Lemma gstep_st t gs : g_st (gstep t gs) = step (gprog (res_after gs t)) t (g_st gs).
  Proof. reflexivity. Qed.

  Lemma res_after_other gs t u : u <> t -> res_after gs t u = g_res gs u.
  Proof.
    intros Hne. unfold res_after. destruct (resolves gs t) as [[g o]|]; [|reflexivity].
    unfold upd. destruct (Nat.eqb_spec u t); [contradiction|reflexivity].
  Qed.

  Definition id_cb_at (t : nat) : bool :=
    match nth_error prog t with Some (CUpdate _ _ o) => wo_id_cb o | _ => false end.

  (* ---------- the invariant of a run with generated ids ---------- *)
  Record GInv (pre : list nat) (gs : gstate) : Prop := {
    gi_sim : g_st gs = run (gprog (g_res gs)) pre (init (gprog (g_res gs)) v0 c0);
    gi_started : forall t, In t pre -> nth_error prog t <> None -> nth_error (st_pcs (g_st gs)) t <> Some PStart;
    gi_res : forall t g, g_res gs t = Some g ->
               (exists id0 msg o, nth_error prog t = Some (CUpdate id0 msg o) /\ is_gen (CUpdate id0 msg o) = true) /\
               In g (firstn 10 (cands t)) /\ g <> ""%string /\ In t pre;
    gi_ids : forall t, g_ids gs t = match g_res gs t with
                                    | Some g => if id_cb_at t then [g] else []
                                    | None => []
                                    end
  }.

  Lemma ginv_init : GInv [] g0.
  Proof.
    constructor.
    - unfold g0, ginit. simpl. apply init_ext. rewrite length_gprog. reflexivity.
    - intros t [].
    - intros t g H. discriminate H.
    - intros t. reflexivity.
  Qed.

  Lemma run_snoc' (p : list call) pre t (s : state) : run p (pre ++ [t]) s = step p t (run p pre s).
  Proof. unfold Lts.run. rewrite fold_left_app. reflexivity. Qed.

  Lemma ginv_step pre gs t : GInv pre gs -> GInv (pre ++ [t]) (gstep t gs).
  Proof.
    intros I.
    (* a thread that resolves now has not taken a step yet *)
    assert (Hfresh : forall g o, resolves gs t = Some (g, o) -> ~ In t pre).
    { intros g o R Hin. destruct (resolves_spec _ _ R) as (_ & Q & (id0 & msg & P & _) & _).
      apply (gi_started I _ Hin); [rewrite P; discriminate|exact Q]. }
    assert (Hagree : forall u, In u pre -> nth_error (gprog (g_res gs)) u = nth_error (gprog (res_after gs t)) u).
    { intros u Hu. rewrite !nth_gprog. destruct (Nat.eq_dec u t) as [->|Hne].
      - unfold res_after. destruct (resolves gs t) as [[g o]|] eqn:R; [|reflexivity].
        exfalso. eapply Hfresh; eauto.
      - rewrite res_after_other by exact Hne. reflexivity. }
    constructor.
    - rewrite gstep_st, gstep_res, run_snoc'. f_equal. rewrite (gi_sim I).
      rewrite (@init_ext _ _ _ (gprog (g_res gs)) (gprog (res_after gs t))) by (rewrite !length_gprog; reflexivity).
      apply run_ext. exact Hagree.
    - intros u Hu Pu. rewrite gstep_st.
      destruct (Nat.eq_dec u t) as [->|Hne].
      + destruct (nth_error prog t) as [c|] eqn:P; [|congruence].
        eapply step_pc_not_start. rewrite nth_gprog, P. reflexivity.
      + rewrite step_pcs_other by exact Hne. apply in_app_or in Hu. destruct Hu as [Hu|[->|[]]]; [|congruence].
        apply (gi_started I _ Hu Pu).
    - intros u g. rewrite gstep_res. unfold res_after.
      destruct (resolves gs t) as [[g' o]|] eqn:R.
      + unfold upd. destruct (Nat.eqb_spec u t) as [->|Hne].
        * intros E. inversion E. subst g'.
          destruct (resolves_spec _ _ R) as (_ & _ & (id0 & msg & P & G) & A & B & _).
          split; [exists id0, msg, o; auto|]. split; [exact A|]. split; [exact B|]. apply in_or_app. right. left. reflexivity.
        * intros E. destruct (gi_res I _ E) as (A & B & C & D). repeat split; auto. apply in_or_app. left. exact D.
      + intros E. destruct (gi_res I _ E) as (A & B & C & D). repeat split; auto. apply in_or_app. left. exact D.
    - intros u. rewrite gstep_res. unfold res_after. unfold GenLts.gstep. simpl g_ids.
      destruct (resolves gs t) as [[g o]|] eqn:R.
      + destruct (resolves_spec _ _ R) as (Rn & _ & (id0 & msg & P & _) & _).
        unfold upd. destruct (wo_id_cb o) eqn:CB.
        * destruct (Nat.eqb_spec u t) as [->|Hne].
          -- unfold id_cb_at. rewrite P, CB. rewrite (gi_ids I), Rn. reflexivity.
          -- apply (gi_ids I).
        * destruct (Nat.eqb_spec u t) as [->|Hne].
          -- unfold id_cb_at. rewrite P, CB. rewrite (gi_ids I), Rn. reflexivity.
          -- apply (gi_ids I).
      + apply (gi_ids I).
  Qed.

  Lemma grun_snoc pre t gs : grun (pre ++ [t]) gs = gstep t (grun pre gs).
  Proof. unfold GenLts.grun. rewrite fold_left_app. reflexivity. Qed.

  Theorem ginv_run sched : GInv sched (grun sched g0).
  Proof.
    induction sched as [|t pre IH] using rev_ind; [exact ginv_init|].
    rewrite grun_snoc. apply ginv_step. exact IH.
  Qed.

  (* ---------- the reduction: a run with generated ids is the run of the resolved program ---------- *)
  Definition resolved (sched : list nat) : nat -> option string := g_res (grun sched g0).
  Definition rprog (sched : list nat) : list call := gprog (resolved sched).

  Theorem grun_is_run sched :
    g_st (grun sched g0) = run (rprog sched) sched (s0 (rprog sched) v0 c0).
  Proof. apply (gi_sim (ginv_run sched)). Qed.

  (* a thread that has taken a step keeps its resolution (or its lack of one) *)
  Lemma res_stable pre suf : forall u, In u pre -> resolved (pre ++ suf) u = resolved pre u.
  Proof.
    induction suf as [|t r IH] using rev_ind; intros u Hu; [rewrite app_nil_r; reflexivity|].
    unfold resolved in *. rewrite app_assoc, grun_snoc, gstep_res.
    destruct (Nat.eq_dec u t) as [->|Hne].
    - unfold res_after. destruct (resolves (grun (pre ++ r) g0) t) as [[g o]|] eqn:R; [|apply IH; exact Hu].
      exfalso. destruct (resolves_spec _ _ R) as (_ & Q & (id0 & msg & P & _) & _).
      apply (gi_started (ginv_run (pre ++ r)) t); [apply in_or_app; left; exact Hu|rewrite P; discriminate|exact Q].
    - rewrite res_after_other by exact Hne. apply IH. exact Hu.
  Qed.

  (* ... so every prefix of the run is the run of the FINAL resolved program on that prefix *)
  Theorem grun_prefix sched k :
    g_st (grun (firstn k sched) g0) = run (rprog sched) (firstn k sched) (s0 (rprog sched) v0 c0).
  Proof.
    rewrite grun_is_run. unfold s0.
    rewrite (@init_ext _ _ _ (rprog (firstn k sched)) (rprog sched)) by (unfold rprog; rewrite !length_gprog; reflexivity).
    apply run_ext. intros u Hu. unfold rprog. rewrite !nth_gprog.
    pose proof (res_stable (firstn k sched) (skipn k sched) _ Hu) as RS. rewrite firstn_skipn in RS.
    rewrite RS. reflexivity.
  Qed.

  Definition gmem_at (sched : list nat) (k : nat) : vstate * cstate := mem (st_w (g_st (grun (firstn k sched) g0))).

  Lemma gmem_at_eq sched k :
    gmem_at sched k = mem_at m_eqb m_empty w_validate w_merge clock_at str_ltb idfun (rprog sched) v0 c0 sched k.
  Proof. unfold gmem_at, mem_at. rewrite grun_prefix. reflexivity. Qed.

  (* what the resolved program is *)
  Theorem rprog_spec sched t :
    nth_error (rprog sched) t = option_map (fun c => subst_call c (resolved sched t)) (nth_error prog t).
  Proof. apply nth_gprog. Qed.

  Theorem resolved_spec sched t g :
    resolved sched t = Some g ->
    (exists id0 msg o, nth_error prog t = Some (CUpdate id0 msg o) /\ is_gen (CUpdate id0 msg o) = true /\
                       nth_error (rprog sched) t = Some (CUpdate g msg (no_gen o))) /\
    In g (firstn 10 (cands t)) /\ g <> ""%string /\ In t sched.
  Proof.
    intros R. destruct (gi_res (ginv_run sched) _ R) as ((id0 & msg & o & P & G) & A & B & C).
    split; [|auto]. exists id0, msg, o. split; [exact P|]. split; [exact G|].
    rewrite rprog_spec, P. unfold resolved in R |- *. simpl. rewrite R. unfold GenLts.subst_call. rewrite G. reflexivity.
  Qed.

  (* the id callback of a call is invoked exactly once, with the candidate it resolved, and never
     if it resolved none *)
  Theorem id_callback_spec sched t :
    g_ids (grun sched g0) t = match resolved sched t with
                              | Some g => if id_cb_at t then [g] else []
                              | None => []
                              end.
  Proof. apply (gi_ids (ginv_run sched)). Qed.

  (* ---------- linearizability with generated ids ---------- *)
  Theorem gen_linearizable sched :
    let s := g_st (grun sched g0) in
    let P := rprog sched in
    replay P (v0, c0) (map (@wit_tid M) (st_wit s)) = (mem (st_w s), map (@wit_out M) (st_wit s)) /\
    (forall t c p, nth_error P t = Some c -> nth_error (st_pcs s) t = Some p ->
                   map (@wit_out M) (wit_of t (st_wit s)) = olist (predicted c p)) /\
    (forall e, In e (st_wit s) -> nth_error sched (wit_k e) = Some (wit_tid e)) /\
    StronglySorted (fun a b => (wit_k a < wit_k b)%nat) (st_wit s).
  Proof.
    simpl. rewrite grun_is_run. apply linearizable; assumption.
  Qed.

  (* at its linearization step a call -- a generating one as the call of its resolved id -- takes
     exactly the reference's step on the memory of that instant *)
  Theorem gen_linearization_points sched e :
    In e (st_wit (g_st (grun sched g0))) ->
    exists c, nth_error (rprog sched) (wit_tid e) = Some c /\ nth_error sched (wit_k e) = Some (wit_tid e) /\
              spec_call (gmem_at sched (wit_k e)) c = (gmem_at sched (S (wit_k e)), wit_out e).
  Proof.
    rewrite grun_is_run. intros H. rewrite !gmem_at_eq. apply linearization_points; assumption.
  Qed.

  (* an Add with a generated id that succeeds: its id was NOT stored at the instant of its write
     (so the reference, asked for ANY unused id at that instant, may pick this one), and is stored
     with the returned message right after *)
  Theorem gen_add_fresh_at_write sched t id0 msg o g nv :
    nth_error prog t = Some (CUpdate id0 msg o) -> wo_expect_absent o = true -> resolved sched t = Some g ->
    nth_error (st_pcs (g_st (grun sched g0))) t = Some (PDone (OVal (inl nv))) ->
    exists k, nth_error sched k = Some t /\
              lookup (apply_id g) (c_items (snd (gmem_at sched k))) = None /\
              option_map (@it_body M) (lookup (apply_id g) (c_items (snd (gmem_at sched (S k))))) = Some nv.
  Proof.
    intros P EA R Q.
    destruct (resolved_spec _ _ R) as ((id0' & msg' & o' & P' & G & PR) & _).
    rewrite P in P'. inversion P'. subst id0' msg' o'. clear P'.
    rewrite grun_is_run in Q.
    destruct (@returned_is_linearized _ m_eqb m_empty _ w_validate w_merge _ clock_at str_ltb idfun m_eqb_eq
                ltb_irrefl ltb_trans ltb_total (rprog sched) v0 c0 c0_sorted sched t _ _ PR Q) as [k W].
    apply wit_of_single in W.
    destruct (@linearization_points _ m_eqb m_empty _ w_validate w_merge _ clock_at str_ltb idfun m_eqb_eq
                ltb_irrefl ltb_trans ltb_total (rprog sched) v0 c0 c0_sorted sched _ W) as (c & P2 & Rk & HS).
    unfold Lts.wit_tid, Lts.wit_k, Lts.wit_out in P2, Rk, HS. simpl fst in P2, Rk, HS. simpl snd in P2, Rk, HS.
    rewrite PR in P2. inversion P2. subst c.
    exists k. split; [exact Rk|]. rewrite !gmem_at_eq.
    assert (EA' : wo_expect_absent (no_gen o) = true) by exact EA.
    destruct (@add_success_absent _ m_eqb m_empty _ w_validate w_merge _ clock_at str_ltb idfun _ _ _ _ _ _ EA' HS) as [A _].
    split; [exact A|].
    remember (mem_at m_eqb m_empty w_validate w_merge clock_at str_ltb idfun (rprog sched) v0 c0 sched k) as mk.
    remember (mem_at m_eqb m_empty w_validate w_merge clock_at str_ltb idfun (rprog sched) v0 c0 sched (S k)) as mk'.
    rewrite spec_call_ev_fst in HS. simpl in HS.
    destruct (upd_ref m_eqb m_empty w_validate w_merge clock_at str_ltb idfun (snd mk) g msg (no_gen o)) as [[c' r] ev] eqn:U.
    simpl in HS.
    assert (E : (fst mk, c') = mk' /\ r = inl nv) by (inversion HS; auto). destruct E as [E ->].
    destruct (upd_ref_ok _ _ _ _ _ _ _ _ _ _ _ U) as [_ V].
    rewrite <- E. exact V.
  Qed.
  (* ---------- generated ids never collide ---------- *)
  Notation not_delete := (@not_delete M writer rmask).

  Lemma rprog_not_delete sched :
    (forall t c, nth_error prog t = Some c -> not_delete c) ->
    forall t c, nth_error (rprog sched) t = Some c -> not_delete c.
  Proof.
    intros ND t c. rewrite rprog_spec. destruct (nth_error prog t) as [c1|] eqn:P; [|discriminate].
    simpl. intros E. inversion E. subst c. specialize (ND _ _ P).
    unfold GenLts.subst_call. destruct (resolved sched t); [|exact ND].
    destruct c1; try exact ND. destruct (GenLts.is_gen idfun (CUpdate id msg o)); exact I.
  Qed.

  (* two Adds with generated ids never both succeed under one stored id (no Deletes in the program) *)
  Theorem gen_ids_never_collide sched t1 t2 id1 id2 msg1 msg2 o1 o2 g1 g2 nv1 nv2 :
    (forall t c, nth_error prog t = Some c -> not_delete c) ->
    t1 <> t2 ->
    nth_error prog t1 = Some (CUpdate id1 msg1 o1) -> nth_error prog t2 = Some (CUpdate id2 msg2 o2) ->
    wo_expect_absent o1 = true -> wo_expect_absent o2 = true ->
    resolved sched t1 = Some g1 -> resolved sched t2 = Some g2 ->
    nth_error (st_pcs (g_st (grun sched g0))) t1 = Some (PDone (OVal (inl nv1))) ->
    nth_error (st_pcs (g_st (grun sched g0))) t2 = Some (PDone (OVal (inl nv2))) ->
    apply_id g1 <> apply_id g2.
  Proof.
    intros ND Hne P1 P2 E1 E2 R1 R2 Q1 Q2 Eid.
    destruct (resolved_spec _ _ R1) as ((i1 & m1 & p1 & P1' & _ & PR1) & _).
    destruct (resolved_spec _ _ R2) as ((i2 & m2 & p2 & P2' & _ & PR2) & _).
    rewrite P1 in P1'. inversion P1'. subst. rewrite P2 in P2'. inversion P2'. subst.
    rewrite grun_is_run in Q1, Q2.
    eapply (@adds_at_most_one _ m_eqb m_empty _ w_validate w_merge _ clock_at str_ltb idfun m_eqb_eq
              ltb_irrefl ltb_trans ltb_total (rprog sched) v0 c0 c0_sorted (rprog_not_delete sched ND) sched t1 t2);
      eauto.
  Qed.

  (* with Deletes in the program: if two successful Adds with generated ids were stored under one
     id, a successful Delete of that id is linearized between them *)
  Theorem gen_ids_separated_by_delete sched t1 t2 id1 id2 msg1 msg2 o1 o2 g1 g2 nv1 nv2 k1 k2 :
    nth_error prog t1 = Some (CUpdate id1 msg1 o1) -> nth_error prog t2 = Some (CUpdate id2 msg2 o2) ->
    wo_expect_absent o2 = true ->
    resolved sched t1 = Some g1 -> resolved sched t2 = Some g2 -> apply_id g1 = apply_id g2 ->
    In (t1, OVal (inl nv1), k1) (st_wit (g_st (grun sched g0))) ->
    In (t2, OVal (inl nv2), k2) (st_wit (g_st (grun sched g0))) -> (k1 < k2)%nat ->
    exists k3 t3 id3 o3 b, (k1 < k3 < k2)%nat /\ nth_error prog t3 = Some (CDelete id3 o3) /\
                           apply_id id3 = apply_id g1 /\
                           In (t3, ODel (Some b) None, k3) (st_wit (g_st (grun sched g0))).
  Proof.
    intros P1 P2 E2 R1 R2 Eid W1 W2 Hlt.
    destruct (resolved_spec _ _ R1) as ((i1 & m1 & p1 & P1' & _ & PR1) & _).
    destruct (resolved_spec _ _ R2) as ((i2 & m2 & p2 & P2' & _ & PR2) & _).
    rewrite P1 in P1'. inversion P1'. subst. rewrite P2 in P2'. inversion P2'. subst.
    rewrite grun_is_run in W1, W2 |- *.
    assert (E2' : wo_expect_absent (no_gen p2) = true) by exact E2.
    destruct (@adds_separated_by_delete _ m_eqb m_empty _ w_validate w_merge _ clock_at str_ltb idfun m_eqb_eq
                ltb_irrefl ltb_trans ltb_total (rprog sched) v0 c0 c0_sorted sched t1 t2 _ _ _ _ _ _ _ _ _ _
                PR1 PR2 Eid E2' W1 W2 Hlt) as (k3 & t3 & id3 & o3 & b & Hk & P3 & E3 & W3).
    exists k3, t3, id3, o3, b. split; [exact Hk|]. split; [|auto].
    rewrite rprog_spec in P3. destruct (nth_error prog t3) as [c3|]; [|discriminate].
    simpl in P3. unfold GenLts.subst_call in P3. destruct (resolved sched t3).
    - destruct c3; try (inversion P3; subst; reflexivity).
      destruct (GenLts.is_gen idfun (CUpdate id msg o)); discriminate.
    - destruct c3; inversion P3; reflexivity.
  Qed.
End GenProofs.
