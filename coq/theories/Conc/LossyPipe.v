(* Subscribers WITHOUT backpressure in the transition system, for an ARBITRARY reader pace (C03).

   Collection.Pull(WithBackpressure(false)) is a chain of goroutines (collection.go, backpressure.go):

     bus listener -> changesAfter (drops the changes the snapshot shows: Lts.cs_skip)
                  -> mergeCollectionExcess   -- Excess/MergeExcess.v (C09's model, REUSED as it is)
                  -> Pull's goroutine: first the seeds, then `range emit`: include, read mask,
                                       equivalence; holds ONE change, blocked on `send <- change`
                  [-> PullID's goroutine: keeps the changes of its id, ends at a REMOVE; holds ONE
                                       ValueChange, blocked on its own `send`]
                  -> the consumer.

   A goroutine blocked on an unbuffered send holds the change it has taken ("slot"); as soon as the
   slot is free it takes the next one from its source.  The merger is receptive at all times and
   merges what arrives per id.  The raw deliveries are those of the LTS subscriber (Lts.cs_evs,
   i.e. AFTER the commit-number filter); this file is a layer on top of Lts.step: a schedule entry
   is either a thread step (SThread t = Lts.step t, followed by handing the new raw deliveries to
   the pipelines) or ONE receive of the consumer of subscriber t (SRecv t), which takes the change
   offered, if any.  Every placement of the SRecv entries is a reader pace.

   The merger works on the opaque tokens of Excess/Change.v: ids and values are mapped by
   id_tok / val_tok on the way in and back by id_of / val_of on the way out (the code copies
   pointers).  Model only, no proofs. *)
From SC Require Import Base.Prelude Resource.Impl Resource.Pull Excess.Change Excess.MergeExcess Conc.Lts.

Set Implicit Arguments.

Section LossyPipe.
  Variable M : Type.
  Variable rmask : Type.
  Variable r_filter : rmask -> M -> M.
  Variable equiv : option (option M -> option M -> bool).
  Variable id_tok : string -> Z.
  Variable id_of : Z -> string.
  Variable val_tok : M -> Z.
  Variable val_of : Z -> option M.

  Notation ropts := (ropts M rmask).
  Notation cchange := (cchange M).
  Notation vchange := (vchange M).
  Notation cevent := (cevent M).

  (* a change as the consumer of a lossy subscription sees it: the kind is the wire number
     (1 ADD, 2 UPDATE, 3 REMOVE, 4 REPLACE -- REPLACE only ever comes out of the merger) *)
  Record lchange := mkLC {
    lc_id : string; lc_time : Z; lc_kind : Z; lc_old : option M; lc_new : option M;
    lc_seed : bool; lc_last : bool
  }.

  Definition kind_z (k : kind) : Z := match k with KAdd => 1 | KUpdate => 2 | KRemove => 3 end.

  Definition of_cc (c : cchange) : lchange :=
    mkLC (cc_id c) (cc_time c) (kind_z (cc_kind c)) (cc_old c) (cc_new c) (cc_seed c) (cc_last_seed c).

  Definition enc (c : cchange) : change :=
    mkChange (id_tok (cc_id c)) (kind_z (cc_kind c)) (option_map val_tok (cc_old c))
             (option_map val_tok (cc_new c)) (cc_time c) (cc_seed c) (cc_last_seed c).

  Definition obind {A B} (f : A -> option B) (o : option A) : option B :=
    match o with Some a => f a | None => None end.

  Definition dec (c : change) : lchange :=
    mkLC (id_of (cid c)) (ctime c) (ckind c) (obind val_of (cold c)) (obind val_of (cnew c)) (cseed c) (clast c).

  (* change.go include, on a change of any kind (it only looks at which values are present) *)
  Definition l_include (inc : option (string -> option M -> bool)) (c : lchange) : option lchange :=
    match inc with
    | None => Some c
    | Some f =>
        let oi := match lc_old c with Some _ => f (lc_id c) (lc_old c) | None => false end in
        let ni := match lc_new c with Some _ => f (lc_id c) (lc_new c) | None => false end in
        if Bool.eqb oi ni then (if ni then Some c else None)
        else if ni then Some (mkLC (lc_id c) (lc_time c) 1 None (lc_new c) (lc_seed c) false)
        else Some (mkLC (lc_id c) (lc_time c) 3 (lc_old c) None false false)
    end.

  Definition l_filter (ro : ropts) (c : lchange) : lchange :=
    mkLC (lc_id c) (lc_time c) (lc_kind c) (option_map (filt r_filter ro) (lc_old c))
         (option_map (filt r_filter ro) (lc_new c)) (lc_seed c) (lc_last c).

  (* the body of Pull's `for event := range emit`: None = `continue` *)
  Definition post (ro : ropts) (c : lchange) : option lchange :=
    match l_include (ro_include ro) c with
    | None => None
    | Some c1 =>
        let c2 := l_filter ro c1 in
        if match equiv with Some cmp => cmp (lc_old c2) (lc_new c2) | None => false end then None else Some c2
    end.

  Record lsub := mkLS {
    ls_tid : nat;
    ls_ro : ropts;
    ls_pid : option string;         (* Some id: Collection.PullID(id) over this Pull *)
    ls_seen : nat;                  (* raw deliveries of the LTS subscriber already handed to the merger *)
    ls_seeds : list lchange;        (* seeds Pull's goroutine still has to offer after the one in its slot *)
    ls_m : mstate;                  (* mergeCollectionExcess *)
    ls_slot : option lchange;       (* what Pull's goroutine is offering on its channel *)
    ls_pslot : option vchange;      (* PullID: what its goroutine is offering *)
    ls_closed : bool;               (* PullID has ended (a REMOVE of its item): everything is torn down *)
    ls_sent : list change;          (* ghost: what was handed to the merger, in order *)
    ls_gotm : list change;          (* ghost: what Pull's goroutine has taken from the merger, in order *)
    ls_gotc : list lchange;         (* what has been taken from Pull's channel (by the consumer, or by PullID's goroutine) *)
    ls_gotv : list vchange          (* PullID: what the consumer has taken *)
  }.

  Definition upd_pull (l : lsub) seeds m slot gotm : lsub :=
    mkLS (ls_tid l) (ls_ro l) (ls_pid l) (ls_seen l) seeds m slot (ls_pslot l) (ls_closed l) (ls_sent l) gotm
         (ls_gotc l) (ls_gotv l).

  (* Pull's goroutine ranging over emit: take from the merger until a change survives `post` *)
  Fixpoint pump_m (fuel : nat) (ro : ropts) (m : mstate) (gotm : list change) : mstate * list change * option lchange :=
    match fuel with
    | O => (m, gotm, None)
    | S f =>
        match m_step m Recv with
        | (m', OGot c) =>
            match post ro (dec c) with
            | Some c' => (m', gotm ++ [c], Some c')
            | None => pump_m f ro m' (gotm ++ [c])
            end
        | _ => (m, gotm, None)
        end
    end.

  (* Pull's goroutine refills its slot: the next seed, else the next surviving merged change *)
  Definition pump (l : lsub) : lsub :=
    match ls_slot l with
    | Some _ => l
    | None =>
        match ls_seeds l with
        | s :: r => upd_pull l r (ls_m l) (Some s) (ls_gotm l)
        | [] =>
            let '(m', gotm', o) := pump_m (S (List.length (queue (ls_m l)))) (ls_ro l) (ls_m l) (ls_gotm l) in
            upd_pull l [] m' o gotm'
        end
    end.

  (* something takes the change Pull's goroutine is offering *)
  Definition take (l : lsub) : option lchange * lsub :=
    match ls_slot l with
    | None => (None, l)
    | Some c =>
        (Some c, pump (mkLS (ls_tid l) (ls_ro l) (ls_pid l) (ls_seen l) (ls_seeds l) (ls_m l) None (ls_pslot l)
                            (ls_closed l) (ls_sent l) (ls_gotm l) (ls_gotc l ++ [c]) (ls_gotv l)))
    end.

  Definition set_pid (l : lsub) pslot closed gotv : lsub :=
    mkLS (ls_tid l) (ls_ro l) (ls_pid l) (ls_seen l) (ls_seeds l) (ls_m l) (ls_slot l) pslot closed (ls_sent l)
         (ls_gotm l) (ls_gotc l) gotv.

  (* PullID's goroutine: `for change := range c.Pull(...)` until it holds a change of its id *)
  Fixpoint ppump (fuel : nat) (id : string) (l : lsub) : lsub :=
    match fuel with
    | O => l
    | S f =>
        if ls_closed l then l else
        match ls_pslot l with
        | Some _ => l
        | None =>
            match take l with
            | (None, _) => l
            | (Some c, l1) =>
                if negb (String.eqb (lc_id c) id) then ppump f id l1
                else if lc_kind c =? 3 then set_pid l1 None true (ls_gotv l1)
                else match lc_new c with
                     | None => set_pid l1 None true (ls_gotv l1)
                     | Some v => set_pid l1 (Some (mkVC v (lc_time c) (lc_seed c) (lc_last c))) false (ls_gotv l1)
                     end
            end
        end
    end.

  Definition pfuel (l : lsub) : nat := S (S (List.length (ls_seeds l) + List.length (queue (ls_m l)))).

  (* every goroutine of the chain runs until it blocks *)
  Definition norm (l : lsub) : lsub :=
    let l1 := pump l in
    match ls_pid l1 with
    | None => l1
    | Some id => ppump (pfuel l1) id l1
    end.

  (* the subscription is opened on snapshot [at_] *)
  Definition open_sub (tid : nat) (ro : ropts) (pid : option string) (at_ : cstate M) : lsub :=
    norm (mkLS tid ro pid 0
               (if ro_updates_only ro then [] else map of_cc (seeds r_filter ro (included ro (c_items at_))))
               m_init None None false [] [] [] []).

  (* one raw delivery of the bus *)
  Definition deliver (l : lsub) (e : cevent) : lsub :=
    if ls_closed l then l else
    let c := enc (of_event e) in
    norm (mkLS (ls_tid l) (ls_ro l) (ls_pid l) (ls_seen l) (ls_seeds l) (fst (m_step (ls_m l) (Send c))) (ls_slot l)
               (ls_pslot l) (ls_closed l) (ls_sent l ++ [c]) (ls_gotm l) (ls_gotc l) (ls_gotv l)).

  (* ONE receive of the consumer: the change offered, if any *)
  Definition recv (l : lsub) : lsub :=
    match ls_pid l with
    | None => snd (take l)
    | Some id =>
        match ls_pslot l with
        | None => l
        | Some v => let l1 := set_pid l None (ls_closed l) (ls_gotv l ++ [v]) in ppump (pfuel l1) id l1
        end
    end.

  Definition offering (l : lsub) : bool :=
    match ls_pid l with
    | None => match ls_slot l with Some _ => true | None => false end
    | Some _ => match ls_pslot l with Some _ => true | None => false end
    end.

  (* "a reader that keeps receiving": receive until nothing is offered *)
  Fixpoint drain (fuel : nat) (l : lsub) : lsub :=
    match fuel with
    | O => l
    | S f => if offering l then drain f (recv l) else l
    end.
  Definition drained (l : lsub) : lsub := drain (S (pfuel l)) l.

  (* ---- the layer over the transition system ---- *)
  Variable writer : Type.
  Variable m_eqb : M -> M -> bool.
  Variable m_empty : M.
  Variable w_validate : writer -> option Z.
  Variable w_merge : writer -> M -> M -> M.
  Variable clock_at : Z -> Z.
  Variable str_ltb : string -> string -> bool.
  Variable idfun : option (string -> string).
  Variable v0 : bool.
  Variable v1 : bool.
  Variable prog : list (call M writer rmask).
  (* which subscriber threads are without backpressure, and over which id (PullID) *)
  Variable lossy_of : nat -> option (option string).

  Notation state := (state M rmask).
  Notation step := (step m_eqb m_empty w_validate w_merge clock_at str_ltb idfun v0 v1 prog).

  Inductive sstep := SThread (t : nat) | SRecv (t : nat).

  (* hand the new raw deliveries of its LTS subscriber to the pipeline *)
  Definition sync_one (s : state) (l : lsub) : lsub :=
    match find (fun u => Nat.eqb (cs_tid u) (ls_tid l)) (st_csubs s) with
    | None => l
    | Some u =>
        let l1 := mkLS (ls_tid l) (ls_ro l) (ls_pid l) (List.length (cs_evs u)) (ls_seeds l) (ls_m l) (ls_slot l)
                       (ls_pslot l) (ls_closed l) (ls_sent l) (ls_gotm l) (ls_gotc l) (ls_gotv l) in
        fold_left deliver (skipn (ls_seen l) (cs_evs u)) l1
    end.

  Definition open_new (s : state) (ls : list lsub) : list lsub :=
    ls ++ flat_map (fun u =>
                      match lossy_of (cs_tid u) with
                      | Some pid =>
                          if existsb (fun l => Nat.eqb (ls_tid l) (cs_tid u)) ls then []
                          else [open_sub (cs_tid u) (cs_ro u) pid (cs_at u)]
                      | None => []
                      end) (st_csubs s).

  Definition lstep (st : state * list lsub) (x : sstep) : state * list lsub :=
    match x with
    | SThread t => let s' := step t (fst st) in (s', open_new s' (map (sync_one s') (snd st)))
    | SRecv t => (fst st, map (fun l => if Nat.eqb (ls_tid l) t then recv l else l) (snd st))
    end.

  Definition lrun (sched : list sstep) (st : state * list lsub) : state * list lsub := fold_left lstep sched st.

  Definition threads_of (sched : list sstep) : list nat :=
    flat_map (fun x => match x with SThread t => [t] | SRecv _ => [] end) sched.

  (* ---- what the subscriber believes: the fold of everything taken from Pull's channel, in the
     token domain of Excess/Change.v ---- *)
  Definition lenc (c : lchange) : change :=
    mkChange (id_tok (lc_id c)) (lc_kind c) (option_map val_tok (lc_old c)) (option_map val_tok (lc_new c))
             (lc_time c) (lc_seed c) (lc_last c).
  Definition lview (l : lsub) : view := fold_view (map lenc (ls_gotc l)) empty_view.
End LossyPipe.

