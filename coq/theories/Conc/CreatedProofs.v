(* The created callback (resource.WithCreatedCallback) under concurrency: how often it is invoked
   (Conc/GenLts.v g_created), for every program, candidate assignment and schedule. *)
From SC Require Import Base.Prelude Resource.Impl Resource.Spec Resource.Pull Conc.Lts Conc.LtsProofs
  Conc.GenLts Conc.GenProofs.

Section CreatedProofs.
  Variable M : Type.
  Variable m_eqb : M -> M -> bool.
  Variable m_empty : M.
  Variable writer : Type.
  Variable w_validate : writer -> option Z.
  Variable w_merge : writer -> M -> M -> M.
  Variable rmask : Type.
  Variable clock_at : Z -> Z.
  Variable str_ltb : string -> string -> bool.
  Variable idfun : option (string -> string).
  Variable v1 : bool.

  Notation call := (call M writer rmask).
  Notation pc := (pc M).
  Notation state := (state M rmask).
  Notation gstate := (gstate M rmask).
  Notation step := (step m_eqb m_empty w_validate w_merge clock_at str_ltb idfun false v1).
  Notation trans := (trans m_eqb m_empty w_validate w_merge clock_at str_ltb idfun false (rmask := rmask)).
  Notation gate_open := (gate_open (M := M) (rmask := rmask) v1).
  Notation subst_call := (subst_call idfun (M := M) (writer := writer) (rmask := rmask)).
  Notation allocates := (allocates m_eqb m_empty w_validate w_merge idfun false (rmask := rmask)).

  Variable prog : list call.
  Variable cands : nat -> list string.
  Variable v0 : vstate M.
  Variable c0 : cstate M.

  Notation gprog := (gprog idfun prog).
  Notation gstep := (gstep m_eqb m_empty w_validate w_merge clock_at str_ltb idfun false v1 prog cands).
  Notation grun := (grun m_eqb m_empty w_validate w_merge clock_at str_ltb idfun false v1 prog cands).

  Definition cb_at (t : nat) : bool :=
    match nth_error prog t with Some c => created_cb_of c | None => false end.

  Definition is_add (k : kind) : bool := match k with KAdd => true | _ => false end.

  (* the count of a thread, read off where it is parked: a call that holds the provisional `created`
     message (first read of an absent id, or the re-read found the item gone) has invoked the callback
     once; a call that has saved has invoked it once exactly if what it committed is an ADD *)
  Definition created_ok (cb : bool) (p : pc) (n : Z) : Prop :=
    match p with
    | PRead _ cr => n = if cb && cr then 1 else 0
    | PSavedC _ e => n = if cb && is_add (ce_kind e) then 1 else 0
    | PDone _ => 0 <= n <= 1 /\ (cb = false -> n = 0)
    | _ => n = 0
    end.

  Lemma created_ok_false p n : created_ok false p n -> n = 0.
  Proof. destruct p; simpl; auto. intros [_ H]. apply H. reflexivity. Qed.
  Lemma created_ok_false_zero p : created_ok false p 0.
  Proof. destruct p; simpl; try reflexivity. split; [lia|reflexivity]. Qed.

  Definition CInv (gs : gstate) : Prop :=
    forall t, match nth_error (st_pcs (g_st gs)) t with
              | Some p => created_ok (cb_at t) p (g_created gs t)
              | None => g_created gs t = 0
              end.

  Lemma created_cb_subst (c : call) r : created_cb_of (subst_call c r) = created_cb_of c.
  Proof.
    unfold GenLts.subst_call. destruct r as [g|]; [|reflexivity]. destruct c; try reflexivity.
    destruct (is_gen idfun (CUpdate id msg o)); reflexivity.
  Qed.

  Lemma cb_gprog res t : match nth_error (gprog res) t with Some c => created_cb_of c | None => false end = cb_at t.
  Proof.
    rewrite nth_gprog. unfold cb_at. destruct (nth_error prog t) as [c|]; simpl; [apply created_cb_subst|reflexivity].
  Qed.

  (* where the stepping thread is parked afterwards *)
  Lemma step_pc_self (P : list call) t (s : state) c p :
    nth_error P t = Some c -> nth_error (st_pcs s) t = Some p ->
    nth_error (st_pcs (step P t s)) t =
    Some (match trans c p (st_w s) with
          | Some (p', _, eff) => if gate_open t s p eff then p' else p
          | None => p
          end).
  Proof.
    intros Hc Hp. unfold Lts.step. rewrite Hc, Hp.
    destruct (trans c p (st_w s)) as [[[p' w'] eff]|]; [|simpl; exact Hp].
    destruct (gate_open t s p eff); [|simpl; exact Hp].
    simpl. apply nth_error_set_nth_same. apply nth_error_Some. rewrite Hp. discriminate.
  Qed.

  Lemma step_pcs_none (P : list call) t u (s : state) :
    nth_error (st_pcs s) u = None -> nth_error (st_pcs (step P t s)) u = None.
  Proof.
    intros Hu. destruct (Nat.eq_dec u t) as [->|Hne].
    - unfold Lts.step. rewrite Hu. destruct (nth_error P t); exact Hu.
    - rewrite (step_pcs_other m_eqb m_empty w_validate w_merge clock_at str_ltb idfun false v1 P) by exact Hne. exact Hu.
  Qed.

  Lemma step_no_call (P : list call) t (s : state) : nth_error P t = None -> st_pcs (step P t s) = st_pcs s.
  Proof. intros H. unfold Lts.step. rewrite H. reflexivity. Qed.

  Lemma gstep_created_other t u gs : u <> t -> g_created (gstep t gs) u = g_created gs u.
  Proof.
    intros Hne. unfold GenLts.gstep. simpl g_created.
    destruct (nth_error _ t) as [c|]; [|reflexivity]. destruct (nth_error (st_pcs (g_st gs)) t) as [p|]; [|reflexivity].
    destruct (created_cb_of c && _); [|reflexivity]. unfold upd. destruct (Nat.eqb_spec u t); [contradiction|reflexivity].
  Qed.

  Lemma cinv_init : CInv (ginit prog v0 c0).
  Proof.
    intros t. unfold ginit, init. simpl. rewrite nth_error_map. destruct (nth_error prog t); simpl; reflexivity.
  Qed.

  Lemma cget_inr_false (o : wopts M writer) id items code cr :
    c_get_fn m_empty false o id false items = (inr code, cr) -> cr = false.
  Proof.
    unfold c_get_fn. destruct (lookup id items).
    - destruct (wo_expect_absent o); intros H; inversion H; reflexivity.
    - destruct (wo_create o); intros H; inversion H; reflexivity.
  Qed.

  Lemma cget_created_true (o : wopts M writer) id items r cr :
    c_get_fn m_empty false o id true items = (r, cr) -> cr = true.
  Proof. unfold c_get_fn. destruct (lookup id items); intros H; inversion H; reflexivity. Qed.

  Lemma gate_start t (s : state) eff : gate_open t s PStart eff = true.
  Proof. unfold Lts.gate_open. destruct v1; reflexivity. Qed.
  Lemma gate_read t (s : state) old cr eff : gate_open t s (PRead old cr) eff = true.
  Proof. unfold Lts.gate_open. destruct v1; reflexivity. Qed.

  Definition res_now (gs : gstate) (t : nat) : nat -> option string :=
    match resolves w_validate idfun prog cands gs t with Some (g, _) => upd (g_res gs) t (Some g) | None => g_res gs end.
  Lemma gstep_st' t gs : g_st (gstep t gs) = step (gprog (res_now gs t)) t (g_st gs).
  Proof. reflexivity. Qed.

  Lemma cinv_step t gs : CInv gs -> CInv (gstep t gs).
  Proof.
    intros I u. destruct (Nat.eq_dec u t) as [->|Hne].
    2:{ rewrite gstep_created_other by exact Hne. rewrite gstep_st'.
        rewrite (step_pcs_other m_eqb m_empty w_validate w_merge clock_at str_ltb idfun false v1) by exact Hne. apply I. }
    specialize (I t). rewrite gstep_st'.
    set (res' := res_now gs t).
    assert (Ecr : g_created (gstep t gs) t =
                  match nth_error (gprog res') t, nth_error (st_pcs (g_st gs)) t with
                  | Some c, Some p => if created_cb_of c && allocates c p (c_items (w_c (st_w (g_st gs))))
                                      then g_created gs t + 1 else g_created gs t
                  | _, _ => g_created gs t
                  end).
    { unfold GenLts.gstep. simpl g_created. unfold res', res_now.
      destruct (nth_error (gprog _) t) as [c|]; [|reflexivity].
      destruct (nth_error (st_pcs (g_st gs)) t) as [p|]; [|reflexivity].
      destruct (created_cb_of c && _); [|reflexivity]. unfold upd. rewrite Nat.eqb_refl. reflexivity. }
    rewrite Ecr. clear Ecr.
    pose proof (cb_gprog res' t) as Hcb.
    destruct (nth_error (st_pcs (g_st gs)) t) as [p|] eqn:Hp.
    2:{ rewrite step_pcs_none by exact Hp. destruct (nth_error (gprog res') t); exact I. }
    destruct (nth_error (gprog res') t) as [c|] eqn:Hc.
    2:{ rewrite step_no_call by exact Hc. rewrite Hp. exact I. }
    rewrite (step_pc_self _ _ _ _ _ Hc Hp). rewrite <- Hcb in I |- *. clear Hcb.
    set (items := c_items (w_c (st_w (g_st gs)))).
    destruct c as [msg o|id0 msg o|id0 o|ro|ro|id0 ro].
    (* calls other than Update never count: no created callback *)
    1,3,4,5,6: (simpl created_cb_of in *; simpl andb; cbv iota; rewrite (created_ok_false _ _ I); apply created_ok_false_zero).
    set (cb := created_cb_of (CUpdate id0 msg o)) in *. set (n := g_created gs t) in *.
    (* Collection.Update *)
    destruct p as [|old cr|nv e|nv e|seen k|r|]; simpl in I.
    - (* PStart *)
      subst n. rewrite I. unfold GenLts.allocates, Lts.trans.
      destruct (w_validate (wo_writer o)) as [code|].
      + rewrite andb_false_r. rewrite ?gate_start, ?gate_read; simpl. split; [lia|reflexivity].
      + unfold GenLts.is_gen.
        destruct (String.eqb (apply_id idfun id0) "" && wo_gen_id o).
        * rewrite andb_false_r. rewrite ?gate_start, ?gate_read; simpl. split; [lia|reflexivity].
        * destruct (c_get_fn m_empty false o (apply_id idfun id0) false items) as [[b|code] cr] eqn:G; fold items; rewrite G; simpl snd.
          -- rewrite ?gate_start, ?gate_read; simpl. destruct (cb && cr); reflexivity.
          -- rewrite (cget_inr_false _ _ _ _ _ G). rewrite andb_false_r. rewrite ?gate_start, ?gate_read; simpl. split; [lia|reflexivity].
    - (* PRead *)
      unfold GenLts.allocates, Lts.trans.
      destruct (change_fn m_eqb m_empty w_merge o msg old) as [nv|code].
      2:{ destruct cr; rewrite andb_false_r, gate_read; simpl; rewrite I; destruct cb; simpl; split; try lia; intro; try discriminate; reflexivity. }
      fold items.
      destruct cr.
      + (* the provisional message is held already: nothing is allocated again *)
        rewrite andb_false_r. rewrite andb_true_r in I.
        destruct (c_get_fn m_empty false o (apply_id idfun id0) true items) as [[b|code] cr'] eqn:G.
        * rewrite (cget_created_true _ _ _ _ _ G).
          destruct (om_eqb m_eqb old (Some b)).
          -- destruct (update_time clock_at o (c_reads (w_c (st_w (g_st gs))))) as [tm reads]. rewrite ?gate_start, ?gate_read; simpl.
             rewrite andb_true_r. exact I.
          -- rewrite ?gate_start, ?gate_read; simpl. rewrite I. destruct cb; split; try lia; intros; try discriminate; reflexivity.
        * rewrite ?gate_start, ?gate_read; simpl. rewrite I. destruct cb; split; try lia; intros; try discriminate; reflexivity.
      + rewrite andb_false_r in I.
        destruct (c_get_fn m_empty false o (apply_id idfun id0) false items) as [[b|code] cr'] eqn:G; simpl snd.
        * destruct (om_eqb m_eqb old (Some b)).
          -- destruct (update_time clock_at o (c_reads (w_c (st_w (g_st gs))))) as [tm reads]. rewrite ?gate_start, ?gate_read; simpl.
             rewrite I. destruct cr'; rewrite ?gate_start, ?gate_read; simpl; destruct cb; reflexivity.
          -- rewrite ?gate_start, ?gate_read; simpl. rewrite I. destruct cb, cr'; rewrite ?gate_start, ?gate_read; simpl; split; try lia; intros; try discriminate; reflexivity.
        * rewrite ?gate_start, ?gate_read; simpl. rewrite I. rewrite (cget_inr_false _ _ _ _ _ G). rewrite andb_false_r. split; [lia|reflexivity].
    - (* PSavedV: not a parking place of an Update *)
      simpl. rewrite andb_false_r. exact I.
    - (* PSavedC: publish, or wait for the turnstile *)
      unfold GenLts.allocates. rewrite andb_false_r. unfold Lts.trans.
      destruct (gate_open t (g_st gs) (PSavedC nv e) (EPubC e)); simpl; [|exact I].
      rewrite I. destruct (cb && is_add (ce_kind e)) eqn:E; split; try lia; intros Hf; try reflexivity.
      rewrite Hf in E. discriminate.
    - simpl. rewrite andb_false_r. exact I.
    - simpl. rewrite andb_false_r. exact I.
    - simpl. rewrite andb_false_r. exact I.
  Qed.

  Lemma grun_snoc' pre t gs : grun (pre ++ [t]) gs = gstep t (grun pre gs).
  Proof. unfold GenLts.grun. rewrite fold_left_app. reflexivity. Qed.

  Theorem cinv_run sched : CInv (grun sched (ginit prog v0 c0)).
  Proof.
    induction sched as [|t pre IH] using rev_ind; [exact cinv_init|].
    rewrite grun_snoc'. apply cinv_step. exact IH.
  Qed.

  (* read off the invariant: at most one invocation per call, none without the option; while the call
     holds the provisional message it has invoked it exactly once; once it has saved, exactly once if what
     it committed (and will publish) is an ADD and not at all if it is an UPDATE *)
  Theorem created_count sched t :
    let gs := grun sched (ginit prog v0 c0) in
    0 <= g_created gs t <= 1 /\
    (cb_at t = false -> g_created gs t = 0) /\
    (forall old cr, nth_error (st_pcs (g_st gs)) t = Some (PRead old cr) -> cb_at t = true ->
                    (g_created gs t = 1 <-> cr = true)) /\
    (forall nv e, nth_error (st_pcs (g_st gs)) t = Some (PSavedC nv e) -> cb_at t = true ->
                  (g_created gs t = 1 <-> ce_kind e = KAdd)).
  Proof.
    intros gs. pose proof (cinv_run sched t) as I. fold gs in I.
    destruct (nth_error (st_pcs (g_st gs)) t) as [p|] eqn:Hp.
    2:{ rewrite I. repeat split; try lia; intros; discriminate. }
    destruct (cb_at t) eqn:CB.
    2:{ rewrite (created_ok_false _ _ I). repeat split; try lia; intros; discriminate. }
    destruct p; simpl in I.
    - rewrite I. repeat split; try lia; intros; discriminate.
    - rewrite I. split; [destruct created; simpl; lia|]. split; [intros; discriminate|]. split.
      + intros old' cr' E _. inversion E. subst. destruct cr'; simpl; split; intros; try reflexivity; try lia; discriminate.
      + intros; discriminate.
    - rewrite I. repeat split; try lia; intros; discriminate.
    - rewrite I. split; [destruct (is_add (ce_kind e)); simpl; lia|]. split; [intros; discriminate|]. split.
      + intros; discriminate.
      + intros nv' e' E _. inversion E. subst. destruct (ce_kind e'); simpl; split; intros; try reflexivity; try lia; discriminate.
    - rewrite I. repeat split; try lia; intros; discriminate.
    - destruct I as [I1 I2]. repeat split; try lia; intros; discriminate.
    - rewrite I. repeat split; try lia; intros; discriminate.
  Qed.
End CreatedProofs.
