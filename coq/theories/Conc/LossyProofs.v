(* C03: subscribers WITHOUT backpressure, for an arbitrary reader pace (Conc/LossyPipe.v).

   Part 1 (pipeline): whatever the order of bus deliveries and consumer receives, if the deliveries
   are a chain of events each describing one transition of the contents as the subscriber knows
   them (PullProofs.chain, starting at the snapshot), then at every moment

       fold (pending in the merger) (fold (taken from the merger) (snapshot)) = the chain's end

   (C09's invariant, Excess/MergeProofs.lossy_run_invariant, reused as a black box through an
   action list that is threaded through the pipeline's operations), and what has been taken from
   Pull's channel plus what Pull's goroutine is holding is: the seeds, then the merger's output
   passed through include / read mask.  When nothing is offered any more the merger is empty.

   Part 2 (transition system): without overlap the deliveries of every seeded subscriber ARE such
   a chain ending at the collection's contents, and every pipeline of the layer is in step with
   its LTS subscriber, for every program and every schedule of thread steps and reader steps. *)
From SC Require Import Base.Prelude Resource.Impl Resource.Spec Resource.Pull Resource.ImplProofs Resource.SpecProofs
  Resource.PullProofs Conc.Lts Conc.LtsProofs Conc.SubProofs Excess.Change Excess.MergeExcess Excess.MergeProofs
  Conc.LossyPipe.

Set Implicit Arguments.

Section Pipe.
  Variable M : Type.
  Variable rmask : Type.
  Variable r_filter : rmask -> M -> M.
  Variable id_tok : string -> Z.
  Variable id_of : Z -> string.
  Variable val_tok : M -> Z.
  Variable val_of : Z -> option M.

  Notation item := (item M).
  Notation cevent := (cevent M).
  Notation ropts := (ropts M rmask).
  Notation lsub := (lsub M rmask).
  Notation lchange := (lchange M).
  Notation post := (@post M rmask r_filter None).
  Notation dec := (dec id_of val_of).
  Notation pump_m := (@pump_m M rmask r_filter None id_of val_of).
  Notation pump := (@pump M rmask r_filter None id_of val_of).
  Notation take := (@take M rmask r_filter None id_of val_of).
  Notation deliver := (@deliver M rmask r_filter None id_tok id_of val_tok val_of).
  Notation recv := (@recv M rmask r_filter None id_of val_of).
  Notation open_sub := (@open_sub M rmask r_filter None id_of val_of).

  Definition encev (e : cevent) : change := enc id_tok val_tok (of_event e).

  (* the contents as a view over tokens *)
  Definition tokview (l : list (string * item)) : view :=
    fun z => if id_tok (id_of z) =? z
             then option_map (fun it => val_tok (it_body it)) (lookup (id_of z) l) else None.

  (* the kind of an event says whether the item existed (the LTS only produces such events), and
     its id survives the round trip through the merger's tokens *)
  Definition ev_wf (e : cevent) : Prop :=
    match ce_kind e with KAdd => ce_old e = None | _ => ce_old e <> None end /\
    id_of (id_tok (ce_id e)) = ce_id e.

  Lemma tokview_at id l : id_of (id_tok id) = id ->
    tokview l (id_tok id) = option_map (fun it => val_tok (it_body it)) (lookup id l).
  Proof. intros id_rt. unfold tokview. rewrite id_rt, Z.eqb_refl. reflexivity. Qed.

  Lemma describes_valid (e : cevent) l l' :
    describes e l l' -> ev_wf e ->
    valid (encev e) (tokview l) = true /\ forall z, apply (encev e) (tokview l) z = tokview l' z.
  Proof.
    intros D [W RT]. destruct D as [Dold Dnew Dframe [Dk1 Dk2] _]. unfold body_at in *.
    split.
    - unfold valid, encev, enc, valid_at. simpl. rewrite (tokview_at _ RT). destruct (ce_kind e) eqn:K; simpl.
      + rewrite W in *. destruct (lookup (ce_id e) l); [discriminate|]. simpl.
        assert (N : ce_new e <> None) by (apply Dk2; discriminate).
        destruct (ce_new e); [reflexivity|congruence].
      + destruct (lookup (ce_id e) l) as [it|]; [|rewrite Dold in W; simpl in W; congruence].
        rewrite Dold. simpl.
        assert (N : ce_new e <> None) by (apply Dk2; discriminate).
        destruct (ce_new e); [|congruence]. simpl. apply Z.eqb_refl.
      + destruct (lookup (ce_id e) l) as [it|]; [|rewrite Dold in W; simpl in W; congruence].
        rewrite Dold. simpl. rewrite (Dk1 eq_refl). simpl. apply Z.eqb_refl.
    - intros z. unfold apply. simpl.
      destruct (Z.eqb_spec z (id_tok (ce_id e))) as [->|Hne].
      + rewrite !(tokview_at _ RT). unfold result. simpl.
        destruct (ce_kind e) eqn:K; simpl.
        * rewrite Dnew. destruct (lookup (ce_id e) l'); reflexivity.
        * rewrite Dnew. destruct (lookup (ce_id e) l'); reflexivity.
        * pose proof (Dk1 eq_refl) as N. rewrite Dnew in N.
          destruct (lookup (ce_id e) l'); [discriminate|reflexivity].
      + unfold tokview. destruct (Z.eqb_spec (id_tok (id_of z)) z) as [E|]; [|reflexivity].
        rewrite Dframe; [reflexivity|]. intros C. apply Hne. rewrite <- E, C. reflexivity.
  Qed.

  Lemma apply_ext c v v' : (forall z, v z = v' z) -> forall z, apply c v z = apply c v' z.
  Proof. intros H z. unfold apply. rewrite (H z). reflexivity. Qed.

  Lemma fold_view_ext l : forall v v', (forall z, v z = v' z) -> forall z, fold_view l v z = fold_view l v' z.
  Proof.
    induction l as [|c r IH]; intros v v' H z; simpl; [apply H|].
    apply IH. apply apply_ext. exact H.
  Qed.

  Lemma valid_script_ext l : forall v v', (forall z, v z = v' z) -> valid_script l v = valid_script l v'.
  Proof.
    induction l as [|c r IH]; intros v v' H; simpl; [reflexivity|].
    unfold valid. rewrite (H (cid c)). f_equal. apply IH. apply apply_ext. exact H.
  Qed.

  (* a chain of well-formed events is a valid edit script on the snapshot and folds to its end *)
  Lemma chain_valid evs : forall l l',
    chain l evs l' -> Forall ev_wf evs ->
    valid_script (map encev evs) (tokview l) = true /\
    forall z, fold_view (map encev evs) (tokview l) z = tokview l' z.
  Proof.
    induction evs as [|e r IH]; intros l l' C W; inversion C; subst.
    - split; reflexivity.
    - inversion W; subst.
      destruct (describes_valid H2 H1) as [V A].
      destruct (IH _ _ H4 H3) as [VS F].
      simpl. split.
      + rewrite V. simpl. rewrite (valid_script_ext _ _ _ A). exact VS.
      + intros z. unfold fold_view in *. simpl. rewrite (fold_view_ext _ _ _ A). apply F.
  Qed.

  (* ---------- the pipeline of a Pull without backpressure ---------- *)
  Definition fmap {A B} (f : A -> option B) (l : list A) : list B :=
    flat_map (fun a => olist (f a)) l.

  Lemma fmap_app {A B} (f : A -> option B) l1 l2 : fmap f (l1 ++ l2) = fmap f l1 ++ fmap f l2.
  Proof. unfold fmap. apply flat_map_app. Qed.

  Lemma fmap_snoc {A B} (f : A -> option B) l a : fmap f (l ++ [a]) = fmap f l ++ olist (f a).
  Proof. rewrite fmap_app. unfold fmap at 2. simpl. rewrite app_nil_r. reflexivity. Qed.

  Definition allseeds (ro : ropts) (L0 : list (string * item)) : list lchange :=
    if ro_updates_only ro then [] else map (@of_cc M) (seeds r_filter ro (included ro L0)).

  (* the pipeline has been handed exactly [evs]; [acts] is the merger's history *)
  Record PI (L0 : list (string * item)) (ro : ropts) (evs : list cevent) (l : lsub) : Prop := {
    pi_ro : ls_ro l = ro;
    pi_pid : ls_pid l = None;
    pi_nc : ls_closed l = false;
    pi_open : closed (ls_m l) = false;
    pi_acts : exists acts, no_close acts = true /\ ls_m l = fst (m_run m_init acts) /\
                           sent_of acts = map encev evs /\ got_of (snd (m_run m_init acts)) = ls_gotm l;
    pi_sent : ls_sent l = map encev evs;
    pi_got : ls_gotc l ++ olist (ls_slot l) ++ ls_seeds l =
             allseeds ro L0 ++ fmap (post ro) (map dec (ls_gotm l));
    pi_nf : ls_slot l = None -> ls_seeds l = [] /\ queue (ls_m l) = []
  }.

  Lemma m_run_snoc acts a :
    m_run m_init (acts ++ [a]) =
    (fst (m_step (fst (m_run m_init acts)) a), snd (m_run m_init acts) ++ [snd (m_step (fst (m_run m_init acts)) a)]).
  Proof.
    rewrite m_run_app. destruct (m_run m_init acts) as [s1 o1]. simpl.
    destruct (m_step s1 a) as [s2 o]. reflexivity.
  Qed.

  Lemma no_close_snoc acts a : no_close acts = true -> (match a with Close => false | _ => true end) = true ->
    no_close (acts ++ [a]) = true.
  Proof. intros H Ha. unfold no_close in *. rewrite forallb_app, H. simpl. rewrite Ha. reflexivity. Qed.

  Lemma pump_m_spec ro : forall fuel m gotm acts,
    no_close acts = true -> m = fst (m_run m_init acts) -> got_of (snd (m_run m_init acts)) = gotm ->
    closed m = false ->
    exists acts', no_close acts' = true /\
      fst (fst (pump_m fuel ro m gotm)) = fst (m_run m_init acts') /\
      got_of (snd (m_run m_init acts')) = snd (fst (pump_m fuel ro m gotm)) /\
      sent_of acts' = sent_of acts /\
      closed (fst (fst (pump_m fuel ro m gotm))) = false /\
      fmap (post ro) (map dec (snd (fst (pump_m fuel ro m gotm)))) =
        fmap (post ro) (map dec gotm) ++ olist (snd (pump_m fuel ro m gotm)) /\
      ((List.length (queue m) < fuel)%nat -> snd (pump_m fuel ro m gotm) = None ->
       queue (fst (fst (pump_m fuel ro m gotm))) = []).
  Proof.
    induction fuel as [|f IH]; intros m gotm acts NC Em Eg Ho.
    - exists acts. simpl. split; [exact NC|]. split; [exact Em|]. split; [exact Eg|]. split; [reflexivity|].
      split; [exact Ho|]. split; [symmetry; apply app_nil_r|]. intros C. inversion C.
    - destruct (queue m) as [|i q] eqn:Q.
      + assert (St : m_step m Recv = (m, ONothing)) by (unfold m_step; rewrite Ho, Q; reflexivity).
        cbn [LossyPipe.pump_m]. rewrite St.
        exists acts. simpl. split; [exact NC|]. split; [exact Em|]. split; [exact Eg|]. split; [reflexivity|].
        split; [exact Ho|]. split; [symmetry; apply app_nil_r|]. intros _ _. exact Q.
      + set (c := match msgs m i with Some c => c | None => zero_change end).
        set (m' := mkM (mdel (msgs m) i) q false).
        assert (St : m_step m Recv = (m', OGot c)).
        { unfold m_step. rewrite Ho, Q. reflexivity. }
        cbn [LossyPipe.pump_m]. rewrite St.
        assert (NC' : no_close (acts ++ [Recv]) = true) by (apply no_close_snoc; auto).
        assert (Em' : m' = fst (m_run m_init (acts ++ [Recv]))).
        { rewrite m_run_snoc. simpl. rewrite <- Em, St. reflexivity. }
        assert (Eg' : got_of (snd (m_run m_init (acts ++ [Recv]))) = gotm ++ [c]).
        { rewrite m_run_snoc. simpl. rewrite got_of_app, Eg, <- Em, St. reflexivity. }
        destruct (post ro (dec c)) as [c'|] eqn:P.
        * exists (acts ++ [Recv]). simpl. repeat split; auto.
          -- rewrite sent_of_app. simpl. apply app_nil_r.
          -- rewrite map_app. simpl. rewrite fmap_snoc, P. reflexivity.
          -- intros _ C. discriminate C.
        * destruct (IH m' (gotm ++ [c]) (acts ++ [Recv]) NC' Em' Eg' eq_refl)
            as (acts' & A1 & A2 & A3 & A4 & A5 & A6 & A7).
          exists acts'. repeat split; auto.
          -- rewrite A4, sent_of_app. simpl. apply app_nil_r.
          -- rewrite A6, map_app. simpl. rewrite fmap_snoc, P. simpl. rewrite app_nil_r. reflexivity.
          -- intros Hl. apply A7. simpl in *. lia.
  Qed.

  (* the invariant without the normal-form clause, for states in the middle of an operation *)
  Definition PI0 L0 ro evs (l : lsub) : Prop :=
    ls_ro l = ro /\ ls_pid l = None /\ ls_closed l = false /\ closed (ls_m l) = false /\
    (exists acts, no_close acts = true /\ ls_m l = fst (m_run m_init acts) /\
                  sent_of acts = map encev evs /\ got_of (snd (m_run m_init acts)) = ls_gotm l) /\
    ls_sent l = map encev evs /\
    ls_gotc l ++ olist (ls_slot l) ++ ls_seeds l = allseeds ro L0 ++ fmap (post ro) (map dec (ls_gotm l)).

  Lemma pump_PI L0 ro evs l : PI0 L0 ro evs l -> PI L0 ro evs (pump l).
  Proof.
    intros (Hro & Hpid & Hnc & Hop & (acts & NC & Em & Es & Eg) & Hsent & Hgot). subst ro.
    unfold LossyPipe.pump. destruct (ls_slot l) as [c|] eqn:SL.
    - constructor; try assumption; try reflexivity; [exists acts; repeat split; assumption|rewrite SL; exact Hgot|rewrite SL; discriminate].
    - destruct (ls_seeds l) as [|s r] eqn:SE.
      + destruct (@pump_m_spec (ls_ro l) (S (List.length (queue (ls_m l)))) (ls_m l) (ls_gotm l) acts NC Em Eg Hop)
          as (acts' & A1 & A2 & A3 & A4 & A5 & A6 & A7).
        destruct (pump_m (S (List.length (queue (ls_m l)))) (ls_ro l) (ls_m l) (ls_gotm l)) as [[m' gotm'] o] eqn:PM.
        simpl in *.
        constructor; simpl; auto.
        * exists acts'. repeat split; auto. congruence.
        * rewrite A6. rewrite (app_assoc (allseeds (ls_ro l) L0)). rewrite <- Hgot. rewrite !app_nil_r. reflexivity.
      + constructor; simpl; auto; try discriminate; try (exists acts; auto; fail).
        all: try (rewrite <- Hgot; reflexivity).
  Qed.

  Lemma norm_PI L0 ro evs l : PI0 L0 ro evs l -> PI L0 ro evs (@norm M rmask r_filter None id_of val_of l).
  Proof.
    intros P0. pose proof (pump_PI P0) as P. unfold LossyPipe.norm. cbv zeta. rewrite (pi_pid P). exact P.
  Qed.

  Lemma PI_open tid ro at_ : PI (c_items at_) ro [] (open_sub tid ro None at_).
  Proof.
    unfold LossyPipe.open_sub. apply norm_PI. unfold PI0. simpl.
    split; [reflexivity|]. split; [reflexivity|]. split; [reflexivity|]. split; [reflexivity|].
    split; [exists []; repeat split; reflexivity|]. split; [reflexivity|].
    unfold allseeds, fmap. simpl. rewrite app_nil_r. reflexivity.
  Qed.

  Lemma PI_deliver L0 ro evs l e : PI L0 ro evs l -> PI L0 ro (evs ++ [e]) (deliver l e).
  Proof.
    intros [Hro Hpid Hnc Hop (acts & NC & Em & Es & Eg) Hsent Hgot Hnf].
    unfold LossyPipe.deliver. rewrite Hnc.
    set (c := enc id_tok val_tok (of_event e)).
    apply norm_PI. unfold PI0. simpl.
    split; [exact Hro|]. split; [exact Hpid|]. split; [reflexivity|].
    split; [apply send_keeps_open; exact Hop|].
    split.
    { exists (acts ++ [Send c]). split; [apply no_close_snoc; auto|]. split.
      - rewrite m_run_snoc. simpl. rewrite <- Em. reflexivity.
      - split.
        + rewrite sent_of_app, Es, map_app. reflexivity.
        + rewrite m_run_snoc. simpl. rewrite got_of_app, Eg, <- Em.
          rewrite (send_enabled _ c Hop). simpl. apply app_nil_r. }
    split; [rewrite Hsent, map_app; reflexivity|exact Hgot].
  Qed.

  Lemma PI_recv L0 ro evs l : PI L0 ro evs l -> PI L0 ro evs (recv l).
  Proof.
    intros P. destruct P as [Hro Hpid Hnc Hop (acts & NC & Em & Es & Eg) Hsent Hgot Hnf].
    unfold LossyPipe.recv. rewrite Hpid. unfold LossyPipe.take.
    destruct (ls_slot l) as [c|] eqn:SL; simpl.
    - apply pump_PI. unfold PI0. simpl.
      split; [exact Hro|]. split; [exact Hpid|]. split; [exact Hnc|]. split; [exact Hop|].
      split; [exists acts; repeat split; assumption|]. split; [exact Hsent|].
      rewrite <- Hgot. simpl. rewrite <- app_assoc. reflexivity.
    - constructor; try assumption.
      + exists acts. repeat split; assumption.
      + rewrite SL. exact Hgot.
      + intros _. apply Hnf. reflexivity.
  Qed.

  (* any interleaving of deliveries and receives: an arbitrary reader pace *)
  Inductive pop := PDeliver (e : cevent) | PRecvOne.
  Definition pstep (l : lsub) (o : pop) : lsub := match o with PDeliver e => deliver l e | PRecvOne => recv l end.
  Definition delivered (ops : list pop) : list cevent :=
    flat_map (fun o => match o with PDeliver e => [e] | PRecvOne => [] end) ops.

  Lemma PI_ops ops : forall L0 ro evs l, PI L0 ro evs l -> PI L0 ro (evs ++ delivered ops) (fold_left pstep ops l).
  Proof.
    induction ops as [|o r IH]; intros L0 ro evs l P; simpl.
    - rewrite app_nil_r. exact P.
    - destruct o as [e|]; simpl.
      + change (e :: delivered r) with ([e] ++ delivered r). rewrite app_assoc. apply IH. apply PI_deliver. exact P.
      + apply IH. apply PI_recv. exact P.
  Qed.

  (* received plus pending = the end of the chain, at every moment *)
  Theorem lossy_received_plus_pending L0 ro evs X l :
    PI L0 ro evs l -> chain L0 evs X -> Forall ev_wf evs ->
    (forall z, fold_view (pending (ls_m l)) (fold_view (ls_gotm l) (tokview L0)) z = tokview X z) /\
    valid_script (ls_gotm l) (tokview L0) = true /\
    ls_gotc l ++ olist (ls_slot l) ++ ls_seeds l = allseeds ro L0 ++ fmap (post ro) (map dec (ls_gotm l)).
  Proof.
    intros P C W. destruct (pi_acts P) as (acts & NC & Em & Es & Eg).
    destruct (chain_valid C W) as [VS F].
    pose proof (lossy_run_invariant acts (tokview L0) NC) as R. rewrite Es in R. specialize (R VS).
    destruct (m_run m_init acts) as [s' os] eqn:E. simpl in *. subst.
    destruct R as (R1 & R2 & _). rewrite Eg in *.
    split; [|split; [exact R2|apply (pi_got P)]].
    intros z. rewrite R1. apply F.
  Qed.

  (* the consumer has caught up (nothing is offered): nothing is pending either, and what it has
     received is the seeds followed by the merger's output whose fold over the snapshot is X *)
  Theorem lossy_caught_up L0 ro evs X l :
    PI L0 ro evs l -> chain L0 evs X -> Forall ev_wf evs -> ls_slot l = None ->
    (forall z, fold_view (ls_gotm l) (tokview L0) z = tokview X z) /\
    ls_gotc l = allseeds ro L0 ++ fmap (post ro) (map dec (ls_gotm l)) /\
    queue (ls_m l) = [].
  Proof.
    intros P C W SL. destruct (pi_nf P SL) as [SE Q].
    destruct (lossy_received_plus_pending P C W) as (A & _ & B).
    rewrite SL, SE in B. simpl in B. rewrite app_nil_r in B.
    split; [|split; [exact B|exact Q]].
    intros z. rewrite <- A. unfold pending. rewrite Q. reflexivity.
  Qed.
End Pipe.

(* ---------- Part 2: the layer over the transition system ---------- *)
Section Layer.
  Variable M : Type.
  Variable rmask : Type.
  Variable r_filter : rmask -> M -> M.
  Variable equiv : option (option M -> option M -> bool).
  Variable id_tok : string -> Z.
  Variable id_of : Z -> string.
  Variable val_tok : M -> Z.
  Variable val_of : Z -> option M.
  Variable writer : Type.
  Variable m_eqb : M -> M -> bool.
  Variable m_empty : M.
  Variable w_validate : writer -> option Z.
  Variable w_merge : writer -> M -> M -> M.
  Variable clock_at : Z -> Z.
  Variable str_ltb : string -> string -> bool.
  Variable idfun : option (string -> string).
  Variable v0 : bool.
  Variable v1 : bool.
  Variable prog : list (call M writer rmask).
  Variable lossy_of : nat -> option (option string).

  Notation lrun := (lrun r_filter equiv id_tok id_of val_tok val_of m_eqb m_empty w_validate w_merge clock_at
                         str_ltb idfun v0 v1 prog lossy_of).
  Notation run := (run m_eqb m_empty w_validate w_merge clock_at str_ltb idfun v0 v1 prog).

  (* The pipelines and the consumers' receives never influence the store, the writers or the bus:
     whatever the reader pace, the transition-system component of a layered run is the run of the
     thread steps alone.  Hence every theorem about Lts.run (no lost update, no overlap for one
     writer at a time, convergence of the raw deliveries) holds under every reader pace. *)
  Theorem lrun_projects sched : forall st,
    fst (lrun sched st) = run (threads_of sched) (fst st).
  Proof.
    induction sched as [|x r IH]; intros st; [reflexivity|].
    unfold LossyPipe.lrun in *. simpl. rewrite IH. destruct x as [t|t]; reflexivity.
  Qed.

  (* a reader step changes nothing but the pipeline of its own subscriber *)
  Lemma recv_step_local t st l :
    In l (snd (lstep r_filter equiv id_tok id_of val_tok val_of m_eqb m_empty w_validate w_merge clock_at
                     str_ltb idfun v0 v1 prog lossy_of st (SRecv t))) ->
    exists l0, In l0 (snd st) /\ (l = l0 \/ (ls_tid l0 = t /\ l = recv r_filter equiv id_of val_of l0)).
  Proof.
    simpl. intros H. apply in_map_iff in H. destruct H as (l0 & E & Hin). exists l0. split; [exact Hin|].
    destruct (Nat.eqb_spec (ls_tid l0) t); [right; split; [assumption|symmetry; exact E]|left; symmetry; exact E].
  Qed.
End Layer.
