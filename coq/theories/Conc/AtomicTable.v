(* C02: what makes the atomic steps of Conc/Lts.v atomic, re-proved on every run over the table
   generated from the source (Gen/C02Atomic.v; harness/c02/atomic.go): in GetAndUpdate the re-read,
   the proto.Equal re-validation and the save are one exclusive critical section, entered after the
   change function has run with no lock; in Collection.Delete the re-read under the write lock, the
   delete, the commit number, the turnstile and the publication are one exclusive section, and the
   caller's check runs before it with no lock; every verifhook yield point (= boundary of a model
   step) is outside any lock.  Moving a statement across a Lock / Unlock, splitting a section, or
   taking the yield point inside one changes a row and breaks atomic_table_holds. *)
From SC Require Import Base.Prelude Conc.AtomicDefs Gen.C02Atomic.
Local Open Scope string_scope.
Local Open Scope Z_scope.

Theorem atomic_table_holds : atomic_table_ok atomic_rows = true.
Proof. vm_compute. reflexivity. Qed.

(* the obligations are not vacuous: tables that differ from today's in one row are rejected *)
Definition retag (fn kind name : string) (occurrence : nat) (f : arow -> arow) (rows : list arow) : list arow :=
  snd (fold_left (fun acc r =>
         let '(n, out) := acc in
         if String.eqb (a_fn r) fn && String.eqb (a_kind r) kind && String.eqb (a_name r) name
         then (S n, app out [if Nat.eqb n occurrence then f r else r]) else (n, app out [r]))
       rows (O, @nil arow)).

(* the save in a critical section of its own (Lock; get; compare; Unlock; Lock; save) *)
Example atomic_table_rejects_split_section :
  atomic_table_ok (retag "GetAndUpdate" "call" "save" 0 (fun r => mkARow (a_fn r) (a_kind r) (a_name r) AExcl 3 (a_line r)) atomic_rows) = false.
Proof. vm_compute. reflexivity. Qed.

(* the re-read of GetAndUpdate under the read lock only *)
Example atomic_table_rejects_reread_under_read_lock :
  atomic_table_ok (retag "GetAndUpdate" "call" "get" 1 (fun r => mkARow (a_fn r) (a_kind r) (a_name r) ARead (a_sec r) (a_line r)) atomic_rows) = false.
Proof. vm_compute. reflexivity. Qed.

(* Delete's recheck before the write lock is taken *)
Example atomic_table_rejects_recheck_outside_lock :
  atomic_table_ok (retag "Collection.Delete" "read" "byId" 1 (fun r => mkARow (a_fn r) (a_kind r) (a_name r) ANone 0 (a_line r)) atomic_rows) = false.
Proof. vm_compute. reflexivity. Qed.

(* the change function called under the write lock *)
Example atomic_table_rejects_change_under_lock :
  atomic_table_ok (retag "GetAndUpdate" "call" "change" 0 (fun r => mkARow (a_fn r) (a_kind r) (a_name r) AExcl 2 (a_line r)) atomic_rows) = false.
Proof. vm_compute. reflexivity. Qed.

(* the get closure of Value.set consulting the resource's equivalence (one extra row) *)
Example atomic_table_rejects_equivalence_in_write_path :
  atomic_table_ok (atomic_rows ++ [mkARow "Value.set/get" "read" "equivalence" AExcl 2 70]) = false /\
  no_equivalence atomic_rows = true.
Proof. vm_compute. split; reflexivity. Qed.
