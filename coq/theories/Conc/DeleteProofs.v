(* C02, Delete: Unavailable only after five lost races — a Delete that returns Unavailable has read
   the item six times and each re-read found a different version, so at least five commits to that
   id (successful Updates / Adds / Deletes by other calls) were linearized between its first and
   its last step. *)
From SC Require Import Base.Prelude Resource.Impl Resource.Spec Resource.Pull Resource.ImplProofs Resource.SpecProofs
  Conc.Lts Conc.LtsProofs.

Set Implicit Arguments.

Section Proofs.
  Variable M : Type.
  Variable m_eqb : M -> M -> bool.
  Variable m_empty : M.
  Variable writer : Type.
  Variable w_validate : writer -> option Z.
  Variable w_merge : writer -> M -> M -> M.
  Variable rmask : Type.
  Variable clock_at : Z -> Z.
  Variable str_ltb : string -> string -> bool.
  Variable idfun : option (string -> string).

  Hypothesis m_eqb_eq : forall a b, m_eqb a b = true -> a = b.
  Hypothesis ltb_irrefl : forall a, str_ltb a a = false.
  Hypothesis ltb_trans : forall a b c, str_ltb a b = true -> str_ltb b c = true -> str_ltb a c = true.
  Hypothesis ltb_total : forall a b, str_ltb a b = false -> str_ltb b a = false -> a = b.

  Notation wopts := (wopts M writer).
  Notation item := (item M).
  Notation call := (call M writer rmask).
  Notation pc := (pc M).
  Notation outcome := (outcome M).
  Notation world := (world M).
  Notation state := (state M rmask).
  Notation apply_id := (apply_id idfun).
  Notation trans := (trans m_eqb m_empty w_validate w_merge clock_at str_ltb idfun false (rmask := rmask)).
  Notation predicted := (predicted m_eqb m_empty w_merge (rmask := rmask)).
  Notation pc_wf := (pc_wf m_empty w_validate idfun (rmask := rmask)).
  Notation call_ok := (call_ok idfun (writer := writer) (rmask := rmask)).
  Notation sorted := (sorted str_ltb).

  Local Arguments Nat.leb : simpl never.

  (* the version of an id: the identity of the stored item, nothing if absent *)
  Definition ver (id : string) (w : world) : option Z := option_map snd (lookup_st id w).

  Lemma same_ptr_ver id (a : option (item * Z)) (w : world) :
    same_ptr a (lookup_st id w) = false -> option_map snd a <> ver id w.
  Proof.
    unfold ver. destruct a as [[it st]|], (lookup_st id w) as [[it2 st2]|]; simpl; intros H C; try discriminate.
    inversion C. subst. rewrite Z.eqb_refl in H. discriminate.
  Qed.

  (* which steps change versions *)
  Lemma trans_commit (c : call) p w p' w' eff :
    sorted (c_items (w_c w)) ->
    trans c p w = Some (p', w', eff) ->
    (forall id, ver id w' = ver id w) \/
    (exists id0 msg o nv e, c = CUpdate id0 msg o /\ p' = PSavedC nv e /\
                            forall id, id <> apply_id id0 -> ver id w' = ver id w) \/
    (exists id0 o b e, c = CDelete id0 o /\ p' = PDone (ODel (Some b) None) /\ eff = EPubC e /\
                       forall id, id <> apply_id id0 -> ver id w' = ver id w).
  Proof.
    intros Hs. unfold Lts.trans. intros H.
    destruct c as [msg o|id0 msg o|id0 o|ro|ro|id1 ro]; destruct p as [|old cr|nv e|nv e|seen n|r|]; try discriminate.
    - destruct (w_validate (wo_writer o)); inversion H; subst; left; reflexivity.
    - destruct (change_fn m_eqb m_empty w_merge o msg old); [|inversion H; subst; left; reflexivity].
      destruct (om_eqb m_eqb old (v_val (w_v w))); [|inversion H; subst; left; reflexivity].
      destruct (update_time clock_at o (v_reads (w_v w))) as [t reads]. inversion H; subst. left. reflexivity.
    - inversion H; subst; left; reflexivity.
    - destruct (w_validate (wo_writer o)); [inversion H; subst; left; reflexivity|].
      destruct (String.eqb (apply_id id0) "" && wo_gen_id o); [inversion H; subst; left; reflexivity|].
      destruct (c_get_fn m_empty false o (apply_id id0) false (c_items (w_c w))) as [[b|code] cr]; inversion H; subst; left; reflexivity.
    - destruct (change_fn m_eqb m_empty w_merge o msg old); [|inversion H; subst; left; reflexivity].
      destruct (c_get_fn m_empty false o (apply_id id0) cr (c_items (w_c w))) as [[b|code] cr']; [|inversion H; subst; left; reflexivity].
      destruct (om_eqb m_eqb old (Some b)); [|inversion H; subst; left; reflexivity].
      destruct (update_time clock_at o (c_reads (w_c w))) as [t reads]. inversion H; subst.
      right. left. do 5 eexists. split; [reflexivity|]. split; [reflexivity|].
      intros id Hne. unfold ver, lookup_st. simpl.
      rewrite (lookup_insert_other str_ltb) by exact Hne.
      destruct (String.eqb_spec id (apply_id id0)); [contradiction|reflexivity].
    - inversion H; subst; left; reflexivity.
    - inversion H; subst; left; reflexivity.
    - destruct (Nat.leb 5 n); [inversion H; subst; left; reflexivity|].
      destruct (del_check m_eqb o seen); [inversion H; subst; left; reflexivity|].
      destruct (same_ptr seen (lookup_st (apply_id id0) w)); [|inversion H; subst; left; reflexivity].
      destruct seen as [[it st]|]; [|discriminate].
      destruct (update_time clock_at o (c_reads (w_c w))) as [t reads]. inversion H; subst.
      right. right. do 4 eexists. split; [reflexivity|]. split; [reflexivity|]. split; [reflexivity|].
      intros id Hne. unfold ver, lookup_st. simpl. rewrite lookup_remove_other by exact Hne. reflexivity.
    - inversion H; subst; left; reflexivity.
    - inversion H; subst; left; reflexivity.
    - inversion H; subst; left; reflexivity.
    - inversion H; subst; left; reflexivity.
  Qed.

  (* ================= all programs, all schedules ================= *)
  Variable prog : list call.
  Variable v0 : vstate M.
  Variable c0 : cstate M.
  Hypothesis c0_sorted : sorted (c_items c0).

  Notation step := (step m_eqb m_empty w_validate w_merge clock_at str_ltb idfun false false prog).
  Notation run := (run m_eqb m_empty w_validate w_merge clock_at str_ltb idfun false false prog).
  Notation s0 := (s0 prog v0 c0).
  Notation Inv := (Inv m_eqb m_empty w_validate w_merge clock_at str_ltb idfun prog v0 c0).

  Definition w_at (sched : list nat) (k : nat) : world := st_w (run (firstn k sched) s0).

  (* a witness entry that is a commit to id: a successful Update / Add of it or a successful Delete of it *)
  Definition commits_to (id : string) (e : nat * outcome * nat) : Prop :=
    match nth_error prog (wit_tid e), wit_out e with
    | Some (CUpdate id0 _ _), OVal (inl _) => apply_id id0 = id
    | Some (CDelete id0 _), ODel (Some _) None => apply_id id0 = id
    | _, _ => False
    end.

  Lemma inv_at sched : Inv sched (run sched s0).
  Proof. apply inv_run; assumption. Qed.

  Lemma run_snoc' pre t : run (pre ++ [t]) s0 = step t (run pre s0).
  Proof. unfold Lts.run. rewrite fold_left_app. reflexivity. Qed.

  Lemma step_wit_incl' t s e : In e (st_wit s) -> In e (st_wit (step t s)).
  Proof.
    intros H. unfold Lts.step.
    destruct (nth_error prog t) as [c|]; [|exact H].
    destruct (nth_error (st_pcs s) t) as [p|]; [|exact H].
    destruct (trans c p (st_w s)) as [[[p' w'] eff]|]; [|exact H].
    destruct (gate_open _ _ _ _ _) eqn:G; [|exact H].
    simpl. destruct (predicted c p), (predicted c p'); try exact H. apply in_or_app. left. exact H.
  Qed.

  (* a step that changes the version of id is the linearization of a commit to id *)
  Lemma step_changes_ver id pre s t :
    Inv pre s -> ver id (st_w (step t s)) <> ver id (st_w s) ->
    exists r, In (t, r, List.length pre) (st_wit (step t s)) /\ commits_to id (t, r, List.length pre).
  Proof.
    intros I Hv. unfold Lts.step in *.
    destruct (nth_error prog t) as [c|] eqn:P; [|exfalso; apply Hv; reflexivity].
    destruct (nth_error (st_pcs s) t) as [p|] eqn:Q; [|exfalso; apply Hv; reflexivity].
    destruct (trans c p (st_w s)) as [[[p' w'] eff]|] eqn:T; [|exfalso; apply Hv; reflexivity].
    destruct (gate_open _ _ _ _ _) eqn:G; [|exfalso; apply Hv; reflexivity].
    simpl in *. destruct (i_local I _ P Q) as [Hwf _].
    pose proof (trans_lin m_eqb m_empty w_validate w_merge clock_at str_ltb idfun m_eqb_eq c p (st_w s) Hwf T) as L.
    destruct (trans_commit _ _ _ (i_sorted I) T) as [Hsame|[(id0 & msg & o & nv & e & -> & -> & Hoth)|(id0 & o & b & e & -> & -> & -> & Hoth)]].
    - exfalso. apply Hv. apply Hsame.
    - assert (Eid : apply_id id0 = id).
      { destruct (String.eqb_spec id (apply_id id0)) as [->|Hne]; [reflexivity|]. exfalso. apply Hv. apply Hoth. exact Hne. }
      simpl predicted at 2 in L. simpl predicted at 2.
      destruct (predicted (CUpdate id0 msg o) p) as [r0|].
      + destruct L as (_ & _ & C). simpl in C. discriminate.
      + exists (OVal (inl nv)). split.
        * apply in_or_app. right. left. rewrite (i_k I). reflexivity.
        * unfold commits_to, Lts.wit_tid, Lts.wit_out. simpl. rewrite P. exact Eid.
    - assert (Eid : apply_id id0 = id).
      { destruct (String.eqb_spec id (apply_id id0)) as [->|Hne]; [reflexivity|]. exfalso. apply Hv. apply Hoth. exact Hne. }
      simpl predicted at 2 in L. simpl predicted at 2.
      destruct (predicted (CDelete id0 o) p) as [r0|] eqn:PP.
      + destruct L as (_ & _ & C). destruct p; simpl in C; discriminate.
      + exists (ODel (Some b) None). split.
        * apply in_or_app. right. left. rewrite (i_k I). reflexivity.
        * unfold commits_to, Lts.wit_tid, Lts.wit_out. simpl. rewrite P. exact Eid.
  Qed.

  Lemma run_wit_incl' suf : forall s e, In e (st_wit s) -> In e (st_wit (run suf s)).
  Proof. induction suf as [|t r IH]; intros s e H; simpl; [exact H|]. apply IH. apply step_wit_incl'. exact H. Qed.

  Lemma prefix_wit_incl' sched n e : In e (st_wit (run (firstn n sched) s0)) -> In e (st_wit (run sched s0)).
  Proof.
    intros H. rewrite <- (firstn_skipn n sched) at 1. unfold Lts.run. rewrite fold_left_app.
    apply (run_wit_incl' (skipn n sched)). exact H.
  Qed.

  Lemma oz_dec (a b : option Z) : a = b \/ a <> b.
  Proof.
    destruct a as [x|], b as [y|]; try (right; discriminate); [|left; reflexivity].
    destruct (Z.eq_dec x y) as [->|Hne]; [left; reflexivity|right; intros C; inversion C; contradiction].
  Qed.

  (* if the version of id differs between two instants, a commit to id was linearized in between *)
  Lemma ver_changed sched id i j :
    (i <= j)%nat -> ver id (w_at sched i) <> ver id (w_at sched j) ->
    exists m e, (i <= m < j)%nat /\ In e (st_wit (run sched s0)) /\ wit_k e = m /\ commits_to id e.
  Proof.
    induction 1 as [|j Hle IH]; intros Hv; [exfalso; apply Hv; reflexivity|].
    destruct (oz_dec (ver id (w_at sched i)) (ver id (w_at sched j))) as [E|Hne].
    - rewrite E in Hv. unfold w_at in Hv. destruct (nth_error sched j) as [x|] eqn:N.
      + rewrite (firstn_S_nth _ _ N), run_snoc' in Hv.
        assert (Hv' : ver id (st_w (step x (run (firstn j sched) s0))) <> ver id (st_w (run (firstn j sched) s0))) by congruence.
        destruct (@step_changes_ver id _ _ x (inv_at (firstn j sched)) Hv') as (r & Hin & Hc).
        assert (Lj : List.length (firstn j sched) = j).
        { apply firstn_length_le. apply Nat.lt_le_incl. apply nth_error_Some. rewrite N. discriminate. }
        rewrite Lj in Hin, Hc. exists j, (x, r, j). split; [lia|]. split; [|split; [reflexivity|exact Hc]].
        apply (prefix_wit_incl' sched (S j)). rewrite (firstn_S_nth _ _ N), run_snoc'. exact Hin.
      + apply nth_error_None in N. rewrite !firstn_all2 in Hv by lia. exfalso. apply Hv. reflexivity.
    - destruct (IH Hne) as (m & e & Hm & R). exists m, e. split; [lia|exact R].
  Qed.

  (* what a Delete parked before its (n+1)-th attempt has been through *)
  Definition del_progress (pre : list nat) (wit : list (nat * outcome * nat)) (t : nat) (id : string) (n r : nat) : Prop :=
    exists r0 ms, (r0 <= r)%nat /\ nth_error pre r0 = Some t /\ List.length ms = n /\ NoDup ms /\
                  forall m, In m ms -> (r0 < m < r)%nat /\ exists e, In e wit /\ wit_k e = m /\ commits_to id e.

  Record DInv (pre : list nat) : Prop := {
    d_del : forall t id0 o seen n,
      nth_error prog t = Some (CDelete id0 o) -> nth_error (st_pcs (run pre s0)) t = Some (PDel seen n) ->
      exists r, (r < List.length pre)%nat /\ nth_error pre r = Some t /\
                option_map snd seen = ver (apply_id id0) (w_at pre (S r)) /\
                del_progress pre (st_wit (run pre s0)) t (apply_id id0) n r;
    d_unav : forall t id0 o,
      nth_error prog t = Some (CDelete id0 o) -> nth_error (st_pcs (run pre s0)) t = Some (PDone (OLost 14)) ->
      exists r n, (r < List.length pre)%nat /\ nth_error pre r = Some t /\ (5 <= n)%nat /\
                  del_progress pre (st_wit (run pre s0)) t (apply_id id0) n r
  }.

  Lemma w_at_snoc pre x k : (k <= List.length pre)%nat -> w_at (pre ++ [x]) k = w_at pre k.
  Proof. intros H. unfold w_at. rewrite firstn_snoc_le by exact H. reflexivity. Qed.

  Lemma del_progress_lift pre x wit wit' t id n r :
    (r < List.length pre)%nat -> (forall e, In e wit -> In e wit') ->
    del_progress pre wit t id n r -> del_progress (pre ++ [x]) wit' t id n r.
  Proof.
    intros Hr Hw (r0 & ms & A & B & C & D & E). exists r0, ms. repeat split; auto.
    - rewrite nth_error_app1 by lia. exact B.
    - apply (E m H).
    - apply (E m H).
    - destruct (E m H) as (_ & e & He & R). exists e. split; [apply Hw; exact He|exact R].
  Qed.

  Lemma pcs_step_other t t' s p :
    t <> t' -> nth_error (st_pcs (step t' s)) t = Some p -> nth_error (st_pcs s) t = Some p.
  Proof.
    intros Hne. unfold Lts.step.
    destruct (nth_error prog t') as [c|]; [|simpl; auto].
    destruct (nth_error (st_pcs s) t') as [p0|]; [|simpl; auto].
    destruct (trans c p0 (st_w s)) as [[[p' w'] eff]|]; [|simpl; auto].
    destruct (gate_open _ _ _ _ _) eqn:G; [|simpl; auto].
    simpl. rewrite nth_error_set_nth_other by congruence. auto.
  Qed.

  (* the step of thread t itself, as a relation between its pcs *)
  Lemma pcs_step_self t s p' :
    nth_error (st_pcs (step t s)) t = Some p' ->
    nth_error (st_pcs s) t = Some p' \/
    exists c p w' eff, nth_error prog t = Some c /\ nth_error (st_pcs s) t = Some p /\
                       trans c p (st_w s) = Some (p', w', eff) /\ st_w (step t s) = w'.
  Proof.
    unfold Lts.step.
    destruct (nth_error prog t) as [c|] eqn:P; [|simpl; intros H0; left; first [exact H0|rewrite Q in H0; exact H0]].
    destruct (nth_error (st_pcs s) t) as [p|] eqn:Q; [|simpl; intros H0; left; first [exact H0|rewrite Q in H0; exact H0]].
    destruct (trans c p (st_w s)) as [[[p1 w'] eff]|] eqn:T; [|simpl; intros H0; left; first [exact H0|rewrite Q in H0; exact H0]].
    destruct (gate_open _ _ _ _ _) eqn:G; [|simpl; intros H0; left; first [exact H0|rewrite Q in H0; exact H0]].
    simpl. intros H.
    assert (Ht : (t < List.length (st_pcs s))%nat) by (apply nth_error_Some; rewrite Q; discriminate).
    rewrite nth_error_set_nth_same in H by exact Ht. inversion H. subst. right. eauto 10.
  Qed.

  Theorem dinv_run sched : DInv sched.
  Proof.
    induction sched as [|x pre IH] using rev_ind.
    - constructor; simpl; intros t id0 o; intros; rewrite nth_error_map in *;
        destruct (nth_error prog t); discriminate.
    - pose proof (inv_at pre) as I.
      assert (Hw : forall e, In e (st_wit (run pre s0)) -> In e (st_wit (run (pre ++ [x]) s0))).
      { intros e He. rewrite run_snoc'. apply step_wit_incl'. exact He. }
      assert (Hlen : List.length (pre ++ [x]) = S (List.length pre)) by (rewrite app_length; simpl; lia).
      constructor.
      + (* a Delete parked at del.read / del.retry *)
        intros t id0 o seen n P Q. rewrite run_snoc' in Q.
        assert (Hold : nth_error (st_pcs (run pre s0)) t = Some (PDel seen n) ->
                       exists r, (r < List.length (pre ++ [x]))%nat /\ nth_error (pre ++ [x]) r = Some t /\
                                 option_map snd seen = ver (apply_id id0) (w_at (pre ++ [x]) (S r)) /\
                                 del_progress (pre ++ [x]) (st_wit (run (pre ++ [x]) s0)) t (apply_id id0) n r).
        { intros Q0. destruct (@d_del _ IH t id0 o seen n P Q0) as (r & Hr & Nr & Ev & Dp). exists r.
          split; [lia|]. split; [rewrite nth_error_app1 by lia; exact Nr|].
          split; [rewrite w_at_snoc by lia; exact Ev|]. eapply del_progress_lift; eauto. }
        destruct (Nat.eq_dec t x) as [->|Hne]; [|apply Hold; eapply pcs_step_other; eauto].
        destruct (pcs_step_self _ _ Q) as [Q0|(c & p & w' & eff & P' & Q0 & T & Ew)]; [apply Hold; exact Q0|].
        rewrite P in P'. inversion P'. subst c. clear P'.
        assert (Wnow : w_at (pre ++ [x]) (S (List.length pre)) = w').
        { unfold w_at. rewrite <- Hlen, firstn_all, run_snoc'. exact Ew. }
        unfold Lts.trans in T. destruct p as [|old cr|nv e|nv e|seen0 n0|r|]; try discriminate.
        * (* the first read *)
          assert (E1 : seen = lookup_st (apply_id id0) (st_w (run pre s0)) /\ n = 0%nat /\ w' = st_w (run pre s0))
            by (inversion T; auto).
          destruct E1 as (-> & -> & E1). clear T.
          exists (List.length pre). split; [lia|].
          split; [rewrite nth_error_app2 by lia; rewrite Nat.sub_diag; reflexivity|].
          split; [rewrite Wnow, E1; reflexivity|].
          exists (List.length pre), []. split; [lia|].
          split; [rewrite nth_error_app2 by lia; rewrite Nat.sub_diag; reflexivity|].
          split; [reflexivity|]. split; [constructor|]. intros m [].
        * (* a lost race: the re-read under the lock found another version *)
          destruct (Nat.leb 5 n0); [discriminate|].
          destruct (del_check m_eqb o seen0); [discriminate|].
          destruct (same_ptr seen0 (lookup_st (apply_id id0) (st_w (run pre s0)))) eqn:SP.
          { destruct seen0 as [[it st]|]; [|discriminate].
            destruct (update_time clock_at o (c_reads (w_c (st_w (run pre s0))))). discriminate. }
          assert (E1 : seen = lookup_st (apply_id id0) (st_w (run pre s0)) /\ n = S n0 /\ w' = st_w (run pre s0))
            by (inversion T; auto).
          destruct E1 as (-> & -> & E1). clear T.
          destruct (@d_del _ IH x id0 o seen0 n0 P Q0) as (r & Hr & Nr & Ev & (r0 & ms & A & B & C & D & E)).
          apply same_ptr_ver in SP. rewrite Ev in SP.
          assert (Wpre : w_at pre (List.length pre) = st_w (run pre s0)) by (unfold w_at; rewrite firstn_all; reflexivity).
          rewrite <- Wpre in SP.
          destruct (@ver_changed pre (apply_id id0) (S r) (List.length pre) Hr SP) as (m & e & Hm & He & Hk & Hc).
          exists (List.length pre). split; [lia|].
          split; [rewrite nth_error_app2 by lia; rewrite Nat.sub_diag; reflexivity|].
          split; [rewrite Wnow, E1; reflexivity|].
          exists r0, (m :: ms). split; [lia|]. split; [rewrite nth_error_app1 by lia; exact B|].
          split; [simpl; rewrite C; reflexivity|].
          split.
          { constructor; [|exact D]. intros Hin. destruct (E _ Hin) as [Hb _]. lia. }
          intros m' [<-|Hin].
          -- split; [lia|]. exists e. split; [apply Hw; exact He|]. split; [exact Hk|exact Hc].
          -- destruct (E _ Hin) as [Hb (e' & He' & R)]. split; [lia|]. exists e'. split; [apply Hw; exact He'|exact R].
      + (* Unavailable *)
        intros t id0 o P Q. rewrite run_snoc' in Q.
        assert (Hold : nth_error (st_pcs (run pre s0)) t = Some (PDone (OLost 14)) ->
                       exists r n, (r < List.length (pre ++ [x]))%nat /\ nth_error (pre ++ [x]) r = Some t /\ (5 <= n)%nat /\
                                   del_progress (pre ++ [x]) (st_wit (run (pre ++ [x]) s0)) t (apply_id id0) n r).
        { intros Q0. destruct (@d_unav _ IH t id0 o P Q0) as (r & n & Hr & Nr & Hn & Dp). exists r, n.
          split; [lia|]. split; [rewrite nth_error_app1 by lia; exact Nr|]. split; [exact Hn|].
          eapply del_progress_lift; eauto. }
        destruct (Nat.eq_dec t x) as [->|Hne]; [|apply Hold; eapply pcs_step_other; eauto].
        destruct (pcs_step_self _ _ Q) as [Q0|(c & p & w' & eff & P' & Q0 & T & Ew)]; [apply Hold; exact Q0|].
        rewrite P in P'. inversion P'. subst c. clear P'.
        unfold Lts.trans in T. destruct p as [|old cr|nv e|nv e|seen0 n0|r|]; try discriminate.
        destruct (Nat.leb 5 n0) eqn:N5.
        * apply Nat.leb_le in N5.
          destruct (@d_del _ IH x id0 o seen0 n0 P Q0) as (r & Hr & Nr & _ & Dp). exists r, n0.
          split; [lia|]. split; [rewrite nth_error_app1 by lia; exact Nr|]. split; [exact N5|].
          eapply del_progress_lift; eauto.
        * exfalso. destruct (del_check m_eqb o seen0) as [r1|] eqn:DC.
          { destruct (del_check_form _ _ _ DC) as (mm & ee & ->). discriminate. }
          destruct (same_ptr seen0 (lookup_st (apply_id id0) (st_w (run pre s0)))); [|discriminate].
          destruct seen0 as [[it st]|]; [|discriminate].
          destruct (update_time clock_at o (c_reads (w_c (st_w (run pre s0))))). discriminate.
  Qed.

  (* C02: a Delete returns Unavailable only after five lost races: at least five distinct commits
     to its id — successful Updates / Adds / Deletes of other calls — were linearized strictly
     between two of its own steps *)
  Theorem unavailable_after_five_lost_races sched t id0 o :
    nth_error prog t = Some (CDelete id0 o) ->
    nth_error (st_pcs (run sched s0)) t = Some (PDone (OLost 14)) ->
    exists r0 r ms, nth_error sched r0 = Some t /\ nth_error sched r = Some t /\
                    (5 <= List.length ms)%nat /\ NoDup ms /\
                    forall m, In m ms ->
                      (r0 < m < r)%nat /\
                      exists e, In e (st_wit (run sched s0)) /\ wit_k e = m /\ wit_tid e <> t /\ commits_to (apply_id id0) e.
  Proof.
    intros P Q. destruct (@d_unav _ (dinv_run sched) t id0 o P Q) as (r & n & Hr & Nr & Hn & (r0 & ms & A & B & C & D & E)).
    exists r0, r, ms. split; [exact B|]. split; [exact Nr|]. split; [lia|]. split; [exact D|].
    intros m Hin. destruct (E _ Hin) as [Hb (e & He & Hk & Hc)]. split; [exact Hb|].
    exists e. split; [exact He|]. split; [exact Hk|]. split; [|exact Hc].
    (* the Delete itself lost: it is not in the witness *)
    intros Et. pose proof (@returned_is_linearized _ m_eqb m_empty _ w_validate w_merge _ clock_at str_ltb idfun m_eqb_eq ltb_irrefl ltb_trans ltb_total prog v0 c0 c0_sorted sched t _ _ P Q) as W.
    simpl in W. assert (In e (wit_of t (st_wit (run sched s0)))).
    { unfold wit_of. apply filter_In. split; [exact He|]. apply Nat.eqb_eq. exact Et. }
    rewrite W in H. destruct H.
  Qed.
End Proofs.
