(* C03: soundness of the judge's model-free oracle for a PullID stream (backpressured, seeded, no include
   predicate -- what the harness generates), per subscriber: if the observed ValueChange stream and closed
   flag match the model's `pull_id_from id` of the subscriber's collection stream and the observed final List
   matches the model's, the oracle's clause `pid_ok` holds.  C03_pull_id_converges carried through the judge's
   definitions; the same shape as C03JudgeSound.judge_value_oracle_sound. *)
From SC Require Import Base.Prelude Resource.Impl Resource.Spec Resource.Pull Resource.PullProofs Resource.Flat Resource.FlatProofs
  Resource.Judge Conc.Lts Conc.LtsProofs Conc.SubProofs Conc.FlatInst Conc.Judge Conc.C03JudgeSound.

Lemma kv_list_eqb_eq : forall a b : list (string * fmsg), list_eqb kv_eqb a b = true -> a = b.
Proof.
  induction a as [|[k v] a IH]; intros [|[k' v'] b] H; simpl in H; try discriminate; [reflexivity|].
  apply andb_true_iff in H. destruct H as [H1 H2]. unfold kv_eqb in H1. simpl in H1.
  apply andb_true_iff in H1. destruct H1 as [Hk Hv]. apply String.eqb_eq in Hk. apply fmsg_eqb_eq in Hv. subst.
  f_equal. apply IH, H2.
Qed.

(* List with a mask (no include) is List without, masked afterwards *)
Lemma vlookup_c_list_mask (c : cstate fmsg) (ro : fro) id :
  vlookup id (c_list fr_filter c (r_mask ro) None) = option_map (mask_of ro) (vlookup id (c_list fr_filter c None None)).
Proof.
  unfold c_list, mask_of. induction (filter (fun _ => true) (c_items c)) as [|[k x] r IH]; simpl; [reflexivity|].
  destruct (String.eqb k id); [|exact IH]. destruct (r_mask ro); reflexivity.
Qed.

Lemma pid_ok_is_vview_ok id ro stream cl fc : pid_ok id ro stream cl fc = cl || vview_ok ro stream (view_lookup id fc).
Proof. reflexivity. Qed.

Theorem judge_pull_id_oracle_sound (i : option idf) (prog : list fcall) (sched : list nat) vinit cinit
        (u : csub fmsg (list fld)) (ro : fro) id vs b obs cl fc :
  (forall t c, nth_error (map to_call prog) t = Some c -> call_ok (idfun_of i) c) ->
  ImplProofs.sorted str_ltb (c_items (init_c cinit)) ->
  let s := f_run false i prog sched vinit cinit in
  all_done s = true -> In u (st_csubs s) -> cs_ro u = to_ropts ro ->
  r_updates_only ro = false -> r_include ro = None ->
  pull_id_from id (cstream_of u) = (vs, b) ->
  list_match vc_matches vs obs = true -> Bool.eqb b cl = true ->
  list_eqb kv_eqb (final_list (w_c (st_w s))) fc = true ->
  pid_ok id ro obs cl fc = true.
Proof.
  intros OK SO s D Hu Ero UO INC PF LM CL EF.
  rewrite pid_ok_is_vview_ok. apply eqb_prop in CL. subst cl.
  destruct b; [reflexivity|]. simpl.
  apply kv_list_eqb_eq in EF. subst fc.
  apply (vview_ok_of_last ro vs obs (view_lookup id (final_list (w_c (st_w s)))) _ LM (ofm_eqb_same _)).
  intros _.
  assert (P : plain_sub u) by (unfold plain_sub; rewrite Ero; exact UO).
  pose proof (converges_pull_id fmsg_eqb fzero fw_validate fw_merge fr_filter fclock str_ltb (idfun_of i) fmsg_eqb_eq
                str_ltb_irrefl str_ltb_trans str_ltb_total (map to_call prog) OK (init_v vinit) (init_c cinit) SO sched id D Hu P PF) as CV.
  rewrite CV, Ero. simpl. rewrite INC. simpl. apply vlookup_c_list_mask.
Qed.
