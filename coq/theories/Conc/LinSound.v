(* The linearizability checker of Conc/Judge.v (lin_search / linearizable_b, the predicate C02_ok
   evaluates on every observed history, including the gate-free histories of the 16-core stress)
   is SOUND and COMPLETE: it answers true exactly when a linearization exists -- an order of the
   effective calls (all writes except those that report a lost race) that
     - is a permutation of them,
     - never places a call before one that had returned before it was invoked (real time), and
     - replayed one call at a time on the sequential reference (Resource/Spec.v) gives every call
       the result it reported and ends in the contents read at the end.
   So a verdict "linearizable" for a free-running history rests on: the Coq kernel, this theorem,
   the reference, and the stamps the harness took (one atomic counter read before the call and
   after its return) -- not on the search procedure. *)
From SC Require Import Base.Prelude Resource.Impl Resource.Spec Resource.Pull Resource.Flat Resource.Judge
  Conc.Lts Conc.Judge.
From Coq Require Import Permutation.

(* ---------- what a linearization is ---------- *)
Fixpoint rt_ok (order : list hcall) : Prop :=
  match order with
  | [] => True
  | h :: r => (forall b, In b r -> precedes b h = false) /\ rt_ok r
  end.

Fixpoint seq_ok (rw : option (list fld)) (i : option idf) (vc : vstate fmsg * cstate fmsg) (order : list hcall)
         (fv : option fmsg) (fc : list (string * fmsg)) : Prop :=
  match order with
  | [] => final_matches vc fv fc = true
  | h :: r =>
      out_matches (snd (f_spec_call i vc (to_call_w rw (h_call h)))) (h_out h) = true /\
      seq_ok rw i (fst (f_spec_call i vc (to_call_w rw (h_call h)))) r fv fc
  end.

Definition linearization (rw : option (list fld)) (i : option idf) (vc : vstate fmsg * cstate fmsg) (calls order : list hcall)
           (fv : option fmsg) (fc : list (string * fmsg)) : Prop :=
  Permutation order calls /\ rt_ok order /\ seq_ok rw i vc order fv fc.

(* ---------- remove_first on lists with distinct stamps ---------- *)
Lemma key_refl h : hcall_key_eqb h h = true.
Proof. unfold hcall_key_eqb. rewrite !Z.eqb_refl. reflexivity. Qed.

Lemma existsb_false_in {A} (f : A -> bool) l x : existsb f l = false -> In x l -> f x = false.
Proof.
  intros H Hin. destruct (f x) eqn:E; [|reflexivity].
  assert (existsb f l = true) by (apply existsb_exists; eauto). congruence.
Qed.

Lemma in_remove_first h l b : In b (remove_first h l) -> In b l.
Proof.
  induction l as [|x r IH]; simpl; [auto|].
  destruct (hcall_key_eqb x h); [auto|]. intros [->|H]; auto.
Qed.

Lemma perm_remove_first h l : In h l -> keys_distinct l = true -> Permutation l (h :: remove_first h l).
Proof.
  induction l as [|x r IH]; intros Hin Hd; [destruct Hin|].
  simpl in Hd. apply andb_true_iff in Hd. destruct Hd as [Hx Hr]. apply negb_true_iff in Hx.
  simpl. destruct (hcall_key_eqb x h) eqn:K.
  - destruct Hin as [->|Hin]; [apply Permutation_refl|].
    rewrite (existsb_false_in _ _ _ Hx Hin) in K. discriminate.
  - destruct Hin as [->|Hin]; [rewrite key_refl in K; discriminate|].
    eapply perm_trans; [apply perm_skip; apply IH; assumption|apply perm_swap].
Qed.

Lemma keys_distinct_remove h l : keys_distinct l = true -> keys_distinct (remove_first h l) = true.
Proof.
  induction l as [|x r IH]; intros Hd; [reflexivity|].
  simpl in Hd. apply andb_true_iff in Hd. destruct Hd as [Hx Hr]. simpl.
  destruct (hcall_key_eqb x h); [exact Hr|]. simpl. rewrite (IH Hr), andb_true_r.
  apply negb_true_iff. apply negb_true_iff in Hx.
  destruct (existsb (hcall_key_eqb x) (remove_first h r)) eqn:E; [|reflexivity].
  apply existsb_exists in E. destruct E as (b & Hb & Kb).
  rewrite (existsb_false_in _ _ _ Hx (in_remove_first _ _ _ Hb)) in Kb. discriminate.
Qed.

(* ---------- soundness ---------- *)
Theorem lin_search_sound rw i fv fc : forall fuel pending vc,
  keys_distinct pending = true -> lin_search rw i fuel pending vc fv fc = true ->
  exists order, linearization rw i vc pending order fv fc.
Proof.
  induction fuel as [|f IH]; intros pending vc Hd H.
  - destruct pending; [|discriminate]. exists []. repeat split; [constructor|exact H].
  - destruct pending as [|p0 pr] eqn:EP; [exists []; repeat split; [constructor|exact H]|].
    rewrite <- EP in *. assert (Hne : pending <> []) by (rewrite EP; discriminate).
    assert (H' : existsb (fun h =>
                  negb (existsb (fun h' => precedes h' h) pending) &&
                  (let '(vc', r) := f_spec_call i vc (to_call_w rw (h_call h)) in
                   out_matches r (h_out h) && lin_search rw i f (remove_first h pending) vc' fv fc)) pending = true).
    { rewrite EP in H |- *. exact H. }
    clear H. apply existsb_exists in H'. destruct H' as (h & Hin & Hc).
    apply andb_true_iff in Hc. destruct Hc as [Hmin Hc]. apply negb_true_iff in Hmin.
    destruct (f_spec_call i vc (to_call_w rw (h_call h))) as [vc' r] eqn:S.
    apply andb_true_iff in Hc. destruct Hc as [Hout Hrest].
    destruct (IH _ _ (keys_distinct_remove h _ Hd) Hrest) as (order & Hp & Hrt & Hseq).
    exists (h :: order). split; [|split].
    + eapply perm_trans; [apply perm_skip; exact Hp|]. apply Permutation_sym. apply perm_remove_first; assumption.
    + simpl. split; [|exact Hrt]. intros b Hb.
      apply (existsb_false_in _ _ _ Hmin). apply (in_remove_first h). eapply Permutation_in; eauto.
    + simpl. rewrite S. simpl. split; assumption.
Qed.

(* ---------- completeness ---------- *)
Theorem lin_search_complete rw i fv fc : forall order fuel pending vc,
  keys_distinct pending = true -> (forall h, In h pending -> precedes h h = false) ->
  (List.length pending <= fuel)%nat ->
  linearization rw i vc pending order fv fc -> lin_search rw i fuel pending vc fv fc = true.
Proof.
  induction order as [|h r IH]; intros fuel pending vc Hd Hself Hfuel (Hp & Hrt & Hseq).
  - apply Permutation_nil in Hp. subst pending. destruct fuel; exact Hseq.
  - assert (Hin : In h pending) by (eapply Permutation_in; [exact Hp|left; reflexivity]).
    destruct pending as [|p0 pr] eqn:EP; [destruct Hin|]. rewrite <- EP in *.
    destruct fuel as [|f]; [rewrite EP in Hfuel; simpl in Hfuel; lia|].
    assert (G : existsb (fun h =>
                  negb (existsb (fun h' => precedes h' h) pending) &&
                  (let '(vc', r) := f_spec_call i vc (to_call_w rw (h_call h)) in
                   out_matches r (h_out h) && lin_search rw i f (remove_first h pending) vc' fv fc)) pending = true).
    2:{ rewrite EP in G |- *. exact G. }
    apply existsb_exists. exists h. split; [exact Hin|].
    simpl in Hrt, Hseq. destruct Hrt as [Hmin Hrt]. destruct Hseq as [Hout Hseq].
    assert (Hpr : Permutation r (remove_first h pending)).
    { eapply Permutation_cons_inv. eapply perm_trans; [exact Hp|]. apply perm_remove_first; assumption. }
    apply andb_true_iff. split.
    + apply negb_true_iff. destruct (existsb (fun h' => precedes h' h) pending) eqn:E; [|reflexivity].
      apply existsb_exists in E. destruct E as (b & Hb & Pb).
      assert (Hb' : In b (h :: r)) by (eapply Permutation_in; [apply Permutation_sym; exact Hp|exact Hb]).
      destruct Hb' as [<-|Hb']; [rewrite (Hself _ Hin) in Pb; discriminate|].
      rewrite (Hmin _ Hb') in Pb. discriminate.
    + destruct (f_spec_call i vc (to_call_w rw (h_call h))) as [vc' o] eqn:S. simpl in Hout, Hseq.
      rewrite Hout. simpl. apply IH.
      * apply keys_distinct_remove. exact Hd.
      * intros b Hb. apply Hself. eapply in_remove_first; eauto.
      * rewrite <- (Permutation_length Hpr).
        pose proof (Permutation_length Hp) as L. simpl in L. lia.
      * repeat split; assumption.
Qed.

(* ---------- the checker as a whole ---------- *)
Definition effective (hist : list hcall) : list hcall :=
  filter (fun h => negb (is_lost h)) (filter (fun h => is_write_call (h_call h)) hist).

Theorem linearizable_b_sound rw i vinit cinit hist fv fc :
  linearizable_b rw i vinit cinit hist fv fc = true ->
  forallb allowed_code (filter (fun h => is_write_call (h_call h)) hist) = true /\
  exists order, linearization rw i (init_v vinit, init_c cinit) (effective hist) order fv fc.
Proof.
  unfold linearizable_b. intros H.
  apply andb_true_iff in H. destruct H as [Ha H]. apply andb_true_iff in H. destruct H as [Hd H].
  split; [exact Ha|]. eapply lin_search_sound; eauto.
Qed.

Theorem linearizable_b_complete rw i vinit cinit hist fv fc order :
  forallb allowed_code (filter (fun h => is_write_call (h_call h)) hist) = true ->
  keys_distinct (effective hist) = true ->
  (forall h, In h (effective hist) -> h_inv h <= h_resp h) ->
  linearization rw i (init_v vinit, init_c cinit) (effective hist) order fv fc ->
  linearizable_b rw i vinit cinit hist fv fc = true.
Proof.
  intros Ha Hd Hst L. unfold linearizable_b. rewrite Ha. fold (effective hist). rewrite Hd. simpl.
  eapply lin_search_complete; eauto.
  intros h Hh. unfold precedes. apply Z.ltb_ge. apply Hst. exact Hh.
Qed.

(* what C02_ok asserts of a free-running history (the stress tier) and of a forced schedule *)
Definition hist_of_case (c : ccase) : option (option (list fld) * option idf * option fmsg * list (string * fmsg * Z) * list hcall *
                                              option fmsg * list (string * fmsg)) :=
  match c with
  | CaseSched i vinit cinit prog sched results fv fc _ _ _ => Some (None, i, vinit, cinit, hist_of 0 prog results sched, fv, fc)
  | CaseHist i vinit cinit hist fv fc =>
      Some (None, i, vinit, cinit, map (fun p => mkH (fst (fst (fst p))) (snd (fst (fst p))) (snd (fst p)) (snd p)) hist, fv, fc)
  | CaseGen i cinit prog cands sched results reported created fc =>
      Some (None, i, None, cinit, hist_of 0 (subst_reported i 0 prog reported) results sched, None, fc)
  | CaseCfg cfg i vinit cinit prog sched results fv fc _ _ _ => Some (cf_writable cfg, i, vinit, cinit, hist_of 0 prog results sched, fv, fc)
  | _ => None
  end.

Theorem C02_ok_sound c rw i vinit cinit hist fv fc :
  hist_of_case c = Some (rw, i, vinit, cinit, hist, fv, fc) -> C02_ok c = true ->
  forallb allowed_code (filter (fun h => is_write_call (h_call h)) hist) = true /\
  exists order, linearization rw i (init_v vinit, init_c cinit) (effective hist) order fv fc.
Proof.
  destruct c; simpl; intros E H; inversion E; subst; clear E.
  - apply linearizable_b_sound. exact H.
  - apply linearizable_b_sound. exact H.
  - apply andb_true_iff in H. destruct H as [H _]. apply andb_true_iff in H. destruct H as [H _].
    apply linearizable_b_sound. exact H.
  - apply linearizable_b_sound. exact H.
Qed.
