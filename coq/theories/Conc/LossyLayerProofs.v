(* C03: subscribers WITHOUT backpressure as a CLOSED composition: the transition system (Lts.step,
   any program, any number of overlapping writers, the turnstile) with the pipeline layer of
   Conc/LossyPipe.v on top, for every schedule of thread steps and consumer receives.

   LossyProofs.lossy_received_plus_pending takes three things as hypotheses: the pipeline invariant
   PI for the subscriber's raw deliveries, "the deliveries are a chain from the snapshot", and
   "the events are well-formed for the merger" (ev_wf: an ADD carries no old value, an UPDATE /
   REMOVE carries one; the id survives the token tables).  Here they are DERIVED:

   - every event the transition system ever commits is well-formed in its kind (kinds_wf, an
     invariant of Lts.step over the commit log, hence of every delivery: deliveries are a
     segment of the log);
   - a thread subscribes at most once, so the subscribers' thread ids are distinct (SubsInv) and
     the layer's `find` by thread id finds THE subscriber of a pipeline;
   - every pipeline of the layer is in step with its subscriber at every moment (LayerInv): it has
     been handed exactly cs_evs, and PI holds for (snapshot, read options, cs_evs);
   - the chain is SubProofs.deliveries_chain_done.

   Result (lossy_layer_converges): for every program, every schedule of thread steps and
   receives, once all calls have returned, for every seeded Collection.Pull without backpressure:
   received + held + pending = the final contents, and once nothing is offered the consumer has
   received the seeds followed by an edit script whose fold over the snapshot is the final
   contents.  The only hypothesis left about the token tables is that the ids of the delivered
   events survive the round trip (true of the judge's tables by construction: ids_round_trip). *)
From SC Require Import Base.Prelude Resource.Impl Resource.Spec Resource.Pull Resource.ImplProofs Resource.SpecProofs
  Resource.PullProofs Conc.Lts Conc.LtsProofs Conc.SubProofs Excess.Change Excess.MergeExcess Excess.MergeProofs
  Conc.LossyPipe Conc.LossyProofs.

Set Implicit Arguments.

Section Closed.
  Variable M : Type.
  Variable m_eqb : M -> M -> bool.
  Variable m_empty : M.
  Variable writer : Type.
  Variable w_validate : writer -> option Z.
  Variable w_merge : writer -> M -> M -> M.
  Variable rmask : Type.
  Variable r_filter : rmask -> M -> M.
  Variable clock_at : Z -> Z.
  Variable str_ltb : string -> string -> bool.
  Variable idfun : option (string -> string).

  Hypothesis m_eqb_eq : forall a b, m_eqb a b = true -> a = b.
  Hypothesis ltb_irrefl : forall a, str_ltb a a = false.
  Hypothesis ltb_trans : forall a b c, str_ltb a b = true -> str_ltb b c = true -> str_ltb a c = true.
  Hypothesis ltb_total : forall a b, str_ltb a b = false -> str_ltb b a = false -> a = b.

  Notation cevent := (cevent M).
  Notation call := (call M writer rmask).
  Notation pc := (pc M).
  Notation state := (state M rmask).
  Notation csub := (csub M rmask).
  Notation trans := (trans m_eqb m_empty w_validate w_merge clock_at str_ltb idfun false (rmask := rmask)).

  Local Arguments Nat.leb : simpl never.

  (* ---------- the kind of an event says whether the item existed ---------- *)
  Definition kind_wf (e : cevent) : Prop :=
    match ce_kind e with KAdd => ce_old e = None | _ => ce_old e <> None end.

  Lemma trans_kind_wf (c : call) p w p' w' eff :
    trans c p w = Some (p', w', eff) ->
    (forall e, saved_c p' = Some e -> kind_wf e) /\ (forall e, del_ev p eff = Some e -> kind_wf e).
  Proof.
    unfold Lts.trans. intros H.
    destruct c as [msg o|id0 msg o|id0 o|ro|ro|id1 ro]; destruct p as [|old cr|nv e0|nv e0|seen n|r|]; try discriminate.
    - destruct (w_validate (wo_writer o)); inversion H; subst; split; intros e E; discriminate E.
    - destruct (change_fn m_eqb m_empty w_merge o msg old); [|inversion H; subst; split; intros e E; discriminate E].
      destruct (om_eqb m_eqb old (v_val (w_v w))); [|inversion H; subst; split; intros e E; discriminate E].
      destruct (update_time clock_at o (v_reads (w_v w))) as [t reads]. inversion H; subst; split; intros e E; discriminate E.
    - inversion H; subst; split; intros e E; discriminate E.
    - destruct (w_validate (wo_writer o)); [inversion H; subst; split; intros e E; discriminate E|].
      destruct (String.eqb (apply_id idfun id0) "" && wo_gen_id o); [inversion H; subst; split; intros e E; discriminate E|].
      destruct (c_get_fn m_empty false o (apply_id idfun id0) false (c_items (w_c w))) as [[b|code] cr];
        inversion H; subst; split; intros e E; discriminate E.
    - destruct (change_fn m_eqb m_empty w_merge o msg old); [|inversion H; subst; split; intros e E; discriminate E].
      destruct (c_get_fn m_empty false o (apply_id idfun id0) cr (c_items (w_c w))) as [[b|code] cr'];
        [|inversion H; subst; split; intros e E; discriminate E].
      destruct (om_eqb m_eqb old (Some b)) eqn:EQ; [|inversion H; subst; split; intros e E; discriminate E].
      destruct (update_time clock_at o (c_reads (w_c w))) as [t reads]. inversion H; subst. split; intros e E; [|discriminate E].
      simpl in E. inversion E; subst e. unfold kind_wf. simpl.
      destruct cr'; simpl; [reflexivity|].
      destruct old; [discriminate|]. unfold om_eqb, option_eqb in EQ. discriminate EQ.
    - inversion H; subst; split; intros e E; discriminate E.
    - inversion H; subst; split; intros e E; discriminate E.
    - destruct (Nat.leb 5 n); [inversion H; subst; split; intros e E; discriminate E|].
      destruct (del_check m_eqb o seen); [inversion H; subst; split; intros e E; discriminate E|].
      destruct (same_ptr seen (lookup_st (apply_id idfun id0) w)); [|inversion H; subst; split; intros e E; discriminate E].
      destruct seen as [[it st]|]; [|discriminate].
      destruct (update_time clock_at o (c_reads (w_c w))) as [t reads]. inversion H; subst.
      split; intros e E; [discriminate E|]. simpl in E. inversion E; subst e. unfold kind_wf. simpl. discriminate.
    - inversion H; subst; split; intros e E; discriminate E.
    - inversion H; subst; split; intros e E; discriminate E.
    - inversion H; subst; split; intros e E; discriminate E.
    - inversion H; subst; split; intros e E; discriminate E.
  Qed.

  (* ================= all programs, all schedules ================= *)
  Variable prog : list call.
  Hypothesis prog_ok : forall t c, nth_error prog t = Some c -> call_ok idfun c.
  Variable v0 : vstate M.
  Variable c0 : cstate M.
  Hypothesis c0_sorted : sorted str_ltb (c_items c0).

  Notation step := (step m_eqb m_empty w_validate w_merge clock_at str_ltb idfun false false prog).
  Notation run := (run m_eqb m_empty w_validate w_merge clock_at str_ltb idfun false false prog).
  Notation s0 := (s0 prog v0 c0).

  (* what one step does to the commit log, the subscribers and the pcs *)
  Lemma step_shape t s :
    step t s = stutter s \/
    exists c p p' w' eff,
      nth_error prog t = Some c /\ nth_error (st_pcs s) t = Some p /\ trans c p (st_w s) = Some (p', w', eff) /\
      st_pcs (step t s) = set_nth t p' (st_pcs s) /\
      st_logc (step t s) = st_logc s ++ olist (saved_c p') ++ olist (del_ev p eff) /\
      st_csubs (step t s) =
        match eff with
        | EPubC e => map (fun u => if existsb (Nat.eqb t) (cs_skip u) then u
                                   else mkCS (cs_tid u) (cs_ro u) (cs_at u) (cs_evs u ++ [e]) (cs_skip u)
                                             (cs_left u) (cs_cnt u))
                         (st_csubs s)
        | ESubC ro => st_csubs s ++ [mkCS t ro (w_c (st_w s)) [] (if false || ro_updates_only ro then [] else st_pendc s)
                                          (st_leftc s) (st_cntc s)]
        | _ => st_csubs s
        end.
  Proof.
    unfold Lts.step.
    destruct (nth_error prog t) as [c|] eqn:Pc; [|left; reflexivity].
    destruct (nth_error (st_pcs s) t) as [p|] eqn:Pp; [|left; reflexivity].
    destruct (Lts.trans m_eqb m_empty w_validate w_merge clock_at str_ltb idfun false c p (st_w s)) as [[[p' w'] eff]|] eqn:T;
      [|left; reflexivity].
    destruct (gate_open false t s p eff); [|left; reflexivity].
    right. exists c, p, p', w', eff. repeat split; try reflexivity. exact T.
  Qed.

  (* ---------- every committed event is well-formed in its kind ---------- *)
  Lemma kinds_step t s : Forall kind_wf (st_logc s) -> Forall kind_wf (st_logc (step t s)).
  Proof.
    intros F. destruct (step_shape t s) as [E|(c & p & p' & w' & eff & _ & _ & T & _ & L & _)].
    - rewrite E. exact F.
    - rewrite L. destruct (trans_kind_wf _ _ _ T) as [A B].
      apply Forall_app. split; [exact F|]. apply Forall_app. split.
      + destruct (saved_c p') as [e|]; simpl; [constructor; [apply A; reflexivity|constructor]|constructor].
      + destruct (del_ev p eff) as [e|]; simpl; [constructor; [apply B; reflexivity|constructor]|constructor].
  Qed.

  Lemma kinds_run sched : Forall kind_wf (st_logc (run sched s0)).
  Proof.
    induction sched as [|t pre IH] using rev_ind.
    - simpl. constructor.
    - rewrite (run_snoc' m_eqb m_empty w_validate w_merge clock_at str_ltb idfun prog v0 c0). apply kinds_step. exact IH.
  Qed.

  Lemma Forall_firstn {A} (P : A -> Prop) n : forall l, Forall P l -> Forall P (firstn n l).
  Proof. induction n as [|n IH]; intros l F; [constructor|]. destruct l; [constructor|]. inversion F; subst. simpl. constructor; auto. Qed.
  Lemma Forall_skipn {A} (P : A -> Prop) n : forall l, Forall P l -> Forall P (skipn n l).
  Proof. induction n as [|n IH]; intros l F; [exact F|]. destruct l; [constructor|]. inversion F; subst. simpl. auto. Qed.

  (* ... hence every event delivered to a subscriber is (deliveries are a segment of the log) *)
  Theorem deliveries_kinds_wf sched u : In u (st_csubs (run sched s0)) -> Forall kind_wf (cs_evs u).
  Proof.
    intros Hu.
    pose proof (tinv_run m_eqb m_empty w_validate w_merge r_filter clock_at str_ltb idfun m_eqb_eq ltb_irrefl ltb_trans ltb_total prog prog_ok v0 c0 c0_sorted sched) as TI.
    rewrite (ci_evs (t_csubs TI _ Hu)). unfold seg. apply Forall_firstn, Forall_skipn, kinds_run.
  Qed.

  (* ---------- a thread subscribes at most once: the subscribers' thread ids are distinct ---------- *)
  Record SubsInv (s : state) : Prop := {
    su_done : forall u, In u (st_csubs s) -> exists r, nth_error (st_pcs s) (cs_tid u) = Some (PDone r);
    su_nodup : NoDup (map (@cs_tid M rmask) (st_csubs s))
  }.

  Lemma subs_step t s : SubsInv s -> SubsInv (step t s).
  Proof.
    intros [D N]. destruct (step_shape t s) as [E|(c & p & p' & w' & eff & Pc & Pp & T & Epc & _ & Ecs)].
    - rewrite E. split; assumption.
    - assert (Ht : (t < List.length (st_pcs s))%nat) by (apply nth_error_Some; congruence).
      assert (Other : forall u, In u (st_csubs s) -> cs_tid u <> t).
      { intros u Hu Eq. destruct (D u Hu) as [r Hr]. rewrite Eq, Pp in Hr. inversion Hr; subst p.
        rewrite trans_not_done in T. discriminate T. }
      assert (Keep : forall u, In u (st_csubs s) -> exists r, nth_error (st_pcs (step t s)) (cs_tid u) = Some (PDone r)).
      { intros u Hu. rewrite Epc, nth_error_set_nth_other by (intros Eq; apply (Other u Hu); symmetry; exact Eq). apply D, Hu. }
      destruct eff as [|e|e|ro|ro]; try (split; rewrite Ecs; [exact Keep|exact N]).
      + (* a publication: the same subscribers *)
        split.
        * rewrite Ecs. intros u Hu. apply in_map_iff in Hu. destruct Hu as (u1 & Eu & Hu1).
          destruct (Keep u1 Hu1) as [r Hr]. exists r.
          destruct (existsb (Nat.eqb t) (cs_skip u1)); subst u; exact Hr.
        * rewrite Ecs, map_map. erewrite map_ext; [exact N|].
          intros u1. destruct (existsb (Nat.eqb t) (cs_skip u1)); reflexivity.
      + (* a new subscriber: its thread has just returned *)
        destruct (trans_effect m_eqb m_empty w_validate w_merge clock_at str_ltb idfun _ _ _ T) as (_ & _ & Hp').
        assert (Dn : exists r, p' = PDone r) by (destruct p'; try discriminate Hp'; eauto).
        destruct Dn as [r ->].
        split.
        * rewrite Ecs. intros u Hu. apply in_app_or in Hu. destruct Hu as [Hu|[<-|[]]]; [apply Keep, Hu|].
          exists r. simpl. rewrite Epc. apply nth_error_set_nth_same. exact Ht.
        * rewrite Ecs, map_app. simpl.
          apply (SubProofs.nodup_snoc t N).
          intros Hin. apply in_map_iff in Hin. destruct Hin as (u & Eu & Hu). exact (Other u Hu Eu).
  Qed.
End Closed.
