(* C03: subscribers WITHOUT backpressure as a CLOSED composition: the transition system (Lts.step,
   any program, any number of overlapping writers, the turnstile) with the pipeline layer of
   Conc/LossyPipe.v on top, for every schedule of thread steps and consumer receives.

   LossyProofs.lossy_received_plus_pending takes three things as hypotheses: the pipeline invariant
   PI for the subscriber's raw deliveries, "the deliveries are a chain from the snapshot", and
   "the events are well-formed for the merger" (ev_wf: an ADD carries no old value, an UPDATE /
   REMOVE carries one; the id survives the token tables).  Here they are DERIVED:

   - every event the transition system ever commits is well-formed in its kind (kinds_wf, an
     invariant of Lts.step over the commit log, hence of every delivery: deliveries are a
     segment of the log);
   - a thread subscribes at most once, so the subscribers' thread ids are distinct (SubsInv) and
     the layer's `find` by thread id finds THE subscriber of a pipeline;
   - every pipeline of the layer is in step with its subscriber at every moment (LayerInv): it has
     been handed exactly cs_evs, and PI holds for (snapshot, read options, cs_evs);
   - the chain is SubProofs.deliveries_chain_done.

   Result (lossy_layer_converges): for every program, every schedule of thread steps and
   receives, once all calls have returned, for every seeded Collection.Pull without backpressure:
   received + held + pending = the final contents, and once nothing is offered the consumer has
   received the seeds followed by an edit script whose fold over the snapshot is the final
   contents.  The only hypothesis left about the token tables is that the ids of the delivered
   events survive the round trip (true of the judge's tables by construction: ids_round_trip). *)
From SC Require Import Base.Prelude Resource.Impl Resource.Spec Resource.Pull Resource.ImplProofs Resource.SpecProofs
  Resource.PullProofs Conc.Lts Conc.LtsProofs Conc.SubProofs Excess.Change Excess.MergeExcess Excess.MergeProofs
  Conc.LossyPipe Conc.LossyProofs.

Set Implicit Arguments.

(* ---------- "a reader that keeps receiving" catches up ---------- *)
Section Progress.
  Variable M : Type.
  Variable rmask : Type.
  Variable r_filter : rmask -> M -> M.
  Variable id_tok : string -> Z.
  Variable id_of : Z -> string.
  Variable val_tok : M -> Z.
  Variable val_of : Z -> option M.

  Notation lsub := (lsub M rmask).
  Notation pump_m := (@pump_m M rmask r_filter None id_of val_of).
  Notation recv := (@recv M rmask r_filter None id_of val_of).
  Notation drain := (@drain M rmask r_filter None id_of val_of).
  Notation drained := (@drained M rmask r_filter None id_of val_of).
  Notation PI := (@PI M rmask r_filter id_tok id_of val_tok val_of).

  (* taking from the merger never lengthens its queue, and a change that survives was taken from it *)
  Lemma pump_m_queue ro : forall fuel m g, closed m = false ->
    (List.length (queue (fst (fst (pump_m fuel ro m g)))) <= List.length (queue m))%nat /\
    (snd (pump_m fuel ro m g) <> None ->
     (List.length (queue (fst (fst (pump_m fuel ro m g)))) < List.length (queue m))%nat).
  Proof.
    induction fuel as [|f IH]; intros m g Ho.
    - simpl. split; [lia|intros C; exfalso; apply C; reflexivity].
    - destruct (queue m) as [|i q] eqn:Q.
      + assert (St : m_step m Recv = (m, ONothing)) by (unfold m_step; rewrite Ho, Q; reflexivity).
        cbn [LossyPipe.pump_m]. rewrite St. simpl. rewrite Q. split; [simpl; lia|intros C; exfalso; apply C; reflexivity].
      + set (c := match msgs m i with Some c => c | None => zero_change end).
        set (m' := mkM (mdel (msgs m) i) q false).
        assert (St : m_step m Recv = (m', OGot c)) by (unfold m_step; rewrite Ho, Q; reflexivity).
        cbn [LossyPipe.pump_m]. rewrite St.
        destruct (post r_filter None ro (dec id_of val_of c)) as [c'|].
        * simpl. split; [lia|intros _; lia].
        * destruct (IH m' (g ++ [c]) eq_refl) as [A B]. simpl in A, B. split; [simpl; lia|]. intros N. specialize (B N). simpl. lia.
  Qed.

  Definition backlog (l : lsub) : nat :=
    ((match ls_slot l with Some _ => 1 | None => 0 end) + List.length (ls_seeds l) + List.length (queue (ls_m l)))%nat.

  Lemma recv_backlog l : ls_pid l = None -> closed (ls_m l) = false -> ls_slot l <> None ->
    (backlog (recv l) < backlog l)%nat.
  Proof.
    intros Hp Ho Hs. unfold LossyPipe.recv. rewrite Hp. unfold LossyPipe.take.
    destruct (ls_slot l) as [c|] eqn:SL; [|exfalso; apply Hs; reflexivity].
    cbn [snd]. unfold LossyPipe.pump. cbn [ls_slot ls_seeds ls_m ls_ro ls_gotm].
    destruct (ls_seeds l) as [|s r] eqn:SE.
    - pose proof (pump_m_queue (ls_ro l) (S (List.length (queue (ls_m l)))) (ls_m l) (ls_gotm l) Ho) as [A B].
      destruct (pump_m (S (List.length (queue (ls_m l)))) (ls_ro l) (ls_m l) (ls_gotm l)) as [[m' g'] o].
      unfold backlog. rewrite SL, SE. simpl in *. destruct o as [c'|].
      + assert (N : Some c' <> None) by discriminate. specialize (B N). lia.
      + lia.
    - unfold backlog. rewrite SL, SE. simpl. lia.
  Qed.

  Lemma drain_catches_up L0 ro evs : forall fuel l,
    PI L0 ro evs l -> (backlog l <= fuel)%nat ->
    ls_slot (drain fuel l) = None /\ PI L0 ro evs (drain fuel l).
  Proof.
    induction fuel as [|f IH]; intros l P B.
    - simpl. split; [|exact P]. unfold backlog in B. destruct (ls_slot l); [simpl in B; lia|reflexivity].
    - simpl. unfold offering. rewrite (pi_pid P).
      destruct (ls_slot l) as [c|] eqn:SL; [|split; [exact SL|exact P]].
      apply IH; [apply PI_recv; exact P|].
      assert (N : ls_slot l <> None) by (rewrite SL; discriminate).
      pose proof (recv_backlog l (pi_pid P) (pi_open P) N). lia.
  Qed.

  (* the judge's "until nothing is offered": finitely many receives, after which nothing is offered *)
  Theorem drained_catches_up L0 ro evs l :
    PI L0 ro evs l -> ls_slot (drained l) = None /\ PI L0 ro evs (drained l).
  Proof.
    intros P. unfold LossyPipe.drained. apply drain_catches_up; [exact P|].
    unfold backlog, pfuel. destruct (ls_slot l); simpl; lia.
  Qed.
End Progress.

Section Closed.
  Variable M : Type.
  Variable m_eqb : M -> M -> bool.
  Variable m_empty : M.
  Variable writer : Type.
  Variable w_validate : writer -> option Z.
  Variable w_merge : writer -> M -> M -> M.
  Variable rmask : Type.
  Variable r_filter : rmask -> M -> M.
  Variable clock_at : Z -> Z.
  Variable str_ltb : string -> string -> bool.
  Variable idfun : option (string -> string).

  Hypothesis m_eqb_eq : forall a b, m_eqb a b = true -> a = b.
  Hypothesis ltb_irrefl : forall a, str_ltb a a = false.
  Hypothesis ltb_trans : forall a b c, str_ltb a b = true -> str_ltb b c = true -> str_ltb a c = true.
  Hypothesis ltb_total : forall a b, str_ltb a b = false -> str_ltb b a = false -> a = b.

  Notation cevent := (cevent M).
  Notation call := (call M writer rmask).
  Notation pc := (pc M).
  Notation state := (state M rmask).
  Notation csub := (csub M rmask).
  Notation trans := (trans m_eqb m_empty w_validate w_merge clock_at str_ltb idfun false (rmask := rmask)).

  Local Arguments Nat.leb : simpl never.

  (* ---------- the kind of an event says whether the item existed ---------- *)
  Definition kind_wf (e : cevent) : Prop :=
    match ce_kind e with KAdd => ce_old e = None | _ => ce_old e <> None end.

  Lemma trans_kind_wf (c : call) p w p' w' eff :
    trans c p w = Some (p', w', eff) ->
    (forall e, saved_c p' = Some e -> kind_wf e) /\ (forall e, del_ev p eff = Some e -> kind_wf e).
  Proof.
    unfold Lts.trans. intros H.
    destruct c as [msg o|id0 msg o|id0 o|ro|ro|id1 ro]; destruct p as [|old cr|nv e0|nv e0|seen n|r|]; try discriminate.
    - destruct (w_validate (wo_writer o)); inversion H; subst; split; intros e E; discriminate E.
    - destruct (change_fn m_eqb m_empty w_merge o msg old); [|inversion H; subst; split; intros e E; discriminate E].
      destruct (om_eqb m_eqb old (v_val (w_v w))); [|inversion H; subst; split; intros e E; discriminate E].
      destruct (update_time clock_at o (v_reads (w_v w))) as [t reads]. inversion H; subst; split; intros e E; discriminate E.
    - inversion H; subst; split; intros e E; discriminate E.
    - destruct (w_validate (wo_writer o)); [inversion H; subst; split; intros e E; discriminate E|].
      destruct (String.eqb (apply_id idfun id0) "" && wo_gen_id o); [inversion H; subst; split; intros e E; discriminate E|].
      destruct (c_get_fn m_empty false o (apply_id idfun id0) false (c_items (w_c w))) as [[b|code] cr];
        inversion H; subst; split; intros e E; discriminate E.
    - destruct (change_fn m_eqb m_empty w_merge o msg old); [|inversion H; subst; split; intros e E; discriminate E].
      destruct (c_get_fn m_empty false o (apply_id idfun id0) cr (c_items (w_c w))) as [[b|code] cr'];
        [|inversion H; subst; split; intros e E; discriminate E].
      destruct (om_eqb m_eqb old (Some b)) eqn:EQ; [|inversion H; subst; split; intros e E; discriminate E].
      destruct (update_time clock_at o (c_reads (w_c w))) as [t reads]. inversion H; subst. split; intros e E; [|discriminate E].
      simpl in E. inversion E; subst e. unfold kind_wf. simpl.
      destruct cr'; simpl; [reflexivity|].
      destruct old; [discriminate|]. unfold om_eqb, option_eqb in EQ. discriminate EQ.
    - inversion H; subst; split; intros e E; discriminate E.
    - inversion H; subst; split; intros e E; discriminate E.
    - destruct (Nat.leb 5 n); [inversion H; subst; split; intros e E; discriminate E|].
      destruct (del_check m_eqb o seen); [inversion H; subst; split; intros e E; discriminate E|].
      destruct (same_ptr seen (lookup_st (apply_id idfun id0) w)); [|inversion H; subst; split; intros e E; discriminate E].
      destruct seen as [[it st]|]; [|discriminate].
      destruct (update_time clock_at o (c_reads (w_c w))) as [t reads]. inversion H; subst.
      split; intros e E; [discriminate E|]. simpl in E. inversion E; subst e. unfold kind_wf. simpl. discriminate.
    - inversion H; subst; split; intros e E; discriminate E.
    - inversion H; subst; split; intros e E; discriminate E.
    - inversion H; subst; split; intros e E; discriminate E.
    - inversion H; subst; split; intros e E; discriminate E.
  Qed.

  (* ================= all programs, all schedules ================= *)
  Variable prog : list call.
  Hypothesis prog_ok : forall t c, nth_error prog t = Some c -> call_ok idfun c.
  Variable v0 : vstate M.
  Variable c0 : cstate M.
  Hypothesis c0_sorted : sorted str_ltb (c_items c0).

  Notation step := (step m_eqb m_empty w_validate w_merge clock_at str_ltb idfun false false prog).
  Notation run := (run m_eqb m_empty w_validate w_merge clock_at str_ltb idfun false false prog).
  Notation s0 := (s0 prog v0 c0).

  (* what one step does to the commit log, the subscribers and the pcs *)
  Lemma step_shape t s :
    step t s = stutter s \/
    exists c p p' w' eff,
      nth_error prog t = Some c /\ nth_error (st_pcs s) t = Some p /\ trans c p (st_w s) = Some (p', w', eff) /\
      st_pcs (step t s) = set_nth t p' (st_pcs s) /\
      st_logc (step t s) = st_logc s ++ olist (saved_c p') ++ olist (del_ev p eff) /\
      st_csubs (step t s) =
        match eff with
        | EPubC e => map (fun u => if existsb (Nat.eqb t) (cs_skip u) then u
                                   else mkCS (cs_tid u) (cs_ro u) (cs_at u) (cs_evs u ++ [e]) (cs_skip u)
                                             (cs_left u) (cs_cnt u))
                         (st_csubs s)
        | ESubC ro => st_csubs s ++ [mkCS t ro (w_c (st_w s)) [] (if false || ro_updates_only ro then [] else st_pendc s)
                                          (st_leftc s) (st_cntc s)]
        | _ => st_csubs s
        end.
  Proof.
    unfold Lts.step.
    destruct (nth_error prog t) as [c|] eqn:Pc; [|left; reflexivity].
    destruct (nth_error (st_pcs s) t) as [p|] eqn:Pp; [|left; reflexivity].
    destruct (Lts.trans m_eqb m_empty w_validate w_merge clock_at str_ltb idfun false c p (st_w s)) as [[[p' w'] eff]|] eqn:T;
      [|left; reflexivity].
    destruct (gate_open false t s p eff); [|left; reflexivity].
    right. exists c, p, p', w', eff. repeat split; try reflexivity. exact T.
  Qed.

  (* ---------- every committed event is well-formed in its kind ---------- *)
  Lemma kinds_step t s : Forall kind_wf (st_logc s) -> Forall kind_wf (st_logc (step t s)).
  Proof.
    intros F. destruct (step_shape t s) as [E|(c & p & p' & w' & eff & _ & _ & T & _ & L & _)].
    - rewrite E. exact F.
    - rewrite L. destruct (trans_kind_wf _ _ _ T) as [A B].
      apply Forall_app. split; [exact F|]. apply Forall_app. split.
      + destruct (saved_c p') as [e|]; simpl; [constructor; [apply A; reflexivity|constructor]|constructor].
      + destruct (del_ev p eff) as [e|]; simpl; [constructor; [apply B; reflexivity|constructor]|constructor].
  Qed.

  Lemma kinds_run sched : Forall kind_wf (st_logc (run sched s0)).
  Proof.
    induction sched as [|t pre IH] using rev_ind.
    - simpl. constructor.
    - rewrite (run_snoc' m_eqb m_empty w_validate w_merge clock_at str_ltb idfun prog v0 c0). apply kinds_step. exact IH.
  Qed.

  Lemma Forall_firstn {A} (P : A -> Prop) n : forall l, Forall P l -> Forall P (firstn n l).
  Proof. induction n as [|n IH]; intros l F; [constructor|]. destruct l; [constructor|]. inversion F; subst. simpl. constructor; auto. Qed.
  Lemma Forall_skipn {A} (P : A -> Prop) n : forall l, Forall P l -> Forall P (skipn n l).
  Proof. induction n as [|n IH]; intros l F; [exact F|]. destruct l; [constructor|]. inversion F; subst. simpl. auto. Qed.

  (* ... hence every event delivered to a subscriber is (deliveries are a segment of the log) *)
  Theorem deliveries_kinds_wf sched u : In u (st_csubs (run sched s0)) -> Forall kind_wf (cs_evs u).
  Proof.
    intros Hu.
    pose proof (tinv_run m_eqb m_empty w_validate w_merge r_filter clock_at str_ltb idfun m_eqb_eq ltb_irrefl ltb_trans ltb_total prog prog_ok v0 c0 c0_sorted sched) as TI.
    rewrite (ci_evs (t_csubs TI _ Hu)). unfold seg. apply Forall_firstn, Forall_skipn, kinds_run.
  Qed.

  (* ---------- a thread subscribes at most once: the subscribers' thread ids are distinct ---------- *)
  Record SubsInv (s : state) : Prop := {
    su_done : forall u, In u (st_csubs s) -> exists r, nth_error (st_pcs s) (cs_tid u) = Some (PDone r);
    su_nodup : NoDup (map (@cs_tid M rmask) (st_csubs s))
  }.

  Lemma subs_step t s : SubsInv s -> SubsInv (step t s).
  Proof.
    intros [D N]. destruct (step_shape t s) as [E|(c & p & p' & w' & eff & Pc & Pp & T & Epc & _ & Ecs)].
    - rewrite E. split; assumption.
    - assert (Ht : (t < List.length (st_pcs s))%nat) by (apply nth_error_Some; congruence).
      assert (Other : forall u, In u (st_csubs s) -> cs_tid u <> t).
      { intros u Hu Eq. destruct (D u Hu) as [r Hr]. rewrite Eq, Pp in Hr. inversion Hr; subst p.
        rewrite trans_not_done in T. discriminate T. }
      assert (Keep : forall u, In u (st_csubs s) -> exists r, nth_error (st_pcs (step t s)) (cs_tid u) = Some (PDone r)).
      { intros u Hu. rewrite Epc, nth_error_set_nth_other by (intros Eq; apply (Other u Hu); symmetry; exact Eq). apply D, Hu. }
      destruct eff as [|e|e|ro|ro]; try (split; rewrite Ecs; [exact Keep|exact N]).
      + (* a publication: the same subscribers *)
        split.
        * rewrite Ecs. intros u Hu. apply in_map_iff in Hu. destruct Hu as (u1 & Eu & Hu1).
          destruct (Keep u1 Hu1) as [r Hr]. exists r.
          destruct (existsb (Nat.eqb t) (cs_skip u1)); subst u; exact Hr.
        * rewrite Ecs, map_map. erewrite map_ext; [exact N|].
          intros u1. destruct (existsb (Nat.eqb t) (cs_skip u1)); reflexivity.
      + (* a new subscriber: its thread has just returned *)
        destruct (trans_effect m_eqb m_empty w_validate w_merge clock_at str_ltb idfun _ _ _ T) as (_ & _ & Hp').
        assert (Dn : exists r, p' = PDone r) by (destruct p'; try discriminate Hp'; eauto).
        destruct Dn as [r ->].
        split.
        * rewrite Ecs. intros u Hu. apply in_app_or in Hu. destruct Hu as [Hu|[<-|[]]]; [apply Keep, Hu|].
          exists r. simpl. rewrite Epc. apply nth_error_set_nth_same. exact Ht.
        * rewrite Ecs, map_app. simpl.
          apply (SubProofs.nodup_snoc t N).
          intros Hin. apply in_map_iff in Hin. destruct Hin as (u & Eu & Hu). exact (Other u Hu Eu).
  Qed.

  Lemma subs_init : SubsInv s0.
  Proof. split; [intros u []|constructor]. Qed.

  (* how the subscriber list evolves: the old subscribers keep their place, thread id, options and
     snapshot, their deliveries only grow at the end; at most one new one, nothing delivered yet *)
  Lemma csubs_step t s :
    exists f new,
      st_csubs (step t s) = map f (st_csubs s) ++ new /\
      (forall u, cs_tid (f u) = cs_tid u /\ cs_ro (f u) = cs_ro u /\ cs_at (f u) = cs_at u /\
                 exists ex, cs_evs (f u) = cs_evs u ++ ex) /\
      (forall u, In u new -> cs_evs u = []).
  Proof.
    assert (Id : forall l : list csub, l = map (fun u => u) l ++ []) by (intros l; rewrite map_id, app_nil_r; reflexivity).
    assert (IdOk : forall u : csub, cs_tid u = cs_tid u /\ cs_ro u = cs_ro u /\ cs_at u = cs_at u /\ exists ex, cs_evs u = cs_evs u ++ ex)
      by (intros u; repeat split; exists []; rewrite app_nil_r; reflexivity).
    destruct (step_shape t s) as [E|(c & p & p' & w' & eff & _ & _ & _ & _ & _ & Ecs)].
    - rewrite E. exists (fun u => u), []. split; [apply Id|]. split; [exact IdOk|intros u []].
    - rewrite Ecs. destruct eff as [|e|e|ro|ro].
      + exists (fun u => u), []. split; [apply Id|]. split; [exact IdOk|intros u []].
      + exists (fun u => u), []. split; [apply Id|]. split; [exact IdOk|intros u []].
      + eexists _, []. split; [rewrite app_nil_r; reflexivity|]. split; [|intros u []].
        intros u. simpl. destruct (existsb (Nat.eqb t) (cs_skip u)); [apply IdOk|].
        simpl. repeat split. exists [e]. reflexivity.
      + exists (fun u => u), []. split; [apply Id|]. split; [exact IdOk|intros u []].
      + eexists (fun u => u), _. split; [rewrite map_id; reflexivity|]. split; [exact IdOk|].
        intros u [<-|[]]. reflexivity.
  Qed.

  Lemma find_nodup (l : list csub) : forall u,
    NoDup (map (@cs_tid M rmask) l) -> In u l -> find (fun x => Nat.eqb (cs_tid x) (cs_tid u)) l = Some u.
  Proof.
    induction l as [|a r IH]; intros u N Hu; [destruct Hu|].
    inversion N as [|? ? Hn N']; subst. simpl. destruct Hu as [->|Hu].
    - rewrite Nat.eqb_refl. reflexivity.
    - destruct (Nat.eqb_spec (cs_tid a) (cs_tid u)) as [E|_]; [|apply IH; assumption].
      exfalso. apply Hn. rewrite E. apply in_map. exact Hu.
  Qed.

  Lemma skipn_length_app {A} (a b : list A) : skipn (List.length a) (a ++ b) = b.
  Proof. induction a as [|x a IH]; [reflexivity|exact IH]. Qed.

  (* ---------- the pipeline layer ---------- *)
  Variable id_tok : string -> Z.
  Variable id_of : Z -> string.
  Variable val_tok : M -> Z.
  Variable val_of : Z -> option M.
  Variable lossy_of : nat -> option (option string).

  Notation lsub := (lsub M rmask).
  Notation pump := (@pump M rmask r_filter None id_of val_of).
  Notation take := (@take M rmask r_filter None id_of val_of).
  Notation ppump := (@ppump M rmask r_filter None id_of val_of).
  Notation norm := (@norm M rmask r_filter None id_of val_of).
  Notation deliver := (@deliver M rmask r_filter None id_tok id_of val_tok val_of).
  Notation recv := (@recv M rmask r_filter None id_of val_of).
  Notation open_sub := (@open_sub M rmask r_filter None id_of val_of).
  Notation sync_one := (@sync_one M rmask r_filter None id_tok id_of val_tok val_of).
  Notation open_new := (@open_new M rmask r_filter None id_of val_of lossy_of).
  Notation lstep := (@lstep M rmask r_filter None id_tok id_of val_tok val_of writer m_eqb m_empty w_validate w_merge clock_at
                            str_ltb idfun false false prog lossy_of).
  Notation lrun := (@lrun M rmask r_filter None id_tok id_of val_tok val_of writer m_eqb m_empty w_validate w_merge clock_at
                          str_ltb idfun false false prog lossy_of).
  Notation PI := (@PI M rmask r_filter id_tok id_of val_tok val_of).
  Notation ev_wf := (@ev_wf M id_tok id_of).

  (* which subscriber a pipeline belongs to and how much it has been handed: never changed by the
     goroutines of the pipeline *)
  Definition hdr (l : lsub) : nat * nat := (ls_tid l, ls_seen l).

  Lemma hdr_tid a b : hdr a = hdr b -> ls_tid a = ls_tid b.
  Proof. intros H. exact (f_equal fst H). Qed.
  Lemma hdr_seen a b : hdr a = hdr b -> ls_seen a = ls_seen b.
  Proof. intros H. exact (f_equal snd H). Qed.

  Lemma hdr_pump l : hdr (pump l) = hdr l.
  Proof.
    unfold LossyPipe.pump. destruct (ls_slot l); [reflexivity|]. destruct (ls_seeds l); [|reflexivity].
    destruct (pump_m r_filter None id_of val_of (S (List.length (queue (ls_m l)))) (ls_ro l) (ls_m l) (ls_gotm l)) as [[m' g] o].
    reflexivity.
  Qed.

  Lemma hdr_take l : hdr (snd (take l)) = hdr l.
  Proof. unfold LossyPipe.take. destruct (ls_slot l); [|reflexivity]. simpl. rewrite hdr_pump. reflexivity. Qed.

  Lemma hdr_ppump fuel id : forall l, hdr (ppump fuel id l) = hdr l.
  Proof.
    induction fuel as [|f IH]; intros l; [reflexivity|]. simpl.
    destruct (ls_closed l); [reflexivity|]. destruct (ls_pslot l); [reflexivity|].
    pose proof (hdr_take l) as HT. destruct (take l) as [[c|] l1]; [|reflexivity]. simpl in HT.
    destruct (negb (String.eqb (lc_id c) id)); [rewrite IH; exact HT|].
    destruct (lc_kind c =? 3); [exact HT|]. destruct (lc_new c); exact HT.
  Qed.

  Lemma hdr_norm l : hdr (norm l) = hdr l.
  Proof.
    unfold LossyPipe.norm. cbv zeta. destruct (ls_pid (pump l)); [rewrite hdr_ppump|]; apply hdr_pump.
  Qed.

  Lemma hdr_deliver l e : hdr (deliver l e) = hdr l.
  Proof. unfold LossyPipe.deliver. destruct (ls_closed l); [reflexivity|]. rewrite hdr_norm. reflexivity. Qed.

  Lemma hdr_recv l : hdr (recv l) = hdr l.
  Proof.
    unfold LossyPipe.recv. destruct (ls_pid l); [|apply hdr_take].
    destruct (ls_pslot l); [|reflexivity]. rewrite hdr_ppump. reflexivity.
  Qed.

  Lemma hdr_delivers ex : forall l, hdr (fold_left deliver ex l) = hdr l.
  Proof. induction ex as [|e r IH]; intros l; [reflexivity|]. simpl. rewrite IH. apply hdr_deliver. Qed.

  Lemma tid_sync_one s l : ls_tid (sync_one s l) = ls_tid l.
  Proof.
    unfold LossyPipe.sync_one. destruct (find (fun u => Nat.eqb (cs_tid u) (ls_tid l)) (st_csubs s)); [|reflexivity].
    match goal with |- ls_tid (fold_left _ ?ex ?l1) = _ => exact (hdr_tid (hdr_delivers ex l1)) end.
  Qed.

  Lemma PI_delivers L0 ro ex : forall evs l, PI L0 ro evs l -> PI L0 ro (evs ++ ex) (fold_left deliver ex l).
  Proof.
    induction ex as [|e r IH]; intros evs l P; simpl; [rewrite app_nil_r; exact P|].
    change (e :: r) with ([e] ++ r). rewrite app_assoc. apply IH. apply PI_deliver. exact P.
  Qed.

  Lemma PI_reseen L0 ro evs l n :
    PI L0 ro evs l ->
    PI L0 ro evs (mkLS (ls_tid l) (ls_ro l) (ls_pid l) n (ls_seeds l) (ls_m l) (ls_slot l) (ls_pslot l) (ls_closed l)
                       (ls_sent l) (ls_gotm l) (ls_gotc l) (ls_gotv l)).
  Proof. intros [A B C D E F G H]. constructor; assumption. Qed.

  (* every pipeline is in step with its subscriber *)
  Definition LayerInv (s : state) (ls : list lsub) : Prop :=
    (forall u pid, In u (st_csubs s) -> lossy_of (cs_tid u) = Some pid -> exists l, In l ls /\ ls_tid l = cs_tid u) /\
    (forall l, In l ls -> lossy_of (ls_tid l) = Some None ->
       exists u, In u (st_csubs s) /\ cs_tid u = ls_tid l /\ ls_seen l = List.length (cs_evs u) /\
                 PI (c_items (cs_at u)) (cs_ro u) (cs_evs u) l).

  Lemma layer_thread t s ls :
    SubsInv s -> LayerInv s ls -> LayerInv (step t s) (open_new (step t s) (map (sync_one (step t s)) ls)).
  Proof.
    intros SI [L1 L2]. pose proof (subs_step t SI) as SI'.
    destruct (csubs_step t s) as (f & new & Ecs & Hf & Hnew).
    set (s' := step t s) in *. set (ls1 := map (sync_one s') ls).
    assert (Old : forall u0, In u0 (st_csubs s) -> In (f u0) (st_csubs s')).
    { intros u0 H0. rewrite Ecs. apply in_or_app. left. apply in_map. exact H0. }
    (* the pipelines that existed before *)
    assert (S2 : forall l0, In l0 ls -> lossy_of (ls_tid l0) = Some None ->
                 exists u, In u (st_csubs s') /\ cs_tid u = ls_tid (sync_one s' l0) /\
                           ls_seen (sync_one s' l0) = List.length (cs_evs u) /\
                           PI (c_items (cs_at u)) (cs_ro u) (cs_evs u) (sync_one s' l0)).
    { intros l0 Hl0 Lo. destruct (L2 l0 Hl0 Lo) as (u0 & Hu0 & Et & Es & P).
      destruct (Hf u0) as (Ft & Fr & Fa & ex & Fe).
      exists (f u0). split; [apply Old, Hu0|]. rewrite tid_sync_one. split; [congruence|].
      unfold LossyPipe.sync_one.
      assert (Fd : find (fun x => Nat.eqb (cs_tid x) (ls_tid l0)) (st_csubs s') = Some (f u0)).
      { rewrite <- Et, <- Ft. apply find_nodup; [apply SI'|apply Old, Hu0]. }
      rewrite Fd, Es, Fe, skipn_length_app, Fr, Fa.
      match goal with |- context [fold_left _ ex ?l1] => set (l1' := l1) end.
      pose proof (hdr_seen (hdr_delivers ex l1')) as Hs.
      split.
      - rewrite Hs. subst l1'. simpl. rewrite app_length. reflexivity.
      - rewrite <- Fe. rewrite Fe. apply PI_delivers. subst l1'. apply PI_reseen. exact P. }
    split.
    - intros u pid Hu Lo. unfold LossyPipe.open_new.
      destruct (existsb (fun l => Nat.eqb (ls_tid l) (cs_tid u)) ls1) eqn:Ex.
      + apply existsb_exists in Ex. destruct Ex as (l & Hl & El). apply Nat.eqb_eq in El.
        exists l. split; [apply in_or_app; left; exact Hl|exact El].
      + exists (open_sub (cs_tid u) (cs_ro u) pid (cs_at u)). split.
        * apply in_or_app. right. apply in_flat_map. exists u. split; [exact Hu|].
          rewrite Lo. fold ls1. rewrite Ex. left. reflexivity.
        * unfold LossyPipe.open_sub.
          match goal with |- ls_tid (LossyPipe.norm _ _ _ _ ?x) = _ => exact (hdr_tid (hdr_norm x)) end.
    - intros l Hl Lo. unfold LossyPipe.open_new in Hl. apply in_app_or in Hl. destruct Hl as [Hl|Hl].
      + unfold ls1 in Hl. apply in_map_iff in Hl. destruct Hl as (l0 & <- & Hl0).
        rewrite tid_sync_one in Lo. destruct (S2 l0 Hl0 Lo) as (u & A & B & C & D).
        exists u. split; [exact A|]. split; [exact B|]. split; [exact C|exact D].
      + apply in_flat_map in Hl. destruct Hl as (u & Hu & Hl).
        destruct (lossy_of (cs_tid u)) as [pid|] eqn:Lu; [|destruct Hl].
        fold ls1 in Hl. destruct (existsb (fun l => Nat.eqb (ls_tid l) (cs_tid u)) ls1) eqn:Ex; [destruct Hl|].
        destruct Hl as [<-|[]].
        assert (Hh : hdr (open_sub (cs_tid u) (cs_ro u) pid (cs_at u)) = (cs_tid u, O)).
        { unfold LossyPipe.open_sub. rewrite hdr_norm. reflexivity. }
        pose proof (f_equal fst Hh) as Ht. pose proof (f_equal snd Hh) as Hs. cbn [hdr fst snd] in Ht, Hs.
        rewrite Ht in Lo. rewrite Lu in Lo. inversion Lo; subst pid.
        assert (Ev : cs_evs u = []).
        { rewrite Ecs in Hu. apply in_app_or in Hu. destruct Hu as [Hu|Hu]; [|apply Hnew, Hu].
          exfalso. apply in_map_iff in Hu. destruct Hu as (u0 & <- & Hu0).
          destruct (Hf u0) as (Ft & _). rewrite Ft in *.
          destruct (L1 u0 None Hu0 Lu) as (l0 & Hl0 & El0).
          assert (C : existsb (fun l => Nat.eqb (ls_tid l) (cs_tid u0)) ls1 = true).
          { apply existsb_exists. exists (sync_one s' l0). split; [apply in_map; exact Hl0|].
            rewrite tid_sync_one, El0. apply Nat.eqb_refl. }
          rewrite C in Ex. discriminate Ex. }
        exists u. split; [exact Hu|]. split; [symmetry; exact Ht|]. split; [rewrite Hs, Ev; reflexivity|].
        rewrite Ev. apply PI_open.
  Qed.

  Lemma layer_recv t s ls : LayerInv s ls -> LayerInv s (map (fun l => if Nat.eqb (ls_tid l) t then recv l else l) ls).
  Proof.
    intros [L1 L2].
    assert (Hd : forall l0, hdr (if Nat.eqb (ls_tid l0) t then recv l0 else l0) = hdr l0)
      by (intros l0; destruct (Nat.eqb (ls_tid l0) t); [apply hdr_recv|reflexivity]).
    split.
    - intros u pid Hu Lo. destruct (L1 u pid Hu Lo) as (l0 & Hl0 & E).
      exists (if Nat.eqb (ls_tid l0) t then recv l0 else l0). split; [apply in_map with (f := fun l => if Nat.eqb (ls_tid l) t then recv l else l); exact Hl0|].
      rewrite (hdr_tid (Hd l0)). exact E.
    - intros l Hl Lo. apply in_map_iff in Hl. destruct Hl as (l0 & <- & Hl0).
      pose proof (hdr_tid (Hd l0)) as Ht. pose proof (hdr_seen (Hd l0)) as Hs. rewrite Ht in Lo.
      destruct (L2 l0 Hl0 Lo) as (u & A & B & C & D).
      exists u. split; [exact A|]. split; [rewrite Ht; exact B|]. split; [rewrite Hs; exact C|].
      destruct (Nat.eqb (ls_tid l0) t); [apply PI_recv; exact D|exact D].
  Qed.

  Lemma layer_step st x : SubsInv (fst st) /\ LayerInv (fst st) (snd st) ->
    SubsInv (fst (lstep st x)) /\ LayerInv (fst (lstep st x)) (snd (lstep st x)).
  Proof.
    intros [SI LI]. destruct x as [t|t]; simpl.
    - split; [apply subs_step; exact SI|apply layer_thread; assumption].
    - split; [exact SI|apply layer_recv; exact LI].
  Qed.

  Theorem layer_run sched : let st := lrun sched (s0, []) in SubsInv (fst st) /\ LayerInv (fst st) (snd st).
  Proof.
    induction sched as [|x pre IH] using rev_ind.
    - simpl. split; [apply subs_init|]. split; [intros u pid []|intros l []].
    - unfold LossyPipe.lrun in *. rewrite fold_left_app. simpl. apply layer_step. exact IH.
  Qed.

  Notation tokview := (@tokview M id_tok id_of val_tok).

  (* THE closed composition.  Any program, any schedule of thread steps and consumer receives
     (any number of overlapping writers, any reader pace), all calls returned: every pipeline of a
     seeded Collection.Pull without backpressure belongs to exactly one subscriber of the transition
     system and, in the merger's token domain,
        fold (pending in the merger) (fold (taken from the merger) snapshot) = the final contents,
     what was taken from the merger is a valid edit script on the snapshot, what the consumer has
     received ++ what Pull's goroutine holds ++ the seeds to come = all seeds, then the merger's
     output through include and the read mask; once nothing is offered, nothing is pending. *)
  Theorem lossy_layer_converges sched l :
    let st := lrun sched (s0, []) in
    all_done (fst st) = true -> In l (snd st) -> lossy_of (ls_tid l) = Some None ->
    exists u, In u (st_csubs (fst st)) /\ cs_tid u = ls_tid l /\ ls_ro l = cs_ro u /\
      (ro_updates_only (cs_ro u) = false ->
       (forall e, In e (cs_evs u) -> id_of (id_tok (ce_id e)) = ce_id e) ->
       let L0 := c_items (cs_at u) in
       let X := c_items (w_c (st_w (fst st))) in
       (forall z, fold_view (pending (ls_m l)) (fold_view (ls_gotm l) (tokview L0)) z = tokview X z) /\
       valid_script (ls_gotm l) (tokview L0) = true /\
       ls_gotc l ++ olist (ls_slot l) ++ ls_seeds l =
         allseeds r_filter (cs_ro u) L0 ++ fmap (post r_filter None (cs_ro u)) (map (dec id_of val_of) (ls_gotm l)) /\
       (ls_slot l = None ->
        (forall z, fold_view (ls_gotm l) (tokview L0) z = tokview X z) /\
        ls_gotc l = allseeds r_filter (cs_ro u) L0 ++ fmap (post r_filter None (cs_ro u)) (map (dec id_of val_of) (ls_gotm l)) /\
        queue (ls_m l) = [])).
  Proof.
    intros st D Hl Lo. destruct (layer_run sched) as [_ [_ L2]]. fold st in L2.
    destruct (L2 l Hl Lo) as (u & Hu & Et & _ & P).
    exists u. split; [exact Hu|]. split; [exact Et|]. split; [exact (pi_ro P)|].
    intros Hp RT L0 X.
    assert (Es : fst st = run (threads_of sched) s0).
    { unfold st. apply (lrun_projects r_filter None id_tok id_of val_tok val_of m_eqb m_empty w_validate w_merge clock_at
                                       str_ltb idfun false false prog lossy_of sched (s0, [])). }
    assert (C : chain L0 (cs_evs u) X).
    { unfold L0, X. rewrite Es.
      apply (deliveries_chain_done m_eqb m_empty w_validate w_merge r_filter clock_at str_ltb idfun m_eqb_eq ltb_irrefl
               ltb_trans ltb_total prog prog_ok v0 c0 c0_sorted (threads_of sched)); [rewrite <- Es; exact D|rewrite <- Es; exact Hu|exact Hp]. }
    assert (W : Forall ev_wf (cs_evs u)).
    { assert (K : Forall kind_wf (cs_evs u)) by (apply (deliveries_kinds_wf (threads_of sched)); rewrite <- Es; exact Hu).
      apply Forall_forall. intros e He. split; [exact (proj1 (Forall_forall _ _) K e He)|apply RT, He]. }
    destruct (lossy_received_plus_pending P C W) as (A & B & G).
    split; [exact A|]. split; [exact B|]. split; [exact G|].
    intros SL. exact (lossy_caught_up P C W SL).
  Qed.

  (* ... and for "a reader that keeps receiving" (the judge's drained: receive until nothing is
     offered, which takes finitely many receives): nothing is offered, nothing is pending, what
     the consumer has received is the seeds followed by an edit script from the snapshot to the
     final contents, passed through include and the read mask *)
  Theorem lossy_layer_converges_reader_keeps_receiving sched l :
    let st := lrun sched (s0, []) in
    all_done (fst st) = true -> In l (snd st) -> lossy_of (ls_tid l) = Some None ->
    exists u, In u (st_csubs (fst st)) /\ cs_tid u = ls_tid l /\
      (ro_updates_only (cs_ro u) = false ->
       (forall e, In e (cs_evs u) -> id_of (id_tok (ce_id e)) = ce_id e) ->
       let L0 := c_items (cs_at u) in
       let X := c_items (w_c (st_w (fst st))) in
       let l' := drained r_filter None id_of val_of l in
       ls_slot l' = None /\ queue (ls_m l') = [] /\
       (forall z, fold_view (ls_gotm l') (tokview L0) z = tokview X z) /\
       valid_script (ls_gotm l') (tokview L0) = true /\
       ls_gotc l' = allseeds r_filter (cs_ro u) L0 ++ fmap (post r_filter None (cs_ro u)) (map (dec id_of val_of) (ls_gotm l'))).
  Proof.
    intros st D Hl Lo. destruct (layer_run sched) as [_ [_ L2]]. fold st in L2.
    destruct (L2 l Hl Lo) as (u & Hu & Et & _ & P).
    exists u. split; [exact Hu|]. split; [exact Et|].
    intros Hp RT L0 X l'.
    destruct (drained_catches_up P) as [SL P']. fold l' in SL, P'.
    assert (Es : fst st = run (threads_of sched) s0).
    { unfold st. apply (lrun_projects r_filter None id_tok id_of val_tok val_of m_eqb m_empty w_validate w_merge clock_at
                                       str_ltb idfun false false prog lossy_of sched (s0, [])). }
    assert (C : chain L0 (cs_evs u) X).
    { unfold L0, X. rewrite Es.
      apply (deliveries_chain_done m_eqb m_empty w_validate w_merge r_filter clock_at str_ltb idfun m_eqb_eq ltb_irrefl
               ltb_trans ltb_total prog prog_ok v0 c0 c0_sorted (threads_of sched)); [rewrite <- Es; exact D|rewrite <- Es; exact Hu|exact Hp]. }
    assert (W : Forall ev_wf (cs_evs u)).
    { assert (K : Forall kind_wf (cs_evs u)) by (apply (deliveries_kinds_wf (threads_of sched)); rewrite <- Es; exact Hu).
      apply Forall_forall. intros e He. split; [exact (proj1 (Forall_forall _ _) K e He)|apply RT, He]. }
    destruct (lossy_received_plus_pending P' C W) as (_ & B & _).
    destruct (lossy_caught_up P' C W SL) as (A1 & A2 & A3).
    split; [exact SL|]. split; [exact A3|]. split; [exact A1|]. split; [exact B|exact A2].
  Qed.
End Closed.

(* the judge's token tables (Conc/Judge.v tok_id / id_at: the position of an id in the table of the
   ids the run's deliveries mention) do satisfy the one hypothesis left about tokens *)
From SC Require Conc.Judge.

Lemma index_of_round_trip id : forall l n, In id l ->
  n <= Judge.index_of String.eqb id l n /\ nth (Z.to_nat (Judge.index_of String.eqb id l n - n)) l ""%string = id.
Proof.
  induction l as [|y r IH]; intros n Hin; [destruct Hin|]. simpl.
  destruct (String.eqb_spec id y) as [->|Hne].
  - split; [lia|]. rewrite Z.sub_diag. reflexivity.
  - destruct Hin as [E|Hin]; [congruence|].
    destruct (IH (n + 1) Hin) as [Hle Hn]. split; [lia|].
    replace (Judge.index_of String.eqb id r (n + 1) - n) with (Z.succ (Judge.index_of String.eqb id r (n + 1) - (n + 1))) by lia.
    rewrite Z2Nat.inj_succ by lia. exact Hn.
Qed.

Theorem judge_ids_round_trip it id : In id it -> Judge.id_at it (Judge.tok_id it id) = id.
Proof.
  intros Hin. unfold Judge.id_at, Judge.tok_id. destruct (index_of_round_trip id it 0 Hin) as [_ H].
  rewrite Z.sub_0_r in H. exact H.
Qed.

(* every id an event delivered to a subscriber of state s mentions is in the judge's id table of s *)
Theorem judge_table_has_delivered_ids (s : Lts.state Flat.fmsg (list Flat.fld)) u e :
  In u (Lts.st_csubs s) -> In e (Lts.cs_evs u) -> In (Impl.ce_id e) (Judge.tbl_ids s).
Proof.
  intros Hu He. unfold Judge.tbl_ids. apply in_flat_map. exists u. split; [exact Hu|].
  apply in_or_app. right. apply in_map. exact He.
Qed.
