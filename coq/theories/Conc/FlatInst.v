(* The flat message algebra (Resource/Flat.v) meets the hypotheses of the C02 / C03 theorems. *)
From SC Require Import Base.Prelude Resource.Impl Resource.Flat Resource.FlatProofs.

Lemma fmsg_eqb_eq a b : fmsg_eqb a b = true -> a = b.
Proof.
  destruct a as [a1 a2 a3], b as [b1 b2 b3]. unfold fmsg_eqb. simpl.
  rewrite !andb_true_iff, !Z.eqb_eq. intros [[-> ->] ->]. reflexivity.
Qed.
