(* The configuration a resource is CONSTRUCTED with, as part of what a program of concurrent callers
   runs under (C02).  resource.NewValue / NewCollection take: an equivalence (WithEquivalence /
   WithMessageEquivalence / WithNoDuplicates), an id interceptor, an initial value (or none), the
   initial contents.  (Writable fields enter through the abstract `writer` of every call: opt.go
   fieldUpdater, Resource/Flat.v mk_writer.)

   The configured run is the run of Conc/Lts.v: the WRITE path -- get under RLock, change, Lock,
   re-read, proto.Equal, save, publish -- reads the id interceptor and the stored state and nothing
   else of the configuration.  The equivalence is read by the Pull goroutines only (value.go Pull,
   collection.go Pull: Resource/Pull.v), i.e. it decides which of the events that WERE published a
   subscriber is sent.  `observe` keeps the two apart: the state of the run (results, memory,
   linearization witness, the raw events offered to every subscriber) and what the subscribers
   receive.

   Also here: the get closure of Value.set that REMEMBERS the message of its first read and hands it
   back on the re-read under the write lock when the configured equivalence calls the stored value
   equivalent (`trans_rem`; a plausible "optimisation": a source that keeps re-reporting its reading
   should not abort overlapping writes).  It is not the code; Conc/CfgProofs.v shows it is harmless
   exactly when the equivalence is exact.  No proofs here. *)
From SC Require Import Base.Prelude Resource.Impl Resource.Spec Resource.Pull Conc.Lts.

Set Implicit Arguments.

Section CfgLts.
  Variable M : Type.
  Variable m_eqb : M -> M -> bool.
  Variable m_empty : M.
  Variable writer : Type.
  Variable w_validate : writer -> option Z.
  Variable w_merge : writer -> M -> M -> M.
  Variable rmask : Type.
  Variable r_filter : rmask -> M -> M.
  Variable clock_at : Z -> Z.
  Variable str_ltb : string -> string -> bool.
  Variable v0 v1 : bool.

  Record rconfig := mkRC {
    rc_equiv : option (option M -> option M -> bool);   (* WithEquivalence; None = not configured *)
    rc_idfun : option (string -> string);               (* WithIDInterceptor *)
    rc_vinit : vstate M;                                (* WithInitialValue, or no value *)
    rc_cinit : cstate M                                 (* the contents when the callers start *)
  }.

  Definition with_equiv (eq : option (option M -> option M -> bool)) (rc : rconfig) : rconfig :=
    mkRC eq (rc_idfun rc) (rc_vinit rc) (rc_cinit rc).

  Definition cinit (rc : rconfig) (prog : list (call M writer rmask)) : state M rmask :=
    init prog (rc_vinit rc) (rc_cinit rc).

  (* the run of a program under a configuration *)
  Definition crun (rc : rconfig) (prog : list (call M writer rmask)) (sched : list nat) : state M rmask :=
    run m_eqb m_empty w_validate w_merge clock_at str_ltb (rc_idfun rc) v0 v1 prog sched (cinit rc prog).

  (* what the subscribers of the configured resources receive: the Pull goroutine of each compares what
     it is offered with the last value it sent (Value) / the value its subscriber holds (Collection) *)
  Definition c_vstream (rc : rconfig) (u : vsub M rmask) : list (vchange M) :=
    pull_value r_filter (rc_equiv rc) (vs_at u) (vs_ro u) (vs_evs u).
  Definition c_cstream (rc : rconfig) (u : csub M rmask) : list (cchange M) :=
    pull_collection_held r_filter (rc_equiv rc) (cs_at u) (cs_ro u) (cs_evs u).

  Record observation := mkObs {
    ob_state : state M rmask;                       (* results, memory, witness, raw events per subscriber *)
    ob_vstreams : list (nat * list (vchange M));    (* received by each Value.Pull *)
    ob_cstreams : list (nat * list (cchange M))     (* received by each Collection.Pull *)
  }.

  Definition observe (rc : rconfig) (prog : list (call M writer rmask)) (sched : list nat) : observation :=
    let s := crun rc prog sched in
    mkObs s (map (fun u => (vs_tid u, c_vstream rc u)) (st_vsubs s))
            (map (fun u => (cs_tid u, c_cstream rc u)) (st_csubs s)).

  (* ---- NOT the code: a get closure that remembers its first read ----
       if read != nil && r.equivalence != nil && r.equivalence.Compare(read, r.value) { return read }
       read = r.value; return read *)
  Definition reread (eqv : option (option M -> option M -> bool)) (old cur : option M) : option M :=
    match eqv, old with
    | Some cmp, Some _ => if cmp old cur then old else cur
    | _, _ => cur
    end.

  Definition trans_rem (eqv : option (option M -> option M -> bool)) (idfun : option (string -> string))
             (c : call M writer rmask) (p : pc M) (w : world M) : option (pc M * world M * effect M rmask) :=
    match c, p with
    | CSet msg o, PRead old _ =>
        match change_fn m_eqb m_empty w_merge o msg old with
        | inr code => Some (PDone (OVal (inr code)), w, ENone)
        | inl nv =>
            if om_eqb m_eqb old (reread eqv old (v_val (w_v w))) then
              let '(t, reads) := update_time clock_at o (v_reads (w_v w)) in
              Some (PSavedV nv (mkVE nv t), set_v w (mkV (Some nv) t reads), ENone)
            else Some (PDone (OLost 10), w, ENone)
        end
    | _, _ => trans m_eqb m_empty w_validate w_merge clock_at str_ltb idfun v0 c p w
    end.
End CfgLts.
