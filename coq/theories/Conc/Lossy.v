(* A Collection.Pull WITHOUT backpressure whose consumer takes nothing while the writers run and
   drains afterwards: the events the bus delivers to the subscription (Conc/Lts.v: cs_evs, i.e.
   after the commit-number filter of onUpdate) go through mergeCollectionExcess — the C09 model
   Excess/MergeExcess.v, reused as it is — while Pull's goroutine is still offering the first
   seed.  Values and ids become the opaque tokens of Excess/Change.v.  Model only. *)
From SC Require Import Base.Prelude Resource.Impl Resource.Pull Resource.Flat Resource.Judge
  Excess.Change Excess.MergeExcess Conc.Lts.

Definition id_tok (s : string) : Z :=
  if String.eqb s "a" then 0 else if String.eqb s "b" then 1 else if String.eqb s "c" then 2 else 9.
Definition val_tok (m : fmsg) : Z := fa m + 1000 * fb m + 1000000 * fc m.

Definition to_change (c : cchange fmsg) : change :=
  mkChange (id_tok (cc_id c)) (kind_code (cc_kind c)) (option_map val_tok (cc_old c))
           (option_map val_tok (cc_new c)) (cc_time c) (cc_seed c) (cc_last_seed c).

(* what the merger hands over when it is drained after having been sent all of evs *)
Definition merged_after_stall (evs : list (cevent fmsg)) : list change :=
  let sends := map (fun e => Send (to_change (of_event e))) evs in
  let '(s1, _) := m_run m_init sends in
  got_of (snd (m_run s1 (repeat Recv (List.length (queue s1))))).

(* seeds first (they were being offered all along), then the merged changes; plain read options *)
Definition lossy_stalled_stream (u : csub fmsg (list fld)) : list change :=
  map to_change (seeds fr_filter (cs_ro u) (included (cs_ro u) (c_items (cs_at u)))) ++
  merged_after_stall (cs_evs u).

Definition lossy_view (u : csub fmsg (list fld)) : view := fold_view (lossy_stalled_stream u) empty_view.
