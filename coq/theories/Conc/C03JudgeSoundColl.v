(* C03: soundness of the judge's model-free oracle for a seeded Collection.Pull stream (backpressured, no
   include predicate -- what the harness generates -- any read mask), per subscriber: if the observed stream
   matches the model's stream of the subscriber change by change and the observed final List matches the
   model's, the oracle's clause `cview_ok` (fold of the observed changes = the observed List, masked, as
   maps) holds.  C03_collection_converges carried through the judge's definitions. *)
From SC Require Import Base.Prelude Resource.Impl Resource.Spec Resource.Pull Resource.ImplProofs Resource.PullProofs Resource.Flat
  Resource.FlatProofs Resource.Judge Conc.Lts Conc.LtsProofs Conc.SubProofs Conc.FlatInst Conc.Judge Conc.C03JudgeSound
  Conc.C03JudgeSoundPid.

(* a matched observation IS the model's change *)
Lemma to_cc_of_match c o : cc_matches c o = true -> to_cc o = c.
Proof.
  unfold cc_matches, to_cc. rewrite !andb_true_iff. intros [[[[[[H1 H2] H3] H4] H5] H6] H7].
  apply String.eqb_eq in H1. apply Z.eqb_eq in H2. apply Z.eqb_eq in H3.
  apply ofm_eqb_true_eq in H4. apply ofm_eqb_true_eq in H5. apply eqb_prop in H6. apply eqb_prop in H7.
  destruct c as [id tm k old new sd ls]; simpl in *. subst id tm old new sd ls. rewrite <- H3.
  destruct k; reflexivity.
Qed.

Lemma list_match_to_cc : forall ms obs, list_match cc_matches ms obs = true -> map to_cc obs = ms.
Proof.
  induction ms as [|c ms IH]; intros [|o obs] H; simpl in H; try discriminate; [reflexivity|].
  apply andb_true_iff in H. destruct H as [H1 H2]. simpl. rewrite (to_cc_of_match _ _ H1), (IH _ H2). reflexivity.
Qed.

Lemma sorted_nodup_keys (l : list (string * item fmsg)) : sorted str_ltb l -> NoDup (map fst l).
Proof.
  induction l as [|[k x] r IH]; intros H; [constructor|].
  apply (sorted_cons str_ltb str_ltb_trans) in H. destruct H as [A S]. simpl. constructor; [|apply IH, S].
  intros Hin. specialize (A k Hin). rewrite str_ltb_irrefl in A. discriminate A.
Qed.

Lemma vlookup_in (l : list (string * fmsg)) : NoDup (map fst l) -> forall k v, In (k, v) l -> vlookup k l = Some v.
Proof.
  induction l as [|[k0 v0] r IH]; simpl; intros N k v H; [destruct H|].
  inversion N as [|? ? Nk Nr]; subst. destruct H as [H|H].
  - inversion H; subst. rewrite String.eqb_refl. reflexivity.
  - destruct (String.eqb_spec k0 k) as [->|Hne]; [|apply IH; assumption].
    exfalso. apply Nk. apply in_map_iff. exists (k, v). split; [reflexivity|exact H].
Qed.

Lemma view_lookup_is id : forall l, view_lookup id l = vlookup id l.
Proof. induction l as [|[k v] r IH]; simpl; [reflexivity|]. rewrite IH. reflexivity. Qed.

Lemma same_map_of_pointwise a b :
  NoDup (map fst a) -> NoDup (map fst b) -> (forall id, vlookup id a = vlookup id b) -> same_map a b = true.
Proof.
  intros Na Nb H. unfold same_map. apply andb_true_iff.
  split; apply forallb_forall; intros [k v] Hin; simpl; rewrite view_lookup_is.
  - rewrite <- H, (vlookup_in a Na k v Hin). apply ofm_eqb_same.
  - rewrite H, (vlookup_in b Nb k v Hin). apply ofm_eqb_same.
Qed.

Lemma c_list_keys (c : cstate fmsg) mask : map fst (c_list fr_filter c mask None) = map fst (c_items c).
Proof. unfold c_list. rewrite map_map. simpl. induction (c_items c) as [|p r IH]; simpl; [reflexivity|]. rewrite IH. reflexivity. Qed.

Lemma map_mask_c_list (c : cstate fmsg) ro :
  map (fun kv => (fst kv, mask_of ro (snd kv))) (c_list fr_filter c None None) = c_list fr_filter c (r_mask ro) None.
Proof.
  unfold c_list. rewrite map_map. apply map_ext. intros [k x]. simpl. unfold mask_of. destruct (r_mask ro); reflexivity.
Qed.

Theorem judge_collection_oracle_sound (i : option idf) (prog : list fcall) (sched : list nat) vinit cinit
        (u : csub fmsg (list fld)) (ro : fro) obs fc :
  (forall t c, nth_error (map to_call prog) t = Some c -> call_ok (idfun_of i) c) ->
  ImplProofs.sorted str_ltb (c_items (init_c cinit)) ->
  let s := f_run false i prog sched vinit cinit in
  all_done s = true -> In u (st_csubs s) -> cs_ro u = to_ropts ro ->
  r_updates_only ro = false -> r_include ro = None ->
  list_match cc_matches (cstream_of u) obs = true ->
  list_eqb kv_eqb (final_list (w_c (st_w s))) fc = true ->
  cview_ok ro obs fc = true.
Proof.
  intros OK SO s D Hu Ero UO INC LM EF.
  unfold cview_ok. rewrite UO. apply kv_list_eqb_eq in EF. subst fc. rewrite (list_match_to_cc _ _ LM).
  unfold final_list. rewrite map_mask_c_list.
  assert (P : plain_sub u) by (unfold plain_sub; rewrite Ero; exact UO).
  apply same_map_of_pointwise.
  - destruct (view_tracks_delivered fmsg_eqb fzero fw_validate fw_merge fr_filter fclock str_ltb (idfun_of i) fmsg_eqb_eq
                str_ltb_irrefl str_ltb_trans str_ltb_total (map to_call prog) OK (init_v vinit) (init_c cinit) SO sched Hu P)
      as (L & [N _] & _). exact N.
  - rewrite c_list_keys. apply sorted_nodup_keys.
    exact (i_sorted (inv_at fmsg_eqb fzero fw_validate fw_merge fclock str_ltb (idfun_of i) fmsg_eqb_eq str_ltb_irrefl str_ltb_trans
                            str_ltb_total (map to_call prog) (init_v vinit) (init_c cinit) SO sched)).
  - intros id.
    pose proof (converges_collection fmsg_eqb fzero fw_validate fw_merge fr_filter fclock str_ltb (idfun_of i) fmsg_eqb_eq
                  str_ltb_irrefl str_ltb_trans str_ltb_total (map to_call prog) OK (init_v vinit) (init_c cinit) SO sched D Hu P id) as CV.
    rewrite Ero in CV. simpl in CV. rewrite INC in CV. exact CV.
Qed.

(* ---------- the updates-only clause of cview_ok: right at every id the stream mentions ---------- *)
(* without an include predicate every forwarded change carries the id of one of the events *)
Lemma forward_ids (ro : ropts fmsg (list fld)) : ro_include ro = None ->
  forall evs id, In id (map (@cc_id fmsg) (c_forward_gen fr_filter None false false ro evs)) -> In id (map (@ce_id fmsg) evs).
Proof.
  intros INC. induction evs as [|e r IH]; simpl; intros id H; [exact H|].
  rewrite INC in H. simpl in H. destruct H as [H|H]; [left; exact H|right; apply IH, H].
Qed.

Theorem judge_collection_uo_oracle_sound (i : option idf) (prog : list fcall) (sched : list nat) vinit cinit
        (u : csub fmsg (list fld)) (ro : fro) obs fc :
  (forall t c, nth_error (map to_call prog) t = Some c -> call_ok (idfun_of i) c) ->
  ImplProofs.sorted str_ltb (c_items (init_c cinit)) ->
  let s := f_run false i prog sched vinit cinit in
  all_done s = true -> In u (st_csubs s) -> cs_ro u = to_ropts ro ->
  r_updates_only ro = true -> r_include ro = None ->
  list_match cc_matches (cstream_of u) obs = true ->
  list_eqb kv_eqb (final_list (w_c (st_w s))) fc = true ->
  cview_ok ro obs fc = true.
Proof.
  intros OK SO s D Hu Ero UO INC LM EF.
  unfold cview_ok. rewrite UO. apply kv_list_eqb_eq in EF. subst fc.
  assert (IDS : ids_of obs = map (@cc_id fmsg) (cstream_of u)).
  { rewrite <- (list_match_to_cc _ _ LM). unfold ids_of. rewrite map_map. reflexivity. }
  rewrite (list_match_to_cc _ _ LM).
  unfold final_list. rewrite map_mask_c_list.
  assert (P : uo_sub u) by (unfold uo_sub; rewrite Ero; simpl; rewrite INC; split; [reflexivity|exact UO]).
  apply forallb_forall. intros id Hid. rewrite IDS in Hid.
  rewrite !view_lookup_is.
  assert (T : touched u id).
  { unfold touched. apply (forward_ids (cs_ro u)); [rewrite Ero; simpl; rewrite INC; reflexivity|].
    unfold cstream_of, pull_collection, pull_collection_gen in Hid. rewrite Ero in Hid. simpl in Hid. rewrite UO in Hid.
    simpl in Hid. rewrite Ero. exact Hid. }
  pose proof (converges_collection_updates_only fmsg_eqb fzero fw_validate fw_merge fr_filter fclock str_ltb (idfun_of i) fmsg_eqb_eq
                str_ltb_irrefl str_ltb_trans str_ltb_total (map to_call prog) OK (init_v vinit) (init_c cinit) SO sched D Hu P id T) as CV.
  rewrite Ero in CV. simpl in CV.
  change (fold_view (cstream_of u)) with (cview fr_filter u). rewrite CV. apply ofm_eqb_same.
Qed.
