(* C03: soundness of the judge's model-free oracle, Value.Pull subscribers.

   `C03_ok` (Conc/Judge.v) folds what a subscriber RECEIVED and compares it with the final read that was
   OBSERVED; `agrees` compares both with the model.  Here: for every program over the flat algebra, every
   schedule, every Value.Pull subscriber of the model's run (any read mask, seeded or updates-only): if the
   observed stream matches the model's stream for that subscriber change by change (the clause of `agrees`
   for it) and the observed final Get matches the model's (another clause of `agrees`), then the oracle's
   clause for that stream, `vview_ok`, holds.  So on an observation that agrees with the model the oracle
   can never reject a Value.Pull stream: a verdict 2 ("agrees but the oracle fails") on a value stream is
   impossible, for programs and schedules of any size -- this is C03_value_converges carried through the
   judge's own definitions. *)
From SC Require Import Base.Prelude Resource.Impl Resource.Spec Resource.Pull Resource.Flat Resource.FlatProofs Resource.Judge
  Conc.Lts Conc.LtsProofs Conc.SubProofs Conc.FlatInst Conc.Judge Conc.AgreesOk Conc.C03VSubsInv.

Lemma ofm_eqb_true_eq a b : ofm_eqb a b = true -> a = b.
Proof.
  unfold ofm_eqb, option_eqb. destruct a, b; try discriminate; [|reflexivity].
  intros H. f_equal. apply fmsg_eqb_eq, H.
Qed.

Lemma ofm_eqb_same a : ofm_eqb a a = true.
Proof. unfold ofm_eqb, option_eqb. destruct a; [apply fmsg_eqb_refl|reflexivity]. Qed.

Lemma list_match_nil_l {A B} (f : A -> B -> bool) b : list_match f [] b = true -> b = [].
Proof. destruct b; [reflexivity|discriminate]. Qed.

Lemma list_match_snoc {A B} (f : A -> B -> bool) x : forall a b,
  list_match f (a ++ [x]) b = true -> exists b' y, b = b' ++ [y] /\ list_match f a b' = true /\ f x y = true.
Proof.
  induction a as [|x0 a IH]; intros b H; simpl in H.
  - destruct b as [|y b]; [discriminate|]. apply andb_true_iff in H. destruct H as [F H].
    apply (list_match_nil_l f) in H. subst b. exists [], y. repeat split; assumption.
  - destruct b as [|y0 b]; [discriminate|]. apply andb_true_iff in H. destruct H as [F H].
    destruct (IH b H) as (b' & y & -> & H' & Fy). exists (y0 :: b'), y. repeat split; [|exact Fy].
    simpl. rewrite F, H'. reflexivity.
Qed.

Lemma filt_is_mask_of ro m : filt fr_filter (to_ropts ro) m = mask_of ro m.
Proof. unfold filt, mask_of, to_ropts. simpl. reflexivity. Qed.

(* the oracle's clause on a stream that matches a model stream whose last value is the masked final value *)
Lemma vview_ok_of_last ro (ms : list (vchange fmsg)) obs (final fv : option fmsg) :
  list_match vc_matches ms obs = true -> ofm_eqb final fv = true ->
  (ms <> [] \/ r_updates_only ro = false -> SubProofs.last_value ms = option_map (mask_of ro) final) ->
  vview_ok ro obs fv = true.
Proof.
  intros LM EF LV. apply ofm_eqb_true_eq in EF. subst fv.
  destruct ms as [|x0 ms0] using rev_ind.
  - apply (list_match_nil_l vc_matches) in LM. subst obs. unfold vview_ok. simpl.
    destruct (r_updates_only ro) eqn:U; [reflexivity|]. simpl.
    specialize (LV (or_intror eq_refl)). unfold SubProofs.last_value in LV. simpl in LV.
    destruct final; [discriminate LV|reflexivity].
  - clear IHms0. destruct (list_match_snoc _ _ _ _ LM) as (b' & y & -> & _ & Fy).
    unfold vview_ok. rewrite rev_app_distr. simpl.
    assert (NE : ms0 ++ [x0] <> []) by (intros E; apply app_eq_nil in E; destruct E as [_ E]; discriminate E).
    specialize (LV (or_introl NE)). unfold SubProofs.last_value in LV. rewrite rev_app_distr in LV. simpl in LV.
    rewrite <- LV. unfold vc_matches in Fy. rewrite !andb_true_iff in Fy. destruct Fy as [[[Fv _] _] _].
    apply fmsg_eqb_eq in Fv. rewrite Fv. first [apply ofm_eqb_same | apply fmsg_eqb_refl].
Qed.

(* an updates-only Value.Pull that was delivered nothing has received nothing *)
Lemma vstream_uo_nil (u : vsub fmsg (list fld)) :
  ro_updates_only (vs_ro u) = true -> vs_evs u = [] -> vstream_of u = [].
Proof.
  intros U E. unfold vstream_of, pull_value, pull_value_gen. rewrite U, E. reflexivity.
Qed.

Theorem judge_value_oracle_sound (i : option idf) (prog : list fcall) (sched : list nat) vinit cinit
        (u : vsub fmsg (list fld)) (ro : fro) obs fv :
  (forall t c, nth_error (map to_call prog) t = Some c -> call_ok (idfun_of i) c) ->
  ImplProofs.sorted str_ltb (c_items (init_c cinit)) ->
  let s := f_run false i prog sched vinit cinit in
  all_done s = true -> In u (st_vsubs s) -> vs_ro u = to_ropts ro ->
  list_match vc_matches (vstream_of u) obs = true ->
  ofm_eqb (v_val (w_v (st_w s))) fv = true ->
  vview_ok ro obs fv = true.
Proof.
  intros OK SO s D Hu Ero LM EF.
  apply (vview_ok_of_last ro (vstream_of u) obs (v_val (w_v (st_w s))) fv LM EF).
  intros Hne.
  pose proof (converges_value fmsg_eqb fzero fw_validate fw_merge fr_filter fclock str_ltb (idfun_of i) fmsg_eqb_eq
                str_ltb_irrefl str_ltb_trans str_ltb_total (map to_call prog) OK (init_v vinit) (init_c cinit) SO sched u D Hu) as CV.
  rewrite Ero in CV. 
  assert (G : ro_updates_only (to_ropts ro) = false \/ vs_evs u <> []).
  { destruct (r_updates_only ro) eqn:U; [|left; exact U]. right. intros E.
    destruct Hne as [Hne|Hne]; [|discriminate Hne].
    apply Hne. apply vstream_uo_nil; [rewrite Ero; exact U|exact E]. }
  specialize (CV G). unfold vstream_of. unfold SubProofs.vstream in CV. rewrite CV.
  reflexivity.
Qed.

(* ================= the whole judge on cases whose subscribers are Value.Pull ================= *)
Fixpoint nodup_nat_b (l : list nat) : bool :=
  match l with [] => true | x :: r => negb (existsb (Nat.eqb x) r) && nodup_nat_b r end.
Lemma nodup_nat_b_ok l : nodup_nat_b l = true -> NoDup l.
Proof.
  induction l as [|x r IH]; simpl; intros H; [constructor|].
  apply andb_true_iff in H. destruct H as [H1 H2]. constructor; [|apply IH, H2].
  intros Hin. apply negb_true_iff in H1. assert (existsb (Nat.eqb x) r = true); [|congruence].
  apply existsb_exists. exists x. split; [exact Hin|apply Nat.eqb_refl].
Qed.

Definition call_ok_b (idfun : option (string -> string)) (c : lcall) : bool :=
  match c with
  | CUpdate id0 _ o => negb (String.eqb (apply_id idfun id0) "" && wo_gen_id o)
  | _ => true
  end.
Lemma call_ok_b_ok idfun c : call_ok_b idfun c = true -> call_ok idfun c.
Proof. destruct c; simpl; try exact (fun _ => I). intros H. apply negb_true_iff in H. exact H. Qed.

Definition is_subid (c : fcall) : bool := match c with FSubID _ _ => true | _ => false end.

(* all computable from the case, nothing runs the model: no subscriber without backpressure, no PullID, no
   collection stream observed (so: the subscribers are Value.Pull), the initial contents sorted by id, no
   generating call, and the observed value streams carry distinct thread ids *)
Definition c03_value_guard (c : ccase) : bool :=
  match c with
  | CaseSched i vinit cinit prog sched results fv fc vstreams cstreams closed =>
      negb (has_lossy prog) && negb (existsb is_subid prog) &&
      sorted_keys_b (keys (c_items (init_c cinit))) &&
      forallb (fun c => call_ok_b (idfun_of i) (to_call c)) prog &&
      is_nil cstreams && nodup_nat_b (map fst vstreams)
  | _ => false
  end.

Lemma assoc_nat_in {A} t (v : A) : forall l, assoc_nat t l = Some v -> In (t, v) l.
Proof.
  induction l as [|[k x] r IH]; simpl; [discriminate|].
  destruct (Nat.eqb k t) eqn:E; [|intros H; right; apply IH, H].
  intros H. inversion H; subst. apply Nat.eqb_eq in E. subst. left. reflexivity.
Qed.

Lemma nodup_fst_inj {A} (l : list (nat * A)) : NoDup (map fst l) ->
  forall t a b, In (t, a) l -> In (t, b) l -> a = b.
Proof.
  induction l as [|[k x] r IH]; simpl; intros N t a b Ha Hb; [destruct Ha|].
  inversion N as [|? ? Nk Nr]; subst.
  destruct Ha as [Ha|Ha], Hb as [Hb|Hb].
  - congruence.
  - inversion Ha; subst. exfalso. apply Nk. apply in_map_iff. exists (t, b). split; [reflexivity|exact Hb].
  - inversion Hb; subst. exfalso. apply Nk. apply in_map_iff. exists (t, a). split; [reflexivity|exact Ha].
  - eapply IH; eauto.
Qed.

Lemma sub_ro_subv ro : forall prog t, nth_error prog t = Some (FSubV ro) -> sub_ro t prog = Some (true, ro).
Proof.
  induction prog as [|c r IH]; intros t H; [destruct t; discriminate H|].
  destruct t; simpl in H.
  - inversion H; subst. reflexivity.
  - simpl. destruct c as [| | | |ro1|ro1|pid ro1|id ro1]; try destruct pid; apply IH, H.
Qed.

Lemma to_call_subv c r : to_call c = @CSubV fmsg fwriter (list fld) r -> exists ro, c = FSubV ro /\ r = to_ropts ro.
Proof.
  destruct c as [| | | |ro|ro|pid ro|id ro]; simpl; try discriminate.
  - intros H. inversion H. exists ro. split; reflexivity.
  - destruct pid; discriminate.
Qed.

Theorem agrees_implies_C03_ok_value c : c03_value_guard c = true -> agrees c = true -> C03_ok c = true.
Proof.
  destruct c as [i vinit cinit prog sched results fv fc vstreams cstreams closed| | | |]; simpl; try discriminate.
  intros G A.
  apply andb_true_iff in G. destruct G as [G G6]. apply andb_true_iff in G. destruct G as [G G5].
  apply andb_true_iff in G. destruct G as [G G4]. apply andb_true_iff in G. destruct G as [G G3].
  apply andb_true_iff in G. destruct G as [G1 G2]. apply negb_true_iff in G1. apply negb_true_iff in G2.
  destruct cstreams as [|? ?]; [|discriminate G5]. clear G5.
  apply nodup_nat_b_ok in G6.
  assert (OK : forall t c, nth_error (map to_call prog) t = Some c -> call_ok (idfun_of i) c).
  { intros t c H. apply call_ok_b_ok. rewrite nth_error_map in H. destruct (nth_error prog t) as [c1|] eqn:E; [|discriminate H].
    simpl in H. inversion H; subst c. apply nth_error_In in E. exact (proj1 (forallb_forall _ _) G4 c1 E). }
  assert (SO : ImplProofs.sorted str_ltb (c_items (init_c cinit))) by (apply sorted_keys_b_ok; exact G3).
  unfold agrees_sched in A. rewrite (f_lrun_plain None model_v0 i prog sched vinit cinit G1) in A.
  set (s := f_run_w None model_v0 i prog sched vinit cinit) in *.
  apply andb_true_iff in A. destruct A as [A A10]. apply andb_true_iff in A. destruct A as [A A9].
  apply andb_true_iff in A. destruct A as [A A8]. apply andb_true_iff in A. destruct A as [A A7].
  apply andb_true_iff in A. destruct A as [A A6]. apply andb_true_iff in A. destruct A as [A A5].
  apply andb_true_iff in A. destruct A as [A A4]. apply andb_true_iff in A. destruct A as [A A3].
  apply andb_true_iff in A. destruct A as [A1 A2].
  (* no Collection subscriber: it would be a PullID (there is none) or need a collection stream (there is none) *)
  assert (NC : st_csubs s = []).
  { destruct (st_csubs s) as [|u us] eqn:E; [reflexivity|exfalso].
    simpl in A8, A10. apply andb_true_iff in A8. destruct A8 as [A8 _]. apply andb_true_iff in A10. destruct A10 as [A10 _].
    rewrite orb_false_r in A8. apply negb_true_iff in A8. rewrite A8 in A10.
    unfold pull_id_of in A10. destruct (nth_error prog (cs_tid u)) as [c1|] eqn:En; [|discriminate A10].
    destruct c1; try discriminate A10.
    apply nth_error_In in En. assert (existsb is_subid prog = true); [|congruence].
    apply existsb_exists. eexists. split; [exact En|reflexivity]. }
  rewrite NC in A6. simpl in A6. rewrite !Nat.add_0_r in A6. apply Nat.eqb_eq in A6.
  pose proof (vsubs_run fmsg_eqb fzero fw_validate fw_merge fclock str_ltb (idfun_of i) (map to_call prog) (init_v vinit)
                (init_c cinit) sched) as [VC _ VN].
  change (run fmsg_eqb fzero fw_validate fw_merge fclock str_ltb (idfun_of i) false false (map to_call prog) sched
              (s0 (map to_call prog) (init_v vinit) (init_c cinit))) with s in VC, VN.
  (* every subscriber has its observed stream ... *)
  assert (Each : forall u, In u (st_vsubs s) -> exists obs, In (vs_tid u, obs) vstreams /\
                                                   list_match vc_matches (vstream_of u) obs = true).
  { intros u Hu. pose proof (proj1 (forallb_forall _ _) A7 u Hu) as H. simpl in H.
    unfold vstream_of_eq in H. fold (vstream_of u) in H.
    destruct (assoc_nat (vs_tid u) vstreams) as [obs|] eqn:E; [|discriminate H].
    exists obs. split; [apply assoc_nat_in, E|exact H]. }
  (* ... and, the numbers being equal and the thread ids distinct, every observed stream is some subscriber's *)
  assert (Incl : incl (map fst vstreams) (map (@vs_tid fmsg (list fld)) (st_vsubs s))).
  { apply NoDup_length_incl; [exact VN|rewrite !map_length; lia|].
    intros t Ht. apply in_map_iff in Ht. destruct Ht as (u & <- & Hu). destruct (Each u Hu) as (obs & Hin & _).
    apply in_map_iff. exists (vs_tid u, obs). split; [reflexivity|exact Hin]. }
  apply andb_true_iff. split; [|reflexivity].
  apply forallb_forall. intros [t obs] Hp. simpl.
  assert (Ht : In t (map (@vs_tid fmsg (list fld)) (st_vsubs s))).
  { apply Incl. apply in_map_iff. exists (t, obs). split; [reflexivity|exact Hp]. }
  apply in_map_iff in Ht. destruct Ht as (u & <- & Hu).
  destruct (Each u Hu) as (obs' & Hin & LM).
  assert (obs' = obs) by (eapply nodup_fst_inj; eauto). subst obs'.
  pose proof (VC u Hu) as Cl. rewrite nth_error_map in Cl.
  destruct (nth_error prog (vs_tid u)) as [c1|] eqn:En; [|discriminate Cl]. simpl in Cl. inversion Cl as [Ec].
  destruct (to_call_subv _ _ Ec) as (ro & -> & Ero).
  unfold pid_ro. rewrite En. rewrite (sub_ro_subv ro prog (vs_tid u) En).
  apply (judge_value_oracle_sound i prog sched vinit cinit u ro obs fv OK SO); try assumption.
Qed.

(* hence verdict 2 ("agrees with the model, the oracle fails") is impossible on such a case *)
Corollary judge03_never_2_value c : c03_value_guard c = true -> judge03 c <> 2.
Proof.
  intros G. unfold judge03, verdict. destruct (agrees c) eqn:A; [|destruct (C03_ok c); discriminate].
  rewrite (agrees_implies_C03_ok_value c G A). discriminate.
Qed.
