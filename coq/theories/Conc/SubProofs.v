(* C03: what a backpressured, always-receiving subscriber has folded when the writers are quiet.
   Built on the C02 invariant (LtsProofs.Inv): every commit is the reference's step, so the event
   it publishes describes the transition of the contents (PullProofs.describes). *)
From SC Require Import Base.Prelude Resource.Impl Resource.Spec Resource.Pull Resource.ImplProofs Resource.SpecProofs
  Resource.PullProofs Conc.Lts Conc.LtsProofs.

Set Implicit Arguments.

Section Proofs.
  Variable M : Type.
  Variable m_eqb : M -> M -> bool.
  Variable m_empty : M.
  Variable writer : Type.
  Variable w_validate : writer -> option Z.
  Variable w_merge : writer -> M -> M -> M.
  Variable rmask : Type.
  Variable r_filter : rmask -> M -> M.
  Variable clock_at : Z -> Z.
  Variable str_ltb : string -> string -> bool.
  Variable idfun : option (string -> string).

  Hypothesis m_eqb_eq : forall a b, m_eqb a b = true -> a = b.
  Hypothesis ltb_irrefl : forall a, str_ltb a a = false.
  Hypothesis ltb_trans : forall a b c, str_ltb a b = true -> str_ltb b c = true -> str_ltb a c = true.
  Hypothesis ltb_total : forall a b, str_ltb a b = false -> str_ltb b a = false -> a = b.

  Notation wopts := (wopts M writer).
  Notation vstate := (vstate M).
  Notation cstate := (cstate M).
  Notation item := (item M).
  Notation vevent := (vevent M).
  Notation cevent := (cevent M).
  Notation call := (call M writer rmask).
  Notation pc := (pc M).
  Notation outcome := (outcome M).
  Notation world := (world M).
  Notation state := (state M rmask).
  Notation ropts := (ropts M rmask).
  Notation trans := (trans m_eqb m_empty w_validate w_merge clock_at str_ltb idfun false (rmask := rmask)).
  Notation predicted := (predicted m_eqb m_empty w_merge (rmask := rmask)).
  Notation spec_call_ev := (spec_call_ev m_eqb m_empty w_validate w_merge clock_at str_ltb idfun (rmask := rmask)).
  Notation pc_wf := (pc_wf m_empty w_validate idfun (rmask := rmask)).
  Notation call_ok := (call_ok idfun (writer := writer) (rmask := rmask)).
  Notation sorted := (sorted str_ltb).
  Notation filt := (filt r_filter).

  Local Arguments Nat.leb : simpl never.

  (* ---------- which steps publish, subscribe, commit ---------- *)
  Lemma trans_effect (c : call) p w p' w' eff :
    trans c p w = Some (p', w', eff) ->
    match eff with
    | ENone => True
    | EPubV e => exists nv, p = PSavedV nv e /\ w' = w
    | EPubC e => (exists nv, p = PSavedC nv e /\ w' = w) \/ (exists seen n r, p = PDel seen n /\ p' = PDone r)
    | ESubV ro => c = CSubV ro /\ w' = w /\ p = PStart
    | ESubC ro => w' = w /\ (p = PStart \/ p = POpen)
    end /\
    (* a parked publication is published by the next step of its thread and by nothing else *)
    match p with
    | PSavedV nv e => eff = EPubV e /\ p' = PDone (OVal (inl nv))
    | PSavedC nv e => eff = EPubC e /\ p' = PDone (OVal (inl nv))
    | _ => True
    end /\
    (* a step that parks a publication publishes nothing itself *)
    match p' with
    | PSavedV _ _ | PSavedC _ _ | PRead _ _ | PDel _ _ | PStart | POpen => eff = ENone
    | PDone _ => True
    end.
  Proof.
    unfold Lts.trans. intros H.
    destruct c as [msg o|id0 msg o|id0 o|ro|ro|id1 ro]; destruct p as [|old cr|nv e|nv e|seen n|r|]; try discriminate.
    - destruct (w_validate (wo_writer o)); inversion H; subst; simpl; auto.
    - destruct (change_fn m_eqb m_empty w_merge o msg old); [|inversion H; subst; simpl; auto].
      destruct (om_eqb m_eqb old (v_val (w_v w))); [|inversion H; subst; simpl; auto].
      destruct (update_time clock_at o (v_reads (w_v w))) as [t reads]. inversion H; subst; simpl; auto.
    - inversion H; subst; simpl. repeat split; eauto.
    - destruct (w_validate (wo_writer o)); [inversion H; subst; simpl; auto|].
      destruct (String.eqb (apply_id idfun id0) "" && wo_gen_id o); [inversion H; subst; simpl; auto|].
      destruct (c_get_fn m_empty false o (apply_id idfun id0) false (c_items (w_c w))) as [[b|code] cr]; inversion H; subst; simpl; auto.
    - destruct (change_fn m_eqb m_empty w_merge o msg old); [|inversion H; subst; simpl; auto].
      destruct (c_get_fn m_empty false o (apply_id idfun id0) cr (c_items (w_c w))) as [[b|code] cr']; [|inversion H; subst; simpl; auto].
      destruct (om_eqb m_eqb old (Some b)); [|inversion H; subst; simpl; auto].
      destruct (update_time clock_at o (c_reads (w_c w))) as [t reads]. inversion H; subst; simpl; auto.
    - inversion H; subst; simpl. repeat split; eauto.
    - inversion H; subst; simpl; auto.
    - destruct (Nat.leb 5 n); [inversion H; subst; simpl; auto|].
      destruct (del_check m_eqb o seen); [inversion H; subst; simpl; auto|].
      destruct (same_ptr seen (lookup_st (apply_id idfun id0) w)); [|inversion H; subst; simpl; auto].
      destruct seen as [[it st]|]; [|discriminate].
      destruct (update_time clock_at o (c_reads (w_c w))) as [t reads]. inversion H; subst; simpl.
      repeat split; auto. right. eauto.
    - inversion H; subst; simpl; auto.
    - inversion H; subst; simpl; auto.
    - inversion H; subst; simpl; auto.
    - inversion H; subst; simpl; auto.
  Qed.

  (* the Value changes exactly at the save step of a Set, to the value the parked event carries *)
  Lemma trans_value (c : call) p w p' w' eff :
    trans c p w = Some (p', w', eff) ->
    match p' with
    | PSavedV nv e => ve_value e = nv /\ v_val (w_v w') = Some nv
    | _ => w_v w' = w_v w
    end.
  Proof.
    unfold Lts.trans. intros H.
    destruct c as [msg o|id0 msg o|id0 o|ro|ro|id1 ro]; destruct p as [|old cr|nv e|nv e|seen n|r|]; try discriminate.
    - destruct (w_validate (wo_writer o)); inversion H; subst; reflexivity.
    - destruct (change_fn m_eqb m_empty w_merge o msg old); [|inversion H; subst; reflexivity].
      destruct (om_eqb m_eqb old (v_val (w_v w))); [|inversion H; subst; reflexivity].
      destruct (update_time clock_at o (v_reads (w_v w))) as [t reads]. inversion H; subst; simpl; auto.
    - inversion H; subst; reflexivity.
    - destruct (w_validate (wo_writer o)); [inversion H; subst; reflexivity|].
      destruct (String.eqb (apply_id idfun id0) "" && wo_gen_id o); [inversion H; subst; reflexivity|].
      destruct (c_get_fn m_empty false o (apply_id idfun id0) false (c_items (w_c w))) as [[b|code] cr]; inversion H; subst; reflexivity.
    - destruct (change_fn m_eqb m_empty w_merge o msg old); [|inversion H; subst; reflexivity].
      destruct (c_get_fn m_empty false o (apply_id idfun id0) cr (c_items (w_c w))) as [[b|code] cr']; [|inversion H; subst; reflexivity].
      destruct (om_eqb m_eqb old (Some b)); [|inversion H; subst; reflexivity].
      destruct (update_time clock_at o (c_reads (w_c w))) as [t reads]. inversion H; subst; reflexivity.
    - inversion H; subst; reflexivity.
    - inversion H; subst; reflexivity.
    - destruct (Nat.leb 5 n); [inversion H; subst; reflexivity|].
      destruct (del_check m_eqb o seen); [inversion H; subst; reflexivity|].
      destruct (same_ptr seen (lookup_st (apply_id idfun id0) w)); [|inversion H; subst; reflexivity].
      destruct seen as [[it st]|]; [|discriminate].
      destruct (update_time clock_at o (c_reads (w_c w))) as [t reads]. inversion H; subst; reflexivity.
    - inversion H; subst; reflexivity.
    - inversion H; subst; reflexivity.
    - inversion H; subst; reflexivity.
    - inversion H; subst; reflexivity.
  Qed.

  (* the reference's events describe its transitions (PullProofs.step_events, per call) *)
  Lemma spec_call_ev_describes vc (c : call) vc' r vev cev :
    call_ok c -> sorted (c_items (snd vc)) ->
    spec_call_ev vc c = (vc', r, vev, cev) ->
    (cev = [] /\ c_items (snd vc') = c_items (snd vc)) \/
    (exists e, cev = [e] /\ describes e (c_items (snd vc)) (c_items (snd vc'))).
  Proof.
    intros Hok Hs H. destruct c as [msg o|id0 msg o|id0 o|ro|ro|id1 ro]; simpl in H.
    - destruct (set_ref m_eqb m_empty w_validate w_merge clock_at (fst vc) msg o) as [[v' r'] ev]. inversion H. subst. left. auto.
    - simpl in Hok.
      pose proof (spec_update_eq m_eqb m_empty w_validate w_merge clock_at str_ltb idfun (snd vc) id0 msg o) as E.
      destruct (spec_c_update m_eqb m_empty w_validate w_merge clock_at str_ltb idfun (snd vc) id0 msg o []) as [[[c1 r1] ev1] cb] eqn:U.
      rewrite <- E in H. inversion H. subst.
      assert (S : spec_step m_eqb m_empty w_validate w_merge r_filter clock_at str_ltb idfun (snd vc) (@OUpdate M writer rmask id0 msg o []) = (c1, RWrite r1 cb, cev)).
      { simpl. rewrite U. reflexivity. }
      destruct (@step_events _ m_eqb m_empty _ w_validate w_merge _ r_filter clock_at str_ltb idfun ltb_irrefl ltb_trans _ _ _ _ _ S Hs) as [[A B]|(e & A & B & _)]; [left|right]; simpl; eauto.
    - destruct (spec_c_delete m_eqb clock_at idfun (snd vc) id0 o) as [[[c1 r1] e1] ev1] eqn:U. inversion H. subst.
      assert (S : spec_step m_eqb m_empty w_validate w_merge r_filter clock_at str_ltb idfun (snd vc) (@ODelete M writer rmask id0 o) = (c1, RDelete r1 e1, cev)).
      { simpl. rewrite U. reflexivity. }
      destruct (@step_events _ m_eqb m_empty _ w_validate w_merge _ r_filter clock_at str_ltb idfun ltb_irrefl ltb_trans _ _ _ _ _ S Hs) as [[A B]|(e & A & B & _)]; [left|right]; simpl; eauto.
    - inversion H. subst. left. auto.
    - inversion H. subst. left. auto.
    - inversion H. subst. left. auto.
  Qed.

  (* a step commits at most one collection event, which describes what it did to the contents *)
  Lemma trans_coll (c : call) p w p' w' eff :
    call_ok c -> pc_wf c p w -> sorted (c_items (w_c w)) ->
    trans c p w = Some (p', w', eff) ->
    match snd (committed p p' eff) with
    | [] => c_items (w_c w') = c_items (w_c w)
    | [e] => describes e (c_items (w_c w)) (c_items (w_c w'))
    | _ => False
    end.
  Proof.
    intros Hok Hwf Hs T.
    pose proof (trans_lin m_eqb m_empty w_validate w_merge clock_at str_ltb idfun m_eqb_eq c p w Hwf T) as L.
    destruct (predicted c p), (predicted c p').
    - destruct L as (_ & Hm & ->). simpl. unfold mem in Hm. inversion Hm. congruence.
    - contradiction.
    - destruct (@spec_call_ev_describes (mem w) c _ _ _ _ Hok Hs L) as [[A B]|(e & A & B)]; rewrite A; simpl in *; assumption.
    - destruct L as (Hm & ->). simpl. unfold mem in Hm. inversion Hm. congruence.
  Qed.

  (* ---------- views ---------- *)
  Notation vsub := (vsub M rmask).
  Notation csub := (csub M rmask).
  Notation view_inv := (view_inv r_filter).

  (* what a Value subscriber holds: the value of the last change it received *)
  Definition vstream (u : vsub) : list (vchange M) := pull_value r_filter None (vs_at u) (vs_ro u) (vs_evs u).
  Definition last_value (l : list (vchange M)) : option M :=
    match rev l with c :: _ => Some (vc_value c) | [] => None end.
  Definition vlast (u : vsub) : option M :=
    match rev (vs_evs u) with
    | e :: _ => Some (filt (vs_ro u) (ve_value e))
    | [] => if ro_updates_only (vs_ro u) then None else option_map (filt (vs_ro u)) (v_val (vs_at u))
    end.

  Lemma v_forward_none ro last evs :
    v_forward r_filter None ro last evs = map (fun e => mkVC (filt ro (ve_value e)) (ve_time e) false false) evs.
  Proof. revert last. induction evs as [|e r IH]; intros last; simpl; [reflexivity|]. rewrite IH. reflexivity. Qed.

  Lemma last_value_vlast u : last_value (vstream u) = vlast u.
  Proof.
    unfold last_value, vstream, vlast, pull_value, pull_value_gen. rewrite v_forward_none, rev_app_distr, <- map_rev.
    destruct (rev (vs_evs u)) as [|e r]; simpl.
    - destruct (ro_updates_only (vs_ro u)); [reflexivity|]. destruct (v_val (vs_at u)); reflexivity.
    - reflexivity.
  Qed.

  (* what a Collection subscriber holds: the fold of everything it received *)
  Definition cstream (u : csub) : list (cchange M) := pull_collection r_filter None (cs_at u) (cs_ro u) (cs_evs u).
  Definition cview (u : csub) : list (string * M) := fold_view (cstream u).
  (* seeded subscriptions: any read mask, any include predicate *)
  Definition plain_sub (u : csub) : Prop := ro_updates_only (cs_ro u) = false.
  (* updates-only subscriptions (no include predicate): the view is right at every id an event mentioned *)
  Definition uo_sub (u : csub) : Prop := ro_include (cs_ro u) = None /\ ro_updates_only (cs_ro u) = true.
  Definition touched (u : csub) (id : string) : Prop := In id (map (@ce_id M) (cs_evs u)).
  Definition uview_inv (u : csub) (l : list (string * item)) : Prop :=
    NoDup (map fst (cview u)) /\ forall id, touched u id -> vlookup id (cview u) = shown r_filter (cs_ro u) id l.

  Lemma cview_snoc tid ro at_ evs e sk lf cn :
    cview (mkCS tid ro at_ (evs ++ [e]) sk lf cn) =
    fold_left (@apply_change M) (c_forward_gen r_filter None false false ro [e]) (cview (mkCS tid ro at_ evs sk lf cn)).
  Proof.
    unfold cview, cstream, fold_view, pull_collection, pull_collection_gen. simpl cs_ro. simpl cs_at. simpl cs_evs.
    rewrite c_forward_app, app_assoc, fold_left_app. reflexivity.
  Qed.

  Lemma cview_fresh tid ro (c : cstate) sk lf cn :
    ro_updates_only ro = false -> sorted (c_items c) ->
    view_inv ro (cview (mkCS tid ro c [] sk lf cn)) (c_items c).
  Proof.
    intros UO Hs. unfold cview, cstream, fold_view, pull_collection, pull_collection_gen. simpl. rewrite UO, app_nil_r.
    apply (@seed_view_inv _ _ r_filter str_ltb ltb_irrefl ltb_trans ro _ Hs).
  Qed.

  (* receiving once more an event whose effect the view already shows changes nothing *)
  Lemma redeliver ro (e : cevent) lprev l view :
    ro_include ro = None -> describes e lprev l -> view_inv ro view l ->
    view_inv ro (fold_left (@apply_change M) (c_forward_gen r_filter None false false ro [e]) view) l.
  Proof.
    intros RI D Hv.
    set (e' := mkCE (ce_id e) (ce_time e) (ce_kind e) (body_at (ce_id e) l) (ce_new e)).
    assert (D' : describes e' l l).
    { constructor; simpl; try reflexivity.
      - apply (d_new D).
      - apply (d_kind D).
      - apply (d_time D). }
    pose proof (@forward_one_keeps_inv _ _ r_filter ro _ _ _ _ D' Hv) as K.
    assert (E : fold_left (@apply_change M) (c_forward_gen r_filter None false false ro [e]) view =
                fold_left (@apply_change M) (c_forward_gen r_filter None false false ro [e']) view).
    { simpl. rewrite RI. simpl. unfold apply_change. simpl. reflexivity. }
    rewrite E. exact K.
  Qed.

  (* an updates-only view: one described event keeps it right at every id mentioned so far *)
  Lemma forward_one_uo ro (e : cevent) l l' view (P : string -> Prop) :
    ro_include ro = None -> describes e l l' ->
    NoDup (map fst view) -> (forall id, P id -> vlookup id view = shown r_filter ro id l) ->
    let view' := fold_left (@apply_change M) (c_forward_gen r_filter None false false ro [e]) view in
    NoDup (map fst view') /\ forall id, (P id \/ id = ce_id e) -> vlookup id view' = shown r_filter ro id l'.
  Proof.
    intros RI D Hnd Hv. simpl. rewrite RI. simpl. unfold apply_change. simpl.
    assert (Hother : forall v', (forall id', id' <> ce_id e -> vlookup id' v' = vlookup id' view) ->
                                forall id', id' <> ce_id e -> P id' -> vlookup id' v' = shown r_filter ro id' l').
    { intros v' Hsame id' Hne Hp. rewrite Hsame by exact Hne. rewrite Hv by exact Hp. unfold shown.
      rewrite (d_frame D) by exact Hne. reflexivity. }
    destruct (lookup (ce_id e) l') as [it'|] eqn:L'.
    - assert (K : ce_kind e <> KRemove).
      { intros C. apply (proj1 (d_kind D)) in C. rewrite (d_new D) in C. unfold body_at in C. rewrite L' in C. discriminate. }
      rewrite (d_new D). unfold body_at. rewrite L'. simpl.
      assert (G : NoDup (map fst (view_set (ce_id e) (filt ro (it_body it')) view)) /\
                  forall id, (P id \/ id = ce_id e) ->
                             vlookup id (view_set (ce_id e) (filt ro (it_body it')) view) = shown r_filter ro id l').
      { split; [apply view_set_nodup; exact Hnd|].
        intros id' Hid. destruct (String.eqb_spec id' (ce_id e)) as [->|Hne].
        - rewrite vlookup_set_same. unfold shown, pred_of. rewrite RI, L'. reflexivity.
        - destruct Hid as [Hp|C]; [|contradiction].
          apply Hother; [intros; apply vlookup_set_other; assumption|exact Hne|exact Hp]. }
      destruct (ce_kind e); try congruence; exact G.
    - assert (N : ce_new e = None) by (rewrite (d_new D); unfold body_at; rewrite L'; reflexivity).
      assert (K : ce_kind e = KRemove).
      { destruct (ce_kind e) eqn:EK; try reflexivity; exfalso;
          apply (proj2 (d_kind D)); try exact N; rewrite EK; discriminate. }
      rewrite K. split; [apply view_del_nodup; exact Hnd|].
      intros id' Hid. destruct (String.eqb_spec id' (ce_id e)) as [->|Hne].
      + rewrite vlookup_del_same by exact Hnd. unfold shown. rewrite L'. reflexivity.
      + destruct Hid as [Hp|C]; [|contradiction].
        apply Hother; [intros; apply vlookup_del_other; assumption|exact Hne|exact Hp].
  Qed.

  Lemma uview_snoc tid ro at_ evs e sk lf cn l l' :
    ro_include ro = None -> describes e l l' ->
    uview_inv (mkCS tid ro at_ evs sk lf cn) l -> uview_inv (mkCS tid ro at_ (evs ++ [e]) sk lf cn) l'.
  Proof.
    intros RI D [Hnd Hv]. unfold uview_inv. rewrite cview_snoc. simpl cs_ro in *.
    destruct (@forward_one_uo ro e l l' _ (touched (mkCS tid ro at_ evs sk lf cn)) RI D Hnd Hv) as [A B].
    split; [exact A|]. intros id Hid. apply B. unfold touched in *. simpl in *.
    rewrite map_app in Hid. apply in_app_or in Hid. destruct Hid as [Hid|[<-|[]]]; auto.
  Qed.

  Lemma uview_fresh tid ro (c : cstate) sk lf cn l : ro_updates_only ro = true -> uview_inv (mkCS tid ro c [] sk lf cn) l.
  Proof.
    intros UO. unfold uview_inv, cview, cstream, fold_view, pull_collection, pull_collection_gen. simpl. rewrite UO.
    simpl. split; [constructor|]. intros id [].
  Qed.

  (* ---------- lists: segments of the commit log, chains ---------- *)
  Definition seg {A} (from upto : nat) (log : list A) : list A := firstn (upto - from) (skipn from log).

  Lemma skipn_snoc {A} k (l : list A) x : (k <= List.length l)%nat -> skipn k (l ++ [x]) = skipn k l ++ [x].
  Proof. intros H. rewrite skipn_app. replace (k - List.length l)%nat with O by lia. reflexivity. Qed.

  Lemma nth_error_skipn' {A} k : forall (l : list A) i, nth_error (skipn k l) i = nth_error l (k + i).
  Proof.
    induction k as [|k IH]; intros l i; [reflexivity|]. destruct l as [|x r]; simpl; [destruct i; reflexivity|]. apply IH.
  Qed.

  Lemma firstn_S_nth' {A} k : forall (l : list A) x, nth_error l k = Some x -> firstn (S k) l = firstn k l ++ [x].
  Proof.
    induction k as [|k IH]; intros l x H; destruct l as [|y r]; try discriminate; simpl in *.
    - inversion H. reflexivity.
    - f_equal. apply IH. exact H.
  Qed.

  Lemma seg_snoc_log {A} from upto (l : list A) x : (upto <= List.length l)%nat -> seg from upto (l ++ [x]) = seg from upto l.
  Proof.
    intros H. unfold seg. destruct (le_lt_dec from (List.length l)) as [L|L].
    - rewrite skipn_snoc by exact L. rewrite firstn_app, skipn_length.
      replace (upto - from - (List.length l - from))%nat with O by lia. simpl. apply app_nil_r.
    - replace (upto - from)%nat with O by lia. reflexivity.
  Qed.

  Lemma seg_step {A} from upto (l : list A) x :
    (from <= upto)%nat -> nth_error l upto = Some x -> seg from (S upto) l = seg from upto l ++ [x].
  Proof.
    intros H N. unfold seg. replace (S upto - from)%nat with (S (upto - from)) by lia.
    apply firstn_S_nth'. rewrite nth_error_skipn'. replace (from + (upto - from))%nat with upto by lia. exact N.
  Qed.

  Lemma seg_nil {A} from upto (l : list A) : (upto <= from)%nat -> seg from upto l = [].
  Proof. intros H. unfold seg. replace (upto - from)%nat with O by lia. reflexivity. Qed.

  Lemma seg_all {A} from (l : list A) : seg from (List.length l) l = skipn from l.
  Proof. unfold seg. rewrite <- skipn_length. apply firstn_all. Qed.

  (* a segment lists the commits numbered from+1 .. upto, in that order *)
  Lemma seg_is_map_seq {A} from upto (l : list A) :
    (upto <= List.length l)%nat ->
    map Some (seg from upto l) = map (fun n => nth_error l (n - 1)) (seq (S from) (upto - from)).
  Proof.
    intros H. unfold seg. remember (upto - from)%nat as k eqn:Ek.
    assert (Hk : (from + k <= List.length l)%nat \/ k = O) by lia. clear Ek H. revert from Hk.
    induction k as [|k IH]; intros from Hk; [reflexivity|].
    destruct Hk as [Hk|Hk]; [|discriminate].
    destruct (nth_error l from) as [x|] eqn:N; [|apply nth_error_None in N; lia].
    assert (E : skipn from l = x :: skipn (S from) l).
    { clear - N. revert l N. induction from as [|f IHf]; intros l N; destruct l as [|y r]; try discriminate; simpl in *.
      - inversion N. reflexivity.
      - apply IHf. exact N. }
    rewrite E. cbn [firstn map seq]. replace (S from - 1)%nat with from by lia. rewrite N. f_equal.
    apply IH. left. lia.
  Qed.

  Lemma chain_snoc evs : forall (l l1 l2 : list (string * item)) (e : cevent),
    chain l evs l1 -> describes e l1 l2 -> chain l (evs ++ [e]) l2.
  Proof.
    induction evs as [|a r IH]; intros l l1 l2 e C D; inversion C; subst; simpl.
    - eapply chain_cons; [exact D|apply chain_nil].
    - eapply chain_cons; [eassumption|]. eapply IH; eassumption.
  Qed.

  Lemma chain_split a : forall b (l l' : list (string * item)),
    chain l (a ++ b) l' -> exists m, chain l a m /\ chain m b l'.
  Proof.
    induction a as [|e r IH]; simpl; intros b l l' C.
    - exists l. split; [apply chain_nil|exact C].
    - inversion C as [|l0 e0 l1 evs0 l2 D C']; subst. destruct (IH _ _ _ C') as (m & A & B). exists m.
      split; [eapply chain_cons; eassumption|exact B].
  Qed.

  (* folding a whole chain of deliveries *)
  Lemma cview_all tid ro at_ evs sk lf cn :
    cview (mkCS tid ro at_ evs sk lf cn) =
    fold_left (@apply_change M) (c_forward_gen r_filter None false false ro evs) (cview (mkCS tid ro at_ [] sk lf cn)).
  Proof.
    unfold cview, cstream, fold_view, pull_collection, pull_collection_gen. simpl cs_ro. simpl cs_at. simpl cs_evs.
    cbn [c_forward_gen]. rewrite app_nil_r, fold_left_app. reflexivity.
  Qed.

  Lemma uview_chain evs : forall tid ro at_ pre sk lf cn l l',
    ro_include ro = None -> chain l evs l' ->
    uview_inv (mkCS tid ro at_ pre sk lf cn) l -> uview_inv (mkCS tid ro at_ (pre ++ evs) sk lf cn) l'.
  Proof.
    induction evs as [|e r IH]; intros tid ro at_ pre sk lf cn l l' RI C Hv; inversion C; subst.
    - rewrite app_nil_r. exact Hv.
    - replace (pre ++ e :: r) with ((pre ++ [e]) ++ r) by (rewrite <- app_assoc; reflexivity).
      eapply IH; [exact RI|eassumption|]. eapply uview_snoc; eassumption.
  Qed.

  (* ---------- the kinds of step ---------- *)
  Inductive step_kind (p p' : pc) (w w' : world) (eff : effect M rmask) : Prop :=
  | k_save_v nv e :
      p' = PSavedV nv e -> eff = ENone -> is_pv p = false -> is_pc p = false ->
      ve_value e = nv -> v_val (w_v w') = Some nv -> c_items (w_c w') = c_items (w_c w) -> step_kind p p' w w' eff
  | k_save_c nv e :
      p' = PSavedC nv e -> eff = ENone -> is_pv p = false -> is_pc p = false ->
      w_v w' = w_v w -> describes e (c_items (w_c w)) (c_items (w_c w')) -> step_kind p p' w w' eff
  | k_pub_v nv e : p = PSavedV nv e -> eff = EPubV e -> p' = PDone (OVal (inl nv)) -> w' = w -> step_kind p p' w w' eff
  | k_pub_c nv e : p = PSavedC nv e -> eff = EPubC e -> p' = PDone (OVal (inl nv)) -> w' = w -> step_kind p p' w w' eff
  | k_delete seen n r e :
      p = PDel seen n -> eff = EPubC e -> p' = PDone r ->
      w_v w' = w_v w -> describes e (c_items (w_c w)) (c_items (w_c w')) -> step_kind p p' w w' eff
  | k_sub_v ro r : eff = ESubV ro -> w' = w -> p = PStart -> p' = PDone r -> step_kind p p' w w' eff
  | k_sub_c ro r : eff = ESubC ro -> w' = w -> (p = PStart \/ p = POpen) -> p' = PDone r -> step_kind p p' w w' eff
  | k_other :
      eff = ENone -> is_pv p = false -> is_pc p = false -> is_pv p' = false -> is_pc p' = false ->
      w_v w' = w_v w -> c_items (w_c w') = c_items (w_c w) -> step_kind p p' w w' eff.

  Lemma trans_class (c : call) p w p' w' eff :
    call_ok c -> pc_wf c p w -> sorted (c_items (w_c w)) ->
    trans c p w = Some (p', w', eff) -> step_kind p p' w w' eff.
  Proof.
    intros Hok Hwf Hs T.
    destruct (trans_effect _ _ _ T) as (TE1 & TE2 & TE3).
    pose proof (trans_value _ _ _ T) as TV.
    pose proof (@trans_coll _ _ _ _ _ _ Hok Hwf Hs T) as TC.
    assert (NP : (exists nv e, p' = PSavedV nv e) \/ (exists nv e, p' = PSavedC nv e) -> is_pv p = false /\ is_pc p = false).
    { intros H. destruct p; simpl; auto; destruct TE2 as [_ E]; destruct H as [(nv0 & e0 & H)|(nv0 & e0 & H)]; rewrite H in E; discriminate. }
    assert (OTH : match p' with PSavedV _ _ | PSavedC _ _ | PDone _ => False | _ => True end -> step_kind p p' w w' eff).
    { intros H.
      assert (E : eff = ENone) by (destruct p'; try contradiction; exact TE3). subst eff.
      assert (A : is_pv p = false /\ is_pc p = false).
      { destruct p; simpl; auto; destruct TE2 as [_ E]; rewrite E in H; contradiction. }
      destruct A as [A B].
      apply k_other; auto; try (destruct p'; try contradiction; reflexivity).
      - destruct p'; try contradiction; exact TV.
      - destruct p'; try contradiction; destruct p; exact TC. }
    destruct p' as [|old' cr'|nv e|nv e|seen' n'|r|]; try (apply OTH; exact I); clear OTH.
    - destruct NP as [A B]; [left; eauto|]. destruct TV as [V1 V2].
      eapply k_save_v; eauto.
    - destruct NP as [A B]; [right; eauto|]. eapply k_save_c; eauto.
    - (* PDone *)
      destruct eff as [|e|e|ro|ro].
      + assert (A : is_pv p = false /\ is_pc p = false).
        { destruct p; simpl; auto; destruct TE2 as [E _]; discriminate. }
        destruct A as [A B]. apply k_other; auto. destruct p; exact TC.
      + destruct TE1 as (nv & -> & ->). destruct TE2 as [_ E]. inversion E. subst. eapply k_pub_v; eauto.
      + destruct TE1 as [(nv & -> & ->)|(seen & n & r0 & -> & E)].
        * destruct TE2 as [_ E]. inversion E. subst. eapply k_pub_c; eauto.
        * inversion E. subst. eapply k_delete; eauto.
      + destruct TE1 as (-> & -> & ->). eapply k_sub_v; eauto.
      + destruct TE1 as (-> & Hp). eapply k_sub_c; eauto.
  Qed.

  Lemma saved_v_none (p' : pc) : is_pv p' = false -> saved_v p' = None.
  Proof. destruct p'; simpl; intros H; try reflexivity; discriminate. Qed.
  Lemma saved_c_none (p' : pc) : is_pc p' = false -> saved_c p' = None.
  Proof. destruct p'; simpl; intros H; try reflexivity; discriminate. Qed.
  Lemma del_ev_none (p : pc) : del_ev p (@ENone M rmask) = None.
  Proof. destruct p; reflexivity. Qed.
  Lemma del_ev_subv (p : pc) ro : del_ev p (@ESubV M rmask ro) = None.
  Proof. destruct p; reflexivity. Qed.
  Lemma del_ev_subc (p : pc) ro : del_ev p (@ESubC M rmask ro) = None.
  Proof. destruct p; reflexivity. Qed.

  Lemma trans_not_done (c : call) r w : trans c (PDone r) w = None.
  Proof. destruct c; reflexivity. Qed.

  (* ================= all programs, all schedules ================= *)
  Variable prog : list call.
  Hypothesis prog_ok : forall t c, nth_error prog t = Some c -> call_ok c.
  Variable v0 : vstate.
  Variable c0 : cstate.
  Hypothesis c0_sorted : sorted (c_items c0).

  Notation step := (step m_eqb m_empty w_validate w_merge clock_at str_ltb idfun false false prog).
  Notation run := (run m_eqb m_empty w_validate w_merge clock_at str_ltb idfun false false prog).
  Notation enabled := (enabled m_eqb m_empty w_validate w_merge clock_at str_ltb idfun false false prog).
  Notation s0 := (s0 prog v0 c0).
  Notation Inv := (Inv m_eqb m_empty w_validate w_merge clock_at str_ltb idfun prog v0 c0).

  (* where the deliveries of a Collection subscription start in the commit log: a seeded one drops
     the commits numbered up to the snapshot's (cs_cnt); an updates-only one drops nothing *)
  Definition from_c (u : csub) : nat := if ro_updates_only (cs_ro u) then cs_left u else cs_cnt u.
  Definition last_ev (log : list vevent) (dflt : option M) : option M :=
    match rev log with e :: _ => Some (ve_value e) | [] => dflt end.

  Record VSubInv (leftv : nat) (logv : list vevent) (cur : option M) (u : vsub) : Prop := {
    vi_left : (vs_left u <= leftv)%nat;
    (* delivered so far: exactly the commits numbered vs_left+1 .. leftv, in that order *)
    vi_evs : vs_evs u = seg (vs_left u) leftv logv;
    vi_at : vs_left u = List.length logv -> v_val (vs_at u) = cur
  }.

  Definition skip_ok (pcs : list pc) (a : nat) : Prop :=
    exists p0, nth_error pcs a = Some p0 /\ (is_pc p0 = true \/ is_done p0 = true).

  Record CSubInv (leftc cntc : nat) (logc : list cevent) (pendc : list nat) (tkt : nat -> nat) (pcs : list pc)
                 (items : list (string * item)) (u : csub) : Prop := {
    ci_left : (cs_left u <= cs_cnt u)%nat;
    ci_leftle : (cs_left u <= leftc)%nat;
    ci_cnt : (cs_cnt u <= cntc)%nat;
    (* delivered so far: exactly the commits numbered from+1 .. leftc, in that order *)
    ci_evs : cs_evs u = seg (from_c u) leftc logc;
    (* the skip set = the pending commits numbered up to the snapshot's *)
    ci_skipnum : ro_updates_only (cs_ro u) = false ->
                 forall a, In a pendc -> (In a (cs_skip u) <-> (tkt a <= cs_cnt u)%nat);
    ci_skip : forall a, In a (cs_skip u) -> skip_ok pcs a;
    ci_uskip : ro_updates_only (cs_ro u) = true -> cs_skip u = [];
    ci_sorted : sorted (c_items (cs_at u));
    (* the commits after the snapshot lead from the snapshot to the contents *)
    ci_chain : ro_updates_only (cs_ro u) = false -> chain (c_items (cs_at u)) (skipn (cs_cnt u) logc) items;
    ci_chainu : ro_updates_only (cs_ro u) = true -> exists L, chain L (skipn (cs_left u) logc) items
  }.

  Record TInv (s : state) : Prop := {
    (* the pending lists name exactly the threads parked before their publication *)
    t_pv : forall t, In t (st_pendv s) <-> exists p, nth_error (st_pcs s) t = Some p /\ is_pv p = true;
    t_pc : forall t, In t (st_pendc s) <-> exists p, nth_error (st_pcs s) t = Some p /\ is_pc p = true;
    t_ndv : NoDup (st_pendv s);
    t_ndc : NoDup (st_pendc s);
    (* they hold the commit numbers after the last one that has left, in order *)
    t_tkv : map (st_tkt s) (st_pendv s) = seq (S (st_leftv s)) (List.length (st_pendv s));
    t_tkc : map (st_tkt s) (st_pendc s) = seq (S (st_leftc s)) (List.length (st_pendc s));
    t_cntv : st_cntv s = (st_leftv s + List.length (st_pendv s))%nat;
    t_cntc : st_cntc s = (st_leftc s + List.length (st_pendc s))%nat;
    t_lenv : List.length (st_logv s) = st_cntv s;
    t_lenc : List.length (st_logc s) = st_cntc s;
    (* a parked event is the log's entry of its number *)
    t_evv : forall t, In t (st_pendv s) -> exists q e, nth_error (st_pcs s) t = Some q /\ saved_v q = Some e /\
                                                       nth_error (st_logv s) (st_tkt s t - 1) = Some e;
    t_evc : forall t, In t (st_pendc s) -> exists q e, nth_error (st_pcs s) t = Some q /\ saved_c q = Some e /\
                                                       nth_error (st_logc s) (st_tkt s t - 1) = Some e;
    t_val : v_val (w_v (st_w s)) = last_ev (st_logv s) (v_val v0);
    t_chain : chain (c_items c0) (st_logc s) (c_items (w_c (st_w s)));
    t_noreorder : st_reordered s = false;
    t_vsubs : forall u, In u (st_vsubs s) -> VSubInv (st_leftv s) (st_logv s) (v_val (w_v (st_w s))) u;
    t_csubs : forall u, In u (st_csubs s) ->
                        CSubInv (st_leftc s) (st_cntc s) (st_logc s) (st_pendc s) (st_tkt s) (st_pcs s)
                                (c_items (w_c (st_w s))) u
  }.

  Lemma tinv_init : TInv s0.
  Proof.
    constructor; simpl.
    - intros t. split; [intros []|]. intros (p & H & S). rewrite nth_error_map in H.
      destruct (nth_error prog t); inversion H; subst; discriminate.
    - intros t. split; [intros []|]. intros (p & H & S). rewrite nth_error_map in H.
      destruct (nth_error prog t); inversion H; subst; discriminate.
    - constructor.
    - constructor.
    - reflexivity.
    - reflexivity.
    - reflexivity.
    - reflexivity.
    - reflexivity.
    - reflexivity.
    - intros t [].
    - intros t [].
    - reflexivity.
    - apply chain_nil.
    - reflexivity.
    - intros u [].
    - intros u [].
  Qed.

  Lemma tinv_stutter s : TInv s -> TInv (stutter s).
  Proof. intros TI. constructor; simpl; apply TI. Qed.

  Lemma drop_tid_notin t l : ~ In t l -> drop_tid t l = l.
  Proof.
    unfold drop_tid. induction l as [|x r IH]; intros H; simpl; [reflexivity|].
    destruct (Nat.eqb_spec x t) as [->|Hne]; simpl.
    - exfalso. apply H. left. reflexivity.
    - rewrite IH; [reflexivity|]. intros C. apply H. right. exact C.
  Qed.

  Lemma in_drop_tid t u l : In u (drop_tid t l) <-> In u l /\ u <> t.
  Proof.
    unfold drop_tid. rewrite filter_In. split; intros [A B]; split; auto.
    - intros ->. rewrite Nat.eqb_refl in B. discriminate.
    - destruct (Nat.eqb_spec u t); [contradiction|reflexivity].
  Qed.

  Lemma drop_tid_head t r : ~ In t r -> drop_tid t (t :: r) = r.
  Proof. intros H. unfold drop_tid. simpl. rewrite Nat.eqb_refl. simpl. apply (drop_tid_notin _ _ H). Qed.

  Lemma nodup_drop t l : NoDup l -> NoDup (drop_tid t l).
  Proof. intros H. unfold drop_tid. apply NoDup_filter. exact H. Qed.

  Lemma nodup_snoc (t : nat) l : NoDup l -> ~ In t l -> NoDup (l ++ [t]).
  Proof.
    intros H Hn. induction H as [|x r Hx Hr IH]; simpl; [constructor; [intros []|constructor]|].
    constructor.
    - intros C. apply in_app_or in C. destruct C as [C|[C|[]]]; [contradiction|]. subst. apply Hn. left. reflexivity.
    - apply IH. intros C. apply Hn. right. exact C.
  Qed.

  (* the bookkeeping of pending publications *)
  Lemma pend_step (is_saved : pc -> bool) pend (pcs : list pc) t p' :
    (t < List.length pcs)%nat ->
    (forall u, In u pend <-> exists p, nth_error pcs u = Some p /\ is_saved p = true) ->
    forall u, In u (if is_saved p' then pend ++ [t] else drop_tid t pend) <->
              exists p, nth_error (set_nth t p' pcs) u = Some p /\ is_saved p = true.
  Proof.
    intros Ht H u. destruct (Nat.eq_dec t u) as [<-|Hne].
    - rewrite nth_error_set_nth_same by exact Ht. destruct (is_saved p') eqn:S.
      + split; [intros _; eauto|]. intros _. apply in_or_app. right. left. reflexivity.
      + rewrite in_drop_tid. split; [intros [_ C]; congruence|]. intros (p & E & S'). inversion E. congruence.
    - rewrite nth_error_set_nth_other by exact Hne. rewrite <- H. destruct (is_saved p').
      + rewrite in_app_iff. simpl. split; [intros [A|[A|[]]]; [exact A|congruence]|auto].
      + rewrite in_drop_tid. split; [tauto|]. intros A. split; [exact A|congruence].
  Qed.

  Lemma is_some_saved_v (p' : pc) : is_some (saved_v p') = is_pv p'.
  Proof. destruct p'; reflexivity. Qed.
  Lemma is_some_saved_c (p' : pc) : is_some (saved_c p') = is_pc p'.
  Proof. destruct p'; reflexivity. Qed.

  (* the head of the queue holds the next number *)
  Lemma head_of_tickets (tkt : nat -> nat) pend left t :
    map tkt pend = seq (S left) (List.length pend) -> In t pend -> tkt t = S left ->
    exists rest, pend = t :: rest.
  Proof.
    intros H Hin Ht. destruct pend as [|a rest]; [destruct Hin|]. simpl in H. inversion H as [[Ha Hr]].
    destruct Hin as [->|Hin]; [eauto|]. exfalso.
    assert (In (tkt t) (map tkt rest)) by (apply in_map; exact Hin).
    rewrite Hr in H0. apply in_seq in H0. lia.
  Qed.

  Lemma tickets_tail (tkt : nat -> nat) t rest left :
    map tkt (t :: rest) = seq (S left) (List.length (t :: rest)) ->
    tkt t = S left /\ map tkt rest = seq (S (S left)) (List.length rest).
  Proof. simpl. intros H. inversion H. auto. Qed.

  Lemma tickets_bound (tkt : nat -> nat) pend left a :
    map tkt pend = seq (S left) (List.length pend) -> In a pend -> (left < tkt a <= left + List.length pend)%nat.
  Proof.
    intros H Hin. assert (In (tkt a) (map tkt pend)) by (apply in_map; exact Hin).
    rewrite H in H0. apply in_seq in H0. lia.
  Qed.

  Lemma tickets_snoc (tkt : nat -> nat) pend left t n :
    map tkt pend = seq (S left) (List.length pend) -> ~ In t pend -> n = S (left + List.length pend) ->
    map (fun x => if Nat.eqb x t then n else tkt x) (pend ++ [t]) = seq (S left) (List.length (pend ++ [t])).
  Proof.
    intros H Hn ->. rewrite map_app, app_length. simpl. rewrite Nat.add_1_r, seq_S, Nat.eqb_refl. f_equal.
    rewrite <- H. apply map_ext_in. intros a Ha. destruct (Nat.eqb_spec a t); [subst; contradiction|reflexivity].
  Qed.

  (* ---------- a subscriber's invariant under the kinds of step ---------- *)
  Lemma vsub_save leftv logv cur cur' e u :
    (leftv <= List.length logv)%nat ->
    VSubInv leftv logv cur u -> VSubInv leftv (logv ++ [e]) cur' u.
  Proof.
    intros L [A B C]. constructor; [exact A| |].
    - rewrite seg_snoc_log by exact L. exact B.
    - rewrite app_length. simpl. intros E. lia.
  Qed.

  Lemma vsub_pub leftv logv cur e u :
    nth_error logv leftv = Some e -> VSubInv leftv logv cur u ->
    VSubInv (S leftv) logv cur (mkVS (vs_tid u) (vs_ro u) (vs_at u) (vs_evs u ++ [e]) (vs_left u)).
  Proof.
    intros N [A B C]. constructor; simpl; [lia| |exact C].
    rewrite B. symmetry. apply seg_step; assumption.
  Qed.

  Lemma vsub_new t ro (v : vstate) leftv logv : VSubInv leftv logv (v_val v) (mkVS t ro v [] leftv).
  Proof. constructor; simpl; [lia| |reflexivity]. rewrite seg_nil by lia. reflexivity. Qed.

  Lemma skip_ok_step (c : call) p w p' w' eff (pcs : list pc) t a :
    trans c p w = Some (p', w', eff) -> nth_error pcs t = Some p ->
    skip_ok pcs a -> skip_ok (set_nth t p' pcs) a.
  Proof.
    intros T Q (p0 & Q0 & S0).
    assert (Ht : (t < List.length pcs)%nat) by (apply nth_error_Some; rewrite Q; discriminate).
    unfold skip_ok. destruct (Nat.eq_dec t a) as [<-|Hne].
    - rewrite nth_error_set_nth_same by exact Ht. exists p'. split; [reflexivity|].
      rewrite Q in Q0. inversion Q0. subst p0.
      destruct (trans_effect _ _ _ T) as (_ & TE2 & _).
      destruct S0 as [S0|S0]; destruct p; try discriminate.
      + destruct TE2 as [_ ->]. right. reflexivity.
      + rewrite trans_not_done in T. discriminate.
    - rewrite nth_error_set_nth_other by exact Hne. eauto.
  Qed.

  Lemma csub_frame leftc cntc logc pendc (tkt tkt' : nat -> nat) (pcs pcs' : list pc) items items' u :
    items' = items -> (forall a, In a pendc -> tkt' a = tkt a) ->
    (forall a, skip_ok pcs a -> skip_ok pcs' a) ->
    CSubInv leftc cntc logc pendc tkt pcs items u -> CSubInv leftc cntc logc pendc tkt' pcs' items' u.
  Proof.
    intros -> Ht Hs [A B C D E F G H J K]. constructor; auto.
    intros UO a Ha. rewrite (Ht _ Ha). apply E; assumption.
  Qed.

  Lemma csub_save leftc cntc logc pendc (tkt : nat -> nat) (pcs pcs' : list pc) items items' e t u :
    List.length logc = cntc -> (leftc <= cntc)%nat ->
    describes e items items' -> ~ In t pendc -> ~ In t (cs_skip u) ->
    (forall a, skip_ok pcs a -> skip_ok pcs' a) ->
    CSubInv leftc cntc logc pendc tkt pcs items u ->
    CSubInv leftc (S cntc) (logc ++ [e]) (pendc ++ [t]) (fun x => if Nat.eqb x t then S cntc else tkt x) pcs' items' u.
  Proof.
    intros Hl Hle D Hnp Hns Hs [A B C E F G H J K L]. constructor; auto.
    - rewrite seg_snoc_log by lia. exact E.
    - intros UO a Ha. apply in_app_or in Ha. destruct Ha as [Ha|[<-|[]]].
      + destruct (Nat.eqb_spec a t) as [->|Hne]; [contradiction|]. apply F; assumption.
      + rewrite Nat.eqb_refl. split; [intros X; contradiction|intros X; lia].
    - intros UO. rewrite skipn_snoc by lia. eapply chain_snoc; [apply K; exact UO|exact D].
    - intros UO. destruct (L UO) as (L0 & CL). exists L0. rewrite skipn_snoc by lia. eapply chain_snoc; eassumption.
  Qed.

  Lemma from_c_le leftc cntc logc pendc tkt pcs items u :
    CSubInv leftc cntc logc pendc tkt pcs items u -> (from_c u <= cntc)%nat.
  Proof. intros [A B C _ _ _ _ _ _ _]. unfold from_c. destruct (ro_updates_only (cs_ro u)); lia. Qed.

  Lemma csub_del cntc logc (tkt : nat -> nat) (pcs pcs' : list pc) items items' e u :
    List.length logc = cntc -> describes e items items' ->
    (forall a, skip_ok pcs a -> skip_ok pcs' a) ->
    CSubInv cntc cntc logc [] tkt pcs items u ->
    CSubInv (S cntc) (S cntc) (logc ++ [e]) [] tkt pcs' items'
            (mkCS (cs_tid u) (cs_ro u) (cs_at u) (cs_evs u ++ [e]) (cs_skip u) (cs_left u) (cs_cnt u)).
  Proof.
    intros Hl D Hs CI. pose proof (from_c_le CI) as Hf. destruct CI as [A B C E F G H J K L].
    constructor; simpl; auto.
    - unfold from_c in *. simpl. rewrite E.
      rewrite (@seg_step _ _ cntc (logc ++ [e]) e); [|exact Hf|rewrite nth_error_app2 by lia; rewrite Hl, Nat.sub_diag; reflexivity].
      rewrite seg_snoc_log by lia. reflexivity.
    - intros UO. rewrite skipn_snoc by lia. eapply chain_snoc; [apply K; exact UO|exact D].
    - intros UO. destruct (L UO) as (L0 & CL). exists L0. rewrite skipn_snoc by lia. eapply chain_snoc; eassumption.
  Qed.

  Lemma existsb_eqb_in t l : existsb (Nat.eqb t) l = true <-> In t l.
  Proof.
    rewrite existsb_exists. split; [intros (a & Ha & E); apply Nat.eqb_eq in E; subst; exact Ha|].
    intros H. exists t. split; [exact H|apply Nat.eqb_refl].
  Qed.

  Lemma csub_pub leftc cntc logc rest (tkt : nat -> nat) (pcs pcs' : list pc) items e t u :
    tkt t = S leftc -> nth_error logc leftc = Some e ->
    (forall a, skip_ok pcs a -> skip_ok pcs' a) ->
    CSubInv leftc cntc logc (t :: rest) tkt pcs items u ->
    CSubInv (S leftc) cntc logc rest tkt pcs' items
            (if existsb (Nat.eqb t) (cs_skip u) then u
             else mkCS (cs_tid u) (cs_ro u) (cs_at u) (cs_evs u ++ [e]) (cs_skip u) (cs_left u) (cs_cnt u)).
  Proof.
    intros Ht N Hs [A B C E F G H J K L].
    assert (Hfrom : existsb (Nat.eqb t) (cs_skip u) = true -> (S leftc <= from_c u)%nat).
    { intros X. apply existsb_eqb_in in X. unfold from_c. destruct (ro_updates_only (cs_ro u)) eqn:UO.
      - rewrite (H eq_refl) in X. destruct X.
      - apply (F eq_refl t (or_introl eq_refl)) in X. lia. }
    assert (Hfrom' : existsb (Nat.eqb t) (cs_skip u) = false -> (from_c u <= leftc)%nat).
    { intros X. unfold from_c. destruct (ro_updates_only (cs_ro u)) eqn:UO; [exact B|].
      destruct (le_lt_dec (cs_cnt u) leftc) as [Y|Y]; [exact Y|exfalso].
      assert (Z : In t (cs_skip u)) by (apply (F eq_refl t (or_introl eq_refl)); lia).
      apply existsb_eqb_in in Z. congruence. }
    destruct (existsb (Nat.eqb t) (cs_skip u)) eqn:SK.
    - constructor; auto.
      + rewrite E. rewrite !seg_nil; [reflexivity| |]; specialize (Hfrom eq_refl); lia.
      + intros UO a Ha. apply F; [exact UO|right; exact Ha].
    - constructor; simpl; auto.
      + unfold from_c in *. simpl. rewrite E. symmetry. apply seg_step; [apply Hfrom'; reflexivity|exact N].
      + intros UO a Ha. apply F; [exact UO|right; exact Ha].
  Qed.

  Lemma csub_new t ro (c : cstate) leftc cntc logc pendc (tkt : nat -> nat) (pcs : list pc) L0 :
    sorted (c_items c) -> List.length logc = cntc -> cntc = (leftc + List.length pendc)%nat ->
    map tkt pendc = seq (S leftc) (List.length pendc) ->
    (forall a, In a pendc -> skip_ok pcs a) -> chain L0 logc (c_items c) ->
    CSubInv leftc cntc logc pendc tkt pcs (c_items c)
            (mkCS t ro c [] (if ro_updates_only ro then [] else pendc) leftc cntc).
  Proof.
    intros Hs Hl Hc Htk Hp Ch. constructor; simpl; auto; try lia.
    - unfold from_c. simpl. rewrite seg_nil; [reflexivity|]. destruct (ro_updates_only ro); lia.
    - intros UO a Ha. rewrite UO. split; [intros _|intros _; exact Ha].
      pose proof (@tickets_bound _ _ _ _ Htk Ha). lia.
    - intros a Ha. destruct (ro_updates_only ro); [destruct Ha|]. apply Hp. exact Ha.
    - intros UO. rewrite UO. reflexivity.
    - intros UO. rewrite skipn_all2 by lia. apply chain_nil.
    - intros UO. rewrite <- (firstn_skipn leftc logc) in Ch. apply chain_split in Ch.
      destruct Ch as (m & _ & Cm). exists m. exact Cm.
  Qed.

  Lemma pend_ev_keep {X} (f : pc -> option X) (pcs : list pc) (t a : nat) (p' : pc) (tkt : nat -> nat) (log ex : list X) n :
    a <> t -> n = tkt a ->
    (exists q e, nth_error pcs a = Some q /\ f q = Some e /\ nth_error log (tkt a - 1) = Some e) ->
    exists q e, nth_error (set_nth t p' pcs) a = Some q /\ f q = Some e /\ nth_error (log ++ ex) (n - 1) = Some e.
  Proof.
    intros Hne -> (q & e & A & B & C). exists q, e. rewrite nth_error_set_nth_other by congruence.
    split; [exact A|]. split; [exact B|]. rewrite nth_error_app1; [exact C|]. apply nth_error_Some. rewrite C. discriminate.
  Qed.

  Lemma pend_ev_new {X} (f : pc -> option X) (pcs : list pc) (t : nat) (p' : pc) (log : list X) e n :
    (t < List.length pcs)%nat -> f p' = Some e -> n = List.length log ->
    exists q e0, nth_error (set_nth t p' pcs) t = Some q /\ f q = Some e0 /\ nth_error (log ++ [e]) (S n - 1) = Some e0.
  Proof.
    intros Ht Hf ->. exists p', e. rewrite nth_error_set_nth_same by exact Ht. split; [reflexivity|]. split; [exact Hf|].
    replace (S (List.length log) - 1)%nat with (List.length log) by lia.
    rewrite nth_error_app2 by lia. rewrite Nat.sub_diag. reflexivity.
  Qed.

  Lemma tkt_upd_other (tkt : nat -> nat) t n pend :
    ~ In t pend -> map (fun x => if Nat.eqb x t then n else tkt x) pend = map tkt pend.
  Proof.
    intros H. apply map_ext_in. intros a Ha. destruct (Nat.eqb_spec a t); [subst; contradiction|reflexivity].
  Qed.

  Theorem tinv_step pre s t : Inv pre s -> TInv s -> TInv (step t s).
  Proof.
    intros I TI. unfold Lts.step.
    destruct (nth_error prog t) as [c|] eqn:P; [|apply tinv_stutter; exact TI].
    destruct (nth_error (st_pcs s) t) as [p|] eqn:Q; [|apply tinv_stutter; exact TI].
    destruct (trans c p (st_w s)) as [[[p' w'] eff]|] eqn:T; [|apply tinv_stutter; exact TI].
    destruct (gate_open false t s p eff) eqn:G; [|apply tinv_stutter; exact TI].
    destruct (i_local I _ P Q) as [Hwf _].
    assert (Ht : (t < List.length (st_pcs s))%nat) by (apply nth_error_Some; rewrite Q; discriminate).
    assert (Hnv : is_pv p = false -> ~ In t (st_pendv s)).
    { intros E C. apply (t_pv TI) in C. destruct C as (p0 & Q0 & S0). rewrite Q in Q0. inversion Q0. subst. congruence. }
    assert (Hnc : is_pc p = false -> ~ In t (st_pendc s)).
    { intros E C. apply (t_pc TI) in C. destruct C as (p0 & Q0 & S0). rewrite Q in Q0. inversion Q0. subst. congruence. }
    assert (Hsk : forall a, skip_ok (st_pcs s) a -> skip_ok (set_nth t p' (st_pcs s)) a).
    { intros a. eapply skip_ok_step; eassumption. }
    assert (Hlv : (st_leftv s <= List.length (st_logv s))%nat) by (rewrite (t_lenv TI), (t_cntv TI); lia).
    assert (Hlc : (st_leftc s <= List.length (st_logc s))%nat) by (rewrite (t_lenc TI), (t_cntc TI); lia).
    assert (Hnsk : is_pc p = false -> is_done p = false -> forall u, In u (st_csubs s) -> ~ In t (cs_skip u)).
    { intros E1 E2 u Hu C. destruct (ci_skip (t_csubs TI _ Hu) _ C) as (p0 & Q0 & S0).
      rewrite Q in Q0. inversion Q0. subst. destruct S0; congruence. }
    assert (Hnd : is_done p = false).
    { destruct p; try reflexivity. rewrite trans_not_done in T. discriminate. }
    pose proof (@trans_class _ _ _ _ _ _ (prog_ok _ P) Hwf (i_sorted I) T) as K.
    destruct K as [nv e -> -> Hpv Hpc Ev Vv Ec|nv e -> -> Hpv Hpc Ev D|nv e -> -> -> ->|nv e -> -> -> ->
                  |seen n r e -> -> -> Ev D|ro r -> -> -> ->|ro r -> -> Hp ->| -> Hpv Hpc Hpv' Hpc' Ev Ec].
    - (* ---- a Set saves ---- *)
      rewrite Hpv, Hpc, del_ev_none. constructor; simpl; rewrite ?app_nil_r.
      + exact (@pend_step (@is_pv M) _ _ _ (PSavedV nv e) Ht (t_pv TI)).
      + exact (@pend_step (@is_pc M) _ _ _ (PSavedV nv e) Ht (t_pc TI)).
      + apply nodup_snoc; [apply TI|apply Hnv; exact Hpv].
      + apply nodup_drop. apply TI.
      + apply tickets_snoc; [apply TI|apply Hnv; exact Hpv|rewrite (t_cntv TI); reflexivity].
      + rewrite drop_tid_notin by exact (Hnc Hpc). rewrite tkt_upd_other by exact (Hnc Hpc). apply TI.
      + rewrite app_length, (t_cntv TI). simpl. lia.
      + rewrite drop_tid_notin by exact (Hnc Hpc). apply TI.
      + rewrite app_length, (t_lenv TI). simpl. lia.
      + apply TI.
      + intros a Ha. apply in_app_or in Ha. destruct Ha as [Ha|[<-|[]]].
        * apply pend_ev_keep with (tkt := st_tkt s); [intros ->; apply (Hnv Hpv); exact Ha| |apply (t_evv TI); exact Ha].
          destruct (Nat.eqb_spec a t); [subst; exfalso; apply (Hnv Hpv); exact Ha|reflexivity].
        * rewrite Nat.eqb_refl. apply pend_ev_new; [exact Ht|reflexivity|symmetry; apply TI].
      + rewrite drop_tid_notin by exact (Hnc Hpc). intros a Ha.
        rewrite <- (app_nil_r (st_logc s)).
        apply pend_ev_keep with (tkt := st_tkt s); [intros ->; apply (Hnc Hpc); exact Ha| |apply (t_evc TI); exact Ha].
        destruct (Nat.eqb_spec a t); [subst; exfalso; apply (Hnc Hpc); exact Ha|reflexivity].
      + unfold last_ev. rewrite rev_app_distr. simpl. rewrite Vv, Ev. reflexivity.
      + rewrite Ec. apply TI.
      + rewrite orb_false_r. apply TI.
      + intros u Hu. apply vsub_save with (cur := v_val (w_v (st_w s))); [exact Hlv|apply TI; exact Hu].
      + intros u Hu. rewrite drop_tid_notin by exact (Hnc Hpc).
        eapply csub_frame; [exact Ec| |exact Hsk|apply TI; exact Hu].
        intros a Ha. destruct (Nat.eqb_spec a t); [subst; exfalso; apply (Hnc Hpc); exact Ha|reflexivity].
    - (* ---- an Update saves ---- *)
      rewrite Hpv, Hpc, del_ev_none. constructor; simpl; rewrite ?app_nil_r.
      + exact (@pend_step (@is_pv M) _ _ _ (PSavedC nv e) Ht (t_pv TI)).
      + exact (@pend_step (@is_pc M) _ _ _ (PSavedC nv e) Ht (t_pc TI)).
      + apply nodup_drop. apply TI.
      + apply nodup_snoc; [apply TI|exact (Hnc Hpc)].
      + rewrite drop_tid_notin by exact (Hnv Hpv). rewrite tkt_upd_other by exact (Hnv Hpv). apply TI.
      + apply tickets_snoc; [apply TI|exact (Hnc Hpc)|rewrite (t_cntc TI); reflexivity].
      + rewrite drop_tid_notin by exact (Hnv Hpv). apply TI.
      + rewrite app_length, (t_cntc TI). simpl. lia.
      + apply TI.
      + rewrite app_length, (t_lenc TI). simpl. lia.
      + rewrite drop_tid_notin by exact (Hnv Hpv). intros a Ha.
        rewrite <- (app_nil_r (st_logv s)).
        apply pend_ev_keep with (tkt := st_tkt s); [intros ->; apply (Hnv Hpv); exact Ha| |apply (t_evv TI); exact Ha].
        destruct (Nat.eqb_spec a t); [subst; exfalso; apply (Hnv Hpv); exact Ha|reflexivity].
      + intros a Ha. apply in_app_or in Ha. destruct Ha as [Ha|[<-|[]]].
        * apply pend_ev_keep with (tkt := st_tkt s); [intros ->; apply (Hnc Hpc); exact Ha| |apply (t_evc TI); exact Ha].
          destruct (Nat.eqb_spec a t); [subst; exfalso; apply (Hnc Hpc); exact Ha|reflexivity].
        * rewrite Nat.eqb_refl. apply pend_ev_new; [exact Ht|reflexivity|symmetry; apply TI].
      + rewrite Ev. apply TI.
      + eapply chain_snoc; [apply TI|exact D].
      + rewrite orb_false_r. apply TI.
      + intros u Hu. rewrite Ev. apply TI. exact Hu.
      + intros u Hu. eapply csub_save; [apply TI|rewrite (t_cntc TI); lia|exact D|exact (Hnc Hpc)|exact (Hnsk Hpc Hnd _ Hu)|exact Hsk|apply TI; exact Hu].
    - (* ---- a Set publishes: it holds the next number ---- *)
      simpl in G. apply Nat.eqb_eq in G.
      assert (Hin : In t (st_pendv s)) by (apply (t_pv TI); eauto).
      destruct (@head_of_tickets _ _ _ _ (t_tkv TI) Hin G) as (rest & Ep).
      pose proof (t_ndv TI) as ND. rewrite Ep in ND. inversion ND as [|x l Hnr NDr]. subst x l.
      pose proof (t_tkv TI) as TK. rewrite Ep in TK. apply tickets_tail in TK. destruct TK as [_ TK].
      destruct (t_evv TI _ Hin) as (q & e0 & Q0 & S0 & N0). rewrite Q in Q0. inversion Q0. subst q.
      simpl in S0. inversion S0. subst e0. rewrite G in N0. simpl in N0. rewrite Nat.sub_0_r in N0.
      assert (Hnc' : ~ In t (st_pendc s)) by (apply Hnc; reflexivity).
      constructor; simpl; rewrite ?app_nil_r.
      + exact (@pend_step (@is_pv M) _ _ _ (PDone (OVal (inl nv))) Ht (t_pv TI)).
      + exact (@pend_step (@is_pc M) _ _ _ (PDone (OVal (inl nv))) Ht (t_pc TI)).
      + apply nodup_drop. apply TI.
      + apply nodup_drop. apply TI.
      + rewrite Ep, drop_tid_head by exact Hnr. rewrite G. exact TK.
      + rewrite drop_tid_notin by exact Hnc'. apply TI.
      + rewrite Ep, drop_tid_head by exact Hnr. rewrite G, (t_cntv TI), Ep. simpl. lia.
      + rewrite drop_tid_notin by exact Hnc'. apply TI.
      + apply TI.
      + apply TI.
      + intros a Ha. apply in_drop_tid in Ha. destruct Ha as [Ha Hne]. rewrite <- (app_nil_r (st_logv s)).
        apply pend_ev_keep with (tkt := st_tkt s); [exact Hne|reflexivity|apply (t_evv TI); exact Ha].
      + intros a Ha. apply in_drop_tid in Ha. destruct Ha as [Ha Hne]. rewrite <- (app_nil_r (st_logc s)).
        apply pend_ev_keep with (tkt := st_tkt s); [exact Hne|reflexivity|apply (t_evc TI); exact Ha].
      + apply TI.
      + apply TI.
      + rewrite Ep. simpl. rewrite Nat.eqb_refl. simpl. rewrite orb_false_r. apply TI.
      + intros u Hu. apply in_map_iff in Hu. destruct Hu as (u0 & <- & Hu0). rewrite G.
        apply vsub_pub; [exact N0|apply TI; exact Hu0].
      + intros u Hu. rewrite drop_tid_notin by exact Hnc'.
        eapply csub_frame; [reflexivity|intros; reflexivity|exact Hsk|apply TI; exact Hu].
    - (* ---- an Update publishes: it holds the next number ---- *)
      simpl in G. apply Nat.eqb_eq in G.
      assert (Hin : In t (st_pendc s)) by (apply (t_pc TI); eauto).
      destruct (@head_of_tickets _ _ _ _ (t_tkc TI) Hin G) as (rest & Ep).
      pose proof (t_ndc TI) as ND. rewrite Ep in ND. inversion ND as [|x l Hnr NDr]. subst x l.
      pose proof (t_tkc TI) as TK. rewrite Ep in TK. apply tickets_tail in TK. destruct TK as [_ TK].
      destruct (t_evc TI _ Hin) as (q & e0 & Q0 & S0 & N0). rewrite Q in Q0. inversion Q0. subst q.
      simpl in S0. inversion S0. subst e0. rewrite G in N0. simpl in N0. rewrite Nat.sub_0_r in N0.
      assert (Hnv' : ~ In t (st_pendv s)) by (apply Hnv; reflexivity).
      constructor; simpl; rewrite ?app_nil_r.
      + exact (@pend_step (@is_pv M) _ _ _ (PDone (OVal (inl nv))) Ht (t_pv TI)).
      + exact (@pend_step (@is_pc M) _ _ _ (PDone (OVal (inl nv))) Ht (t_pc TI)).
      + apply nodup_drop. apply TI.
      + apply nodup_drop. apply TI.
      + rewrite drop_tid_notin by exact Hnv'. apply TI.
      + rewrite Ep, drop_tid_head by exact Hnr. rewrite G. exact TK.
      + rewrite drop_tid_notin by exact Hnv'. apply TI.
      + rewrite Ep, drop_tid_head by exact Hnr. rewrite G, (t_cntc TI), Ep. simpl. lia.
      + apply TI.
      + apply TI.
      + intros a Ha. apply in_drop_tid in Ha. destruct Ha as [Ha Hne]. rewrite <- (app_nil_r (st_logv s)).
        apply pend_ev_keep with (tkt := st_tkt s); [exact Hne|reflexivity|apply (t_evv TI); exact Ha].
      + intros a Ha. apply in_drop_tid in Ha. destruct Ha as [Ha Hne]. rewrite <- (app_nil_r (st_logc s)).
        apply pend_ev_keep with (tkt := st_tkt s); [exact Hne|reflexivity|apply (t_evc TI); exact Ha].
      + apply TI.
      + apply TI.
      + rewrite Ep. simpl. rewrite Nat.eqb_refl. simpl. rewrite orb_false_r. apply TI.
      + intros u Hu. apply TI. exact Hu.
      + intros u Hu. apply in_map_iff in Hu. destruct Hu as (u0 & <- & Hu0).
        rewrite Ep, drop_tid_head by exact Hnr. rewrite G.
        apply csub_pub with (pcs := st_pcs s); [exact G|exact N0|exact Hsk|rewrite <- Ep; apply TI; exact Hu0].
    - (* ---- a Delete commits and publishes under the lock: nothing is pending ---- *)
      simpl in G. apply Nat.eqb_eq in G.
      assert (Epc : st_pendc s = []).
      { pose proof (t_cntc TI) as X. rewrite <- G in X. destruct (st_pendc s); [reflexivity|simpl in X; lia]. }
      assert (Hnv' : ~ In t (st_pendv s)) by (apply Hnv; reflexivity).
      constructor; simpl; rewrite ?app_nil_r.
      + exact (@pend_step (@is_pv M) _ _ _ (PDone r) Ht (t_pv TI)).
      + exact (@pend_step (@is_pc M) _ _ _ (PDone r) Ht (t_pc TI)).
      + apply nodup_drop. apply TI.
      + apply nodup_drop. apply TI.
      + rewrite drop_tid_notin by exact Hnv'. apply TI.
      + rewrite Epc. reflexivity.
      + rewrite drop_tid_notin by exact Hnv'. apply TI.
      + rewrite Epc. simpl. lia.
      + apply TI.
      + rewrite app_length, (t_lenc TI). simpl. lia.
      + intros a Ha. apply in_drop_tid in Ha. destruct Ha as [Ha Hne]. rewrite <- (app_nil_r (st_logv s)).
        apply pend_ev_keep with (tkt := st_tkt s); [exact Hne|reflexivity|apply (t_evv TI); exact Ha].
      + rewrite Epc. intros a [].
      + rewrite Ev. apply TI.
      + eapply chain_snoc; [apply TI|exact D].
      + rewrite Epc. simpl. rewrite orb_false_r. apply TI.
      + intros u Hu. rewrite Ev. apply TI. exact Hu.
      + intros u Hu. apply in_map_iff in Hu. destruct Hu as (u0 & <- & Hu0).
        assert (SK : existsb (Nat.eqb t) (cs_skip u0) = false).
        { apply not_true_is_false. intros C. apply existsb_eqb_in in C. exact (Hnsk eq_refl eq_refl _ Hu0 C). }
        rewrite SK, Epc. simpl.
        pose proof (t_csubs TI _ Hu0) as CI. rewrite Epc, G in CI.
        apply csub_del with (pcs := st_pcs s) (items := c_items (w_c (st_w s))); [apply TI|exact D|exact Hsk|exact CI].
    - (* ---- Value.Pull: snapshot + Listen ---- *)
      assert (Hnv' : ~ In t (st_pendv s)) by (apply Hnv; reflexivity).
      assert (Hnc' : ~ In t (st_pendc s)) by (apply Hnc; reflexivity).
      constructor; simpl; rewrite ?app_nil_r; rewrite ?(drop_tid_notin _ _ Hnv'), ?(drop_tid_notin _ _ Hnc'); try apply TI.
      + pose proof (@pend_step (@is_pv M) _ _ _ (PDone r) Ht (t_pv TI)) as X. simpl in X.
        rewrite (drop_tid_notin _ _ Hnv') in X. exact X.
      + pose proof (@pend_step (@is_pc M) _ _ _ (PDone r) Ht (t_pc TI)) as X. simpl in X.
        rewrite (drop_tid_notin _ _ Hnc') in X. exact X.
      + intros a Ha. rewrite <- (app_nil_r (st_logv s)).
        apply pend_ev_keep with (tkt := st_tkt s); [intros ->; contradiction|reflexivity|apply (t_evv TI); exact Ha].
      + intros a Ha. rewrite <- (app_nil_r (st_logc s)).
        apply pend_ev_keep with (tkt := st_tkt s); [intros ->; contradiction|reflexivity|apply (t_evc TI); exact Ha].
      + rewrite orb_false_r. apply TI.
      + intros u Hu. apply in_app_or in Hu. destruct Hu as [Hu|[<-|[]]]; [apply TI; exact Hu|apply vsub_new].
      + intros u Hu. eapply csub_frame; [reflexivity|intros; reflexivity|exact Hsk|apply TI; exact Hu].
    - (* ---- Collection.Pull / the goroutine of PullID: snapshot + Listen ---- *)
      assert (Hpp : is_pv p = false /\ is_pc p = false) by (destruct Hp as [->| ->]; split; reflexivity).
      destruct Hpp as [Hpv Hpc].
      assert (Hnv' : ~ In t (st_pendv s)) by (apply Hnv; exact Hpv).
      assert (Hnc' : ~ In t (st_pendc s)) by (apply Hnc; exact Hpc).
      rewrite Hpv, Hpc, del_ev_subc.
      constructor; simpl; rewrite ?app_nil_r; rewrite ?(drop_tid_notin _ _ Hnv'), ?(drop_tid_notin _ _ Hnc'); try apply TI.
      + pose proof (@pend_step (@is_pv M) _ _ _ (PDone r) Ht (t_pv TI)) as X. simpl in X.
        rewrite (drop_tid_notin _ _ Hnv') in X. exact X.
      + pose proof (@pend_step (@is_pc M) _ _ _ (PDone r) Ht (t_pc TI)) as X. simpl in X.
        rewrite (drop_tid_notin _ _ Hnc') in X. exact X.
      + intros a Ha. rewrite <- (app_nil_r (st_logv s)).
        apply pend_ev_keep with (tkt := st_tkt s); [intros ->; contradiction|reflexivity|apply (t_evv TI); exact Ha].
      + intros a Ha. rewrite <- (app_nil_r (st_logc s)).
        apply pend_ev_keep with (tkt := st_tkt s); [intros ->; contradiction|reflexivity|apply (t_evc TI); exact Ha].
      + rewrite orb_false_r. apply TI.
      + intros u Hu. apply in_app_or in Hu. destruct Hu as [Hu|[<-|[]]].
        * eapply csub_frame; [reflexivity|intros; reflexivity|exact Hsk|apply TI; exact Hu].
        * eapply csub_new; [apply (i_sorted I)|apply TI|apply TI|apply TI| |apply (t_chain TI)].
          intros a Ha. apply Hsk. apply (t_pc TI) in Ha. destruct Ha as (p0 & Q0 & S0). exists p0. auto.
    - (* ---- any other step ---- *)
      assert (Hnv' : ~ In t (st_pendv s)) by (apply Hnv; exact Hpv).
      assert (Hnc' : ~ In t (st_pendc s)) by (apply Hnc; exact Hpc).
      rewrite (saved_v_none _ Hpv'), (saved_c_none _ Hpc'), Hpv, Hpc, del_ev_none.
      constructor; simpl; rewrite ?app_nil_r; rewrite ?(drop_tid_notin _ _ Hnv'), ?(drop_tid_notin _ _ Hnc'); try apply TI.
      + pose proof (@pend_step (@is_pv M) _ _ _ p' Ht (t_pv TI)) as X. rewrite Hpv' in X.
        rewrite (drop_tid_notin _ _ Hnv') in X. exact X.
      + pose proof (@pend_step (@is_pc M) _ _ _ p' Ht (t_pc TI)) as X. rewrite Hpc' in X.
        rewrite (drop_tid_notin _ _ Hnc') in X. exact X.
      + intros a Ha. rewrite <- (app_nil_r (st_logv s)).
        apply pend_ev_keep with (tkt := st_tkt s); [intros ->; contradiction|reflexivity|apply (t_evv TI); exact Ha].
      + intros a Ha. rewrite <- (app_nil_r (st_logc s)).
        apply pend_ev_keep with (tkt := st_tkt s); [intros ->; contradiction|reflexivity|apply (t_evc TI); exact Ha].
      + rewrite Ev. apply TI.
      + rewrite Ec. apply TI.
      + rewrite orb_false_r. apply TI.
      + intros u Hu. rewrite Ev. apply TI. exact Hu.
      + intros u Hu. eapply csub_frame; [exact Ec|intros; reflexivity|exact Hsk|apply TI; exact Hu].
  Qed.

  Lemma run_snoc' pre t : run (pre ++ [t]) s0 = step t (run pre s0).
  Proof. unfold Lts.run. rewrite fold_left_app. reflexivity. Qed.

  Lemma inv_at sched : Inv sched (run sched s0).
  Proof. apply inv_run; assumption. Qed.

  Theorem tinv_run sched : TInv (run sched s0).
  Proof.
    induction sched as [|t pre IH] using rev_ind.
    - exact tinv_init.
    - rewrite run_snoc'. eapply tinv_step; [apply inv_at|exact IH].
  Qed.

  Lemma done_no_pending s : TInv s -> all_done s = true -> st_pendv s = [] /\ st_pendc s = [].
  Proof.
    intros SI D. unfold all_done in D. rewrite forallb_forall in D. split.
    - destruct (st_pendv s) as [|a r] eqn:E; [reflexivity|]. exfalso.
      assert (In a (st_pendv s)) by (rewrite E; left; reflexivity).
      apply (t_pv SI) in H. destruct H as (p & Q & S). apply nth_error_In in Q. apply D in Q.
      destruct p; discriminate.
    - destruct (st_pendc s) as [|a r] eqn:E; [reflexivity|]. exfalso.
      assert (In a (st_pendc s)) by (rewrite E; left; reflexivity).
      apply (t_pc SI) in H. destruct H as (p & Q & S). apply nth_error_In in Q. apply D in Q.
      destruct p; discriminate.
  Qed.

  Lemma done_all_left s : TInv s -> all_done s = true ->
    st_leftv s = List.length (st_logv s) /\ st_leftc s = List.length (st_logc s).
  Proof.
    intros TI D. destruct (done_no_pending TI D) as [Ev Ec].
    pose proof (t_cntv TI) as A. pose proof (t_cntc TI) as B. rewrite Ev in A. rewrite Ec in B. simpl in *.
    rewrite (t_lenv TI), (t_lenc TI). lia.
  Qed.

  (* ---------- C03: publications leave in commit order, for every program and schedule ---------- *)
  (* Commit n of a resource is entry n-1 of its log.  At every moment, what a subscriber has been
     delivered is EXACTLY the commits numbered from+1 .. left, in that order, where left is the last
     commit that has left the turnstile and from is where the subscription starts: the last commit
     that had left when it was registered (vs_left / cs_left), or, for a seeded Collection
     subscription, the commit counter its snapshot was taken at (cs_cnt >= cs_left: the commits in
     between are the skip set, which the snapshot already shows).  So: increasing commit order, no
     gap, no repetition, and every commit that has left has been delivered to every subscriber
     registered before its publication that does not skip it. *)
  Theorem publications_in_commit_order sched :
    let s := run sched s0 in
    (st_leftv s <= st_cntv s)%nat /\ List.length (st_logv s) = st_cntv s /\
    (st_leftc s <= st_cntc s)%nat /\ List.length (st_logc s) = st_cntc s /\
    (forall u, In u (st_vsubs s) ->
       (vs_left u <= st_leftv s)%nat /\
       map Some (vs_evs u) = map (fun n => nth_error (st_logv s) (n - 1)) (seq (S (vs_left u)) (st_leftv s - vs_left u))) /\
    (forall u, In u (st_csubs s) ->
       (cs_left u <= cs_cnt u <= st_cntc s)%nat /\ (cs_left u <= st_leftc s)%nat /\
       map Some (cs_evs u) = map (fun n => nth_error (st_logc s) (n - 1)) (seq (S (from_c u)) (st_leftc s - from_c u)) /\
       (* the skip set is the set of pending commits numbered up to the snapshot's *)
       (ro_updates_only (cs_ro u) = false ->
        forall a, In a (st_pendc s) -> (In a (cs_skip u) <-> (st_tkt s a <= cs_cnt u)%nat))).
  Proof.
    simpl. pose proof (tinv_run sched) as TI.
    pose proof (t_cntv TI) as A. pose proof (t_cntc TI) as B.
    split; [lia|]. split; [apply TI|]. split; [lia|]. split; [apply TI|]. split.
    - intros u Hu. destruct (t_vsubs TI _ Hu) as [L E _]. split; [exact L|]. rewrite E.
      apply seg_is_map_seq. rewrite (t_lenv TI). lia.
    - intros u Hu. destruct (t_csubs TI _ Hu) as [L1 L2 L3 E K _ _ _ _ _].
      split; [lia|]. split; [exact L2|]. split; [|exact K]. rewrite E.
      apply seg_is_map_seq. rewrite (t_lenc TI). lia.
  Qed.

  Theorem never_reordered sched : st_reordered (run sched s0) = false.
  Proof. apply (t_noreorder (tinv_run sched)). Qed.

  (* at every moment a seeded subscriber's view is List as of the last commit delivered to it *)
  Theorem view_tracks_delivered sched u :
    let s := run sched s0 in
    In u (st_csubs s) -> plain_sub u ->
    exists L, view_inv (cs_ro u) (cview u) L /\
              chain L (skipn (List.length (cs_evs u)) (skipn (cs_cnt u) (st_logc s))) (c_items (w_c (st_w s))).
  Proof.
    simpl. intros Hu Hp. pose proof (tinv_run sched) as TI.
    destruct (t_csubs TI _ Hu) as [L1 L2 L3 E _ _ _ Hs C _]. specialize (C Hp).
    unfold plain_sub in Hp. unfold from_c in E. rewrite Hp in E. unfold seg in E.
    rewrite <- (firstn_skipn (st_leftc (run sched s0) - cs_cnt u) (skipn (cs_cnt u) (st_logc (run sched s0)))) in C.
    rewrite <- E in C. apply chain_split in C. destruct C as (L & CA & CB). exists L. split.
    - destruct u as [tid ro at_ evs sk lf cn]. simpl in *. rewrite cview_all.
      eapply chain_keeps_view; [exact CA|]. apply cview_fresh; assumption.
    - rewrite E at 1. rewrite firstn_length, skipn_length.
      assert (X : forall k (l : list cevent), skipn (Nat.min k (List.length l)) l = skipn k l).
      { intros k l. destruct (le_lt_dec k (List.length l)); [rewrite Nat.min_l by lia; reflexivity|].
        rewrite Nat.min_r by lia. rewrite !skipn_all2 by lia. reflexivity. }
      rewrite <- skipn_length, X. exact CB.
  Qed.

  (* ---------- C03: convergence, for every program and schedule ---------- *)
  Theorem converges_collection sched u :
    let s := run sched s0 in
    all_done s = true -> In u (st_csubs s) -> plain_sub u ->
    forall id, vlookup id (cview u) = vlookup id (c_list r_filter (w_c (st_w s)) (ro_mask (cs_ro u)) (ro_include (cs_ro u))).
  Proof.
    simpl. intros D Hu Hp id. pose proof (tinv_run sched) as TI.
    destruct (done_all_left TI D) as [_ El].
    destruct (t_csubs TI _ Hu) as [_ _ _ E _ _ _ Hs C _]. specialize (C Hp).
    unfold plain_sub in Hp. unfold from_c in E. rewrite Hp, El, seg_all in E. rewrite <- E in C.
    assert (V : view_inv (cs_ro u) (cview u) (c_items (w_c (st_w (run sched s0))))).
    { destruct u as [tid ro at_ evs sk lf cn]. simpl in *. rewrite cview_all.
      eapply chain_keeps_view; [exact C|]. apply cview_fresh; assumption. }
    destruct V as [_ Hv]. rewrite Hv. symmetry.
    apply (@list_shows _ _ r_filter str_ltb ltb_irrefl ltb_trans). apply (i_sorted (inv_at sched)).
  Qed.

  (* what a seeded subscription has been delivered when the calls have returned leads from its
     snapshot to the final contents, each event describing one transition (the hypothesis of the
     theorem about subscribers without backpressure, LossyProofs.lossy_received_plus_pending) *)
  Theorem deliveries_chain_done sched u :
    let s := run sched s0 in
    all_done s = true -> In u (st_csubs s) -> plain_sub u ->
    chain (c_items (cs_at u)) (cs_evs u) (c_items (w_c (st_w s))).
  Proof.
    simpl. intros D Hu Hp. pose proof (tinv_run sched) as TI.
    destruct (done_all_left TI D) as [_ El].
    destruct (t_csubs TI _ Hu) as [_ _ _ E _ _ _ Hs C _]. specialize (C Hp).
    unfold plain_sub in Hp. unfold from_c in E. rewrite Hp, El, seg_all in E. rewrite <- E in C. exact C.
  Qed.

  Theorem converges_collection_updates_only sched u :
    let s := run sched s0 in
    all_done s = true -> In u (st_csubs s) -> uo_sub u ->
    forall id, touched u id ->
               vlookup id (cview u) = vlookup id (c_list r_filter (w_c (st_w s)) (ro_mask (cs_ro u)) None).
  Proof.
    simpl. intros D Hu Hp id Hid. pose proof (tinv_run sched) as TI.
    destruct (done_all_left TI D) as [_ El].
    destruct (t_csubs TI _ Hu) as [_ _ _ E _ _ _ _ _ C]. destruct Hp as [RI UO]. destruct (C UO) as (L & CL).
    unfold from_c in E. rewrite UO, El, seg_all in E. rewrite <- E in CL.
    assert (V : uview_inv u (c_items (w_c (st_w (run sched s0))))).
    { destruct u as [tid ro at_ evs sk lf cn]. simpl in *.
      change evs with ([] ++ evs). eapply uview_chain; [exact RI|exact CL|]. apply uview_fresh. exact UO. }
    destruct V as [_ Hv]. rewrite (Hv _ Hid). rewrite <- RI. symmetry.
    apply (@list_shows _ _ r_filter str_ltb ltb_irrefl ltb_trans). apply (i_sorted (inv_at sched)).
  Qed.

  (* ---------- PullID: the collection stream restricted to one id (Pull.pull_id_from) ---------- *)
  Lemma pull_id_fold id (cs : list (cchange M)) : forall view vs,
    pull_id_from id cs = (vs, false) ->
    vlookup id (fold_left (@apply_change M) cs view) =
    match rev vs with v :: _ => Some (vc_value v) | [] => vlookup id view end.
  Proof.
    induction cs as [|c r IH]; intros view vs H; simpl in *.
    - inversion H. reflexivity.
    - destruct (String.eqb_spec (cc_id c) id) as [E|Hne]; simpl in H.
      + unfold apply_change at 2. destruct (cc_kind c) eqn:K; destruct (cc_new c) as [v|] eqn:N; try discriminate;
          destruct (pull_id_from id r) as [rest cl] eqn:R; inversion H; subst; simpl;
          rewrite (IH _ _ eq_refl), vlookup_set_same;
          destruct (rev rest) as [|v' t]; reflexivity.
      + rewrite (IH _ _ H). destruct (rev vs); [|reflexivity].
        unfold apply_change. destruct (cc_kind c); destruct (cc_new c); try reflexivity;
          first [apply vlookup_set_other|apply vlookup_del_other]; congruence.
  Qed.

  (* a PullID subscription that has not ended holds the item's current value (nothing if absent) *)
  Theorem converges_pull_id sched u id vs :
    let s := run sched s0 in
    all_done s = true -> In u (st_csubs s) -> plain_sub u ->
    pull_id_from id (cstream u) = (vs, false) ->
    last_value vs = vlookup id (c_list r_filter (w_c (st_w s)) (ro_mask (cs_ro u)) (ro_include (cs_ro u))).
  Proof.
    simpl. intros D Hu Hp H.
    rewrite <- (@converges_collection sched u D Hu Hp id).
    unfold cview, fold_view. rewrite (@pull_id_fold id _ [] _ H). unfold last_value.
    destruct (rev vs); reflexivity.
  Qed.

  Theorem converges_value sched u :
    let s := run sched s0 in
    all_done s = true -> In u (st_vsubs s) ->
    (ro_updates_only (vs_ro u) = false \/ vs_evs u <> []) ->
    last_value (vstream u) = option_map (filt (vs_ro u)) (v_val (w_v (st_w s))).
  Proof.
    simpl. intros D Hu Hne. pose proof (tinv_run sched) as TI.
    destruct (done_all_left TI D) as [El _].
    destruct (t_vsubs TI _ Hu) as [L E A]. rewrite El, seg_all in E.
    rewrite last_value_vlast. unfold vlast.
    destruct (rev (vs_evs u)) as [|e r] eqn:R.
    - assert (E0 : vs_evs u = []) by (rewrite <- (rev_involutive (vs_evs u)), R; reflexivity).
      destruct Hne as [UO|C]; [|contradiction]. rewrite UO.
      rewrite E0 in E. symmetry in E.
      assert (Hl : vs_left u = List.length (st_logv (run sched s0))).
      { pose proof (skipn_length (vs_left u) (st_logv (run sched s0))) as X. rewrite E in X. simpl in X. lia. }
      rewrite (A Hl). reflexivity.
    - rewrite (t_val TI). unfold last_ev.
      rewrite <- (firstn_skipn (vs_left u) (st_logv (run sched s0))), rev_app_distr, <- E, R. reflexivity.
  Qed.

  (* ---------- the ticket discipline cannot deadlock ---------- *)
  Lemma trans_progress (c : call) p w : pc_wf c p w -> is_done p = false -> trans c p w <> None.
  Proof.
    intros Hwf Hd. unfold Lts.trans.
    destruct c as [msg o|id0 msg o|id0 o|ro|ro|id1 ro]; destruct p as [|old cr|nv e|nv e|seen n|r|];
      simpl in Hwf; try contradiction; try discriminate.
    - destruct (w_validate (wo_writer o)); discriminate.
    - destruct (change_fn m_eqb m_empty w_merge o msg old); [|discriminate].
      destruct (om_eqb m_eqb old (v_val (w_v w))); [|discriminate].
      destruct (update_time clock_at o (v_reads (w_v w))). discriminate.
    - destruct (w_validate (wo_writer o)); [discriminate|].
      destruct (String.eqb (apply_id idfun id0) "" && wo_gen_id o); [discriminate|].
      destruct (c_get_fn m_empty false o (apply_id idfun id0) false (c_items (w_c w))) as [[b|code] cr]; discriminate.
    - destruct (change_fn m_eqb m_empty w_merge o msg old); [|discriminate].
      destruct (c_get_fn m_empty false o (apply_id idfun id0) cr (c_items (w_c w))) as [[b|code] cr']; [|discriminate].
      destruct (om_eqb m_eqb old (Some b)); [|discriminate].
      destruct (update_time clock_at o (c_reads (w_c w))). discriminate.
    - destruct (Nat.leb 5 n); [discriminate|].
      destruct (del_check m_eqb o seen) eqn:DC; [discriminate|].
      destruct (same_ptr seen (lookup_st (apply_id idfun id0) w)); [|discriminate].
      destruct seen as [[it st]|]; [|simpl in DC; discriminate].
      destruct (update_time clock_at o (c_reads (w_c w))). discriminate.
  Qed.

  Lemma not_all_done (pcs : list pc) : forallb (@is_done M) pcs = false ->
    exists t p, nth_error pcs t = Some p /\ is_done p = false.
  Proof.
    induction pcs as [|q r IH]; simpl; [discriminate|]. destruct (is_done q) eqn:D; simpl.
    - intros H. destruct (IH H) as (t & p & A & B). exists (S t), p. auto.
    - intros _. exists O, q. auto.
  Qed.

  Lemma enabled_step t s :
    (enabled t s = true -> st_stutter (step t s) = st_stutter s) /\
    (enabled t s = false -> step t s = stutter s).
  Proof.
    unfold Lts.enabled, Lts.step.
    destruct (nth_error prog t) as [c|]; [|split; [discriminate|reflexivity]].
    destruct (nth_error (st_pcs s) t) as [p|]; [|split; [discriminate|reflexivity]].
    destruct (trans c p (st_w s)) as [[[p' w'] eff]|]; [|split; [discriminate|reflexivity]].
    destruct (gate_open false t s p eff); split; try discriminate; reflexivity.
  Qed.

  (* In every reachable state: the publication at the head of a turnstile's queue is enabled (so a
     Delete that is waiting for it -- in the code: under the write lock -- cannot keep it back, and
     the turnstile never closes a cycle), and as long as some call has not returned some step is
     enabled.  (Consumers keep receiving: a publication is one step.) *)
  Theorem ticket_progress sched :
    let s := run sched s0 in
    (forall t rest, st_pendv s = t :: rest -> enabled t s = true) /\
    (forall t rest, st_pendc s = t :: rest -> enabled t s = true) /\
    (all_done s = false -> exists t, enabled t s = true).
  Proof.
    simpl. pose proof (tinv_run sched) as TI. pose proof (inv_at sched) as I.
    set (s := run sched s0) in *.
    assert (Hprog : forall t p, nth_error (st_pcs s) t = Some p -> exists c, nth_error prog t = Some c).
    { intros t p Q. assert (La : (t < List.length prog)%nat).
      { rewrite <- (i_len I). apply nth_error_Some. rewrite Q. discriminate. }
      destruct (nth_error prog t) as [c|] eqn:P; [eauto|]. apply nth_error_None in P. lia. }
    assert (HV : forall t rest, st_pendv s = t :: rest -> enabled t s = true).
    { intros t rest E.
      assert (Hin : In t (st_pendv s)) by (rewrite E; left; reflexivity).
      destruct (t_evv TI _ Hin) as (q & e & Q & S & _).
      destruct (Hprog _ _ Q) as (c & P). destruct (i_local I _ P Q) as [Hwf _].
      pose proof (t_tkv TI) as TK. rewrite E in TK. apply tickets_tail in TK. destruct TK as [TK _].
      unfold Lts.enabled. rewrite P, Q.
      destruct q; try discriminate. destruct c; simpl in Hwf; try contradiction.
      simpl. rewrite TK. apply Nat.eqb_refl. }
    assert (HC : forall t rest, st_pendc s = t :: rest -> enabled t s = true).
    { intros t rest E.
      assert (Hin : In t (st_pendc s)) by (rewrite E; left; reflexivity).
      destruct (t_evc TI _ Hin) as (q & e & Q & S & _).
      destruct (Hprog _ _ Q) as (c & P). destruct (i_local I _ P Q) as [Hwf _].
      pose proof (t_tkc TI) as TK. rewrite E in TK. apply tickets_tail in TK. destruct TK as [TK _].
      unfold Lts.enabled. rewrite P, Q.
      destruct q; try discriminate. destruct c; simpl in Hwf; try contradiction.
      simpl. rewrite TK. apply Nat.eqb_refl. }
    split; [exact HV|]. split; [exact HC|].
    intros D.
    destruct (st_pendv s) as [|a r] eqn:Ev; [|exists a; eapply HV; reflexivity].
    destruct (st_pendc s) as [|a r] eqn:Ec; [|exists a; eapply HC; reflexivity].
    destruct (not_all_done _ D) as (t & p & Q & Hd). exists t.
    destruct (Hprog _ _ Q) as (c & P). destruct (i_local I _ P Q) as [Hwf _].
    pose proof (trans_progress _ _ _ Hwf Hd) as TP.
    unfold Lts.enabled. rewrite P, Q.
    destruct (trans c p (st_w s)) as [[[p' w'] eff]|]; [|contradiction].
    unfold Lts.gate_open. simpl.
    assert (Hv : is_pv p = false).
    { destruct (is_pv p) eqn:X; [|reflexivity]. exfalso.
      assert (In t (st_pendv s)) by (apply (t_pv TI); eauto). rewrite Ev in H. destruct H. }
    assert (Hc : is_pc p = false).
    { destruct (is_pc p) eqn:X; [|reflexivity]. exfalso.
      assert (In t (st_pendc s)) by (apply (t_pc TI); eauto). rewrite Ec in H. destruct H. }
    pose proof (t_cntc TI) as B. rewrite Ec in B. simpl in B.
    destruct p; try discriminate; try reflexivity.
    destruct eff; try reflexivity. apply Nat.eqb_eq. lia.
  Qed.

  (* ---------- when commits cannot overlap: the turnstile never makes anyone wait ---------- *)
  Definition is_writer (c : call) : bool :=
    match c with CSet _ _ | CUpdate _ _ _ | CDelete _ _ => true | _ => false end.
  Definition idle (p : pc) : bool := match p with PStart | PDone _ => true | _ => false end.

  (* one writer at a time: whenever a writing thread takes a step, every other writing thread is
     idle — it has not started or has returned.  (A single writer issuing its calls one after the
     other; subscribers may take their step anywhere.) *)
  Definition one_writer_at_a_time (sched : list nat) : Prop :=
    forall k t c, nth_error sched k = Some t -> nth_error prog t = Some c -> is_writer c = true ->
    forall t' c' p', t' <> t -> nth_error prog t' = Some c' -> is_writer c' = true ->
                     nth_error (st_pcs (run (firstn k sched) s0)) t' = Some p' -> idle p' = true.

  Lemma pending_is_busy_writer s pre a :
    Inv pre s -> TInv s -> In a (st_pendv s) \/ In a (st_pendc s) ->
    exists c p, nth_error prog a = Some c /\ nth_error (st_pcs s) a = Some p /\ is_writer c = true /\ idle p = false /\
                (is_pv p = true \/ is_pc p = true).
  Proof.
    intros I SI H.
    assert (G : exists p, nth_error (st_pcs s) a = Some p /\ (is_pv p = true \/ is_pc p = true)).
    { destruct H as [H|H]; [apply (t_pv SI) in H|apply (t_pc SI) in H]; destruct H as (p & Q & S); eauto. }
    destruct G as (p & Q & S).
    assert (La : (a < List.length prog)%nat).
    { rewrite <- (i_len I). apply nth_error_Some. rewrite Q. discriminate. }
    destruct (nth_error prog a) as [c|] eqn:P; [|apply nth_error_None in P; lia].
    exists c, p. destruct (i_local I _ P Q) as [Hwf _].
    destruct p; destruct S as [S|S]; try discriminate; destruct c; simpl in Hwf; try contradiction; auto 10.
  Qed.

  Lemma overlap_step s pre t :
    Inv pre s -> TInv s -> st_overlap s = false ->
    (forall c, nth_error prog t = Some c -> is_writer c = true ->
               forall a, In a (st_pendv s) \/ In a (st_pendc s) -> a = t) ->
    st_overlap (step t s) = false.
  Proof.
    intros I SI Ho Hp0. unfold Lts.step.
    destruct (nth_error prog t) as [c|] eqn:P; [|exact Ho].
    destruct (nth_error (st_pcs s) t) as [p|] eqn:Q; [|exact Ho].
    destruct (trans c p (st_w s)) as [[[p' w'] eff]|] eqn:T; [|exact Ho].
    destruct (gate_open false t s p eff); [|exact Ho].
    simpl. rewrite Ho. simpl.
    destruct (is_writer c) eqn:W.
    2:{ (* a subscriber's step commits nothing *)
        destruct c; try discriminate; unfold Lts.trans in T; destruct p; try discriminate;
          inversion T; subst; reflexivity. }
    pose proof (Hp0 _ eq_refl W) as Hp.
    destruct (trans_effect _ _ _ T) as (TE1 & TE2 & TE3).
    (* if anything is pending it is t itself, parked before its publication: its step publishes *)
    assert (G : st_pendv s = [] /\ st_pendc s = [] \/ (is_pv p = true \/ is_pc p = true)).
    { destruct (st_pendv s) as [|a r] eqn:Ev.
      - destruct (st_pendc s) as [|a r] eqn:Ec; [left; auto|]. right.
        assert (a = t) by (apply Hp; right; left; reflexivity). subst a.
        assert (In t (st_pendc s)) by (rewrite Ec; left; reflexivity).
        apply (t_pc SI) in H. destruct H as (p0 & Q0 & S0). rewrite Q in Q0. inversion Q0. subst. auto.
      - right. assert (a = t) by (apply Hp; left; left; reflexivity). subst a.
        assert (In t (st_pendv s)) by (rewrite Ev; left; reflexivity).
        apply (t_pv SI) in H. destruct H as (p0 & Q0 & S0). rewrite Q in Q0. inversion Q0. subst. auto. }
    destruct G as [[-> ->]|[S|S]].
    - simpl. destruct (is_some (saved_v p')); [reflexivity|]. destruct (is_some (saved_c p')); [reflexivity|].
      apply andb_false_r.
    - destruct p; try discriminate. destruct TE2 as [-> ->]. reflexivity.
    - destruct p; try discriminate. destruct TE2 as [-> ->]. reflexivity.
  Qed.

  Theorem one_writer_no_overlap sched : one_writer_at_a_time sched -> st_overlap (run sched s0) = false.
  Proof.
    intros H.
    assert (G : forall pre suf, sched = pre ++ suf -> st_overlap (run pre s0) = false).
    { induction pre as [|t pre IH] using rev_ind; intros suf E; [reflexivity|].
      rewrite run_snoc'. rewrite <- app_assoc in E. simpl in E.
      eapply overlap_step; [apply inv_at|apply tinv_run|eapply IH; eauto|].
      intros ct Pt Wt a Ha. destruct (Nat.eq_dec a t) as [|Hne]; [assumption|exfalso].
      destruct (@pending_is_busy_writer _ _ _ (inv_at pre) (tinv_run pre) Ha) as (c & p & P & Q & W & B & _).
      assert (N : nth_error sched (List.length pre) = Some t).
      { rewrite E, nth_error_app2 by lia. rewrite Nat.sub_diag. reflexivity. }
      assert (F : firstn (List.length pre) sched = pre).
      { rewrite E, firstn_app, firstn_all, Nat.sub_diag. simpl. apply app_nil_r. }
      pose proof (H _ _ _ N Pt Wt a c p Hne P W) as K. rewrite F in K. rewrite (K Q) in B. discriminate. }
    apply (G sched []). rewrite app_nil_r. reflexivity.
  Qed.

  (* with one writer at a time no step of a call that has not returned is ever disabled: the
     turnstile is free whenever the writer reaches it *)
  Theorem one_writer_never_waits sched k t p :
    one_writer_at_a_time sched -> nth_error sched k = Some t ->
    nth_error (st_pcs (run (firstn k sched) s0)) t = Some p -> is_done p = false ->
    enabled t (run (firstn k sched) s0) = true.
  Proof.
    intros H N Q Hd. set (pre := firstn k sched) in *.
    pose proof (tinv_run pre) as TI. pose proof (inv_at pre) as I.
    assert (La : (t < List.length prog)%nat).
    { rewrite <- (i_len I). apply nth_error_Some. rewrite Q. discriminate. }
    destruct (nth_error prog t) as [c|] eqn:P; [|apply nth_error_None in P; lia].
    destruct (i_local I _ P Q) as [Hwf _].
    pose proof (trans_progress _ _ _ Hwf Hd) as TP.
    unfold Lts.enabled. rewrite P, Q.
    destruct (trans c p (st_w (run pre s0))) as [[[p' w'] eff]|] eqn:T; [|contradiction].
    assert (Honly : is_writer c = true -> forall a, In a (st_pendv (run pre s0)) \/ In a (st_pendc (run pre s0)) -> a = t).
    { intros W a Ha. destruct (Nat.eq_dec a t) as [|Hne]; [assumption|exfalso].
      destruct (@pending_is_busy_writer _ _ _ I TI Ha) as (c' & p0 & P' & Q' & W' & B & _).
      pose proof (H _ _ _ N P W a c' p0 Hne P' W' Q') as K. rewrite K in B. discriminate. }
    unfold Lts.gate_open. simpl.
    destruct p; try reflexivity.
    - (* value.publish: t is the only pending thread *)
      assert (W : is_writer c = true) by (destruct c; simpl in Hwf; try contradiction; reflexivity).
      assert (Hin : In t (st_pendv (run pre s0))) by (apply (t_pv TI); eauto).
      pose proof (t_tkv TI) as TK. pose proof (t_ndv TI) as ND.
      destruct (st_pendv (run pre s0)) as [|a r] eqn:E; [destruct Hin|].
      assert (a = t) by (apply (Honly W); left; left; reflexivity). subst a.
      apply tickets_tail in TK. destruct TK as [TK _]. rewrite TK. apply Nat.eqb_refl.
    - assert (W : is_writer c = true) by (destruct c; simpl in Hwf; try contradiction; reflexivity).
      assert (Hin : In t (st_pendc (run pre s0))) by (apply (t_pc TI); eauto).
      pose proof (t_tkc TI) as TK.
      destruct (st_pendc (run pre s0)) as [|a r] eqn:E; [destruct Hin|].
      assert (a = t) by (apply (Honly W); right; left; reflexivity). subst a.
      apply tickets_tail in TK. destruct TK as [TK _]. rewrite TK. apply Nat.eqb_refl.
    - (* a Delete: nothing is pending *)
      assert (W : is_writer c = true) by (destruct c; simpl in Hwf; try contradiction; reflexivity).
      destruct eff; try reflexivity. apply Nat.eqb_eq.
      pose proof (t_cntc TI) as B.
      destruct (st_pendc (run pre s0)) as [|a r] eqn:E; [simpl in B; lia|exfalso].
      assert (a = t) by (apply (Honly W); right; left; reflexivity). subst a.
      assert (Hin : In t (st_pendc (run pre s0))) by (rewrite E; left; reflexivity).
      apply (t_pc TI) in Hin. destruct Hin as (p0 & Q0 & S0). rewrite Q in Q0. inversion Q0. subst. discriminate.
  Qed.

  (* any number of concurrent Deletes (they publish under the lock): nothing is ever pending *)
  Definition only_deletes_write : Prop :=
    forall t c, nth_error prog t = Some c -> match c with CSet _ _ | CUpdate _ _ _ => False | _ => True end.

  Theorem deletes_no_overlap sched : only_deletes_write -> st_overlap (run sched s0) = false.
  Proof.
    intros H. induction sched as [|t pre IH] using rev_ind; [reflexivity|].
    rewrite run_snoc'. eapply overlap_step; [apply inv_at|apply tinv_run|exact IH|].
    intros ct Pt Wt a Ha. exfalso.
    destruct (@pending_is_busy_writer _ _ _ (inv_at pre) (tinv_run pre) Ha) as (c & p & P & Q & _ & _ & S).
    destruct (i_local (inv_at pre) _ P Q) as [Hwf _]. specialize (H _ _ P).
    destruct p; destruct S as [S|S]; try discriminate; destruct c; simpl in Hwf; contradiction.
  Qed.
End Proofs.
