(* C03: what a backpressured, always-receiving subscriber has folded when the writers are quiet.
   Built on the C02 invariant (LtsProofs.Inv): every commit is the reference's step, so the event
   it publishes describes the transition of the contents (PullProofs.describes). *)
From SC Require Import Base.Prelude Resource.Impl Resource.Spec Resource.Pull Resource.ImplProofs Resource.SpecProofs
  Resource.PullProofs Conc.Lts Conc.LtsProofs.

Set Implicit Arguments.

Section Proofs.
  Variable M : Type.
  Variable m_eqb : M -> M -> bool.
  Variable m_empty : M.
  Variable writer : Type.
  Variable w_validate : writer -> option Z.
  Variable w_merge : writer -> M -> M -> M.
  Variable rmask : Type.
  Variable r_filter : rmask -> M -> M.
  Variable clock_at : Z -> Z.
  Variable str_ltb : string -> string -> bool.
  Variable idfun : option (string -> string).

  Hypothesis m_eqb_eq : forall a b, m_eqb a b = true -> a = b.
  Hypothesis ltb_irrefl : forall a, str_ltb a a = false.
  Hypothesis ltb_trans : forall a b c, str_ltb a b = true -> str_ltb b c = true -> str_ltb a c = true.
  Hypothesis ltb_total : forall a b, str_ltb a b = false -> str_ltb b a = false -> a = b.

  Notation wopts := (wopts M writer).
  Notation vstate := (vstate M).
  Notation cstate := (cstate M).
  Notation item := (item M).
  Notation vevent := (vevent M).
  Notation cevent := (cevent M).
  Notation call := (call M writer rmask).
  Notation pc := (pc M).
  Notation outcome := (outcome M).
  Notation world := (world M).
  Notation state := (state M rmask).
  Notation ropts := (ropts M rmask).
  Notation trans := (trans m_eqb m_empty w_validate w_merge clock_at str_ltb idfun false (rmask := rmask)).
  Notation predicted := (predicted m_eqb m_empty w_merge (rmask := rmask)).
  Notation spec_call_ev := (spec_call_ev m_eqb m_empty w_validate w_merge clock_at str_ltb idfun (rmask := rmask)).
  Notation pc_wf := (pc_wf m_empty w_validate idfun (rmask := rmask)).
  Notation call_ok := (call_ok idfun (writer := writer) (rmask := rmask)).
  Notation sorted := (sorted str_ltb).
  Notation filt := (filt r_filter).

  Local Arguments Nat.leb : simpl never.

  (* ---------- which steps publish, subscribe, commit ---------- *)
  Lemma trans_effect (c : call) p w p' w' eff :
    trans c p w = Some (p', w', eff) ->
    match eff with
    | ENone => True
    | EPubV e => exists nv, p = PSavedV nv e /\ w' = w
    | EPubC e => (exists nv, p = PSavedC nv e /\ w' = w) \/ (exists seen n r, p = PDel seen n /\ p' = PDone r)
    | ESubV ro => c = CSubV ro /\ w' = w /\ p = PStart
    | ESubC ro => w' = w /\ (p = PStart \/ p = POpen)
    end /\
    (* a parked publication is published by the next step of its thread and by nothing else *)
    match p with
    | PSavedV nv e => eff = EPubV e /\ p' = PDone (OVal (inl nv))
    | PSavedC nv e => eff = EPubC e /\ p' = PDone (OVal (inl nv))
    | _ => True
    end /\
    (* a step that parks a publication publishes nothing itself *)
    match p' with
    | PSavedV _ _ | PSavedC _ _ | PRead _ _ | PDel _ _ | PStart | POpen => eff = ENone
    | PDone _ => True
    end.
  Proof.
    unfold Lts.trans. intros H.
    destruct c as [msg o|id0 msg o|id0 o|ro|ro|id1 ro]; destruct p as [|old cr|nv e|nv e|seen n|r|]; try discriminate.
    - destruct (w_validate (wo_writer o)); inversion H; subst; simpl; auto.
    - destruct (change_fn m_eqb m_empty w_merge o msg old); [|inversion H; subst; simpl; auto].
      destruct (om_eqb m_eqb old (v_val (w_v w))); [|inversion H; subst; simpl; auto].
      destruct (update_time clock_at o (v_reads (w_v w))) as [t reads]. inversion H; subst; simpl; auto.
    - inversion H; subst; simpl. repeat split; eauto.
    - destruct (w_validate (wo_writer o)); [inversion H; subst; simpl; auto|].
      destruct (c_get_fn m_empty false o (apply_id idfun id0) false (c_items (w_c w))) as [[b|code] cr]; inversion H; subst; simpl; auto.
    - destruct (change_fn m_eqb m_empty w_merge o msg old); [|inversion H; subst; simpl; auto].
      destruct (c_get_fn m_empty false o (apply_id idfun id0) cr (c_items (w_c w))) as [[b|code] cr']; [|inversion H; subst; simpl; auto].
      destruct (om_eqb m_eqb old (Some b)); [|inversion H; subst; simpl; auto].
      destruct (update_time clock_at o (c_reads (w_c w))) as [t reads]. inversion H; subst; simpl; auto.
    - inversion H; subst; simpl. repeat split; eauto.
    - inversion H; subst; simpl; auto.
    - destruct (Nat.leb 5 n); [inversion H; subst; simpl; auto|].
      destruct (del_check m_eqb o seen); [inversion H; subst; simpl; auto|].
      destruct (same_ptr seen (lookup_st (apply_id idfun id0) w)); [|inversion H; subst; simpl; auto].
      destruct seen as [[it st]|]; [|discriminate].
      destruct (update_time clock_at o (c_reads (w_c w))) as [t reads]. inversion H; subst; simpl.
      repeat split; auto. right. eauto.
    - inversion H; subst; simpl; auto.
    - inversion H; subst; simpl; auto.
    - inversion H; subst; simpl; auto.
    - inversion H; subst; simpl; auto.
  Qed.

  (* the Value changes exactly at the save step of a Set, to the value the parked event carries *)
  Lemma trans_value (c : call) p w p' w' eff :
    trans c p w = Some (p', w', eff) ->
    match p' with
    | PSavedV nv e => ve_value e = nv /\ v_val (w_v w') = Some nv
    | _ => w_v w' = w_v w
    end.
  Proof.
    unfold Lts.trans. intros H.
    destruct c as [msg o|id0 msg o|id0 o|ro|ro|id1 ro]; destruct p as [|old cr|nv e|nv e|seen n|r|]; try discriminate.
    - destruct (w_validate (wo_writer o)); inversion H; subst; reflexivity.
    - destruct (change_fn m_eqb m_empty w_merge o msg old); [|inversion H; subst; reflexivity].
      destruct (om_eqb m_eqb old (v_val (w_v w))); [|inversion H; subst; reflexivity].
      destruct (update_time clock_at o (v_reads (w_v w))) as [t reads]. inversion H; subst; simpl; auto.
    - inversion H; subst; reflexivity.
    - destruct (w_validate (wo_writer o)); [inversion H; subst; reflexivity|].
      destruct (c_get_fn m_empty false o (apply_id idfun id0) false (c_items (w_c w))) as [[b|code] cr]; inversion H; subst; reflexivity.
    - destruct (change_fn m_eqb m_empty w_merge o msg old); [|inversion H; subst; reflexivity].
      destruct (c_get_fn m_empty false o (apply_id idfun id0) cr (c_items (w_c w))) as [[b|code] cr']; [|inversion H; subst; reflexivity].
      destruct (om_eqb m_eqb old (Some b)); [|inversion H; subst; reflexivity].
      destruct (update_time clock_at o (c_reads (w_c w))) as [t reads]. inversion H; subst; reflexivity.
    - inversion H; subst; reflexivity.
    - inversion H; subst; reflexivity.
    - destruct (Nat.leb 5 n); [inversion H; subst; reflexivity|].
      destruct (del_check m_eqb o seen); [inversion H; subst; reflexivity|].
      destruct (same_ptr seen (lookup_st (apply_id idfun id0) w)); [|inversion H; subst; reflexivity].
      destruct seen as [[it st]|]; [|discriminate].
      destruct (update_time clock_at o (c_reads (w_c w))) as [t reads]. inversion H; subst; reflexivity.
    - inversion H; subst; reflexivity.
    - inversion H; subst; reflexivity.
    - inversion H; subst; reflexivity.
    - inversion H; subst; reflexivity.
  Qed.

  (* the reference's events describe its transitions (PullProofs.step_events, per call) *)
  Lemma spec_call_ev_describes vc (c : call) vc' r vev cev :
    call_ok c -> sorted (c_items (snd vc)) ->
    spec_call_ev vc c = (vc', r, vev, cev) ->
    (cev = [] /\ c_items (snd vc') = c_items (snd vc)) \/
    (exists e, cev = [e] /\ describes e (c_items (snd vc)) (c_items (snd vc'))).
  Proof.
    intros Hok Hs H. destruct c as [msg o|id0 msg o|id0 o|ro|ro|id1 ro]; simpl in H.
    - destruct (set_ref m_eqb m_empty w_validate w_merge clock_at (fst vc) msg o) as [[v' r'] ev]. inversion H. subst. left. auto.
    - simpl in Hok.
      pose proof (spec_update_eq m_eqb m_empty w_validate w_merge clock_at str_ltb idfun (snd vc) id0 msg o Hok) as E.
      destruct (spec_c_update m_eqb m_empty w_validate w_merge clock_at str_ltb idfun (snd vc) id0 msg o []) as [[[c1 r1] ev1] cb] eqn:U.
      rewrite <- E in H. inversion H. subst.
      assert (S : spec_step m_eqb m_empty w_validate w_merge r_filter clock_at str_ltb idfun (snd vc) (@OUpdate M writer rmask id0 msg o []) = (c1, RWrite r1 cb, cev)).
      { simpl. rewrite U. reflexivity. }
      destruct (@step_events _ m_eqb m_empty _ w_validate w_merge _ r_filter clock_at str_ltb idfun ltb_irrefl ltb_trans _ _ _ _ _ S Hs) as [[A B]|(e & A & B & _)]; [left|right]; simpl; eauto.
    - destruct (spec_c_delete m_eqb clock_at idfun (snd vc) id0 o) as [[[c1 r1] e1] ev1] eqn:U. inversion H. subst.
      assert (S : spec_step m_eqb m_empty w_validate w_merge r_filter clock_at str_ltb idfun (snd vc) (@ODelete M writer rmask id0 o) = (c1, RDelete r1 e1, cev)).
      { simpl. rewrite U. reflexivity. }
      destruct (@step_events _ m_eqb m_empty _ w_validate w_merge _ r_filter clock_at str_ltb idfun ltb_irrefl ltb_trans _ _ _ _ _ S Hs) as [[A B]|(e & A & B & _)]; [left|right]; simpl; eauto.
    - inversion H. subst. left. auto.
    - inversion H. subst. left. auto.
    - inversion H. subst. left. auto.
  Qed.

  (* a step commits at most one collection event, which describes what it did to the contents *)
  Lemma trans_coll (c : call) p w p' w' eff :
    call_ok c -> pc_wf c p w -> sorted (c_items (w_c w)) ->
    trans c p w = Some (p', w', eff) ->
    match snd (committed p p' eff) with
    | [] => c_items (w_c w') = c_items (w_c w)
    | [e] => describes e (c_items (w_c w)) (c_items (w_c w'))
    | _ => False
    end.
  Proof.
    intros Hok Hwf Hs T.
    pose proof (trans_lin m_eqb m_empty w_validate w_merge clock_at str_ltb idfun m_eqb_eq c p w Hok Hwf T) as L.
    destruct (predicted c p), (predicted c p').
    - destruct L as (_ & Hm & ->). simpl. unfold mem in Hm. inversion Hm. congruence.
    - contradiction.
    - destruct (@spec_call_ev_describes (mem w) c _ _ _ _ Hok Hs L) as [[A B]|(e & A & B)]; rewrite A; simpl in *; assumption.
    - destruct L as (Hm & ->). simpl. unfold mem in Hm. inversion Hm. congruence.
  Qed.

  (* ---------- views ---------- *)
  Notation vsub := (vsub M rmask).
  Notation csub := (csub M rmask).
  Notation view_inv := (view_inv r_filter).

  (* what a Value subscriber holds: the value of the last change it received *)
  Definition vstream (u : vsub) : list (vchange M) := pull_value r_filter None (vs_at u) (vs_ro u) (vs_evs u).
  Definition last_value (l : list (vchange M)) : option M :=
    match rev l with c :: _ => Some (vc_value c) | [] => None end.
  Definition vlast (u : vsub) : option M :=
    match rev (vs_evs u) with
    | e :: _ => Some (filt (vs_ro u) (ve_value e))
    | [] => if ro_updates_only (vs_ro u) then None else option_map (filt (vs_ro u)) (v_val (vs_at u))
    end.

  Lemma v_forward_none ro last evs :
    v_forward r_filter None ro last evs = map (fun e => mkVC (filt ro (ve_value e)) (ve_time e) false false) evs.
  Proof. revert last. induction evs as [|e r IH]; intros last; simpl; [reflexivity|]. rewrite IH. reflexivity. Qed.

  Lemma last_value_vlast u : last_value (vstream u) = vlast u.
  Proof.
    unfold last_value, vstream, vlast, pull_value, pull_value_gen. rewrite v_forward_none, rev_app_distr, <- map_rev.
    destruct (rev (vs_evs u)) as [|e r]; simpl.
    - destruct (ro_updates_only (vs_ro u)); [reflexivity|]. destruct (v_val (vs_at u)); reflexivity.
    - reflexivity.
  Qed.

  (* what a Collection subscriber holds: the fold of everything it received *)
  Definition cstream (u : csub) : list (cchange M) := pull_collection r_filter None (cs_at u) (cs_ro u) (cs_evs u).
  Definition cview (u : csub) : list (string * M) := fold_view (cstream u).
  (* seeded subscriptions: any read mask, any include predicate *)
  Definition plain_sub (u : csub) : Prop := ro_updates_only (cs_ro u) = false.
  (* updates-only subscriptions (no include predicate): the view is right at every id an event mentioned *)
  Definition uo_sub (u : csub) : Prop := ro_include (cs_ro u) = None /\ ro_updates_only (cs_ro u) = true.
  Definition touched (u : csub) (id : string) : Prop := In id (map (@ce_id M) (cs_evs u)).
  Definition uview_inv (u : csub) (l : list (string * item)) : Prop :=
    NoDup (map fst (cview u)) /\ forall id, touched u id -> vlookup id (cview u) = shown r_filter (cs_ro u) id l.

  Lemma cview_snoc tid ro at_ evs e sk :
    cview (mkCS tid ro at_ (evs ++ [e]) sk) =
    fold_left (@apply_change M) (c_forward_gen r_filter None false false ro [e]) (cview (mkCS tid ro at_ evs sk)).
  Proof.
    unfold cview, cstream, fold_view, pull_collection, pull_collection_gen. simpl cs_ro. simpl cs_at. simpl cs_evs.
    rewrite c_forward_app, app_assoc, fold_left_app. reflexivity.
  Qed.

  Lemma cview_fresh tid ro (c : cstate) sk :
    ro_updates_only ro = false -> sorted (c_items c) ->
    view_inv ro (cview (mkCS tid ro c [] sk)) (c_items c).
  Proof.
    intros UO Hs. unfold cview, cstream, fold_view, pull_collection, pull_collection_gen. simpl. rewrite UO, app_nil_r.
    apply (@seed_view_inv _ _ r_filter str_ltb ltb_irrefl ltb_trans ro _ Hs).
  Qed.

  (* receiving once more an event whose effect the view already shows changes nothing *)
  Lemma redeliver ro (e : cevent) lprev l view :
    ro_include ro = None -> describes e lprev l -> view_inv ro view l ->
    view_inv ro (fold_left (@apply_change M) (c_forward_gen r_filter None false false ro [e]) view) l.
  Proof.
    intros RI D Hv.
    set (e' := mkCE (ce_id e) (ce_time e) (ce_kind e) (body_at (ce_id e) l) (ce_new e)).
    assert (D' : describes e' l l).
    { constructor; simpl; try reflexivity.
      - apply (d_new D).
      - apply (d_kind D).
      - apply (d_time D). }
    pose proof (@forward_one_keeps_inv _ _ r_filter ro _ _ _ _ D' Hv) as K.
    assert (E : fold_left (@apply_change M) (c_forward_gen r_filter None false false ro [e]) view =
                fold_left (@apply_change M) (c_forward_gen r_filter None false false ro [e']) view).
    { simpl. rewrite RI. simpl. unfold apply_change. simpl. reflexivity. }
    rewrite E. exact K.
  Qed.

  (* an updates-only view: one described event keeps it right at every id mentioned so far *)
  Lemma forward_one_uo ro (e : cevent) l l' view (P : string -> Prop) :
    ro_include ro = None -> describes e l l' ->
    NoDup (map fst view) -> (forall id, P id -> vlookup id view = shown r_filter ro id l) ->
    let view' := fold_left (@apply_change M) (c_forward_gen r_filter None false false ro [e]) view in
    NoDup (map fst view') /\ forall id, (P id \/ id = ce_id e) -> vlookup id view' = shown r_filter ro id l'.
  Proof.
    intros RI D Hnd Hv. simpl. rewrite RI. simpl. unfold apply_change. simpl.
    assert (Hother : forall v', (forall id', id' <> ce_id e -> vlookup id' v' = vlookup id' view) ->
                                forall id', id' <> ce_id e -> P id' -> vlookup id' v' = shown r_filter ro id' l').
    { intros v' Hsame id' Hne Hp. rewrite Hsame by exact Hne. rewrite Hv by exact Hp. unfold shown.
      rewrite (d_frame D) by exact Hne. reflexivity. }
    destruct (lookup (ce_id e) l') as [it'|] eqn:L'.
    - assert (K : ce_kind e <> KRemove).
      { intros C. apply (proj1 (d_kind D)) in C. rewrite (d_new D) in C. unfold body_at in C. rewrite L' in C. discriminate. }
      rewrite (d_new D). unfold body_at. rewrite L'. simpl.
      assert (G : NoDup (map fst (view_set (ce_id e) (filt ro (it_body it')) view)) /\
                  forall id, (P id \/ id = ce_id e) ->
                             vlookup id (view_set (ce_id e) (filt ro (it_body it')) view) = shown r_filter ro id l').
      { split; [apply view_set_nodup; exact Hnd|].
        intros id' Hid. destruct (String.eqb_spec id' (ce_id e)) as [->|Hne].
        - rewrite vlookup_set_same. unfold shown, pred_of. rewrite RI, L'. reflexivity.
        - destruct Hid as [Hp|C]; [|contradiction].
          apply Hother; [intros; apply vlookup_set_other; assumption|exact Hne|exact Hp]. }
      destruct (ce_kind e); try congruence; exact G.
    - assert (N : ce_new e = None) by (rewrite (d_new D); unfold body_at; rewrite L'; reflexivity).
      assert (K : ce_kind e = KRemove).
      { destruct (ce_kind e) eqn:EK; try reflexivity; exfalso;
          apply (proj2 (d_kind D)); try exact N; rewrite EK; discriminate. }
      rewrite K. split; [apply view_del_nodup; exact Hnd|].
      intros id' Hid. destruct (String.eqb_spec id' (ce_id e)) as [->|Hne].
      + rewrite vlookup_del_same by exact Hnd. unfold shown. rewrite L'. reflexivity.
      + destruct Hid as [Hp|C]; [|contradiction].
        apply Hother; [intros; apply vlookup_del_other; assumption|exact Hne|exact Hp].
  Qed.

  Lemma uview_snoc tid ro at_ evs e sk l l' :
    ro_include ro = None -> describes e l l' ->
    uview_inv (mkCS tid ro at_ evs sk) l -> uview_inv (mkCS tid ro at_ (evs ++ [e]) sk) l'.
  Proof.
    intros RI D [Hnd Hv]. unfold uview_inv. rewrite cview_snoc. simpl cs_ro in *.
    destruct (@forward_one_uo ro e l l' _ (touched (mkCS tid ro at_ evs sk)) RI D Hnd Hv) as [A B].
    split; [exact A|]. intros id Hid. apply B. unfold touched in *. simpl in *.
    rewrite map_app in Hid. apply in_app_or in Hid. destruct Hid as [Hid|[<-|[]]]; auto.
  Qed.

  Lemma uview_fresh tid ro (c : cstate) sk l : ro_updates_only ro = true -> uview_inv (mkCS tid ro c [] sk) l.
  Proof.
    intros UO. unfold uview_inv, cview, cstream, fold_view, pull_collection, pull_collection_gen. simpl. rewrite UO.
    simpl. split; [constructor|]. intros id [].
  Qed.

  (* ================= all programs, all schedules ================= *)
  Variable prog : list call.
  Hypothesis prog_ok : forall t c, nth_error prog t = Some c -> call_ok c.
  Variable v0 : vstate.
  Variable c0 : cstate.
  Hypothesis c0_sorted : sorted (c_items c0).

  Notation step := (step m_eqb m_empty w_validate w_merge clock_at str_ltb idfun false false prog).
  Notation run := (run m_eqb m_empty w_validate w_merge clock_at str_ltb idfun false false prog).
  Notation s0 := (s0 prog v0 c0).
  Notation Inv := (Inv m_eqb m_empty w_validate w_merge clock_at str_ltb idfun prog v0 c0).

  Definition is_pv (p : pc) : bool := match p with PSavedV _ _ => true | _ => false end.
  Definition is_pc (p : pc) : bool := match p with PSavedC _ _ => true | _ => false end.

  Definition vgood (u : vsub) (cur : option M) : Prop :=
    (vs_evs u = [] /\ ro_updates_only (vs_ro u) = true) \/ vlast u = option_map (filt (vs_ro u)) cur.

  Record SInv (s : state) : Prop := {
    (* the pending lists name exactly the threads parked before their publication *)
    si_pv : forall t, In t (st_pendv s) <-> exists p, nth_error (st_pcs s) t = Some p /\ is_pv p = true;
    si_pc : forall t, In t (st_pendc s) <-> exists p, nth_error (st_pcs s) t = Some p /\ is_pc p = true;
    (* while no commit has overlapped an unpublished one: *)
    si_v : st_overlap s = false ->
           match st_pendv s with
           | [] => forall u, In u (st_vsubs s) -> vgood u (v_val (w_v (st_w s)))
           | [t] => exists nv e, nth_error (st_pcs s) t = Some (PSavedV nv e) /\ ve_value e = nv /\
                                 v_val (w_v (st_w s)) = Some nv
           | _ => False
           end;
    si_c : st_overlap s = false ->
           match st_pendc s with
           | [] => forall u, In u (st_csubs s) -> plain_sub u ->
                             view_inv (cs_ro u) (cview u) (c_items (w_c (st_w s)))
           | [t] => exists nv e lprev,
                      nth_error (st_pcs s) t = Some (PSavedC nv e) /\
                      describes e lprev (c_items (w_c (st_w s))) /\
                      (* a subscriber whose snapshot was taken after that save already shows it and
                         will not be sent it; the others are one event behind *)
                      forall u, In u (st_csubs s) -> plain_sub u ->
                                if existsb (Nat.eqb t) (cs_skip u)
                                then view_inv (cs_ro u) (cview u) (c_items (w_c (st_w s)))
                                else view_inv (cs_ro u) (cview u) lprev
           | _ => False
           end;
    (* a snapshot is only ever ahead of threads that have committed *)
    si_skip : forall u a, In u (st_csubs s) -> In a (cs_skip u) ->
              exists p, nth_error (st_pcs s) a = Some p /\ (is_pc p = true \/ is_done p = true);
    (* updates-only subscriptions: right at every id mentioned so far; they drop nothing *)
    si_cu : st_overlap s = false ->
            match st_pendc s with
            | [] => forall u, In u (st_csubs s) -> uo_sub u -> uview_inv u (c_items (w_c (st_w s)))
            | [t] => exists nv e lprev,
                       nth_error (st_pcs s) t = Some (PSavedC nv e) /\
                       describes e lprev (c_items (w_c (st_w s))) /\
                       forall u, In u (st_csubs s) -> uo_sub u -> uview_inv u lprev
            | _ => False
            end;
    si_uskip : forall u, In u (st_csubs s) -> ro_updates_only (cs_ro u) = true -> cs_skip u = []
  }.

  Lemma sinv_init : SInv s0.
  Proof.
    constructor; simpl.
    - intros t. split; [intros []|]. intros (p & H & S). rewrite nth_error_map in H.
      destruct (nth_error prog t); inversion H; subst; discriminate.
    - intros t. split; [intros []|]. intros (p & H & S). rewrite nth_error_map in H.
      destruct (nth_error prog t); inversion H; subst; discriminate.
    - intros _ u [].
    - intros _ u [].
    - intros u a [].
    - intros _ u [].
    - intros u [].
  Qed.

  Lemma drop_tid_notin t l : ~ In t l -> drop_tid t l = l.
  Proof.
    unfold drop_tid. induction l as [|x r IH]; intros H; simpl; [reflexivity|].
    destruct (Nat.eqb_spec x t) as [->|Hne]; simpl.
    - exfalso. apply H. left. reflexivity.
    - rewrite IH; [reflexivity|]. intros C. apply H. right. exact C.
  Qed.

  Lemma in_drop_tid t u l : In u (drop_tid t l) <-> In u l /\ u <> t.
  Proof.
    unfold drop_tid. rewrite filter_In. split; intros [A B]; split; auto.
    - intros ->. rewrite Nat.eqb_refl in B. discriminate.
    - destruct (Nat.eqb_spec u t); [contradiction|reflexivity].
  Qed.

  (* the bookkeeping of pending publications *)
  Lemma pend_step (is_saved : pc -> bool) pend (pcs : list pc) t p' :
    (t < List.length pcs)%nat ->
    (forall u, In u pend <-> exists p, nth_error pcs u = Some p /\ is_saved p = true) ->
    forall u, In u (if is_saved p' then pend ++ [t] else drop_tid t pend) <->
              exists p, nth_error (set_nth t p' pcs) u = Some p /\ is_saved p = true.
  Proof.
    intros Ht H u. destruct (Nat.eq_dec t u) as [<-|Hne].
    - rewrite nth_error_set_nth_same by exact Ht. destruct (is_saved p') eqn:S.
      + split; [intros _; eauto|]. intros _. apply in_or_app. right. left. reflexivity.
      + rewrite in_drop_tid. split; [intros [_ C]; congruence|]. intros (p & E & S'). inversion E. congruence.
    - rewrite nth_error_set_nth_other by exact Hne. rewrite <- H. destruct (is_saved p').
      + rewrite in_app_iff. simpl. split; [intros [A|[A|[]]]; [exact A|congruence]|auto].
      + rewrite in_drop_tid. split; [tauto|]. intros A. split; [exact A|congruence].
  Qed.

  Lemma match_pv {A} (p' : pc) (a b : A) : match p' with PSavedV _ _ => a | _ => b end = if is_pv p' then a else b.
  Proof. destruct p'; reflexivity. Qed.
  Lemma match_pc {A} (p' : pc) (a b : A) : match p' with PSavedC _ _ => a | _ => b end = if is_pc p' then a else b.
  Proof. destruct p'; reflexivity. Qed.

  Lemma is_nil_false {A} (l : list A) : negb (is_nil l) = false -> l = [].
  Proof. destruct l; [reflexivity|discriminate]. Qed.

  Theorem sinv_step pre s t : Inv pre s -> SInv s -> SInv (step t s).
  Proof.
    intros I SI. unfold Lts.step.
    destruct (nth_error prog t) as [c|] eqn:P; [|constructor; simpl; apply SI].
    destruct (nth_error (st_pcs s) t) as [p|] eqn:Q; [|constructor; simpl; apply SI].
    destruct (trans c p (st_w s)) as [[[p' w'] eff]|] eqn:T; [|constructor; simpl; apply SI].
    destruct (i_local I _ P Q) as [Hwf _].
    assert (Ht : (t < List.length (st_pcs s))%nat) by (apply nth_error_Some; rewrite Q; discriminate).
    destruct (trans_effect _ _ _ T) as (TE1 & TE2 & TE3).
    pose proof (trans_value _ _ _ T) as TV.
    pose proof (@trans_coll _ _ _ _ _ _ (prog_ok _ P) Hwf (i_sorted I) T) as TC.
    constructor; simpl.
    - (* pending Value publications *)
      rewrite match_pv. apply pend_step; [exact Ht|apply (si_pv SI)].
    - rewrite match_pc. apply pend_step; [exact Ht|apply (si_pc SI)].
    - (* ---- Value subscribers ---- *)
      intros Ho. apply orb_false_iff in Ho. destruct Ho as [Ho1 Ho2]. pose proof (si_v SI Ho1) as V.
      rewrite match_pv. destruct (is_pv p') eqn:PV.
      + (* the save of a Set *)
        destruct p' as [| | nv e | | | |]; try discriminate. apply is_nil_false in Ho2. rewrite Ho2. simpl.
        exists nv, e. rewrite nth_error_set_nth_same by exact Ht. destruct TV as [A B]. auto.
      + destruct (is_pv p) eqn:PVp.
        * (* the publication of a Set *)
          destruct p as [| | nv e | | | |]; try discriminate. destruct TE2 as [-> ->].
          destruct TE1 as (nv' & E & ->). clear E.
          assert (Hin : In t (st_pendv s)) by (apply (si_pv SI); eauto).
          destruct (st_pendv s) as [|a [|b r]]; [destruct Hin| |contradiction].
          destruct Hin as [->|[]]. destruct V as (nv0 & e0 & Q0 & Ev & Hv). rewrite Q in Q0.
          assert (E2 : nv0 = nv /\ e0 = e) by (inversion Q0; split; reflexivity). destruct E2 as [E2a E2b].
          rewrite E2b in Ev. rewrite E2a in Ev, Hv.
          unfold drop_tid. simpl. rewrite Nat.eqb_refl. simpl.
          intros u Hu. apply in_map_iff in Hu. destruct Hu as (u0 & <- & _). right.
          unfold vlast. simpl. rewrite rev_app_distr. simpl. rewrite Hv, Ev. reflexivity.
        * (* any other step *)
          assert (Hnin : ~ In t (st_pendv s)).
          { intros C. apply (si_pv SI) in C. destruct C as (p0 & Q0 & S0). rewrite Q in Q0. inversion Q0. subst. congruence. }
          rewrite (drop_tid_notin _ _ Hnin).
          assert (Ev : w_v w' = w_v (st_w s)) by (destruct p'; try exact TV; discriminate).
          rewrite Ev.
          assert (Esubs : forall u, In u (match eff with
                                          | EPubV e => map (fun u => mkVS (vs_tid u) (vs_ro u) (vs_at u) (vs_evs u ++ [e])) (st_vsubs s)
                                          | ESubV ro => st_vsubs s ++ [mkVS t ro (w_v (st_w s)) []]
                                          | _ => st_vsubs s end) ->
                                    In u (st_vsubs s) \/ exists ro, u = mkVS t ro (w_v (st_w s)) []).
          { destruct eff; intros u Hu; auto.
            - destruct TE1 as (nv & -> & _). discriminate.
            - apply in_app_or in Hu. destruct Hu as [Hu|[<-|[]]]; eauto. }
          destruct (st_pendv s) as [|a [|b r]]; [| |contradiction].
          -- intros u Hu. apply Esubs in Hu. destruct Hu as [Hu|(ro & ->)]; [apply V; exact Hu|].
             unfold vgood, vlast. simpl. destruct (ro_updates_only ro); auto.
          -- destruct V as (nv0 & e0 & Q0 & Ev0 & Hv). exists nv0, e0.
             rewrite nth_error_set_nth_other; [auto|]. intros ->. apply Hnin. left. reflexivity.
    - (* ---- Collection subscribers ---- *)
      intros Ho. apply orb_false_iff in Ho. destruct Ho as [Ho1 Ho2]. pose proof (si_c SI Ho1) as V.
      rewrite match_pc. destruct (is_pc p') eqn:PC.
      + (* the save of an Update *)
        destruct p' as [| | | nv e | | |]; try discriminate. apply is_nil_false in Ho2. rewrite Ho2 in *. simpl.
        simpl in TC. exists nv, e, (c_items (w_c (st_w s))).
        rewrite nth_error_set_nth_same by exact Ht. split; [reflexivity|]. split; [exact TC|].
        rewrite TE3. intros u Hu Hp.
        replace (existsb (Nat.eqb t) (cs_skip u)) with false; [apply V; assumption|].
        symmetry. apply not_true_is_false. intros C. apply existsb_exists in C. destruct C as (a & Ha & Ea).
        apply Nat.eqb_eq in Ea. subst a. destruct (si_skip SI _ _ Hu Ha) as (p0 & Q0 & S0).
        rewrite Q in Q0. inversion Q0. subst p0.
        destruct S0 as [S0|S0]; destruct p; try discriminate S0.
        -- destruct TE2 as [_ C]. discriminate C.
        -- destruct c; discriminate T.
      + destruct (is_pc p) eqn:PCp.
        * (* the publication of an Update *)
          destruct p as [| | | nv e | | |]; try discriminate. destruct TE2 as [-> ->].
          destruct TE1 as [(nv' & E & ->)|(seen & n & r & E & _)]; [clear E|discriminate].
          assert (Hin : In t (st_pendc s)) by (apply (si_pc SI); eauto).
          destruct (st_pendc s) as [|a [|b r]]; [destruct Hin| |contradiction].
          destruct Hin as [->|[]]. destruct V as (nv0 & e0 & lprev & Q0 & D & Hv). rewrite Q in Q0.
          assert (E2 : e0 = e) by (inversion Q0; reflexivity). rewrite E2 in D.
          unfold drop_tid. simpl. rewrite Nat.eqb_refl. simpl.
          intros u Hu Hp. apply in_map_iff in Hu. destruct Hu as (u0 & <- & Hu0).
          destruct u0 as [tid ro at_ evs sk]. simpl in *.
          destruct (existsb (Nat.eqb t) sk) eqn:SK.
          -- pose proof (Hv _ Hu0 Hp) as K. simpl in K. rewrite SK in K. exact K.
          -- simpl in *. rewrite cview_snoc. pose proof (Hv _ Hu0 Hp) as K. simpl in K. rewrite SK in K.
             eapply forward_one_keeps_inv; eauto.
        * assert (Hnin : ~ In t (st_pendc s)).
          { intros C. apply (si_pc SI) in C. destruct C as (p0 & Q0 & S0). rewrite Q in Q0. inversion Q0. subst. congruence. }
          rewrite (drop_tid_notin _ _ Hnin).
          destruct (match p, eff with PDel _ _, EPubC _ => true | _, _ => false end) eqn:DC.
          -- (* a Delete commits and publishes under the lock *)
             destruct p as [| | | |seen n| |]; try discriminate. destruct eff as [| |e| |]; try discriminate.
             assert (Ho3 : st_pendc s = []).
             { destruct p'; simpl in Ho2; try discriminate; apply is_nil_false; exact Ho2. }
             rewrite Ho3 in *.
             assert (D : describes e (c_items (w_c (st_w s))) (c_items (w_c w'))).
             { destruct p'; try discriminate; exact TC. }
             intros u Hu Hp. apply in_map_iff in Hu. destruct Hu as (u0 & <- & Hu0).
             assert (SK : existsb (Nat.eqb t) (cs_skip u0) = false).
             { apply not_true_is_false. intros C. apply existsb_exists in C. destruct C as (a & Ha & Ea).
               apply Nat.eqb_eq in Ea. subst a. destruct (si_skip SI _ _ Hu0 Ha) as (p0 & Q0 & S0).
               rewrite Q in Q0. inversion Q0. subst p0. destruct S0; discriminate. }
             rewrite SK in *.
             destruct u0 as [tid ro at_ evs sk]. simpl in *. rewrite cview_snoc.
             eapply forward_one_keeps_inv; [exact D|]. apply (V _ Hu0 Hp).
          -- (* a step that leaves the contents alone *)
             assert (Ec : c_items (w_c w') = c_items (w_c (st_w s))).
             { destruct p'; try discriminate; destruct p; try discriminate; destruct eff; try discriminate; exact TC. }
             rewrite Ec.
             assert (Esubs : forall u, In u (match eff with
                                             | EPubC e => map (fun u => if existsb (Nat.eqb t) (cs_skip u) then u
                                                                        else mkCS (cs_tid u) (cs_ro u) (cs_at u) (cs_evs u ++ [e]) (cs_skip u)) (st_csubs s)
                                             | ESubC ro => st_csubs s ++ [mkCS t ro (w_c (st_w s)) [] (if ro_updates_only ro then [] else st_pendc s)]
                                             | _ => st_csubs s end) ->
                                       In u (st_csubs s) \/ exists ro, u = mkCS t ro (w_c (st_w s)) [] (if ro_updates_only ro then [] else st_pendc s)).
             { destruct eff; intros u Hu; auto.
               - destruct TE1 as [(nv & -> & _)|(seen & n & r & -> & _)]; discriminate.
               - apply in_app_or in Hu. destruct Hu as [Hu|[<-|[]]]; eauto. }
             assert (Hfresh : forall ro sk, plain_sub (mkCS t ro (w_c (st_w s)) [] sk) ->
                                         view_inv ro (cview (mkCS t ro (w_c (st_w s)) [] sk)) (c_items (w_c (st_w s)))).
             { intros ro sk UO. apply cview_fresh; [exact UO|apply (i_sorted I)]. }
             destruct (st_pendc s) as [|a [|b r]]; [| |contradiction].
             ++ intros u Hu Hp. apply Esubs in Hu. destruct Hu as [Hu|(ro & ->)]; [apply V; assumption|].
                apply Hfresh. exact Hp.
             ++ destruct V as (nv0 & e0 & lprev & Q0 & D & Hv). exists nv0, e0, lprev.
                split; [rewrite nth_error_set_nth_other; [exact Q0|]; intros ->; apply Hnin; left; reflexivity|].
                split; [exact D|].
                intros u Hu Hp. apply Esubs in Hu. destruct Hu as [Hu|(ro & ->)]; [apply Hv; assumption|].
                pose proof Hp as UO. unfold plain_sub in UO. simpl in UO.
                assert (Es : (if ro_updates_only ro then [] else [a]) = [a]) by (rewrite UO; reflexivity).
                rewrite Es in *. simpl. rewrite Nat.eqb_refl. simpl. apply Hfresh. exact Hp.
    - (* snapshots are ahead of committed threads only *)
      intros u a Hu Ha.
      assert (G : (exists u0, In u0 (st_csubs s) /\ In a (cs_skip u0)) \/ In a (st_pendc s)).
      { destruct eff; try (left; exists u; split; assumption).
        - apply in_map_iff in Hu. destruct Hu as (u0 & E & Hu0). left. exists u0. split; [exact Hu0|].
          destruct (existsb (Nat.eqb t) (cs_skip u0)); subst u; exact Ha.
        - apply in_app_or in Hu. destruct Hu as [Hu|[<-|[]]]; [left; exists u; split; assumption|].
          simpl in Ha. destruct (ro_updates_only ro); [destruct Ha|right; exact Ha]. }
      assert (G2 : exists p0, nth_error (st_pcs s) a = Some p0 /\ (is_pc p0 = true \/ is_done p0 = true)).
      { destruct G as [(u0 & Hu0 & Ha0)|Hp]; [eapply si_skip; eauto|].
        apply (si_pc SI) in Hp. destruct Hp as (p0 & Q0 & S0). eauto. }
      destruct G2 as (p0 & Q0 & S0).
      destruct (Nat.eq_dec t a) as [<-|Hne].
      + rewrite nth_error_set_nth_same by exact Ht. exists p'. split; [reflexivity|].
        rewrite Q in Q0. inversion Q0. subst p0. destruct S0 as [S0|S0].
        * destruct p; try discriminate. destruct TE2 as [_ ->]. right. reflexivity.
        * destruct p; try discriminate. destruct c; discriminate T.
      + rewrite nth_error_set_nth_other by exact Hne. eauto.
    - (* ---- updates-only Collection subscribers ---- *)
      intros Ho. apply orb_false_iff in Ho. destruct Ho as [Ho1 Ho2]. pose proof (si_cu SI Ho1) as V.
      assert (Hdeliver : forall e l l',
                 describes e l l' ->
                 (forall u, In u (st_csubs s) -> uo_sub u -> uview_inv u l) ->
                 forall u, In u (map (fun u => if existsb (Nat.eqb t) (cs_skip u) then u
                                                else mkCS (cs_tid u) (cs_ro u) (cs_at u) (cs_evs u ++ [e]) (cs_skip u)) (st_csubs s)) ->
                           uo_sub u -> uview_inv u l').
      { intros e l l' D Hv u Hu Hp. apply in_map_iff in Hu. destruct Hu as (u0 & <- & Hu0).
        assert (Hp0 : uo_sub u0).
        { destruct (existsb (Nat.eqb t) (cs_skip u0)); [exact Hp|]. destruct u0; exact Hp. }
        rewrite (si_uskip SI _ Hu0 (proj2 Hp0)). simpl.
        specialize (Hv _ Hu0 Hp0). destruct u0 as [tid ro at_ evs sk]. simpl in *.
        eapply uview_snoc; [apply Hp0|exact D|exact Hv]. }
      rewrite match_pc. destruct (is_pc p') eqn:PC.
      + destruct p' as [| | | nv e | | |]; try discriminate. apply is_nil_false in Ho2. rewrite Ho2 in *. simpl.
        simpl in TC. exists nv, e, (c_items (w_c (st_w s))).
        rewrite nth_error_set_nth_same by exact Ht. split; [reflexivity|]. split; [exact TC|].
        rewrite TE3. exact V.
      + destruct (is_pc p) eqn:PCp.
        * destruct p as [| | | nv e | | |]; try discriminate. destruct TE2 as [-> ->].
          destruct TE1 as [(nv' & E & ->)|(seen & n & r & E & _)]; [clear E|discriminate].
          assert (Hin : In t (st_pendc s)) by (apply (si_pc SI); eauto).
          destruct (st_pendc s) as [|a [|b r]]; [destruct Hin| |contradiction].
          destruct Hin as [->|[]]. destruct V as (nv0 & e0 & lprev & Q0 & D & Hv). rewrite Q in Q0.
          assert (E2 : e0 = e) by (inversion Q0; reflexivity). rewrite E2 in D.
          unfold drop_tid. simpl. rewrite Nat.eqb_refl. simpl.
          eapply Hdeliver; eauto.
        * assert (Hnin : ~ In t (st_pendc s)).
          { intros C. apply (si_pc SI) in C. destruct C as (p0 & Q0 & S0). rewrite Q in Q0. inversion Q0. subst. congruence. }
          rewrite (drop_tid_notin _ _ Hnin).
          destruct (match p, eff with PDel _ _, EPubC _ => true | _, _ => false end) eqn:DC.
          -- destruct p as [| | | |seen n| |]; try discriminate. destruct eff as [| |e| |]; try discriminate.
             assert (Ho3 : st_pendc s = []).
             { destruct p'; simpl in Ho2; try discriminate; apply is_nil_false; exact Ho2. }
             rewrite Ho3 in *.
             assert (D : describes e (c_items (w_c (st_w s))) (c_items (w_c w'))).
             { destruct p'; try discriminate; exact TC. }
             eapply Hdeliver; eauto.
          -- assert (Ec : c_items (w_c w') = c_items (w_c (st_w s))).
             { destruct p'; try discriminate; destruct p; try discriminate; destruct eff; try discriminate; exact TC. }
             rewrite Ec.
             assert (Esubs : forall u, In u (match eff with
                                             | EPubC e => map (fun u => if existsb (Nat.eqb t) (cs_skip u) then u
                                                                        else mkCS (cs_tid u) (cs_ro u) (cs_at u) (cs_evs u ++ [e]) (cs_skip u)) (st_csubs s)
                                             | ESubC ro => st_csubs s ++ [mkCS t ro (w_c (st_w s)) [] (if ro_updates_only ro then [] else st_pendc s)]
                                             | _ => st_csubs s end) ->
                                       In u (st_csubs s) \/ exists ro sk, u = mkCS t ro (w_c (st_w s)) [] sk).
             { destruct eff; intros u Hu; auto.
               - destruct TE1 as [(nv & -> & _)|(seen & n & r & -> & _)]; discriminate.
               - apply in_app_or in Hu. destruct Hu as [Hu|[<-|[]]]; eauto. }
             destruct (st_pendc s) as [|a [|b r]]; [| |contradiction].
             ++ intros u Hu Hp. apply Esubs in Hu. destruct Hu as [Hu|(ro & sk & ->)]; [apply V; assumption|].
                apply uview_fresh. apply Hp.
             ++ destruct V as (nv0 & e0 & lprev & Q0 & D & Hv). exists nv0, e0, lprev.
                split; [rewrite nth_error_set_nth_other; [exact Q0|]; intros ->; apply Hnin; left; reflexivity|].
                split; [exact D|].
                intros u Hu Hp. apply Esubs in Hu. destruct Hu as [Hu|(ro & sk & ->)]; [apply Hv; assumption|].
                apply uview_fresh. apply Hp.
    - (* updates-only subscriptions drop nothing *)
      intros u Hu UO. destruct eff; try (apply (si_uskip SI); assumption).
      + apply in_map_iff in Hu. destruct Hu as (u0 & E & Hu0).
        destruct (existsb (Nat.eqb t) (cs_skip u0)); subst u; [apply (si_uskip SI); assumption|].
        simpl in *. apply (si_uskip SI); assumption.
      + apply in_app_or in Hu. destruct Hu as [Hu|[<-|[]]]; [apply (si_uskip SI); assumption|].
        simpl in *. rewrite UO. reflexivity.
  Qed.

  Lemma run_snoc' pre t : run (pre ++ [t]) s0 = step t (run pre s0).
  Proof. unfold Lts.run. rewrite fold_left_app. reflexivity. Qed.

  Lemma inv_at sched : Inv sched (run sched s0).
  Proof. apply inv_run; assumption. Qed.

  Theorem sinv_run sched : SInv (run sched s0).
  Proof.
    induction sched as [|t pre IH] using rev_ind.
    - exact sinv_init.
    - rewrite run_snoc'. eapply sinv_step; [apply inv_at|exact IH].
  Qed.

  Lemma done_no_pending s : SInv s -> all_done s = true -> st_pendv s = [] /\ st_pendc s = [].
  Proof.
    intros SI D. unfold all_done in D. rewrite forallb_forall in D. split.
    - destruct (st_pendv s) as [|a r] eqn:E; [reflexivity|]. exfalso.
      assert (In a (st_pendv s)) by (rewrite E; left; reflexivity).
      apply (si_pv SI) in H. destruct H as (p & Q & S). apply nth_error_In in Q. apply D in Q.
      destruct p; discriminate.
    - destruct (st_pendc s) as [|a r] eqn:E; [reflexivity|]. exfalso.
      assert (In a (st_pendc s)) by (rewrite E; left; reflexivity).
      apply (si_pc SI) in H. destruct H as (p & Q & S). apply nth_error_In in Q. apply D in Q.
      destruct p; discriminate.
  Qed.

  (* ---------- C03: convergence when no commit overlaps an unpublished one ---------- *)
  Theorem converges_collection sched u :
    let s := run sched s0 in
    st_overlap s = false -> all_done s = true -> In u (st_csubs s) -> plain_sub u ->
    forall id, vlookup id (cview u) = vlookup id (c_list r_filter (w_c (st_w s)) (ro_mask (cs_ro u)) (ro_include (cs_ro u))).
  Proof.
    simpl. intros Ho D Hu Hp id. pose proof (sinv_run sched) as SI.
    destruct (done_no_pending SI D) as [_ Ec]. pose proof (si_c SI Ho) as V. rewrite Ec in V.
    destruct (V _ Hu Hp) as [_ Hv]. rewrite Hv.
    symmetry.
    apply (@list_shows _ _ r_filter str_ltb ltb_irrefl ltb_trans). apply (i_sorted (inv_at sched)).
  Qed.

  Theorem converges_collection_updates_only sched u :
    let s := run sched s0 in
    st_overlap s = false -> all_done s = true -> In u (st_csubs s) -> uo_sub u ->
    forall id, touched u id ->
               vlookup id (cview u) = vlookup id (c_list r_filter (w_c (st_w s)) (ro_mask (cs_ro u)) None).
  Proof.
    simpl. intros Ho D Hu Hp id Hid. pose proof (sinv_run sched) as SI.
    destruct (done_no_pending SI D) as [_ Ec]. pose proof (si_cu SI Ho) as V. rewrite Ec in V.
    destruct (V _ Hu Hp) as [_ Hv]. rewrite (Hv _ Hid).
    destruct Hp as [RI _]. rewrite <- RI. symmetry.
    apply (@list_shows _ _ r_filter str_ltb ltb_irrefl ltb_trans). apply (i_sorted (inv_at sched)).
  Qed.

  (* ---------- PullID: the collection stream restricted to one id (Pull.pull_id_from) ---------- *)
  Lemma pull_id_fold id (cs : list (cchange M)) : forall view vs,
    pull_id_from id cs = (vs, false) ->
    vlookup id (fold_left (@apply_change M) cs view) =
    match rev vs with v :: _ => Some (vc_value v) | [] => vlookup id view end.
  Proof.
    induction cs as [|c r IH]; intros view vs H; simpl in *.
    - inversion H. reflexivity.
    - destruct (String.eqb_spec (cc_id c) id) as [E|Hne]; simpl in H.
      + unfold apply_change at 2. destruct (cc_kind c) eqn:K; destruct (cc_new c) as [v|] eqn:N; try discriminate;
          destruct (pull_id_from id r) as [rest cl] eqn:R; inversion H; subst; simpl;
          rewrite (IH _ _ eq_refl), vlookup_set_same;
          destruct (rev rest) as [|v' t]; reflexivity.
      + rewrite (IH _ _ H). destruct (rev vs); [|reflexivity].
        unfold apply_change. destruct (cc_kind c); destruct (cc_new c); try reflexivity;
          first [apply vlookup_set_other|apply vlookup_del_other]; congruence.
  Qed.

  (* a PullID subscription that has not ended holds the item's current value (nothing if absent) *)
  Theorem converges_pull_id sched u id vs :
    let s := run sched s0 in
    st_overlap s = false -> all_done s = true -> In u (st_csubs s) -> plain_sub u ->
    pull_id_from id (cstream u) = (vs, false) ->
    last_value vs = vlookup id (c_list r_filter (w_c (st_w s)) (ro_mask (cs_ro u)) (ro_include (cs_ro u))).
  Proof.
    simpl. intros Ho D Hu Hp H.
    rewrite <- (@converges_collection sched u Ho D Hu Hp id).
    unfold cview, fold_view. rewrite (@pull_id_fold id _ [] _ H). unfold last_value.
    destruct (rev vs); reflexivity.
  Qed.

  Theorem converges_value sched u :
    let s := run sched s0 in
    st_overlap s = false -> all_done s = true -> In u (st_vsubs s) ->
    (ro_updates_only (vs_ro u) = false \/ vs_evs u <> []) ->
    last_value (vstream u) = option_map (filt (vs_ro u)) (v_val (w_v (st_w s))).
  Proof.
    simpl. intros Ho D Hu Hne. pose proof (sinv_run sched) as SI.
    destruct (done_no_pending SI D) as [Ev _]. pose proof (si_v SI Ho) as V. rewrite Ev in V.
    rewrite last_value_vlast. destruct (V _ Hu) as [[A B]|A]; [|exact A].
    destruct Hne as [C|C]; [congruence|contradiction].
  Qed.

  (* ---------- when commits cannot overlap ---------- *)
  Definition is_writer (c : call) : bool :=
    match c with CSet _ _ | CUpdate _ _ _ | CDelete _ _ => true | _ => false end.
  Definition idle (p : pc) : bool := match p with PStart | PDone _ => true | _ => false end.

  (* one writer at a time: whenever a writing thread takes a step, every other writing thread is
     idle — it has not started or has returned.  (A single writer issuing its calls one after the
     other; subscribers may take their step anywhere.) *)
  Definition one_writer_at_a_time (sched : list nat) : Prop :=
    forall k t c, nth_error sched k = Some t -> nth_error prog t = Some c -> is_writer c = true ->
    forall t' c' p', t' <> t -> nth_error prog t' = Some c' -> is_writer c' = true ->
                     nth_error (st_pcs (run (firstn k sched) s0)) t' = Some p' -> idle p' = true.

  Lemma pending_is_busy_writer s pre a :
    Inv pre s -> SInv s -> In a (st_pendv s) \/ In a (st_pendc s) ->
    exists c p, nth_error prog a = Some c /\ nth_error (st_pcs s) a = Some p /\ is_writer c = true /\ idle p = false /\
                (is_pv p = true \/ is_pc p = true).
  Proof.
    intros I SI H.
    assert (G : exists p, nth_error (st_pcs s) a = Some p /\ (is_pv p = true \/ is_pc p = true)).
    { destruct H as [H|H]; [apply (si_pv SI) in H|apply (si_pc SI) in H]; destruct H as (p & Q & S); eauto. }
    destruct G as (p & Q & S).
    assert (La : (a < List.length prog)%nat).
    { rewrite <- (i_len I). apply nth_error_Some. rewrite Q. discriminate. }
    destruct (nth_error prog a) as [c|] eqn:P; [|apply nth_error_None in P; lia].
    exists c, p. destruct (i_local I _ P Q) as [Hwf _].
    destruct p; destruct S as [S|S]; try discriminate; destruct c; simpl in Hwf; try contradiction; auto 10.
  Qed.

  Lemma overlap_step s pre t :
    Inv pre s -> SInv s -> st_overlap s = false ->
    (forall c, nth_error prog t = Some c -> is_writer c = true ->
               forall a, In a (st_pendv s) \/ In a (st_pendc s) -> a = t) ->
    st_overlap (step t s) = false.
  Proof.
    intros I SI Ho Hp0. unfold Lts.step.
    destruct (nth_error prog t) as [c|] eqn:P; [|exact Ho].
    destruct (nth_error (st_pcs s) t) as [p|] eqn:Q; [|exact Ho].
    destruct (trans c p (st_w s)) as [[[p' w'] eff]|] eqn:T; [|exact Ho].
    simpl. rewrite Ho. simpl.
    destruct (is_writer c) eqn:W.
    2:{ (* a subscriber's step commits nothing *)
        destruct c; try discriminate; unfold Lts.trans in T; destruct p; try discriminate;
          inversion T; subst; reflexivity. }
    pose proof (Hp0 _ eq_refl W) as Hp.
    destruct (trans_effect _ _ _ T) as (TE1 & TE2 & TE3).
    (* if anything is pending it is t itself, parked before its publication: its step publishes *)
    assert (G : st_pendv s = [] /\ st_pendc s = [] \/ (is_pv p = true \/ is_pc p = true)).
    { destruct (st_pendv s) as [|a r] eqn:Ev.
      - destruct (st_pendc s) as [|a r] eqn:Ec; [left; auto|]. right.
        assert (a = t) by (apply Hp; right; left; reflexivity). subst a.
        assert (In t (st_pendc s)) by (rewrite Ec; left; reflexivity).
        apply (si_pc SI) in H. destruct H as (p0 & Q0 & S0). rewrite Q in Q0. inversion Q0. subst. auto.
      - right. assert (a = t) by (apply Hp; left; left; reflexivity). subst a.
        assert (In t (st_pendv s)) by (rewrite Ev; left; reflexivity).
        apply (si_pv SI) in H. destruct H as (p0 & Q0 & S0). rewrite Q in Q0. inversion Q0. subst. auto. }
    destruct G as [[-> ->]|[S|S]].
    - destruct p'; simpl; try reflexivity; apply andb_false_r.
    - destruct p; try discriminate. destruct TE2 as [-> ->]. reflexivity.
    - destruct p; try discriminate. destruct TE2 as [-> ->]. reflexivity.
  Qed.

  Theorem one_writer_no_overlap sched : one_writer_at_a_time sched -> st_overlap (run sched s0) = false.
  Proof.
    intros H.
    assert (G : forall pre suf, sched = pre ++ suf -> st_overlap (run pre s0) = false).
    { induction pre as [|t pre IH] using rev_ind; intros suf E; [reflexivity|].
      rewrite run_snoc'. rewrite <- app_assoc in E. simpl in E.
      eapply overlap_step; [apply inv_at|apply sinv_run|eapply IH; eauto|].
      intros ct Pt Wt a Ha. destruct (Nat.eq_dec a t) as [|Hne]; [assumption|exfalso].
      destruct (@pending_is_busy_writer _ _ _ (inv_at pre) (sinv_run pre) Ha) as (c & p & P & Q & W & B & _).
      assert (N : nth_error sched (List.length pre) = Some t).
      { rewrite E, nth_error_app2 by lia. rewrite Nat.sub_diag. reflexivity. }
      assert (F : firstn (List.length pre) sched = pre).
      { rewrite E, firstn_app, firstn_all, Nat.sub_diag. simpl. apply app_nil_r. }
      pose proof (H _ _ _ N Pt Wt a c p Hne P W) as K. rewrite F in K. rewrite (K Q) in B. discriminate. }
    apply (G sched []). rewrite app_nil_r. reflexivity.
  Qed.

  (* any number of concurrent Deletes (they publish under the lock): nothing is ever pending *)
  Definition only_deletes_write : Prop :=
    forall t c, nth_error prog t = Some c -> match c with CSet _ _ | CUpdate _ _ _ => False | _ => True end.

  Theorem deletes_no_overlap sched : only_deletes_write -> st_overlap (run sched s0) = false.
  Proof.
    intros H. induction sched as [|t pre IH] using rev_ind; [reflexivity|].
    rewrite run_snoc'. eapply overlap_step; [apply inv_at|apply sinv_run|exact IH|].
    intros ct Pt Wt a Ha. exfalso.
    destruct (@pending_is_busy_writer _ _ _ (inv_at pre) (sinv_run pre) Ha) as (c & p & P & Q & _ & _ & S).
    destruct (i_local (inv_at pre) _ P Q) as [Hwf _]. specialize (H _ _ P).
    destruct p; destruct S as [S|S]; try discriminate; destruct c; simpl in Hwf; contradiction.
  Qed.
End Proofs.
