(* Generated ids and callbacks under concurrency (C02): collection.go Update with
   WithGenIDIfAbsent, WithIDCallback, WithCreatedCallback, on top of Conc/Lts.v.

   The get closure of Collection.Update resolves an empty id ONCE, on its first invocation (the
   optimistic read, under RLock + rngMu): GenerateUniqueId tries up to ten candidates of the rng
   and keeps the first that is non-empty and, seen through the id interceptor, not stored NOW; the
   id callback receives that candidate; the closure variable `id` becomes the interceptor's image
   of it, and from there on the call is exactly the Update of that id (second read under the write
   lock, re-validation, save, publish).  So a thread running a generating call has ONE more piece
   of private state than a thread of Lts.v: the candidate it resolved (g_res).  A step of the
   system is a step of Lts.v on the program in which every resolved call is replaced by the call
   of its resolved id (subst_call); the resolution happens in the thread's first step, against
   the contents of that instant.  Ten unusable candidates: the call stays unresolved and its step
   is the step Lts.v gives a generating call without candidates (Aborted, nothing written).

   cands t = the candidates the rng offers the call of thread t, in order (GenerateUniqueId reads
   6+i bytes for the i-th, so a per-call list is what a per-goroutine rng produces).

   Callbacks (ghost logs per thread): the id callback fires at the resolution; the created
   callback fires whenever the get closure allocates the provisional `created` message: on the
   first read of an absent id with create-if-absent, or on the second read (under the write lock)
   when the item read at first has vanished meanwhile -- whether or not the call then succeeds.
   No proofs here. *)
From SC Require Import Base.Prelude Resource.Impl Resource.Spec Resource.Pull Conc.Lts.

Set Implicit Arguments.

Section GenLts.
  Variable M : Type.
  Variable m_eqb : M -> M -> bool.
  Variable m_empty : M.
  Variable writer : Type.
  Variable w_validate : writer -> option Z.
  Variable w_merge : writer -> M -> M -> M.
  Variable rmask : Type.
  Variable clock_at : Z -> Z.
  Variable str_ltb : string -> string -> bool.
  Variable idfun : option (string -> string).
  Variable v0 v1 : bool.

  Notation wopts := (wopts M writer).
  Notation call := (call M writer rmask).
  Notation state := (state M rmask).
  Notation apply_id := (apply_id idfun).
  Notation step := (step m_eqb m_empty w_validate w_merge clock_at str_ltb idfun v0 v1).

  Variable prog : list call.
  Variable cands : nat -> list string.

  (* id == "" && writeRequest.genEmptyID, after the interceptor has been applied to the given id *)
  Definition is_gen (c : call) : bool :=
    match c with
    | CUpdate id0 _ o => String.eqb (apply_id id0) "" && wo_gen_id o
    | _ => false
    end.

  Definition no_gen (o : wopts) : wopts :=
    mkW (wo_time o) (wo_writer o) (wo_expected o) (wo_expect_absent o) (wo_check o) (wo_allow_missing o)
        (wo_before o) (wo_after o) (wo_create o) (wo_created_cb o) false (wo_id_cb o).

  (* the call a generating call continues as once it has resolved candidate g: `id` is now the
     interceptor's image of g, and `id == ""` is never tested again with a chance of generating *)
  Definition subst_call (c : call) (r : option string) : call :=
    match r, c with
    | Some g, CUpdate id0 msg o => if is_gen c then CUpdate g msg (no_gen o) else c
    | _, _ => c
    end.

  Fixpoint subst_from (k : nat) (res : nat -> option string) (l : list call) : list call :=
    match l with
    | [] => []
    | c :: r => subst_call c (res k) :: subst_from (S k) res r
    end.
  Definition gprog (res : nat -> option string) : list call := subst_from 0 res prog.

  Record gstate := mkG {
    g_res : nat -> option string;      (* the candidate thread t's call resolved (what its id callback received) *)
    g_ids : nat -> list string;        (* id callback invocations of thread t *)
    g_created : nat -> Z;              (* created callback invocations of thread t *)
    g_st : state
  }.

  Definition upd {A} (f : nat -> A) (t : nat) (x : A) : nat -> A := fun k => if Nat.eqb k t then x else f k.

  (* does the first step of thread t resolve an id now?  Validate comes before GetAndUpdate, so a
     call whose message fails validation never reaches the generator *)
  Definition resolves (gs : gstate) (t : nat) : option (string * wopts) :=
    match nth_error prog t, nth_error (st_pcs (g_st gs)) t, g_res gs t with
    | Some (CUpdate id0 msg o as c), Some PStart, None =>
        if is_gen c then
          match w_validate (wo_writer o) with
          | Some _ => None
          | None =>
              match gen_id_from idfun (cands t) 10 (c_items (w_c (st_w (g_st gs)))) with
              | Some g => Some (g, o)
              | None => None
              end
          end
        else None
    | _, _, _ => None
    end.

  (* does this step of thread t allocate the provisional `created` message (and so fire the created
     callback, if one is registered)?  c: the call it runs NOW (resolved) *)
  Definition allocates (c : call) (p : pc M) (items : list (string * item M)) : bool :=
    match c, p with
    | CUpdate id0 msg o, PStart =>
        match w_validate (wo_writer o) with
        | Some _ => false
        | None => if is_gen c then false else snd (c_get_fn m_empty v0 o (apply_id id0) false items)
        end
    | CUpdate id0 msg o, PRead old false =>
        match change_fn m_eqb m_empty w_merge o msg old with
        | inr _ => false                  (* the second get is not reached *)
        | inl _ => snd (c_get_fn m_empty v0 o (apply_id id0) false items)
        end
    | _, _ => false
    end.

  Definition created_cb_of (c : call) : bool := match c with CUpdate _ _ o => wo_created_cb o | _ => false end.

  Definition gstep (t : nat) (gs : gstate) : gstate :=
    let s := g_st gs in
    let r := resolves gs t in
    let res' := match r with Some (g, _) => upd (g_res gs) t (Some g) | None => g_res gs end in
    let ids' := match r with
                | Some (g, o) => if wo_id_cb o then upd (g_ids gs) t (g_ids gs t ++ [g]) else g_ids gs
                | None => g_ids gs
                end in
    let created' :=
      match nth_error (gprog res') t, nth_error (st_pcs s) t with
      | Some c, Some p =>
          if created_cb_of c && allocates c p (c_items (w_c (st_w s)))
          then upd (g_created gs) t (g_created gs t + 1) else g_created gs
      | _, _ => g_created gs
      end in
    mkG res' ids' created' (step (gprog res') t s).

  Definition grun (sched : list nat) (gs : gstate) : gstate := fold_left (fun gs t => gstep t gs) sched gs.

  Definition ginit (v : vstate M) (c : cstate M) : gstate :=
    mkG (fun _ => None) (fun _ => []) (fun _ => 0) (init prog v c).
End GenLts.
