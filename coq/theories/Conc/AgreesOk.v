(* For a FORCED schedule the two halves of the C02 verdict are not independent: when the implementation
   agreed with the transition system (agrees c = true), the history it produced is accepted by the
   independent linearizability checker (C02_ok c = true) -- provided the side conditions collected in
   `forced_guard` hold.  The linearization handed to the (complete) checker is the witness order st_wit of
   Conc/Lts.v; what has to be shown is that the checker's view of the run -- invocation = twice the index of
   the thread's first schedule entry, response = twice the index of its last entry plus one, lost calls
   (Aborted / Unavailable) dropped -- is consistent with that witness:

     (a) the stamps of distinct threads are distinct           (every thread occurs in the schedule)
     (b) the effective calls are a permutation of the witness  (C02_linearizable (2) + the shape of outcomes)
     (c) the replay gives every call the observed result       (C02_linearizable (1) + list_match pc_matches)
     (d) real time                                             (C02_linearizable (3) + (4))
     (e) the final reads                                       (C02_linearizable (1))

   So a verdict 2 ("model agrees, predicate fails") on a forced-schedule case that meets the guard is
   impossible: a divergence of the two would be a bug of the checker's plumbing (hist_of, first_idx /
   last_idx, is_lost), and there is none. *)
From SC Require Import Base.Prelude Resource.Impl Resource.Spec Resource.Pull Resource.ImplProofs Resource.Flat
  Resource.FlatProofs Resource.Judge Conc.Lts Conc.LtsProofs Conc.FlatInst Conc.LossyPipe Conc.GenLts Conc.GenProofs
  Conc.Judge Conc.LinSound.
From Coq Require Import Permutation Sorted.

(* ---------- schedule indices ---------- *)
Lemma first_idx_ge t : forall sched k, k <= first_idx t k sched.
Proof.
  induction sched as [|x r IH]; intros k; simpl; [lia|].
  destruct (Nat.eqb x t); [lia|]. specialize (IH (k + 1)). lia.
Qed.

Lemma first_idx_le t : forall sched j k, nth_error sched j = Some t -> first_idx t k sched <= k + Z.of_nat j.
Proof.
  induction sched as [|x r IH]; intros [|j] k H; simpl in *; try discriminate.
  - inversion H; subst. rewrite Nat.eqb_refl. lia.
  - destruct (Nat.eqb x t); [lia|]. specialize (IH j (k + 1) H). lia.
Qed.

Lemma last_idx_keep t : forall sched k cur, cur < k -> cur <= last_idx t k cur sched.
Proof.
  induction sched as [|x r IH]; intros k cur H; simpl; [lia|].
  destruct (Nat.eqb x t).
  - assert (k <= last_idx t (k + 1) k r) by (apply IH; lia). lia.
  - apply IH. lia.
Qed.

Lemma last_idx_ge t : forall sched j k cur, cur < k -> nth_error sched j = Some t -> k + Z.of_nat j <= last_idx t k cur sched.
Proof.
  induction sched as [|x r IH]; intros [|j] k cur Hc H; simpl in *; try discriminate.
  - inversion H; subst. rewrite Nat.eqb_refl. assert (k <= last_idx t (k + 1) k r) by (apply last_idx_keep; lia). lia.
  - destruct (Nat.eqb x t).
    + assert (k + 1 + Z.of_nat j <= last_idx t (k + 1) k r) by (apply IH; [lia|exact H]). lia.
    + assert (k + 1 + Z.of_nat j <= last_idx t (k + 1) cur r) by (apply IH; [lia|exact H]). lia.
Qed.

Lemma first_idx_inj t1 t2 : forall sched k, In t1 sched -> first_idx t1 k sched = first_idx t2 k sched -> t1 = t2.
Proof.
  induction sched as [|x r IH]; intros k Hin E; [destruct Hin|]. simpl in E.
  destruct (Nat.eqb x t1) eqn:E1; destruct (Nat.eqb x t2) eqn:E2.
  - apply Nat.eqb_eq in E1, E2. congruence.
  - pose proof (first_idx_ge t2 r (k + 1)). lia.
  - pose proof (first_idx_ge t1 r (k + 1)). lia.
  - destruct Hin as [->|Hin]; [rewrite Nat.eqb_refl in E1; discriminate|]. eapply IH; eauto.
Qed.

(* ---------- the shape of outcomes; every finished thread occurs in the schedule (any algebra) ---------- *)
Section Shape.
  Variable M : Type.
  Variable m_eqb : M -> M -> bool.
  Variable m_empty : M.
  Variable writer : Type.
  Variable w_validate : writer -> option Z.
  Variable w_merge : writer -> M -> M -> M.
  Variable rmask : Type.
  Variable clock_at : Z -> Z.
  Variable str_ltb : string -> string -> bool.
  Variable idfun : option (string -> string).
  Variable prog : list (call M writer rmask).

  Notation trans := (trans m_eqb m_empty w_validate w_merge clock_at str_ltb idfun false (rmask := rmask)).
  Notation step := (step m_eqb m_empty w_validate w_merge clock_at str_ltb idfun false false prog).
  Notation run := (run m_eqb m_empty w_validate w_merge clock_at str_ltb idfun false false prog).
  Notation state := (state M rmask).

  (* Aborted-from-a-lost-race is an outcome of Set / Update only, Unavailable of Delete only *)
  Definition shape (c : call M writer rmask) (r : outcome M) : Prop :=
    match c, r with
    | CSet _ _, OVal _ | CUpdate _ _ _, OVal _ => True
    | CSet _ _, OLost k | CUpdate _ _ _, OLost k => k = 10
    | CDelete _ _, ODel _ _ => True
    | CDelete _ _, OLost k => k = 14
    | CSubV _, OSub | CSubC _, OSub | CSubID _ _, OSub => True
    | _, _ => False
    end.

  Lemma del_check_is_del (o : wopts M writer) seen r : del_check m_eqb o seen = Some r -> exists m e, r = ODel m e.
  Proof.
    unfold del_check. destruct seen as [[it st]|]; [|intros H; inversion H; eauto].
    destruct (match wo_check o with Some chk => chk (Some (it_body it)) | None => None end); [intros H; inversion H; eauto|].
    destruct (match wo_expected o with Some e => m_eqb (it_body it) e | None => true end); intros H; inversion H; eauto.
  Qed.

  Lemma trans_done_shape c p w r w' eff : trans c p w = Some (PDone r, w', eff) -> shape c r.
  Proof.
    unfold Lts.trans. destruct c, p; intros H; try discriminate.
    - destruct (w_validate (wo_writer o)); inversion H; exact I.
    - destruct (change_fn m_eqb m_empty w_merge o msg old); [|inversion H; exact I].
      destruct (om_eqb m_eqb old (v_val (w_v w))); [|inversion H; reflexivity].
      destruct (update_time clock_at o (v_reads (w_v w))); discriminate.
    - inversion H. exact I.
    - destruct (w_validate (wo_writer o)); [inversion H; exact I|].
      destruct (String.eqb (apply_id idfun id) "" && wo_gen_id o); [inversion H; exact I|].
      destruct (c_get_fn m_empty false o (apply_id idfun id) false (c_items (w_c w))) as [[b|code] cr]; inversion H; exact I.
    - destruct (change_fn m_eqb m_empty w_merge o msg old); [|inversion H; exact I].
      destruct (c_get_fn m_empty false o (apply_id idfun id) created (c_items (w_c w))) as [[b|code] cr]; [|inversion H; reflexivity].
      destruct (om_eqb m_eqb old (Some b)); [|inversion H; reflexivity].
      destruct (update_time clock_at o (c_reads (w_c w))); discriminate.
    - inversion H. exact I.
    - destruct (Nat.leb 5 attempt); [inversion H; reflexivity|].
      destruct (del_check m_eqb o seen) as [r0|] eqn:D.
      + inversion H; subst. destruct (del_check_is_del _ _ _ D) as (m & e & ->). exact I.
      + destruct (same_ptr seen (lookup_st (apply_id idfun id) w)); [|discriminate].
        destruct seen as [[it st]|]; [|discriminate].
        destruct (update_time clock_at o (c_reads (w_c w))). inversion H. exact I.
    - inversion H. exact I.
    - inversion H. exact I.
    - inversion H. exact I.
  Qed.

  Lemma step_pcs_cases t (s : state) :
    st_pcs (step t s) = st_pcs s \/
    exists c p p' w' eff, nth_error prog t = Some c /\ nth_error (st_pcs s) t = Some p /\
      trans c p (st_w s) = Some (p', w', eff) /\ st_pcs (step t s) = set_nth t p' (st_pcs s).
  Proof.
    unfold Lts.step. destruct (nth_error prog t) as [c|] eqn:P; [|left; reflexivity].
    destruct (nth_error (st_pcs s) t) as [p|] eqn:Q; [|left; reflexivity].
    destruct (trans c p (st_w s)) as [[[p' w'] eff]|] eqn:T; [|left; reflexivity].
    match goal with |- context [if ?g then _ else _] => destruct g end; [|left; reflexivity].
    right. exists c, p, p', w', eff. repeat split; auto.
  Qed.

  Definition shaped (s : state) : Prop :=
    forall t c r, nth_error prog t = Some c -> nth_error (st_pcs s) t = Some (PDone r) -> shape c r.

  Lemma shaped_step t s : shaped s -> shaped (step t s).
  Proof.
    intros H. destruct (step_pcs_cases t s) as [E|(c & p & p' & w' & eff & P & Q & T & E)];
      intros t' c' r' P' Q'; rewrite E in Q'.
    - eapply H; eauto.
    - destruct (Nat.eq_dec t t') as [<-|Hne].
      + rewrite nth_error_set_nth_same in Q' by (apply nth_error_Some; rewrite Q; discriminate).
        inversion Q'; subst. rewrite P in P'. inversion P'; subst. eapply trans_done_shape; eauto.
      + rewrite nth_error_set_nth_other in Q' by exact Hne. eapply H; eauto.
  Qed.

  Lemma shaped_run sched : forall s, shaped s -> shaped (run sched s).
  Proof.
    induction sched as [|u r IH]; intros s H; [exact H|].
    change (run (u :: r) s) with (run r (step u s)). apply IH. apply shaped_step. exact H.
  Qed.

  Lemma init_pcs v c t : nth_error (st_pcs (init prog v c)) t = option_map (fun _ => PStart) (nth_error prog t).
  Proof. unfold init. simpl. rewrite nth_error_map. reflexivity. Qed.

  Lemma shaped_init v c : shaped (init prog v c).
  Proof. intros t c' r P Q. rewrite init_pcs, P in Q. discriminate. Qed.

  Lemma run_pcs_notin sched : forall (s : state) t, ~ In t sched -> nth_error (st_pcs (run sched s)) t = nth_error (st_pcs s) t.
  Proof.
    induction sched as [|u r IH]; intros s t H; [reflexivity|].
    change (run (u :: r) s) with (run r (step u s)).
    rewrite IH by (intros X; apply H; right; exact X).
    apply step_pcs_other. intros ->. apply H. left. reflexivity.
  Qed.

  Lemma done_in_sched sched v c t :
    all_done (run sched (init prog v c)) = true -> (t < List.length prog)%nat -> In t sched.
  Proof.
    intros D L. destruct (in_dec Nat.eq_dec t sched) as [H|H]; [exact H|exfalso].
    pose proof (run_pcs_notin sched (init prog v c) t H) as E. rewrite init_pcs in E.
    destruct (nth_error prog t) eqn:P; [|apply nth_error_None in P; lia]. simpl in E.
    unfold all_done in D. rewrite forallb_forall in D. specialize (D _ (nth_error_In _ _ E)). discriminate.
  Qed.

  (* ---- a syntactic condition under which no call answers Aborted / Unavailable by itself ---- *)
  Definition lost_guard (r : outcome M) : bool :=
    match r with
    | OVal (inr k) => negb (k =? 10)
    | ODel _ (Some k) => negb (k =? 14)
    | _ => true
    end.

  (* validation and the caller's check never answer 10 (Set / Update) resp. 14 (Delete), and the call does not
     generate its id (in this transition system a generating call has no candidates: Aborted) *)
  Definition err_free (c : call M writer rmask) : Prop :=
    match c with
    | CSet _ o => w_validate (wo_writer o) <> Some 10 /\ (forall chk old, wo_check o = Some chk -> chk old <> Some 10)
    | CUpdate id _ o =>
        w_validate (wo_writer o) <> Some 10 /\ (forall chk old, wo_check o = Some chk -> chk old <> Some 10) /\
        String.eqb (apply_id idfun id) "" && wo_gen_id o = false
    | CDelete _ o => forall chk old, wo_check o = Some chk -> chk old <> Some 14
    | _ => True
    end.

  Lemma change_fn_err (o : wopts M writer) msg old k :
    change_fn m_eqb m_empty w_merge o msg old = inr k ->
    k = 9 \/ exists chk, wo_check o = Some chk /\ chk old = Some k.
  Proof.
    unfold change_fn.
    destruct (match wo_expected o with Some e => if om_eqb m_eqb old (Some e) then None else Some 9 | None => None end) as [c1|] eqn:E1.
    - intros H. inversion H; subst. left.
      destruct (wo_expected o); [|discriminate]. destruct (om_eqb m_eqb old (Some m)); inversion E1; reflexivity.
    - destruct (wo_check o) as [chk|]; [|discriminate].
      destruct (chk old) as [c2|] eqn:E2; [|discriminate]. intros H. inversion H; subst. right. eauto.
  Qed.

  Lemma neq10 k : k <> 10 -> negb (k =? 10) = true.
  Proof. intros H. apply negb_true_iff. apply Z.eqb_neq. exact H. Qed.

  Lemma trans_done_guard c p w r w' eff : err_free c -> trans c p w = Some (PDone r, w', eff) -> lost_guard r = true.
  Proof.
    unfold Lts.trans. destruct c, p; intros F H; try discriminate; simpl in F.
    - destruct F as [F1 F2]. destruct (w_validate (wo_writer o)) as [k|] eqn:V; inversion H; subst. simpl.
      apply neq10. congruence.
    - destruct F as [F1 F2]. destruct (change_fn m_eqb m_empty w_merge o msg old) as [nv|k] eqn:C.
      + destruct (om_eqb m_eqb old (v_val (w_v w))); [|inversion H; reflexivity].
        destruct (update_time clock_at o (v_reads (w_v w))); discriminate.
      + inversion H; subst. simpl. apply neq10. destruct (change_fn_err _ _ _ _ C) as [->|(chk & Hc & Hk)]; [lia|].
        intros ->. exact (F2 _ _ Hc Hk).
    - inversion H. reflexivity.
    - destruct F as (F1 & F2 & F3). destruct (w_validate (wo_writer o)) as [k|] eqn:V.
      + inversion H; subst. simpl. apply neq10. congruence.
      + rewrite F3 in H.
        unfold c_get_fn in H. destruct (lookup (apply_id idfun id) (c_items (w_c w))).
        * destruct (wo_expect_absent o); inversion H; reflexivity.
        * destruct (wo_create o); inversion H; reflexivity.
    - destruct F as (F1 & F2 & F3). destruct (change_fn m_eqb m_empty w_merge o msg old) as [nv|k] eqn:C.
      + destruct (c_get_fn m_empty false o (apply_id idfun id) created (c_items (w_c w))) as [[b|code] cr]; [|inversion H; reflexivity].
        destruct (om_eqb m_eqb old (Some b)); [|inversion H; reflexivity].
        destruct (update_time clock_at o (c_reads (w_c w))); discriminate.
      + inversion H; subst. simpl. apply neq10. destruct (change_fn_err _ _ _ _ C) as [->|(chk & Hc & Hk)]; [lia|].
        intros ->. exact (F2 _ _ Hc Hk).
    - inversion H. reflexivity.
    - destruct (Nat.leb 5 attempt); [inversion H; reflexivity|].
      destruct (del_check m_eqb o seen) as [r0|] eqn:D.
      + inversion H; subst. unfold del_check in D. destruct seen as [[it st]|].
        * destruct (wo_check o) as [chk|] eqn:Hc.
          -- destruct (chk (Some (it_body it))) as [k|] eqn:Hk.
             ++ inversion D; subst. simpl. apply negb_true_iff, Z.eqb_neq. intros ->. exact (F _ _ eq_refl Hk).
             ++ destruct (match wo_expected o with Some e => m_eqb (it_body it) e | None => true end); inversion D; reflexivity.
          -- destruct (match wo_expected o with Some e => m_eqb (it_body it) e | None => true end); inversion D; reflexivity.
        * inversion D. destruct (wo_allow_missing o); reflexivity.
      + destruct (same_ptr seen (lookup_st (apply_id idfun id) w)); [|discriminate].
        destruct seen as [[it st]|]; [|discriminate].
        destruct (update_time clock_at o (c_reads (w_c w))). inversion H. reflexivity.
    - inversion H. reflexivity.
    - inversion H. reflexivity.
    - inversion H. reflexivity.
  Qed.

  Lemma run_pcs_length sched : forall (s : state), List.length (st_pcs (run sched s)) = List.length (st_pcs s).
  Proof.
    induction sched as [|u r IH]; intros s; [reflexivity|].
    change (run (u :: r) s) with (run r (step u s)). rewrite IH.
    destruct (step_pcs_cases u s) as [E|(c & p & p' & w' & eff & _ & _ & _ & E)]; rewrite E; [reflexivity|apply length_set_nth].
  Qed.

  Definition guarded (s : state) : Prop :=
    forall t c r, nth_error prog t = Some c -> nth_error (st_pcs s) t = Some (PDone r) -> lost_guard r = true.

  Hypothesis prog_err_free : forall t c, nth_error prog t = Some c -> err_free c.

  Lemma guarded_step t s : guarded s -> guarded (step t s).
  Proof.
    intros H. destruct (step_pcs_cases t s) as [E|(c & p & p' & w' & eff & P & Q & T & E)];
      intros t' c' r' P' Q'; rewrite E in Q'.
    - eapply H; eauto.
    - destruct (Nat.eq_dec t t') as [<-|Hne].
      + rewrite nth_error_set_nth_same in Q' by (apply nth_error_Some; rewrite Q; discriminate).
        inversion Q'; subst. eapply trans_done_guard; [eapply prog_err_free; exact P|exact T].
      + rewrite nth_error_set_nth_other in Q' by exact Hne. eapply H; eauto.
  Qed.

  Lemma guarded_run sched : forall s, guarded s -> guarded (run sched s).
  Proof.
    induction sched as [|u r IH]; intros s H; [exact H|].
    change (run (u :: r) s) with (run r (step u s)). apply IH. apply guarded_step. exact H.
  Qed.

  Lemma guarded_init v c : guarded (init prog v c).
  Proof. intros t c' r P Q. rewrite init_pcs, P in Q. discriminate. Qed.
End Shape.
Arguments shape {M writer rmask} c r.
Arguments lost_guard {M} r.

(* ---------- small list facts ---------- *)
Lemma list_match_nth {A B} (f : A -> B -> bool) : forall a b t x,
  list_match f a b = true -> nth_error a t = Some x -> exists y, nth_error b t = Some y /\ f x y = true.
Proof.
  induction a as [|x0 a IH]; intros [|y0 b] t x H Hn; simpl in H; try discriminate; [destruct t; discriminate|].
  apply andb_true_iff in H. destruct H as [H1 H2]. destruct t; simpl in *.
  - inversion Hn; subst. eauto.
  - eapply IH; eauto.
Qed.

Lemma list_match_length {A B} (f : A -> B -> bool) : forall a b, list_match f a b = true -> List.length a = List.length b.
Proof.
  induction a as [|x0 a IH]; intros [|y0 b] H; simpl in H; try discriminate; [reflexivity|].
  apply andb_true_iff in H. destruct H as [_ H]. simpl. f_equal. apply IH. exact H.
Qed.

Lemma filter_map_comm {A B} (f : B -> bool) (g : A -> B) l : filter f (map g l) = map g (filter (fun x => f (g x)) l).
Proof. induction l as [|x r IH]; simpl; [reflexivity|]. destruct (f (g x)); simpl; rewrite IH; reflexivity. Qed.

Lemma filter_filter {A} (f g : A -> bool) l : filter f (filter g l) = filter (fun x => g x && f x) l.
Proof.
  induction l as [|x r IH]; simpl; [reflexivity|]. destruct (g x); simpl; [|exact IH].
  destruct (f x); rewrite IH; reflexivity.
Qed.

(* ---------- the history of a forced schedule, thread by thread ---------- *)
Definition dcall : fcall := FSubV (mkFRO None false None).
Definition dout : fout := mkFO None 0.

Definition hc (prog : list fcall) (results : list fout) (sched : list nat) (t : nat) : hcall :=
  mkH (nth t prog dcall) (2 * first_idx t 0 sched) (2 * last_idx t 0 (-1) sched + 1) (nth t results dout).

Lemma hist_of_map P0 R0 sched : forall prog results pre preR,
  P0 = pre ++ prog -> R0 = preR ++ results -> List.length pre = List.length preR ->
  List.length prog = List.length results ->
  hist_of (List.length pre) prog results sched = map (hc P0 R0 sched) (seq (List.length pre) (List.length prog)).
Proof.
  induction prog as [|c pr IH]; intros [|b rr] pre preR EP ER L1 L2; simpl in L2; try discriminate; [reflexivity|].
  simpl. f_equal.
  - unfold hc. f_equal.
    + rewrite EP, app_nth2, Nat.sub_diag by lia. reflexivity.
    + rewrite ER, L1, app_nth2, Nat.sub_diag by lia. reflexivity.
  - replace (S (List.length pre)) with (List.length (pre ++ [c])) by (rewrite app_length; simpl; lia).
    apply (IH rr (pre ++ [c]) (preR ++ [b])).
    + rewrite <- app_assoc. exact EP.
    + rewrite <- app_assoc. exact ER.
    + rewrite !app_length. simpl. lia.
    + lia.
Qed.

Lemma hist_of_hc prog results sched : List.length prog = List.length results ->
  hist_of 0 prog results sched = map (hc prog results sched) (seq 0 (List.length prog)).
Proof. intros L. apply (hist_of_map prog results sched prog results [] []); auto. Qed.

(* which outcomes are in the linearization witness *)
Definition in_wit_b (r : loutcome) : bool := match r with OVal _ | ODel _ _ => true | _ => false end.

(* no CHECK / validation of the run answered Aborted for a Set / Update or Unavailable for a Delete itself (the
   checker reads these codes as "lost a race, no effect") *)
Definition no_check_lost (pcs : list (pc fmsg)) : bool :=
  forallb (fun p => match p with PDone r => lost_guard r | _ => true end) pcs.

Lemma eff_class rw c r b inv resp :
  shape (to_call_w rw c) r -> out_matches r b = true -> lost_guard r = true ->
  is_write_call c && negb (is_lost (mkH c inv resp b)) = in_wit_b r.
Proof.
  intros S O G.
  destruct c, r as [[m|k]|m [k|]|k|]; simpl in S; try contradiction; simpl in *; unfold is_lost; simpl;
    repeat match goal with H : _ && _ = true |- _ => apply andb_true_iff in H; destruct H end;
    repeat match goal with H : (_ =? _) = true |- _ => apply Z.eqb_eq in H end;
    try match goal with H : fo_code b = _ |- _ => rewrite H end; subst; try reflexivity; try exact G;
    try (destruct pid; simpl in S; contradiction).
Qed.

Fixpoint sorted_keys_b (l : list string) : bool :=
  match l with
  | [] => true
  | a :: r => (match r with [] => true | b :: _ => str_ltb a b end) && sorted_keys_b r
  end.
Lemma sorted_keys_b_ok l : sorted_keys_b l = true -> sorted_keys str_ltb l.
Proof.
  induction l as [|a r IH]; simpl; [auto|]. intros H. apply andb_true_iff in H. destruct H as [H1 H2].
  split; [destruct r; auto|apply IH; exact H2].
Qed.

Section Forced.
  Variable rw : option (list fld).
  Variable i : option idf.
  Variable vinit : option fmsg.
  Variable cinit : list (string * fmsg * Z).
  Variable prog : list fcall.
  Variable sched : list nat.
  Variable results : list fout.
  Variable fv : option fmsg.
  Variable fc : list (string * fmsg).

  Notation P := (map (to_call_w rw) prog).
  Notation s := (f_run_w rw model_v0 i prog sched vinit cinit).
  Notation n := (List.length prog).
  Notation hcs := (hc prog results sched).
  Notation wit := (st_wit s).

  Hypothesis Hsorted : sorted str_ltb (c_items (init_c cinit)).
  Hypothesis Hdone : all_done s = true.
  Hypothesis Hres : list_match pc_matches (st_pcs s) results = true.
  Hypothesis Hfin : final_matches (LtsProofs.mem (st_w s)) fv fc = true.
  Hypothesis Hcodes : forallb allowed_code (filter (fun h => is_write_call (h_call h)) (hist_of 0 prog results sched)) = true.
  Hypothesis Hnl : no_check_lost (st_pcs s) = true.

  Let I : Inv fmsg_eqb fzero fw_validate fw_merge fclock str_ltb (idfun_of i) P (init_v vinit) (init_c cinit) sched s :=
    @inv_run _ fmsg_eqb fzero _ fw_validate fw_merge (list fld) fclock str_ltb (idfun_of i)
             fmsg_eqb_eq str_ltb_irrefl str_ltb_trans str_ltb_total P (init_v vinit) (init_c cinit) Hsorted sched.

  Lemma len_pcs : List.length (st_pcs s) = n.
  Proof. rewrite (i_len I). apply map_length. Qed.

  Lemma len_results : List.length results = n.
  Proof. rewrite <- len_pcs. symmetry. eapply list_match_length; eauto. Qed.

  (* everything about thread t < n *)
  Lemma thread_facts t : (t < n)%nat ->
    exists r b, nth_error prog t = Some (nth t prog dcall) /\ nth_error P t = Some (to_call_w rw (nth t prog dcall)) /\
                nth_error (st_pcs s) t = Some (PDone r) /\ nth_error results t = Some b /\ nth t results dout = b /\
                out_matches r b = true /\ shape (to_call_w rw (nth t prog dcall)) r /\ lost_guard r = true /\ In t sched.
  Proof.
    intros L.
    assert (E1 : nth_error prog t = Some (nth t prog dcall)) by (apply nth_error_nth'; exact L).
    assert (E2 : nth_error P t = Some (to_call_w rw (nth t prog dcall))) by (apply map_nth_error; exact E1).
    destruct (nth_error (st_pcs s) t) as [p|] eqn:Q; [|apply nth_error_None in Q; rewrite len_pcs in Q; lia].
    pose proof Hdone as D. unfold all_done in D. rewrite forallb_forall in D.
    pose proof (D _ (nth_error_In _ _ Q)) as Dp. destruct p; try discriminate.
    destruct (list_match_nth _ _ _ _ _ Hres Q) as (b & Hb & Hm). simpl in Hm.
    exists r, b. repeat split; auto.
    - apply nth_error_nth. exact Hb.
    - eapply shaped_run; [apply shaped_init|exact E2|exact Q].
    - pose proof Hnl as G. unfold no_check_lost in G. rewrite forallb_forall in G.
      exact (G _ (nth_error_In _ _ Q)).
    - eapply done_in_sched; [exact Hdone|rewrite map_length; exact L].
  Qed.

  Lemma wit_tid_lt e : In e wit -> (wit_tid e < n)%nat.
  Proof.
    intros H.
    assert (V : nth_error P (wit_tid e) <> None).
    { eapply (@wit_tids_valid _ fmsg_eqb fzero _ fw_validate fw_merge (list fld) fclock str_ltb (idfun_of i)
                fmsg_eqb_eq str_ltb_irrefl str_ltb_trans str_ltb_total P (init_v vinit) (init_c cinit) Hsorted sched).
      apply in_map. exact H. }
    apply nth_error_Some in V. rewrite map_length in V. exact V.
  Qed.

  (* a finished thread is in the witness iff its outcome is a reference outcome, and then with that outcome *)
  Lemma wit_of_thread t r : (t < n)%nat -> nth_error (st_pcs s) t = Some (PDone r) ->
    if in_wit_b r then exists k, wit_of t wit = [(t, r, k)] else wit_of t wit = [].
  Proof.
    intros L Q. destruct (thread_facts _ L) as (r' & b & E1 & E2 & Q' & _).
    pose proof (@returned_is_linearized _ fmsg_eqb fzero _ fw_validate fw_merge (list fld) fclock str_ltb (idfun_of i)
                fmsg_eqb_eq str_ltb_irrefl str_ltb_trans str_ltb_total P (init_v vinit) (init_c cinit) Hsorted sched
                t _ r E2 Q) as R.
    destruct r; simpl; exact R.
  Qed.

  Definition eff_t (t : nat) : bool := is_write_call (h_call (hcs t)) && negb (is_lost (hcs t)).

  Lemma eff_t_wit t : (t < n)%nat -> (eff_t t = true <-> In t (map (@wit_tid fmsg) wit)).
  Proof.
    intros L. destruct (thread_facts _ L) as (r & b & E1 & E2 & Q & Hb & Hnb & Hm & Hs & Hg & Hin).
    assert (E : eff_t t = in_wit_b r).
    { unfold eff_t, hc. simpl. rewrite Hnb. apply (eff_class rw); assumption. }
    rewrite E. pose proof (wit_of_thread _ _ L Q) as W. destruct (in_wit_b r).
    - destruct W as (k & W). split; [intros _|reflexivity].
      apply in_map_iff. exists (t, r, k). split; [reflexivity|].
      eapply wit_of_single. exact W.
    - split; [discriminate|]. intros H. apply in_map_iff in H. destruct H as (e & He & Hi).
      assert (X : In e (wit_of t wit)) by (unfold wit_of; apply filter_In; split; [exact Hi|apply Nat.eqb_eq; exact He]).
      rewrite W in X. destruct X.
  Qed.

  Lemma wit_of_short t : (List.length (wit_of t wit) <= 1)%nat.
  Proof.
    destruct (lt_dec t n) as [L|L].
    - destruct (thread_facts _ L) as (r & b & _ & _ & Q & _).
      pose proof (wit_of_thread _ _ L Q) as W. destruct (in_wit_b r); [destruct W as (k & ->)|rewrite W]; simpl; lia.
    - destruct (wit_of t wit) as [|e l] eqn:W; [simpl; lia|exfalso].
      assert (X : In e (wit_of t wit)) by (rewrite W; left; reflexivity).
      apply wit_of_in in X. destruct X as [X <-]. apply L. apply wit_tid_lt. exact X.
  Qed.

  Lemma nodup_tids : forall (w : list (nat * loutcome * nat)),
    (forall t, (List.length (wit_of t w) <= 1)%nat) -> NoDup (map (@wit_tid fmsg) w).
  Proof.
    induction w as [|e r IH]; intros H; [constructor|]. simpl. constructor.
    - intros X. apply in_map_iff in X. destruct X as (e' & He & Hi).
      specialize (H (wit_tid e)). unfold wit_of in H. simpl in H. rewrite Nat.eqb_refl in H. simpl in H.
      assert (Y : In e' (filter (fun e0 => Nat.eqb (wit_tid e0) (wit_tid e)) r))
        by (apply filter_In; split; [exact Hi|apply Nat.eqb_eq; exact He]).
      destruct (filter (fun e0 => Nat.eqb (wit_tid e0) (wit_tid e)) r); [destruct Y|simpl in H; lia].
    - apply IH. intros t. specialize (H t). unfold wit_of in *. simpl in H.
      destruct (Nat.eqb (wit_tid e) t); simpl in H; lia.
  Qed.

  Lemma perm_tids : Permutation (map (@wit_tid fmsg) wit) (filter eff_t (seq 0 n)).
  Proof.
    apply NoDup_Permutation.
    - apply nodup_tids. exact wit_of_short.
    - apply NoDup_filter. apply seq_NoDup.
    - intros t. rewrite filter_In, in_seq. split.
      + intros H. assert (L : (t < n)%nat).
        { apply in_map_iff in H. destruct H as (e & <- & He). apply wit_tid_lt. exact He. }
        split; [lia|]. apply eff_t_wit; assumption.
      + intros [L H]. apply eff_t_wit; [lia|exact H].
  Qed.

  Lemma hist_eq : hist_of 0 prog results sched = map hcs (seq 0 n).
  Proof. apply hist_of_hc. symmetry. exact len_results. Qed.

  Lemma effective_eq : effective (hist_of 0 prog results sched) = map hcs (filter eff_t (seq 0 n)).
  Proof.
    unfold effective. rewrite hist_eq, filter_map_comm, filter_map_comm, filter_filter. reflexivity.
  Qed.

  (* (a) distinct stamps *)
  Lemma keys_distinct_hcs : forall l, NoDup l -> (forall t, In t l -> In t sched) -> keys_distinct (map hcs l) = true.
  Proof.
    induction l as [|x r IH]; intros ND Hin; [reflexivity|]. inversion ND; subst. simpl.
    rewrite IH by (auto; intros; apply Hin; right; assumption). rewrite andb_true_r.
    apply negb_true_iff. destruct (existsb (hcall_key_eqb (hcs x)) (map hcs r)) eqn:E; [|reflexivity].
    apply existsb_exists in E. destruct E as (h & Hh & K). apply in_map_iff in Hh. destruct Hh as (y & <- & Hy).
    unfold hcall_key_eqb, hc in K. cbn [h_inv h_resp] in K. apply andb_true_iff in K. destruct K as [K _]. apply Z.eqb_eq in K.
    assert (x = y) by (eapply (first_idx_inj x y sched 0); [apply Hin; left; reflexivity|lia]).
    subst. contradiction.
  Qed.

  Lemma eff_in_sched t : In t (filter eff_t (seq 0 n)) -> In t sched.
  Proof.
    rewrite filter_In, in_seq. intros [L _]. assert (L' : (t < n)%nat) by lia.
    destruct (thread_facts _ L') as (r & b & _ & _ & _ & _ & _ & _ & _ & _ & H). exact H.
  Qed.

  (* (d) real time *)
  Lemma stamps_ordered ta tb ka kb :
    nth_error sched ka = Some ta -> nth_error sched kb = Some tb -> (ka < kb)%nat -> precedes (hcs tb) (hcs ta) = false.
  Proof.
    intros Ha Hb L. unfold precedes, hc. cbn [h_inv h_resp]. apply Z.ltb_ge.
    pose proof (first_idx_le ta sched ka 0 Ha). pose proof (last_idx_ge tb sched kb 0 (-1) ltac:(lia) Hb). lia.
  Qed.

  Lemma rt_ok_wit : forall (w : list (nat * loutcome * nat)),
    StronglySorted (fun a b => (wit_k a < wit_k b)%nat) w ->
    (forall e, In e w -> nth_error sched (wit_k e) = Some (wit_tid e)) ->
    rt_ok (map (fun e => hcs (wit_tid e)) w).
  Proof.
    induction w as [|a r IH]; intros SS H; [exact Logic.I|]. inversion SS; subst. simpl. split.
    - intros b Hb. apply in_map_iff in Hb. destruct Hb as (e & <- & He).
      rewrite Forall_forall in H3. eapply stamps_ordered; [apply H; left; reflexivity|apply H; right; exact He|apply H3; exact He].
    - apply IH; [assumption|]. intros e He. apply H. right. exact He.
  Qed.

  (* (c) + (e) the replay *)
  Definition good (e : nat * loutcome * nat) : Prop :=
    (wit_tid e < n)%nat /\ exists b, nth_error results (wit_tid e) = Some b /\ out_matches (wit_out e) b = true.

  Lemma wit_good e : In e wit -> good e.
  Proof.
    intros H. pose proof (wit_tid_lt _ H) as L. split; [exact L|].
    destruct (thread_facts _ L) as (r & b & _ & _ & Q & Hb & _ & Hm & _).
    exists b. split; [exact Hb|].
    pose proof (wit_of_thread _ _ L Q) as W.
    assert (X : In e (wit_of (wit_tid e) wit)) by (unfold wit_of; apply filter_In; split; [exact H|apply Nat.eqb_refl]).
    destruct (in_wit_b r); [|rewrite W in X; destruct X].
    destruct W as (k & W). rewrite W in X. destruct X as [<-|[]]. exact Hm.
  Qed.

  Lemma replay_seq_ok : forall (w : list (nat * loutcome * nat)) vc vc',
    replay fmsg_eqb fzero fw_validate fw_merge fclock str_ltb (idfun_of i) P vc (map (@wit_tid fmsg) w) = (vc', map (@wit_out fmsg) w) ->
    (forall e, In e w -> good e) -> final_matches vc' fv fc = true ->
    seq_ok rw i vc (map (fun e => hcs (wit_tid e)) w) fv fc.
  Proof.
    induction w as [|e r IH]; intros vc vc' R G F.
    - simpl in R. inversion R; subst. exact F.
    - destruct (G e (or_introl eq_refl)) as (L & b & Hb & Hm).
      assert (E1 : nth_error prog (wit_tid e) = Some (nth (wit_tid e) prog dcall)) by (apply nth_error_nth'; exact L).
      assert (E2 : nth_error P (wit_tid e) = Some (to_call_w rw (nth (wit_tid e) prog dcall))) by (apply map_nth_error; exact E1).
      simpl in R. rewrite E2 in R.
      destruct (Lts.spec_call fmsg_eqb fzero fw_validate fw_merge fclock str_ltb (idfun_of i) vc (to_call_w rw (nth (wit_tid e) prog dcall)))
        as [vc1 o] eqn:S1.
      destruct (replay fmsg_eqb fzero fw_validate fw_merge fclock str_ltb (idfun_of i) P vc1 (map (@wit_tid fmsg) r)) as [vc2 os] eqn:R1.
      inversion R; subst.
      simpl. unfold f_spec_call. rewrite S1. simpl. split.
      + rewrite (nth_error_nth _ _ dout Hb). exact Hm.
      + eapply IH; [rewrite R1; f_equal; assumption| |exact F]. intros e' He'. apply G. right. exact He'.
  Qed.

  Theorem forced_ok : linearizable_b rw i vinit cinit (hist_of 0 prog results sched) fv fc = true.
  Proof.
    apply linearizable_b_complete with (order := map (fun e => hcs (wit_tid e)) wit).
    - exact Hcodes.
    - rewrite effective_eq. apply keys_distinct_hcs; [apply NoDup_filter, seq_NoDup|exact eff_in_sched].
    - rewrite effective_eq. intros h Hh. apply in_map_iff in Hh. destruct Hh as (t & <- & Ht).
      apply eff_in_sched in Ht. apply In_nth_error in Ht. destruct Ht as (j & Hj).
      unfold hc. cbn [h_inv h_resp].
      pose proof (first_idx_le t sched j 0 Hj). pose proof (last_idx_ge t sched j 0 (-1) ltac:(lia) Hj). lia.
    - split; [|split].
      + rewrite effective_eq, <- map_map. apply Permutation_map. exact perm_tids.
      + apply rt_ok_wit; [apply (i_ks I)|apply (i_rt I)].
      + eapply replay_seq_ok; [apply (i_replay I)|exact wit_good|exact Hfin].
  Qed.
End Forced.

(* ---------- without subscribers lacking backpressure the pipeline layer is the plain run ---------- *)
Section Plain.
  Variable M rmask writer : Type.
  Variable r_filter : rmask -> M -> M.
  Variable eqv : option (option M -> option M -> bool).
  Variable id_tok : string -> Z.
  Variable tok_idf : Z -> string.
  Variable val_tok : M -> Z.
  Variable tok_valf : Z -> option M.
  Variable m_eqb : M -> M -> bool.
  Variable m_empty : M.
  Variable w_validate : writer -> option Z.
  Variable w_merge : writer -> M -> M -> M.
  Variable clock_at : Z -> Z.
  Variable str_ltb : string -> string -> bool.
  Variable idfun : option (string -> string).
  Variable v0 v1 : bool.
  Variable prog : list (call M writer rmask).
  Variable lossy_of : nat -> option (option string).
  Hypothesis no_lossy : forall t, lossy_of t = None.

  Lemma open_new_none s : open_new r_filter eqv tok_idf tok_valf lossy_of s [] = [].
  Proof.
    unfold open_new. simpl. induction (st_csubs s) as [|u r IH]; [reflexivity|].
    simpl. rewrite no_lossy. exact IH.
  Qed.

  Lemma lrun_plain : forall sched s,
    lrun r_filter eqv id_tok tok_idf val_tok tok_valf m_eqb m_empty w_validate w_merge clock_at str_ltb idfun v0 v1 prog lossy_of
         (map SThread sched) (s, []) =
    (run m_eqb m_empty w_validate w_merge clock_at str_ltb idfun v0 v1 prog sched s, []).
  Proof.
    induction sched as [|t r IH]; intros s; [reflexivity|].
    unfold lrun in *. simpl. rewrite open_new_none. apply IH.
  Qed.
End Plain.

Lemma no_lossy_at prog t : has_lossy prog = false ->
  match nth_error prog t with Some (FSubL _ _) => False | _ => True end.
Proof.
  intros H. destruct (nth_error prog t) as [c|] eqn:E; [|exact Logic.I].
  destruct c; try exact Logic.I. apply nth_error_In in E.
  unfold has_lossy in H. assert (X : existsb (fun c => match c with FSubL _ _ => true | _ => false end) prog = true)
    by (apply existsb_exists; eexists; split; [exact E|reflexivity]).
  congruence.
Qed.

Lemma classify_plain prog : has_lossy prog = false -> forall sched cnt, classify prog cnt sched = map SThread sched.
Proof.
  intros H. induction sched as [|t r IH]; intros cnt; [reflexivity|]. simpl.
  assert (E : own_steps prog t = None).
  { unfold own_steps. pose proof (no_lossy_at prog t H) as X. destruct (nth_error prog t) as [[]|]; try reflexivity; contradiction. }
  rewrite E, IH. reflexivity.
Qed.

Lemma threads_of_plain sched : threads_of (map SThread sched) = sched.
Proof. induction sched as [|t r IH]; simpl; [reflexivity|]. f_equal. exact IH. Qed.

Lemma f_lrun_plain rw v0 i prog sched vinit cinit : has_lossy prog = false ->
  f_lrun_w rw v0 i prog sched vinit cinit = (f_run_w rw v0 i prog sched vinit cinit, []).
Proof.
  intros H. unfold f_lrun_w, f_lrun_gen_w, f_run_w, f_run_gen_w.
  rewrite (classify_plain prog H), threads_of_plain. cbv zeta.
  rewrite lrun_plain; [reflexivity|].
  intros t. unfold lossy_of_prog. pose proof (no_lossy_at prog t H) as X.
  destruct (nth_error prog t) as [[]|]; try reflexivity; contradiction.
Qed.

(* ---------- the theorem on correspondence cases ---------- *)
(* the side conditions, all computable from the case:
     - no subscriber without backpressure (the pipeline layer of Conc/LossyPipe.v is then the plain run);
     - the initial contents are sorted by id (the harness fills the collection through Update);
     - every returned code is one the call can return at all (fw_validate can answer 13, a check any code:
       the checker rejects those outright, whatever the model says);
     - no check / validation of the run ITSELF answered Aborted (10) for a Set / Update or Unavailable (14)
       for a Delete: the checker reads these two codes as "lost a race, had no effect" and could not tell. *)
Definition forced_guard_at (rw : option (list fld)) (i : option idf) (vinit : option fmsg) (cinit : list (string * fmsg * Z))
           (prog : list fcall) (sched : list nat) (results : list fout) : bool :=
  negb (has_lossy prog) &&
  sorted_keys_b (keys (c_items (init_c cinit))) &&
  forallb allowed_code (filter (fun h => is_write_call (h_call h)) (hist_of 0 prog results sched)) &&
  no_check_lost (st_pcs (f_run_w rw model_v0 i prog sched vinit cinit)).

Definition forced_guard (c : ccase) : bool :=
  match c with
  | CaseSched i vinit cinit prog sched results _ _ _ _ _ => forced_guard_at None i vinit cinit prog sched results
  | CaseCfg cfg i vinit cinit prog sched results _ _ _ _ _ => forced_guard_at (cf_writable cfg) i vinit cinit prog sched results
  | _ => false
  end.

Lemma agrees_sched_ok rw eq i vinit cinit prog sched results fv fc vs cs closed :
  forced_guard_at rw i vinit cinit prog sched results = true ->
  agrees_sched rw eq i vinit cinit prog sched results fv fc vs cs closed = true ->
  linearizable_b rw i vinit cinit (hist_of 0 prog results sched) fv fc = true.
Proof.
  unfold forced_guard_at. intros G A.
  apply andb_true_iff in G. destruct G as [G G4]. apply andb_true_iff in G. destruct G as [G G3].
  apply andb_true_iff in G. destruct G as [G1 G2]. apply negb_true_iff in G1.
  unfold agrees_sched in A. rewrite (f_lrun_plain rw model_v0 i prog sched vinit cinit G1) in A.
  repeat (apply andb_true_iff in A; destruct A as [A ?]).
  apply forced_ok; try assumption.
  - apply sorted_keys_b_ok. exact G2.
  - unfold final_matches, LtsProofs.mem. simpl. apply andb_true_iff. split; assumption.
Qed.

Theorem agrees_implies_C02_ok c : forced_guard c = true -> agrees c = true -> C02_ok c = true.
Proof.
  destruct c; simpl; try discriminate; intros G A.
  - eapply agrees_sched_ok; eauto.
  - apply andb_true_iff in A. destruct A as [_ A]. eapply agrees_sched_ok; eauto.
Qed.

(* hence verdict 2 ("the model agrees, the predicate fails") is impossible on a guarded forced-schedule case *)
Corollary judge02_never_2 c : forced_guard c = true -> judge02 c <> 2.
Proof.
  intros G. unfold judge02, verdict. destruct (agrees c) eqn:A; [|destruct (C02_ok c); discriminate].
  rewrite (agrees_implies_C02_ok c G A). discriminate.
Qed.

(* ---------- a purely syntactic guard ----------
   The one model-dependent conjunct of forced_guard (no check of the run answered 10 / 14 itself) follows from a
   condition on the PROGRAM TEXT: the code of every WithExpectedCheck callback is not 10 (Set / Update / Add) resp.
   not 14 (Delete), and no call generates its id.  (Validation answers 3 or 13 only.) *)
Definition chk_code (c : chk) : Z := match c with CEq _ _ k | CFail k | CPresent k => k end.
Definition check_code_not (o : fwo) (k : Z) : bool :=
  match o_check o with Some c => negb (chk_code c =? k) | None => true end.
Definition call_static_ok (i : option idf) (c : fcall) : bool :=
  match c with
  | FSet _ o => check_code_not o 10
  | FUpdate _ _ o | FAdd _ _ o => check_code_not o 10 && negb (f_is_gen i c)
  | FDelete _ o => check_code_not o 14
  | _ => true
  end.

Lemma fw_validate_codes w k : fw_validate w = Some k -> k = 3 \/ k = 13.
Proof.
  unfold fw_validate. destruct (fw_update w) as [u|].
  - destruct (Flat.mem Fbad u); [intros H; inversion H; auto|].
    destruct (fw_writable w) as [wr|].
    + destruct (forallb (fun x => Flat.mem x wr) u); [|intros H; inversion H; auto].
      destruct (fw_reset w) as [r|]; [|discriminate]. destruct (Flat.mem Fbad r); intros H; inversion H; auto.
    + destruct (fw_reset w) as [r|]; [|discriminate]. destruct (Flat.mem Fbad r); intros H; inversion H; auto.
  - destruct (fw_reset w) as [r|]; [|discriminate]. destruct (Flat.mem Fbad r); intros H; inversion H; auto.
Qed.

Lemma interp_chk_code c old k : interp_chk c old = Some k -> k = chk_code c.
Proof.
  destruct c; simpl.
  - destruct (old_field f old =? k0); intros H; inversion H; reflexivity.
  - intros H; inversion H; reflexivity.
  - destruct old; intros H; inversion H; reflexivity.
Qed.

Lemma check_not_ok rw (o : fwo) k : check_code_not o k = true ->
  forall chk old, wo_check (to_wopts rw o) = Some chk -> chk old <> Some k.
Proof.
  unfold check_code_not. simpl. destruct (o_check o) as [c|]; simpl; [|discriminate].
  intros H chk old E. inversion E; subst. intros X. apply interp_chk_code in X. subst.
  apply negb_true_iff in H. rewrite Z.eqb_refl in H. discriminate.
Qed.

Lemma validate_not_10 rw (o : fwo) : fw_validate (wo_writer (to_wopts rw o)) <> Some 10.
Proof. intros H. destruct (fw_validate_codes _ _ H); discriminate. Qed.

Lemma static_err_free rw i c : call_static_ok i c = true ->
  @err_free _ _ fw_validate _ (idfun_of i) (to_call_w rw c).
Proof.
  destruct c; simpl; intros H; try exact Logic.I.
  - split; [apply validate_not_10|apply (check_not_ok rw); exact H].
  - apply andb_true_iff in H. destruct H as [H1 H2]. apply negb_true_iff in H2.
    split; [apply validate_not_10|]. split; [apply (check_not_ok rw); exact H1|exact H2].
  - apply andb_true_iff in H. destruct H as [H1 H2]. apply negb_true_iff in H2.
    split; [apply validate_not_10|]. split; [apply (check_not_ok rw); exact H1|exact H2].
  - apply (check_not_ok rw). exact H.
  - destruct pid; exact Logic.I.
Qed.

Lemma static_no_check_lost rw i prog sched vinit cinit :
  forallb (call_static_ok i) prog = true ->
  no_check_lost (st_pcs (f_run_w rw model_v0 i prog sched vinit cinit)) = true.
Proof.
  intros H. unfold no_check_lost. apply forallb_forall. intros p Hp.
  destruct p; try reflexivity. apply In_nth_error in Hp. destruct Hp as (t & Ht).
  assert (L : (t < List.length (st_pcs (f_run_w rw model_v0 i prog sched vinit cinit)))%nat)
    by (apply nth_error_Some; rewrite Ht; discriminate).
  destruct (nth_error (map (to_call_w rw) prog) t) as [c|] eqn:P.
  - eapply (@guarded_run _ fmsg_eqb fzero _ fw_validate fw_merge (list fld) fclock str_ltb (idfun_of i) (map (to_call_w rw) prog));
      [|apply guarded_init|exact P|exact Ht].
    intros t' c' P'. rewrite nth_error_map in P'. destruct (nth_error prog t') as [fc|] eqn:Q; [|discriminate].
    inversion P'; subst. apply static_err_free. rewrite forallb_forall in H. apply H. eapply nth_error_In; eauto.
  - (* no such thread: the pcs have the length of the program *)
    exfalso. unfold f_run_w, f_run_gen_w in L. rewrite run_pcs_length in L. simpl in L. rewrite !map_length in L.
    apply nth_error_None in P. rewrite map_length in P. lia.
Qed.

Definition forced_guard_static_at (i : option idf) (cinit : list (string * fmsg * Z))
           (prog : list fcall) (sched : list nat) (results : list fout) : bool :=
  negb (has_lossy prog) &&
  sorted_keys_b (keys (c_items (init_c cinit))) &&
  forallb allowed_code (filter (fun h => is_write_call (h_call h)) (hist_of 0 prog results sched)) &&
  forallb (call_static_ok i) prog.

(* nothing in it runs the model *)
Definition forced_guard_static (c : ccase) : bool :=
  match c with
  | CaseSched i _ cinit prog sched results _ _ _ _ _ => forced_guard_static_at i cinit prog sched results
  | CaseCfg _ i _ cinit prog sched results _ _ _ _ _ => forced_guard_static_at i cinit prog sched results
  | _ => false
  end.

Lemma forced_guard_static_ok c : forced_guard_static c = true -> forced_guard c = true.
Proof.
  destruct c; simpl; try discriminate; unfold forced_guard_static_at, forced_guard_at; intros H;
    apply andb_true_iff in H; destruct H as [H H4]; rewrite H; simpl; apply static_no_check_lost; exact H4.
Qed.

Theorem agrees_implies_C02_ok_static c : forced_guard_static c = true -> agrees c = true -> C02_ok c = true.
Proof. intros G. apply agrees_implies_C02_ok. apply forced_guard_static_ok. exact G. Qed.
