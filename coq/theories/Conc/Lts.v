(* Concurrent callers of pkg/resource as a labelled transition system (C02, C03).

   One Value and one Collection are shared by threads that run ONE call each: Value.Set,
   Collection.Update (Add = Update with as_add), Collection.Delete, Value.Pull, Collection.Pull.
   An atomic step of a thread is exactly the code between two verifhook yield points (at all of
   which the thread holds no lock), so a forced schedule of the implementation is a schedule here:

     Set / Update   [start .. gau.read]        Validate; get() under RLock: id lookup, AlreadyExists,
                                               NotFound, provisional `created` message
                    [gau.read .. *.publish]    change() on the value read (a failing precondition ends
                                               the call); Lock; get() again; proto.Equal against the
                                               first read; save, or Aborted
                    [*.publish .. end]         bus.Send to the listeners present now
     Delete         [start .. del.read]        first read under RLock
                    [del.* .. del.retry/end]   checks on what was read; Lock; pointer-identity recheck;
                                               delete + publish under the lock, or retry (5 attempts,
                                               then Unavailable)
     Pull           [start .. end]             snapshot + Listen (both under the read lock)

   Publication is TICKETED (pkg/resource/turnstile.go): every commit takes the next number of its
   resource under the write lock (st_cntv / st_cntc), and its publication enters a turnstile that
   lets the commits through in the order of their numbers (st_leftv / st_leftc = the number of the
   last commit that has left).  A Set / Update parked at *.publish holds its number (st_tkt); its
   publish step is ENABLED only when every earlier commit has left.  A Delete commits and
   publishes under the write lock: in the code it would take the lock, commit, and wait in the
   turnstile HOLDING the lock until the earlier publications have left (which need no lock).
   Nothing else can touch the collection meanwhile, so that execution is the one in which the
   Delete takes the lock only when the turnstile is free: the committing Delete step is modelled
   as DISABLED while an earlier commit is unpublished, not as a blocking step.  A disabled step
   named by a schedule changes nothing (it is counted in st_stutter, like an entry naming an
   ended thread).  v1 = true switches the turnstile off: the code before that repair.

   Pointer identity of *item is a version stamp: every save allocates a new item, modelled by a
   stamp taken from a global save counter.  Over the abstract message algebra of Resource/Impl.v.
   No proofs here. *)
From SC Require Import Base.Prelude Resource.Impl Resource.Spec Resource.Pull.

Set Implicit Arguments.

Fixpoint set_nth {A} (n : nat) (x : A) (l : list A) : list A :=
  match l, n with
  | [], _ => []
  | _ :: r, O => x :: r
  | y :: r, S n' => y :: set_nth n' x r
  end.

Definition olist {A} (o : option A) : list A := match o with Some x => [x] | None => [] end.

Section Lts.
  Variable M : Type.
  Variable m_eqb : M -> M -> bool.
  Variable m_empty : M.
  Variable writer : Type.
  Variable w_validate : writer -> option Z.
  Variable w_merge : writer -> M -> M -> M.
  Variable rmask : Type.
  Variable clock_at : Z -> Z.
  Variable str_ltb : string -> string -> bool.
  Variable idfun : option (string -> string).
  (* true: the pinned commit, whose get closure returns the provisional `created` message on the
     second read without looking at the map; false: the repaired code *)
  Variable v0 : bool.

  Notation wopts := (wopts M writer).
  Notation vstate := (vstate M).
  Notation cstate := (cstate M).
  Notation vevent := (vevent M).
  Notation cevent := (cevent M).
  Notation item := (item M).
  Notation ropts := (ropts M rmask).
  Notation apply_id := (apply_id idfun).
  Notation change_fn := (change_fn m_eqb m_empty w_merge).
  Notation update_time := (update_time clock_at).

  (* ---- the shared memory ---- *)
  Record world := mkWd {
    w_v : vstate;                 (* Value: value, changeTime, clock readings *)
    w_c : cstate;                 (* Collection: byId (sorted association list), clock readings *)
    w_stamp : string -> Z;        (* identity of the *item stored under an id *)
    w_saves : Z                   (* number of items allocated so far *)
  }.

  (* ---- programs ---- *)
  Inductive call :=
  | CSet (msg : M) (o : wopts)                     (* Value.Set *)
  | CUpdate (id : string) (msg : M) (o : wopts)    (* Collection.Update; Add = as_add o *)
  | CDelete (id : string) (o : wopts)              (* Collection.Delete *)
  | CSubV (ro : ropts)                             (* Value.Pull, backpressured *)
  | CSubC (ro : ropts)                             (* Collection.Pull, backpressured *)
  | CSubID (id : string) (ro : ropts).             (* Collection.PullID: a Pull opened by its own goroutine,
                                                      filtered by Pull.pull_id_from *)

  Inductive outcome :=
  | OVal (r : M + Z)                      (* Set / Update: returned message, or gRPC code *)
  | ODel (r : option M) (e : option Z)    (* Delete: returned message and error code *)
  | OLost (code : Z)                      (* lost a race: Aborted (10) / Unavailable (14) *)
  | OSub.                                 (* Pull returned its channel *)

  (* where a thread is parked *)
  Inductive pc :=
  | PStart
  | PRead (old : option M) (created : bool)               (* gau.read *)
  | PSavedV (nv : M) (e : vevent)                         (* value.publish *)
  | PSavedC (nv : M) (e : cevent)                         (* coll.publish *)
  | PDel (seen : option (item * Z)) (attempt : nat)       (* del.read / del.retry *)
  | PDone (r : outcome)
  | POpen.                                                (* PullID has returned its channel; its goroutine,
                                                             parked at pullid.open, has not called Pull yet *)

  Inductive effect :=
  | ENone
  | EPubV (e : vevent) | EPubC (e : cevent)
  | ESubV (ro : ropts) | ESubC (ro : ropts).

  (* ---- collection.go Update: the get closure.  [created]: the closure variable is set ---- *)
  Definition c_get_fn (o : wopts) (id : string) (created : bool) (items : list (string * item))
    : (M + Z) * bool :=
    if created then
      (if v0 then (inl m_empty, true)
       else match lookup id items with
            | Some _ => (inr 10, true)          (* someone else created it meanwhile *)
            | None => (inl m_empty, true)
            end)
    else
      match lookup id items with
      | Some it => if wo_expect_absent o then (inr 6, false) else (inl (it_body it), false)
      | None => if wo_create o then (inl m_empty, true) else (inr 5, false)
      end.

  Definition lookup_st (id : string) (w : world) : option (item * Z) :=
    match lookup id (c_items (w_c w)) with
    | Some it => Some (it, w_stamp w id)
    | None => None
    end.

  (* oldVal2 != oldVal || exists2 != exists *)
  Definition same_ptr (a b : option (item * Z)) : bool :=
    match a, b with
    | Some (_, x), Some (_, y) => x =? y
    | None, None => true
    | _, _ => false
    end.

  (* collection.go Delete, the checks at the head of the loop body: Some r = the call returns r *)
  Definition del_check (o : wopts) (seen : option (item * Z)) : option outcome :=
    match seen with
    | None => Some (ODel None (if wo_allow_missing o then None else Some 5))
    | Some (it, _) =>
        let body := it_body it in
        match (match wo_check o with Some chk => chk (Some body) | None => None end) with
        | Some code => Some (ODel (Some body) (Some code))
        | None =>
            if match wo_expected o with Some e => m_eqb body e | None => true end
            then None else Some (ODel (Some body) (Some 9))
        end
    end.

  Definition set_v (w : world) (v : vstate) : world := mkWd v (w_c w) (w_stamp w) (w_saves w).

  (* one atomic step of a thread running call c, parked at p, on memory w *)
  Definition trans (c : call) (p : pc) (w : world) : option (pc * world * effect) :=
    match c, p with
    (* ---------- Value.Set ---------- *)
    | CSet msg o, PStart =>
        match w_validate (wo_writer o) with
        | Some code => Some (PDone (OVal (inr code)), w, ENone)
        | None => Some (PRead (v_val (w_v w)) false, w, ENone)
        end
    | CSet msg o, PRead old _ =>
        match change_fn o msg old with
        | inr code => Some (PDone (OVal (inr code)), w, ENone)
        | inl nv =>
            if om_eqb m_eqb old (v_val (w_v w)) then
              let '(t, reads) := update_time o (v_reads (w_v w)) in
              Some (PSavedV nv (mkVE nv t), set_v w (mkV (Some nv) t reads), ENone)
            else Some (PDone (OLost 10), w, ENone)
        end
    | CSet _ _, PSavedV nv e => Some (PDone (OVal (inl nv)), w, EPubV e)
    (* ---------- Collection.Update ---------- *)
    | CUpdate id0 msg o, PStart =>
        match w_validate (wo_writer o) with
        | Some code => Some (PDone (OVal (inr code)), w, ENone)
        | None =>
            (* WithGenIDIfAbsent and an empty id: in THIS transition system the rng of the call offers
               no candidate (the reference is replayed with cands = [] too), so GenerateUniqueId gives
               up: Aborted from the first get, nothing read, nothing written.  A call whose rng does
               offer candidates is a call of Conc/GenLts.v, which resolves the id at this step and
               continues as the Update of the resolved id. *)
            if String.eqb (apply_id id0) "" && wo_gen_id o then Some (PDone (OVal (inr 10)), w, ENone)
            else
            match c_get_fn o (apply_id id0) false (c_items (w_c w)) with
            | (inr code, _) => Some (PDone (OVal (inr code)), w, ENone)
            | (inl b, cr) => Some (PRead (Some b) cr, w, ENone)
            end
        end
    | CUpdate id0 msg o, PRead old cr =>
        let id := apply_id id0 in
        match change_fn o msg old with
        | inr code => Some (PDone (OVal (inr code)), w, ENone)
        | inl nv =>
            match c_get_fn o id cr (c_items (w_c w)) with
            | (inl b, cr') =>
                if om_eqb m_eqb old (Some b) then
                  let '(t, reads) := update_time o (c_reads (w_c w)) in
                  let e := mkCE id t (if cr' then KAdd else KUpdate) (if cr' then None else old) (Some nv) in
                  Some (PSavedC nv e,
                        mkWd (w_v w) (mkC (insert str_ltb id (mkItem nv t) (c_items (w_c w))) reads)
                             (fun k => if String.eqb k id then w_saves w + 1 else w_stamp w k)
                             (w_saves w + 1),
                        ENone)
                else Some (PDone (OLost 10), w, ENone)
            | (inr _, _) => Some (PDone (OLost 10), w, ENone)
            end
        end
    | CUpdate _ _ _, PSavedC nv e => Some (PDone (OVal (inl nv)), w, EPubC e)
    (* ---------- Collection.Delete ---------- *)
    | CDelete id0 o, PStart => Some (PDel (lookup_st (apply_id id0) w) 0, w, ENone)
    | CDelete id0 o, PDel seen n =>
        let id := apply_id id0 in
        if Nat.leb 5 n then Some (PDone (OLost 14), w, ENone)
        else
          match del_check o seen with
          | Some r => Some (PDone r, w, ENone)
          | None =>
              let seen2 := lookup_st id w in
              if same_ptr seen seen2 then
                match seen with
                | Some (it, _) =>
                    let '(t, reads) := update_time o (c_reads (w_c w)) in
                    Some (PDone (ODel (Some (it_body it)) None),
                          mkWd (w_v w) (mkC (remove id (c_items (w_c w))) reads) (w_stamp w) (w_saves w),
                          EPubC (mkCE id t KRemove (Some (it_body it)) None))
                | None => None     (* unreachable: del_check answers for an absent item *)
                end
              else Some (PDel seen2 (S n), w, ENone)
          end
    (* ---------- Pull ---------- *)
    | CSubV ro, PStart => Some (PDone OSub, w, ESubV ro)
    | CSubC ro, PStart => Some (PDone OSub, w, ESubC ro)
    (* PullID returns at once; the subscription point is wherever its goroutine gets to call Pull *)
    | CSubID _ ro, PStart => Some (POpen, w, ENone)
    | CSubID _ ro, POpen => Some (PDone OSub, w, ESubC ro)
    | _, _ => None
    end.

  (* ---- ghost: the outcome of a call as soon as it is determined ---- *)
  Definition predicted (c : call) (p : pc) : option outcome :=
    match p with
    | PStart => None
    | PRead old _ =>
        match c with
        | CSet msg o | CUpdate _ msg o =>
            match change_fn o msg old with inr code => Some (OVal (inr code)) | inl _ => None end
        | _ => None
        end
    | PSavedV nv _ | PSavedC nv _ => Some (OVal (inl nv))
    | PDel seen n =>
        match c with
        | CDelete _ o => if Nat.leb 5 n then None else del_check o seen
        | _ => None
        end
    | PDone r => match r with OLost _ | OSub => None | _ => Some r end
    | POpen => None
    end.

  (* ---- subscribers: the snapshot taken by onUpdate and the raw events delivered since ---- *)
  (* vs_left / cs_left (ghost): the last commit that had left the turnstile when the subscription was
     registered; cs_cnt: the commit counter read with the snapshot (the code's `seeded`) *)
  Record vsub := mkVS { vs_tid : nat; vs_ro : ropts; vs_at : vstate; vs_evs : list vevent; vs_left : nat }.
  (* cs_skip: the threads whose commit the snapshot already shows and whose publication is still to
     come.  The code numbers the commits and drops the changes numbered up to the snapshot's; with
     one call per thread those are exactly the publications of the threads parked at coll.publish
     when the snapshot is taken (a Delete publishes inside its commit step).  An updates-only
     subscription takes no snapshot and drops nothing. *)
  Record csub := mkCS { cs_tid : nat; cs_ro : ropts; cs_at : cstate; cs_evs : list cevent; cs_skip : list nat;
                        cs_left : nat; cs_cnt : nat }.

  Record state := mkSt {
    st_w : world;
    st_pcs : list pc;                          (* thread t is element t *)
    st_vsubs : list vsub;
    st_csubs : list csub;
    (* ghosts (st_pendc doubles as the set of commits a snapshot shows ahead of their publication) *)
    st_wit : list (nat * outcome * nat);       (* linearization order: thread, outcome, step index *)
    st_k : nat;                                (* steps executed *)
    st_stutter : nat;                          (* schedule entries naming no live thread *)
    st_pendv : list nat;                       (* ghost: committed, not yet published (commit order) *)
    st_pendc : list nat;                       (* same for the collection; read by a subscribe step (cs_skip) *)
    st_overlap : bool;                         (* a commit happened while another was unpublished *)
    st_reordered : bool;                       (* a publication overtook an earlier commit *)
    (* the turnstiles: commit counter and last commit that has left, per resource *)
    st_cntv : nat; st_leftv : nat;
    st_cntc : nat; st_leftc : nat;
    st_tkt : nat -> nat;                       (* the commit number a thread parked at *.publish holds *)
    (* ghost: every commit's event, in commit order (commit n is element n-1) *)
    st_logv : list vevent;
    st_logc : list cevent
  }.

  (* true: the code before the turnstile (publication not ordered with the commits) *)
  Variable v1 : bool.

  Variable prog : list call.

  Definition drop_tid (t : nat) (l : list nat) : list nat := filter (fun x => negb (Nat.eqb x t)) l.
  Definition is_nil {A} (l : list A) : bool := match l with [] => true | _ => false end.
  Definition head_is (t : nat) (l : list nat) : bool := match l with x :: _ => Nat.eqb x t | [] => false end.

  (* may the step of thread t (parked at p, about to have effect eff) proceed?  turnstile.enter(n)
     returns when done = n - 1 *)
  Definition gate_open (t : nat) (s : state) (p : pc) (eff : effect) : bool :=
    v1 ||
    match p, eff with
    | PSavedV _ _, _ => Nat.eqb (st_tkt s t) (S (st_leftv s))
    | PSavedC _ _, _ => Nat.eqb (st_tkt s t) (S (st_leftc s))
    | PDel _ _, EPubC _ => Nat.eqb (st_leftc s) (st_cntc s)     (* its own commit would be st_cntc + 1 *)
    | _, _ => true
    end.

  (* a schedule entry that names no live thread, or a thread whose step is disabled *)
  Definition stutter (s : state) : state :=
    mkSt (st_w s) (st_pcs s) (st_vsubs s) (st_csubs s) (st_wit s) (S (st_k s)) (S (st_stutter s))
         (st_pendv s) (st_pendc s) (st_overlap s) (st_reordered s)
         (st_cntv s) (st_leftv s) (st_cntc s) (st_leftc s) (st_tkt s) (st_logv s) (st_logc s).

  (* what a step does to the publication pipeline, read off its pcs and its effect *)
  Definition is_pv (p : pc) : bool := match p with PSavedV _ _ => true | _ => false end.
  Definition is_pc (p : pc) : bool := match p with PSavedC _ _ => true | _ => false end.
  Definition saved_v (p' : pc) : option vevent := match p' with PSavedV _ e => Some e | _ => None end.
  Definition saved_c (p' : pc) : option cevent := match p' with PSavedC _ e => Some e | _ => None end.
  (* a Delete commits and publishes in one step *)
  Definition del_ev (p : pc) (eff : effect) : option cevent :=
    match p, eff with PDel _ _, EPubC e => Some e | _, _ => None end.
  Definition is_some {A} (o : option A) : bool := match o with Some _ => true | None => false end.

  Definition step (t : nat) (s : state) : state :=
    match nth_error prog t, nth_error (st_pcs s) t with
    | Some c, Some p =>
        match trans c p (st_w s) with
        | Some (p', w', eff) =>
          if gate_open t s p eff then
            let wit' := match predicted c p, predicted c p' with
                        | None, Some r => st_wit s ++ [(t, r, st_k s)]
                        | _, _ => st_wit s
                        end in
            let del_commit := is_some (del_ev p eff) in
            let pendv' := if is_some (saved_v p') then st_pendv s ++ [t] else drop_tid t (st_pendv s) in
            let pendc' := if is_some (saved_c p') then st_pendc s ++ [t] else drop_tid t (st_pendc s) in
            let overlap' :=
              st_overlap s ||
              (if is_some (saved_v p') then negb (is_nil (st_pendv s))
               else if is_some (saved_c p') then negb (is_nil (st_pendc s))
               else del_commit && negb (is_nil (st_pendc s))) in
            let reordered' :=
              st_reordered s ||
              (if is_pv p then negb (head_is t (st_pendv s))
               else if is_pc p then negb (head_is t (st_pendc s))
               else del_commit && negb (is_nil (st_pendc s))) in
            let vsubs' := match eff with
                          | EPubV e => map (fun u => mkVS (vs_tid u) (vs_ro u) (vs_at u) (vs_evs u ++ [e]) (vs_left u)) (st_vsubs s)
                          | ESubV ro => st_vsubs s ++ [mkVS t ro (w_v (st_w s)) [] (st_leftv s)]
                          | _ => st_vsubs s
                          end in
            let csubs' := match eff with
                          | EPubC e => map (fun u => if existsb (Nat.eqb t) (cs_skip u) then u
                                                     else mkCS (cs_tid u) (cs_ro u) (cs_at u) (cs_evs u ++ [e]) (cs_skip u)
                                                               (cs_left u) (cs_cnt u))
                                           (st_csubs s)
                          | ESubC ro => st_csubs s ++ [mkCS t ro (w_c (st_w s)) [] (if v0 || ro_updates_only ro then [] else st_pendc s)
                                                            (st_leftc s) (st_cntc s)]
                          | _ => st_csubs s
                          end in
            (* the turnstiles: a save takes the next number; a publication leaves with its number;
               a Delete takes the next number and leaves at once *)
            let cntv' := if is_some (saved_v p') then S (st_cntv s) else st_cntv s in
            let leftv' := if is_pv p then st_tkt s t else st_leftv s in
            let cntc' := if is_some (saved_c p') || del_commit then S (st_cntc s) else st_cntc s in
            let leftc' := if is_pc p then st_tkt s t else if del_commit then S (st_cntc s) else st_leftc s in
            let tkt' := if is_some (saved_v p') then (fun x => if Nat.eqb x t then S (st_cntv s) else st_tkt s x)
                        else if is_some (saved_c p') then (fun x => if Nat.eqb x t then S (st_cntc s) else st_tkt s x)
                        else st_tkt s in
            let logv' := st_logv s ++ olist (saved_v p') in
            let logc' := st_logc s ++ olist (saved_c p') ++ olist (del_ev p eff) in
            mkSt w' (set_nth t p' (st_pcs s)) vsubs' csubs' wit' (S (st_k s)) (st_stutter s)
                 pendv' pendc' overlap' reordered' cntv' leftv' cntc' leftc' tkt' logv' logc'
          else stutter s
        | None => stutter s
        end
    | _, _ => stutter s
    end.

  (* would the step of thread t do something? *)
  Definition enabled (t : nat) (s : state) : bool :=
    match nth_error prog t, nth_error (st_pcs s) t with
    | Some c, Some p =>
        match trans c p (st_w s) with
        | Some (p', w', eff) => gate_open t s p eff
        | None => false
        end
    | _, _ => false
    end.

  (* a schedule: "let thread t run to its next yield point or its end" *)
  Definition run (sched : list nat) (s : state) : state := fold_left (fun s t => step t s) sched s.

  Definition init (v : vstate) (c : cstate) : state :=
    mkSt (mkWd v c (fun _ => 0) 0) (map (fun _ => PStart) prog) [] [] [] O O [] [] false false
         O O O O (fun _ => O) [] [].

  Definition is_done (p : pc) : bool := match p with PDone _ => true | _ => false end.
  Definition all_done (s : state) : bool := forallb is_done (st_pcs s).

  Definition result_of (p : pc) : option outcome := match p with PDone r => Some r | _ => None end.

  (* ---- the sequential reference for one call (Resource/Spec.v) ---- *)
  Definition spec_call (vc : vstate * cstate) (c : call) : (vstate * cstate) * outcome :=
    match c with
    | CSet msg o =>
        let '(v', r, _) := spec_v_set m_eqb m_empty w_validate w_merge clock_at (fst vc) msg o in
        ((v', snd vc), OVal r)
    | CUpdate id msg o =>
        let '(c', r, _, _) := spec_c_update m_eqb m_empty w_validate w_merge clock_at str_ltb idfun (snd vc) id msg o [] in
        ((fst vc, c'), OVal r)
    | CDelete id o =>
        let '(c', r, e, _) := spec_c_delete m_eqb clock_at idfun (snd vc) id o in
        ((fst vc, c'), ODel r e)
    | CSubV _ | CSubC _ | CSubID _ _ => (vc, OSub)
    end.

  (* replaying calls one at a time in a given order *)
  Fixpoint replay (vc : vstate * cstate) (order : list nat) : (vstate * cstate) * list outcome :=
    match order with
    | [] => (vc, [])
    | t :: r =>
        match nth_error prog t with
        | Some c =>
            let '(vc1, o) := spec_call vc c in
            let '(vc2, os) := replay vc1 r in
            (vc2, o :: os)
        | None => replay vc r
        end
    end.

  Definition mem_of (s : state) : vstate * cstate := (w_v (st_w s), w_c (st_w s)).

  (* reading the linearization witness *)
  Definition wit_tid (e : nat * outcome * nat) : nat := fst (fst e).
  Definition wit_out (e : nat * outcome * nat) : outcome := snd (fst e).
  Definition wit_k (e : nat * outcome * nat) : nat := snd e.
  Definition wit_of (t : nat) (wit : list (nat * outcome * nat)) : list (nat * outcome * nat) :=
    filter (fun e => Nat.eqb (wit_tid e) t) wit.
End Lts.


Arguments CSet {M writer rmask} msg o.
Arguments CUpdate {M writer rmask} id msg o.
Arguments CDelete {M writer rmask} id o.
Arguments CSubV {M writer rmask} ro.
Arguments CSubC {M writer rmask} ro.
Arguments CSubID {M writer rmask} id ro.
Arguments POpen {M}.
Arguments OLost {M} code.
Arguments OSub {M}.
Arguments PStart {M}.
Arguments ENone {M rmask}.
Arguments EPubV {M rmask} e.
Arguments EPubC {M rmask} e.
Arguments ESubV {M rmask} ro.
Arguments ESubC {M rmask} ro.
