(* C03: UPDATES-ONLY subscribers WITHOUT backpressure, as a closed theorem over programs, schedules
   and reader paces (the seeded case is Conc/LossyLayerProofs.v lossy_layer_converges).

   An updates-only Collection.Pull takes no snapshot and receives no seeds: there is no "snapshot"
   the merger's edit script could be valid on.  What there is (SubProofs.ci_chainu): contents L --
   the collection as of the last commit that had left the turnstile when the subscription was
   registered -- from which the deliveries lead, event by event, to the current contents.  The
   pipeline invariant LossyProofs.PI mentions the base list only through the seeds, and an
   updates-only subscription has none (PI_rebase), so the whole argument of the seeded case goes
   through with L in the place of the snapshot.  Nothing in Lts.v / LossyPipe.v / LossyProofs.v /
   LossyLayerProofs.v is changed. *)
From SC Require Import Base.Prelude Resource.Impl Resource.Spec Resource.Pull Resource.ImplProofs Resource.SpecProofs
  Resource.PullProofs Conc.Lts Conc.LtsProofs Conc.SubProofs Excess.Change Excess.MergeExcess Excess.MergeProofs
  Conc.LossyPipe Conc.LossyProofs Conc.LossyLayerProofs.

Set Implicit Arguments.

Section Rebase.
  Variable M : Type.
  Variable rmask : Type.
  Variable r_filter : rmask -> M -> M.
  Variable id_tok : string -> Z.
  Variable id_of : Z -> string.
  Variable val_tok : M -> Z.
  Variable val_of : Z -> option M.
  Notation PI := (@PI M rmask r_filter id_tok id_of val_tok val_of).

  Lemma allseeds_uo (ro : ropts M rmask) L : ro_updates_only ro = true -> allseeds r_filter ro L = [].
  Proof. intros U. unfold allseeds. rewrite U. reflexivity. Qed.

  (* the pipeline of an updates-only subscription does not depend on the base list *)
  Lemma PI_rebase L0 L1 ro evs l : ro_updates_only ro = true -> PI L0 ro evs l -> PI L1 ro evs l.
  Proof.
    intros U [A B C D E F G H]. constructor; try assumption.
    rewrite allseeds_uo by exact U. rewrite allseeds_uo in G by exact U. exact G.
  Qed.
End Rebase.

Section ClosedUo.
  Variable M : Type.
  Variable m_eqb : M -> M -> bool.
  Variable m_empty : M.
  Variable writer : Type.
  Variable w_validate : writer -> option Z.
  Variable w_merge : writer -> M -> M -> M.
  Variable rmask : Type.
  Variable r_filter : rmask -> M -> M.
  Variable clock_at : Z -> Z.
  Variable str_ltb : string -> string -> bool.
  Variable idfun : option (string -> string).

  Hypothesis m_eqb_eq : forall a b, m_eqb a b = true -> a = b.
  Hypothesis ltb_irrefl : forall a, str_ltb a a = false.
  Hypothesis ltb_trans : forall a b c, str_ltb a b = true -> str_ltb b c = true -> str_ltb a c = true.
  Hypothesis ltb_total : forall a b, str_ltb a b = false -> str_ltb b a = false -> a = b.

  Variable prog : list (call M writer rmask).
  Hypothesis prog_ok : forall t c, nth_error prog t = Some c -> call_ok idfun c.
  Variable v0 : vstate M.
  Variable c0 : cstate M.
  Hypothesis c0_sorted : sorted str_ltb (c_items c0).

  Notation run := (run m_eqb m_empty w_validate w_merge clock_at str_ltb idfun false false prog).
  Notation s0 := (s0 prog v0 c0).

  (* what an updates-only subscription (any mask, any include) has been delivered when the calls
     have returned leads, each event describing one transition, from SOME contents -- those as of
     the last commit that had left when it was registered -- to the final contents *)
  Theorem deliveries_chain_done_uo sched u :
    let s := run sched s0 in
    all_done s = true -> In u (st_csubs s) -> ro_updates_only (cs_ro u) = true ->
    exists L, chain L (cs_evs u) (c_items (w_c (st_w s))).
  Proof.
    simpl. intros D Hu UO.
    pose proof (tinv_run m_eqb m_empty w_validate w_merge r_filter clock_at str_ltb idfun m_eqb_eq ltb_irrefl ltb_trans
                  ltb_total prog prog_ok v0 c0 c0_sorted sched) as TI.
    destruct (done_all_left TI D) as [_ El].
    destruct (t_csubs TI _ Hu) as [_ _ _ E _ _ _ _ _ C]. destruct (C UO) as (L & CL).
    unfold from_c in E. rewrite UO, El, seg_all in E. rewrite <- E in CL.
    exists L. exact CL.
  Qed.

  Variable id_tok : string -> Z.
  Variable id_of : Z -> string.
  Variable val_tok : M -> Z.
  Variable val_of : Z -> option M.
  Variable lossy_of : nat -> option (option string).

  Notation lrun := (lrun r_filter None id_tok id_of val_tok val_of m_eqb m_empty w_validate w_merge clock_at str_ltb idfun
                         false false prog lossy_of).
  Notation tokview := (tokview id_tok id_of val_tok).
  Notation ev_wf := (ev_wf id_tok id_of).

  (* the closed composition for an UPDATES-ONLY Collection.Pull without backpressure: every program,
     every schedule of thread steps and single consumer receives *)
  Theorem lossy_layer_converges_updates_only sched l :
    let st := lrun sched (s0, []) in
    all_done (fst st) = true -> In l (snd st) -> lossy_of (ls_tid l) = Some None ->
    exists u, In u (st_csubs (fst st)) /\ cs_tid u = ls_tid l /\ ls_ro l = cs_ro u /\
      (ro_updates_only (cs_ro u) = true ->
       (forall e, In e (cs_evs u) -> id_of (id_tok (ce_id e)) = ce_id e) ->
       let X := c_items (w_c (st_w (fst st))) in
       exists L, chain L (cs_evs u) X /\
       (* at every moment *)
       (forall z, fold_view (pending (ls_m l)) (fold_view (ls_gotm l) (tokview L)) z = tokview X z) /\
       valid_script (ls_gotm l) (tokview L) = true /\
       ls_gotc l ++ olist (ls_slot l) ++ ls_seeds l = fmap (post r_filter None (cs_ro u)) (map (dec id_of val_of) (ls_gotm l)) /\
       (ls_slot l = None ->
        (forall z, fold_view (ls_gotm l) (tokview L) z = tokview X z) /\
        ls_gotc l = fmap (post r_filter None (cs_ro u)) (map (dec id_of val_of) (ls_gotm l)) /\
        queue (ls_m l) = []) /\
       (* a reader that keeps receiving *)
       (let l' := drained r_filter None id_of val_of l in
        ls_slot l' = None /\ queue (ls_m l') = [] /\
        (forall z, fold_view (ls_gotm l') (tokview L) z = tokview X z) /\
        valid_script (ls_gotm l') (tokview L) = true /\
        ls_gotc l' = fmap (post r_filter None (cs_ro u)) (map (dec id_of val_of) (ls_gotm l')))).
  Proof.
    intros st D Hl Lo.
    destruct (layer_run m_eqb m_empty w_validate w_merge r_filter clock_at str_ltb idfun prog v0 c0 id_tok id_of val_tok val_of
                        lossy_of sched) as [_ [_ L2]]. fold st in L2.
    destruct (L2 l Hl Lo) as (u & Hu & Et & _ & P).
    exists u. split; [exact Hu|]. split; [exact Et|]. split; [exact (pi_ro P)|].
    intros UO RT X.
    assert (Es : fst st = run (threads_of sched) s0).
    { unfold st. apply (lrun_projects r_filter None id_tok id_of val_tok val_of m_eqb m_empty w_validate w_merge clock_at
                                       str_ltb idfun false false prog lossy_of sched (s0, [])). }
    assert (C : exists L, chain L (cs_evs u) X).
    { unfold X. rewrite Es. apply deliveries_chain_done_uo; [rewrite <- Es; exact D|rewrite <- Es; exact Hu|exact UO]. }
    destruct C as (L & C). exists L. split; [exact C|].
    assert (W : Forall ev_wf (cs_evs u)).
    { assert (K : Forall (@kind_wf M) (cs_evs u)).
      { apply (deliveries_kinds_wf m_eqb m_empty w_validate w_merge r_filter clock_at str_ltb idfun m_eqb_eq ltb_irrefl
                 ltb_trans ltb_total prog prog_ok v0 c0 c0_sorted (threads_of sched)). rewrite <- Es. exact Hu. }
      apply Forall_forall. intros e He. split; [exact (proj1 (Forall_forall _ _) K e He)|apply RT, He]. }
    pose proof (PI_rebase L UO P) as PL.
    destruct (lossy_received_plus_pending PL C W) as (A & B & G).
    rewrite allseeds_uo in G by exact UO. simpl in G.
    split; [exact A|]. split; [exact B|]. split; [exact G|].
    split.
    - intros SL. destruct (lossy_caught_up PL C W SL) as (A1 & A2 & A3).
      rewrite allseeds_uo in A2 by exact UO. simpl in A2. split; [exact A1|]. split; [exact A2|exact A3].
    - intros l'. destruct (drained_catches_up PL) as [SL P']. fold l' in SL, P'.
      destruct (lossy_received_plus_pending P' C W) as (_ & B' & _).
      destruct (lossy_caught_up P' C W SL) as (A1 & A2 & A3).
      rewrite allseeds_uo in A2 by exact UO. simpl in A2.
      split; [exact SL|]. split; [exact A3|]. split; [exact A1|]. split; [exact B'|exact A2].
  Qed.
End ClosedUo.
