(* router.go with every source of per-call variation explicit.

   Registry.v fixes, per configuration, which names the fallback and the factory know.  Here each
   Get carries what the fallback and the factory WOULD return if called this time (a Factory is
   an arbitrary func(string) (any, error): it may fail once and succeed later, return a client
   together with an error, return a client that is already registered elsewhere), and the router
   is built from any subset of the options WithFallback / WithFactory / WithOnChange.
   invoke() is modelled in full: f == nil -> no call; otherwise one call and
   exists = child != nil && err == nil.  Results carry the number of fallback and factory calls made.
   No proofs here. *)
From SC Require Import Base.Prelude Router.Registry.

Inductive fout :=
| FNil                    (* nil, nil *)
| FErr                    (* nil, err *)
| FBoth (c : client)      (* c, err (both non-nil): not a client as far as invoke is concerned *)
| FOk (c : client).       (* c, nil *)

Record wopts := mkW { w_fb : bool; w_fac : bool; w_cb : bool }.

(* invoke(name, f) -> (child if exists, number of calls of f) *)
Definition invoke_w (configured : bool) (o : fout) : option client * Z :=
  if configured then
    match o with
    | FOk c => if c =? nil_client then (None, 1) else (Some c, 1)
    | _ => (None, 1)
    end
  else (None, 0).

Inductive wop := WAdd (n : string) (c : client) | WRemove (n : string) | WHas (n : string)
               | WGet (n : string) (fbo fao : fout).
Inductive wres := WR (r : rres) (fbcalls faccalls : Z).

Definition getW (o : wopts) (n : string) (fbo fao : fout) (s : state) : state * wres :=
  match get_read n s with
  | Some c => (s, WR (RGet (Got c)) 0 0)
  | None =>
      let '(r1, k1) := invoke_w (w_fb o) fbo in
      match r1 with
      | Some c => (s, WR (RGet (Got c)) k1 0)
      | None =>
          let '(r2, k2) := invoke_w (w_fac o) fao in
          match r2 with
          | Some c => let '(s2, c') := get_insert n c s in (s2, WR (RGet (Got c')) k1 k2)
          | None => (s, WR (RGet (NotFound n)) k1 k2)
          end
      end
  end.

Definition wstep (o : wopts) (s : state) (op : wop) : state * wres :=
  match op with
  | WAdd n c => let '(s', old) := add n c s in (s', WR (RClient old) 0 0)
  | WRemove n => let '(s', old) := rem n s in (s', WR (RClient old) 0 0)
  | WHas n => (s, WR (RBool (has n s)) 0 0)
  | WGet n fbo fao => getW o n fbo fao s
  end.

Fixpoint wrun (o : wopts) (s : state) (ops : list wop) : state * list wres :=
  match ops with
  | [] => (s, [])
  | op :: r => let '(s1, x) := wstep o s op in let '(s2, xs) := wrun o s1 r in (s2, x :: xs)
  end.

(* what the onChange callback saw: nothing when WithOnChange was not given *)
Definition wlog (o : wopts) (s : state) : list change := if w_cb o then slog s else [].

(* ---- specification: a plain functional map, the same oracles ---- *)
(* a Factory result counts as a client iff it is a non-nil client without an error *)
Definition yields (o : fout) : option client :=
  match o with FOk c => if c =? nil_client then None else Some c | _ => None end.

Definition pstepW (o : wopts) (s : pstate) (op : wop) : pstate * wres :=
  match op with
  | WAdd n c => (mkP (pset n c (pm s)) (plog s ++ [mkChange n (or_nil (pm s n)) c false]) (pnext s),
                 WR (RClient (or_nil (pm s n))) 0 0)
  | WRemove n =>
      match pm s n with
      | Some old => (mkP (pdel n (pm s)) (plog s ++ [mkChange n old nil_client false]) (pnext s), WR (RClient old) 0 0)
      | None => (s, WR (RClient nil_client) 0 0)
      end
  | WHas n => (s, WR (RBool (match pm s n with Some _ => true | None => false end)) 0 0)
  | WGet n fbo fao =>
      match pm s n with
      | Some c => (s, WR (RGet (Got c)) 0 0)
      | None =>
          let fbk := if w_fb o then 1 else 0 in
          match (if w_fb o then yields fbo else None) with
          | Some c => (s, WR (RGet (Got c)) fbk 0)
          | None =>
              let fack := if w_fac o then 1 else 0 in
              match (if w_fac o then yields fao else None) with
              | Some c => (mkP (pset n c (pm s)) (plog s ++ [mkChange n nil_client c true]) (pnext s),
                           WR (RGet (Got c)) fbk fack)
              | None => (s, WR (RGet (NotFound n)) fbk fack)
              end
          end
      end
  end.

Fixpoint prunW (o : wopts) (s : pstate) (ops : list wop) : pstate * list wres :=
  match ops with
  | [] => (s, [])
  | op :: r => let '(s1, x) := pstepW o s op in let '(s2, xs) := prunW o s1 r in (s2, x :: xs)
  end.

Definition wres_eqb (a b : wres) : bool :=
  let '(WR r1 a1 b1) := a in let '(WR r2 a2 b2) := b in rres_eqb r1 r2 && (a1 =? a2) && (b1 =? b2).

(* the oracles Registry.v's configuration gives a Get of n in state s *)
Definition fb_out (g : cfg) (n : string) : fout := match find n (fb g) with Some c => FOk c | None => FNil end.
Definition fac_out (g : cfg) (n : string) (s : state) : fout := if mem_str n (fac_ok g) then FOk (snext s) else FErr.

(* model-branch classes, for the coverage histogram *)
Definition wbranch (o : wopts) (s : state) (op : wop) : string :=
  match op with
  | WAdd n c => match find n (sreg s) with Some _ => "add:replace" | None => "add:new" end
  | WRemove n => match find n (sreg s) with Some _ => "remove:present" | None => "remove:absent" end
  | WHas n => match find n (sreg s) with Some _ => "has:true" | None => "has:false" end
  | WGet n fbo fao =>
      match find n (sreg s) with
      | Some _ => "get:registered"
      | None =>
          match fst (invoke_w (w_fb o) fbo) with
          | Some _ => "get:fallback"
          | None =>
              match fst (invoke_w (w_fac o) fao) with
              | Some _ => if w_fb o then "get:fallback-miss,factory" else "get:no-fallback,factory"
              | None => if w_fac o then "get:factory-miss,notfound" else "get:no-factory,notfound"
              end
          end
      end
  end%string.
