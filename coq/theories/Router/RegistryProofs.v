(* Proofs about Router/Registry.v: the registry refines a plain functional map for every
   operation sequence, its change log reconstructs the map and records the value replaced,
   and a Get that finds nothing changes nothing. *)
From SC Require Import Base.Prelude Router.Registry.

Lemma find_remove_eq : forall n r, find n (remove n r) = None.
Proof.
  intros n r. induction r as [|[k c] r IH]; cbn; auto.
  destruct (String.eqb k n) eqn:E; auto. cbn. rewrite E. exact IH.
Qed.

Lemma find_remove_neq : forall k n r, String.eqb n k = false -> find k (remove n r) = find k r.
Proof.
  intros k n r Hne. induction r as [|[k' c] r IH]; cbn; auto.
  destruct (String.eqb k' n) eqn:E.
  - apply String.eqb_eq in E. subst k'. rewrite Hne. exact IH.
  - cbn. destruct (String.eqb k' k); auto.
Qed.

Lemma find_set : forall k n c r, find k (set n c r) = if String.eqb k n then Some c else find k r.
Proof.
  intros k n c r. unfold set. cbn. rewrite (String.eqb_sym n k).
  destruct (String.eqb k n) eqn:E; auto.
  apply find_remove_neq. rewrite String.eqb_sym. exact E.
Qed.

Lemma find_remove : forall k n r, find k (remove n r) = if String.eqb k n then None else find k r.
Proof.
  intros k n r. destruct (String.eqb k n) eqn:E.
  - apply String.eqb_eq in E. subst. apply find_remove_eq.
  - apply find_remove_neq. rewrite String.eqb_sym. exact E.
Qed.

Local Arguments set : simpl never.
Local Arguments remove : simpl never.

(* ---- refinement ---- *)
Definition R (s : state) (p : pstate) : Prop :=
  (forall k, find k (sreg s) = pm p k) /\ slog s = plog p /\ snext s = pnext p.

Lemma R_init : forall z, R (init z) (mkP pempty [] z).
Proof. intros z. repeat split. Qed.

Lemma step_refines : forall g s p o, R s p ->
  snd (rstep g s o) = snd (pstep g p o) /\ R (fst (rstep g s o)) (fst (pstep g p o)).
Proof.
  intros g s p o [Hm [Hl Hn]]. destruct o as [n c|n|n|n]; cbn.
  - (* Add *) rewrite Hm, Hl, Hn. split; auto. repeat split; cbn; auto.
    intros k. rewrite find_set. unfold pset. rewrite Hm. reflexivity.
  - (* Remove *) unfold rem. rewrite Hm. destruct (pm p n) as [old|] eqn:E; cbn.
    + split; auto. repeat split; cbn; auto; try congruence.
      intros k. rewrite find_remove. unfold pdel. rewrite Hm. reflexivity.
    + split; auto. repeat split; auto.
  - (* Has *) unfold has. rewrite Hm. split; auto. repeat split; auto.
  - (* Get *) unfold get, get_read. rewrite Hm. destruct (pm p n) as [c|] eqn:E; cbn.
    + split; auto. repeat split; auto.
    + unfold get_make. destruct (invoke_fb g n) as [c|]; cbn.
      * split; auto. repeat split; auto.
      * destruct (mem_str n (fac_ok g)); cbn.
        -- unfold get_insert. cbn. rewrite Hm, E. cbn. rewrite Hn, Hl. split; auto.
           repeat split; cbn; auto. intros k. rewrite find_set. unfold pset. rewrite Hm. reflexivity.
        -- split; auto. repeat split; auto.
Qed.

Theorem registry_is_map : forall g ops s p, R s p ->
  snd (rrun g s ops) = snd (prun g p ops) /\ R (fst (rrun g s ops)) (fst (prun g p ops)).
Proof.
  intros g ops. induction ops as [|o ops IH]; intros s p HR; cbn.
  - split; auto.
  - destruct (step_refines g s p o HR) as [Hr HR'].
    destruct (rstep g s o) as [s1 x] eqn:E1. destruct (pstep g p o) as [p1 y] eqn:E2. cbn in Hr, HR'.
    specialize (IH s1 p1 HR'). destruct IH as [Hrs HR2].
    destruct (rrun g s1 ops) as [s2 xs]. destruct (prun g p1 ops) as [p2 ys]. cbn in *.
    split; [congruence|exact HR2].
Qed.

(* ---- the change log is exactly the sequence of transitions ---- *)
Definition ops_nonnil (ops : list rop) : bool :=
  forallb (fun o => match o with OAdd _ c => negb (c =? nil_client) | _ => true end) ops.

(* every entry's Old is what the map held just before the entry was applied *)
Fixpoint log_consistent (m : pmap) (l : list change) : Prop :=
  match l with
  | [] => True
  | c :: r => or_nil (m (cname c)) = cold c /\ log_consistent (apply_change m c) r
  end.

Lemma log_consistent_ext : forall l m m', (forall k, m k = m' k) -> log_consistent m l -> log_consistent m' l.
Proof.
  induction l as [|c l IH]; intros m m' He H; cbn in *; auto.
  destruct H as [H1 H2]. split. { rewrite <- He. exact H1. }
  apply (IH (apply_change m c)); auto.
  intros k. unfold apply_change, pdel, pset. destruct (cnew c =? nil_client); destruct (String.eqb k (cname c)); auto.
Qed.

Lemma fold_apply_ext : forall l m m', (forall k, m k = m' k) ->
  forall k, fold_left apply_change l m k = fold_left apply_change l m' k.
Proof.
  induction l as [|c l IH]; intros m m' He k; cbn; auto.
  apply IH. intros k'. unfold apply_change, pdel, pset.
  destruct (cnew c =? nil_client); destruct (String.eqb k' (cname c)); auto.
Qed.

Lemma log_consistent_app : forall l m c, log_consistent m l ->
  or_nil (fold_left apply_change l m (cname c)) = cold c -> log_consistent m (l ++ [c]).
Proof.
  induction l as [|d l IH]; intros m c H Hc; cbn in *; auto.
  destruct H as [H1 H2]. split; auto.
Qed.

Definition PInv (p : pstate) : Prop :=
  (forall k, replay (plog p) k = pm p k) /\ log_consistent pempty (plog p) /\ 0 < pnext p /\
  (forall k c, pm p k = Some c -> c <> nil_client).

Lemma replay_app : forall l c k, replay (l ++ [c]) k = apply_change (replay l) c k.
Proof. intros. unfold replay. rewrite fold_left_app. reflexivity. Qed.

Local Arguments replay : simpl never.

Lemma pstep_inv : forall g p o, PInv p ->
  (match o with OAdd _ c => c <> nil_client | _ => True end) -> PInv (fst (pstep g p o)).
Proof.
  intros g p o [Hr [Hc [Hn Hnz]]] Ho. destruct o as [n c|n|n|n]; cbn.
  - assert (Hz : (c =? nil_client) = false) by (apply Z.eqb_neq; exact Ho).
    repeat split; cbn; auto.
    + intros k. rewrite replay_app. unfold apply_change. cbn. rewrite Hz. unfold pset. rewrite Hr. reflexivity.
    + apply log_consistent_app; auto. cbn. fold (replay (plog p)). rewrite Hr. reflexivity.
    + intros k c'. unfold pset. destruct (String.eqb k n); [intros H; inversion H; subst; auto|apply Hnz].
  - destruct (pm p n) as [old|] eqn:E; cbn; [|repeat split; auto].
    repeat split; cbn; auto.
    + intros k. rewrite replay_app. unfold apply_change. cbn. unfold pdel. rewrite Hr. reflexivity.
    + apply log_consistent_app; auto. cbn. fold (replay (plog p)). rewrite Hr, E. reflexivity.
    + intros k c'. unfold pdel. destruct (String.eqb k n); [discriminate|apply Hnz].
  - repeat split; auto.
  - destruct (pm p n) as [c|] eqn:E; cbn; [repeat split; auto|].
    destruct (invoke_fb g n); cbn; [repeat split; auto|].
    destruct (mem_str n (fac_ok g)); cbn; [|repeat split; auto].
    assert (Hz : (pnext p =? nil_client) = false) by (apply Z.eqb_neq; unfold nil_client; lia).
    repeat split; cbn; auto; try lia.
    + intros k. rewrite replay_app. unfold apply_change. cbn. rewrite Hz. unfold pset. rewrite Hr. reflexivity.
    + apply log_consistent_app; auto. cbn. fold (replay (plog p)). rewrite Hr, E. reflexivity.
    + intros k c'. unfold pset. destruct (String.eqb k n); [intros H; inversion H; subst; unfold nil_client; lia|apply Hnz].
Qed.

Lemma prun_inv : forall g ops p, PInv p -> ops_nonnil ops = true -> PInv (fst (prun g p ops)).
Proof.
  intros g ops. induction ops as [|o ops IH]; intros p Hp Hnn; cbn; auto.
  cbn in Hnn. apply andb_true_iff in Hnn. destruct Hnn as [Ho Hnn].
  assert (Hp1 : PInv (fst (pstep g p o))).
  { apply pstep_inv; auto. destruct o; auto. apply negb_true_iff in Ho. apply Z.eqb_neq in Ho. exact Ho. }
  destruct (pstep g p o) as [p1 y]. cbn in Hp1. specialize (IH p1 Hp1 Hnn).
  destruct (prun g p1 ops) as [p2 ys]. exact IH.
Qed.

(* the log of the implementation model replays to the registry it ends with, and each entry
   reports the value it replaced *)
Theorem log_is_transitions : forall g first ops, 0 < first -> ops_nonnil ops = true ->
  let s := fst (rrun g (init first) ops) in
  (forall k, replay (slog s) k = find k (sreg s)) /\ log_consistent pempty (slog s).
Proof.
  intros g first ops Hf Hnn s.
  destruct (registry_is_map g ops (init first) (mkP pempty [] first) (R_init first)) as [_ [Hm [Hl _]]].
  assert (HP : PInv (fst (prun g (mkP pempty [] first) ops))).
  { apply prun_inv; auto. repeat split; cbn; auto. intros k c H. discriminate. }
  destruct HP as [Hr [Hc _]]. subst s. rewrite Hl. split; auto.
  intros k. rewrite Hr, Hm. reflexivity.
Qed.

(* with nil clients (which only the untyped Add accepts) the log is ambiguous: an Add of nil on
   an absent name and a Remove of a name holding nil produce the same entry *)
Theorem log_nil_client_ambiguous :
  exists g ops1 ops2,
    slog (fst (rrun g (init 1) ops1)) = slog (fst (rrun g (init 1) ops2)) /\
    has "a" (fst (rrun g (init 1) ops1)) <> has "a" (fst (rrun g (init 1) ops2)).
Proof.
  exists (mkCfg [] []), [OAdd "a" 0; OAdd "a" 0]%string, [OAdd "a" 0; ORemove "a"]%string.
  vm_compute. split; [reflexivity|discriminate].
Qed.

(* ---- a Get that finds nothing touches nothing ---- *)
Theorem notfound_touches_nothing : forall g n s s' m, get g n s = (s', NotFound m) -> s' = s /\ m = n.
Proof.
  intros g n s s' m. unfold get, get_read, get_make.
  destruct (find n (sreg s)); [intros H; inversion H|].
  destruct (invoke_fb g n); [intros H; inversion H|].
  destruct (mem_str n (fac_ok g)).
  - unfold get_insert. cbn. destruct (find n (sreg s)); intros H; inversion H.
  - intros H. inversion H. auto.
Qed.

(* Has and Get agree on what is registered *)
Theorem has_get_agree : forall g n s, has n s = true -> exists c, get g n s = (s, Got c) /\ find n (sreg s) = Some c.
Proof.
  intros g n s. unfold has, get, get_read. destruct (find n (sreg s)) as [c|]; [|discriminate].
  intros _. exists c. auto.
Qed.

(* Get returns a client exactly when the registry, the fallback or the factory has one; only the
   factory case changes the registry, by exactly the new binding and one Auto change *)
Theorem get_cases : forall g n s,
  match find n (sreg s), invoke_fb g n, mem_str n (fac_ok g) with
  | Some c, _, _ => get g n s = (s, Got c)
  | None, Some c, _ => get g n s = (s, Got c)
  | None, None, true =>
      get g n s = (mkState (set n (snext s) (sreg s)) (slog s ++ [mkChange n nil_client (snext s) true]) (snext s + 1), Got (snext s))
  | None, None, false => get g n s = (s, NotFound n)
  end.
Proof.
  intros g n s. unfold get, get_read, get_make.
  destruct (find n (sreg s)) eqn:E; auto.
  destruct (invoke_fb g n); auto.
  destruct (mem_str n (fac_ok g)); auto.
  unfold get_insert. cbn. rewrite E. reflexivity.
Qed.
