(* Model of pkg/middleware/name/defaults.go: replaceEmptyNameField and the two interceptors.
   A request is classified by what the reflection calls of replaceEmptyNameField see; the rest
   of the message is an opaque payload that must not change.  No proofs here. *)
From SC Require Import Base.Prelude.

Inductive reqshape :=
| NotMessage                      (* req is not a proto.Message *)
| NoNameField                     (* no field with text name "name" *)
| NameNotString                   (* the name field is not of string kind *)
| NameRepeated (n : Z)            (* repeated string name: Value.String() of a list is never "" *)
| NameString (s : string).        (* singular string field holding s *)

Record request := mkReq { shape : reqshape; payload : Z }.

Definition replace_empty_name (r : request) (name : string) : request :=
  match shape r with
  | NameString s => if String.eqb s "" then mkReq (NameString name) (payload r) else r
  | _ => r
  end.

(* IfAbsentUnaryInterceptor(name): the handler sees the (in-place modified) request *)
Definition unary_interceptor (name : string) (r : request) : request := replace_empty_name r name.

(* absentNameReplaceServerStream.RecvMsg: only after a successful RecvMsg *)
Definition stream_recv (name : string) (recv_ok : bool) (r : request) : request :=
  if recv_ok then replace_empty_name r name else r.

Definition shape_eqb (a b : reqshape) : bool :=
  match a, b with
  | NotMessage, NotMessage | NoNameField, NoNameField | NameNotString, NameNotString => true
  | NameRepeated x, NameRepeated y => x =? y
  | NameString x, NameString y => String.eqb x y
  | _, _ => false
  end.
Definition request_eqb (a b : request) : bool := shape_eqb (shape a) (shape b) && (payload a =? payload b).

(* ---- sequences of requests of arbitrary message types through one interceptor ----
   A message type is its full name and its fields (number, text name, kind); a message value
   lists, for every field of its type, the field number and a canonical rendering of its
   content ("" for an unset/empty singular string).  replaceEmptyNameField looks the field up
   by the text name "name" in the descriptor of THIS message on every call; it keeps no state
   between calls, so a sequence is processed request by request. *)
Inductive fkind := FString | FRepString | FOther.
Record fdesc := mkF { fnum : Z; ftext : string; fk : fkind }.
Record mtype := mkT { tfull : string; tfields : list fdesc }.
Definition mvalue := list (Z * string).

Definition name_field (t : mtype) : option fdesc :=
  List.find (fun f => String.eqb (ftext f) "name") (tfields t).

(* is p the (singular string) name field of type t, and empty? *)
Definition is_empty_name (t : mtype) (p : Z * string) : bool :=
  match name_field t with
  | Some f => match fk f with FString => (fst p =? fnum f) && String.eqb (snd p) "" | _ => false end
  | None => false
  end.

Definition replace_in (t : mtype) (v : mvalue) (dflt : string) : mvalue :=
  map (fun p => if is_empty_name t p then (fst p, dflt) else p) v.

(* path 0: unary interceptor; 1: stream wrapper, RecvMsg succeeded; 2: stream wrapper, RecvMsg failed *)
Definition dstep := (Z * mtype * mvalue)%type.
Definition run_step (dflt : string) (s : dstep) : mvalue :=
  let '(path, t, v) := s in if path =? 2 then v else replace_in t v dflt.
Definition run_seq (dflt : string) (steps : list dstep) : list mvalue := map (run_step dflt) steps.

Definition mvalue_eqb : mvalue -> mvalue -> bool :=
  list_eqb (fun a b => (fst a =? fst b) && String.eqb (snd a) (snd b)).

(* ---- several request messages received on ONE wrapped stream (client-streaming / bidi) ----
   absentNameReplaceServerStream.RecvMsg keeps no state between messages: every successfully
   received message is treated exactly as the unary interceptor treats a request. *)
Definition unary_msg (dflt : string) (t : mtype) (v : mvalue) : mvalue := replace_in t v dflt.
Definition recvd := (bool * mtype * mvalue)%type.      (* RecvMsg succeeded?, type, content *)
Definition stream_session (dflt : string) (rs : list recvd) : list mvalue :=
  map (fun r => let '(ok, t, v) := r in if ok : bool then unary_msg dflt t v else v) rs.
