(* Model of pkg/middleware/name/defaults.go: replaceEmptyNameField and the two interceptors.
   A request is classified by what the reflection calls of replaceEmptyNameField see; the rest
   of the message is an opaque payload that must not change.  No proofs here. *)
From SC Require Import Base.Prelude.

Inductive reqshape :=
| NotMessage                      (* req is not a proto.Message *)
| NoNameField                     (* no field with text name "name" *)
| NameNotString                   (* the name field is not of string kind *)
| NameRepeated (n : Z)            (* repeated string name: Value.String() of a list is never "" *)
| NameString (s : string).        (* singular string field holding s *)

Record request := mkReq { shape : reqshape; payload : Z }.

Definition replace_empty_name (r : request) (name : string) : request :=
  match shape r with
  | NameString s => if String.eqb s "" then mkReq (NameString name) (payload r) else r
  | _ => r
  end.

(* IfAbsentUnaryInterceptor(name): the handler sees the (in-place modified) request *)
Definition unary_interceptor (name : string) (r : request) : request := replace_empty_name r name.

(* absentNameReplaceServerStream.RecvMsg: only after a successful RecvMsg *)
Definition stream_recv (name : string) (recv_ok : bool) (r : request) : request :=
  if recv_ok then replace_empty_name r name else r.

Definition shape_eqb (a b : reqshape) : bool :=
  match a, b with
  | NotMessage, NotMessage | NoNameField, NoNameField | NameNotString, NameNotString => true
  | NameRepeated x, NameRepeated y => x =? y
  | NameString x, NameString y => String.eqb x y
  | _, _ => false
  end.
Definition request_eqb (a b : request) : bool := shape_eqb (shape a) (shape b) && (payload a =? payload b).
