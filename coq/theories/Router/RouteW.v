(* The whole lookup chain of a generated XxxRouter, with every value that travels along it explicit.

   Route.v runs the forwarders on [Registry.get], whose result is already a [getres]: "a client or
   NotFound".  The Go code has no such type.  router.Get has NAMED results (child any, err error)
   that three statements assign in turn; invoke() hands back the Factory's value even when it
   judges the call a miss (child != nil && err == nil is false); the generated GetXxxClient looks
   at err, then at the value; the generated methods look at GetXxxClient's err and then call the
   value.  Whether a (value, error) pair that a fallback or factory returns together can leak to a
   consumer is decided by exactly these tests, so they are modelled here one by one:

     get_full    = func (r *router) Get(name) (child any, err error)   (variables child/exists/err)
     typed_get   = func (r *XxxRouter) GetXxxClient(name)
     forward     = the head of every generated method (unary and server-streaming)

   on a router built from any subset of the options (RegistryW.wopts), every lookup carrying what the
   fallback and the factory return IF called this time (RegistryW.fout, incl. client AND error).
   The specification [pstepX] is the plain functional map of RegistryW.pstepW with "a Factory result
   counts as a client iff it is a non-nil value without an error".  No proofs here. *)
From SC Require Import Base.Prelude Router.Registry Router.RegistryW Router.Pump Router.Route.

(* the error value travelling along the chain: nil, the router's own NotFound, or the very error
   the fallback / the factory returned *)
Inductive gerr := ENone | ENotFound (m : string) | EFallback | EFactory.

Definition gerr_nil (e : gerr) : bool := match e with ENone => true | _ => false end.

(* the two Go values one call of a Factory func returns *)
Definition fout_val (o : fout) : client :=
  match o with FNil | FErr => nil_client | FBoth c | FOk c => c end.
Definition fout_err (who : gerr) (o : fout) : gerr :=
  match o with FErr | FBoth _ => who | FNil | FOk _ => ENone end.

(* func invoke(name, f) (any, bool, error): the value is handed back whatever exists says;
   4th component = number of calls of f *)
Definition invoke3 (configured : bool) (who : gerr) (o : fout) : client * bool * gerr * Z :=
  if configured
  then (fout_val o, negb (fout_val o =? nil_client) && gerr_nil (fout_err who o), fout_err who o, 1)
  else (nil_client, false, ENone, 0).

(* func (r *router) Get(name string) (child any, err error), statement by statement; the state
   of the three variables after each statement is (childK, existsK, errK) *)
Definition get_full (o : wopts) (n : string) (fbo fao : fout) (s : state) : state * (client * gerr) * Z * Z :=
  (* child, exists := r.registry[name]; err is the zero value of the named result *)
  let child0 := or_nil (find n (sreg s)) in
  let ex0 := match find n (sreg s) with Some _ => true | None => false end in
  (* if !exists { child, exists, err = invoke(name, r.fallback) } *)
  let '(child1, ex1, err1, k1) :=
    if ex0 then (child0, true, ENone, 0) else invoke3 (w_fb o) EFallback fbo in
  (* if !exists { child, exists, err = invoke(name, r.factory); if exists { double-checked insert } } *)
  let '(s2, child2, ex2, err2, k2) :=
    if ex1 then (s, child1, true, err1, 0)
    else
      let '(c, e, er, k) := invoke3 (w_fac o) EFactory fao in
      if e then let '(s', c') := get_insert n c s in (s', c', true, er, k)
      else (s, c, false, er, k) in
  (* if !exists { return nil, status.Error(codes.NotFound, name) }; return *)
  if ex2 then (s2, (child2, err2), k1, k2) else (s2, (nil_client, ENotFound n), k1, k2).

(* func (r *XxxRouter) GetXxxClient(name): res, err := r.Get(name);
   if err != nil { return nil, err }; if res == nil { return nil, nil }; return res.(XxxClient), nil *)
Definition typed_get (r : client * gerr) : client * gerr :=
  let '(res, err) := r in
  if negb (gerr_nil err) then (nil_client, err)
  else if res =? nil_client then (nil_client, ENone)
  else (res, ENone).

(* ---- histories on a generated router ---- *)
Inductive xop :=
| XAdd (n : string) (c : client)      (* typed Add / AddXxxClient; nil is not an XxxClient: panics *)
| XRemove (n : string)
| XHas (n : string)
| XGetRaw (n : string) (fbo fao : fout)       (* Router.Get *)
| XGetTyped (n : string) (fbo fao : fout)     (* GetXxxClient *)
| XUnary (n : string) (fbo fao : fout) (u : unary_script)
| XStream (n : string) (fbo fao : fout) (c : child_script) (k : caller_script).

Inductive xres :=
| XR (r : rres)
| XPanic
| XGot (v : client) (err : option status) (fbcalls faccalls : Z)    (* BOTH results of a Get *)
| XCalled (calls : list call) (t : transcript) (fbcalls faccalls : Z)
| XNilDeref.                   (* a method called on a nil client: Go panics *)

(* the statuses of the errors the fallback (fe) and the factory (ae) of this router return *)
Definition gerr_status (fe ae : status) (e : gerr) : option status :=
  match e with
  | ENone => None
  | ENotFound m => Some (not_found_code, m)
  | EFallback => Some fe
  | EFactory => Some ae
  end.

(* child, err := r.GetXxxClient(request.Name); if err != nil { return err }; child.Method(...) *)
Definition forward (fe ae : status) (r : client * gerr) (body : transcript) (k1 k2 : Z) : xres :=
  let '(child, err) := typed_get r in
  match gerr_status fe ae err with
  | Some st => XCalled [] (mkTr None [] None (Some st) false 0) k1 k2
  | None => if child =? nil_client then XNilDeref else XCalled [(child, true, true)] body k1 k2
  end.

Definition xstep (o : wopts) (fe ae : status) (s : state) (op : xop) : state * xres :=
  match op with
  | XAdd n c =>
      if c =? nil_client then (s, XPanic)
      else let '(s', old) := add n c s in (s', XR (RClient old))
  | XRemove n => let '(s', old) := rem n s in (s', XR (RClient old))
  | XHas n => (s, XR (RBool (has n s)))
  | XGetRaw n fbo fao =>
      let '(s', r, k1, k2) := get_full o n fbo fao s in
      (s', XGot (fst r) (gerr_status fe ae (snd r)) k1 k2)
  | XGetTyped n fbo fao =>
      let '(s', r, k1, k2) := get_full o n fbo fao s in
      let r' := typed_get r in
      (s', XGot (fst r') (gerr_status fe ae (snd r')) k1 k2)
  | XUnary n fbo fao u =>
      let '(s', r, k1, k2) := get_full o n fbo fao s in (s', forward fe ae r (unary u) k1 k2)
  | XStream n fbo fao c k =>
      let '(s', r, k1, k2) := get_full o n fbo fao s in (s', forward fe ae r (pump c k) k1 k2)
  end.

Fixpoint xrun (o : wopts) (fe ae : status) (s : state) (ops : list xop) : state * list xres :=
  match ops with
  | [] => (s, [])
  | op :: r => let '(s1, x) := xstep o fe ae s op in let '(s2, xs) := xrun o fe ae s1 r in (s2, x :: xs)
  end.

(* ---- specification: RegistryW's plain functional map; a lookup is WGet ---- *)
Definition pget (o : wopts) (p : pstate) (n : string) (fbo fao : fout) : pstate * getres * Z * Z :=
  match pstepW o p (WGet n fbo fao) with
  | (p', WR (RGet r) k1 k2) => (p', r, k1, k2)
  | (p', WR _ k1 k2) => (p', NotFound n, k1, k2)     (* never: a WGet answers RGet *)
  end.

Definition pstepX (o : wopts) (p : pstate) (op : xop) : pstate * xres :=
  match op with
  | XAdd n c =>
      if c =? nil_client then (p, XPanic)
      else let '(p', WR r _ _) := pstepW o p (WAdd n c) in (p', XR r)
  | XRemove n => let '(p', WR r _ _) := pstepW o p (WRemove n) in (p', XR r)
  | XHas n => let '(p', WR r _ _) := pstepW o p (WHas n) in (p', XR r)
  | XGetRaw n fbo fao | XGetTyped n fbo fao =>
      match pget o p n fbo fao with
      | (p', Got c, k1, k2) => (p', XGot c None k1 k2)
      | (p', NotFound m, k1, k2) => (p', XGot nil_client (Some (not_found_code, m)) k1 k2)
      end
  | XUnary n fbo fao u =>
      match pget o p n fbo fao with
      | (p', Got c, k1, k2) => (p', XCalled [(c, true, true)] (unary u) k1 k2)
      | (p', NotFound m, k1, k2) => (p', XCalled [] (not_found_tr m) k1 k2)
      end
  | XStream n fbo fao c k =>
      match pget o p n fbo fao with
      | (p', Got cl, k1, k2) => (p', XCalled [(cl, true, true)] (pump c k) k1 k2)
      | (p', NotFound m, k1, k2) => (p', XCalled [] (not_found_tr m) k1 k2)
      end
  end.

Fixpoint prunX (o : wopts) (p : pstate) (ops : list xop) : pstate * list xres :=
  match ops with
  | [] => (p, [])
  | op :: r => let '(p1, x) := pstepX o p op in let '(p2, xs) := prunX o p1 r in (p2, x :: xs)
  end.

(* ---- equality used by the judge ---- *)
Definition xres_eqb (a b : xres) : bool :=
  match a, b with
  | XR x, XR y => rres_eqb x y
  | XPanic, XPanic => true
  | XGot v1 e1 a1 b1, XGot v2 e2 a2 b2 => (v1 =? v2) && option_eqb status_eqb e1 e2 && (a1 =? a2) && (b1 =? b2)
  | XCalled c1 t1 a1 b1, XCalled c2 t2 a2 b2 =>
      list_eqb call_eqb c1 c2 && transcript_eqb t1 t2 && (a1 =? a2) && (b1 =? b2)
  | XNilDeref, XNilDeref => true
  | _, _ => false
  end.

(* model-branch classes for the coverage histogram: who was asked and what each returned *)
Definition fout_class (o : fout) : string :=
  match o with FNil => "nil,nil" | FErr => "nil,err" | FBoth _ => "client,err" | FOk _ => "client,nil" end%string.
