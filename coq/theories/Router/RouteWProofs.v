(* Proofs about Router/RouteW.v: for every history on a generated router -- any option subset, every
   lookup with its own fallback/factory outcome, including a client returned TOGETHER with an error --
   the chain router.Get -> GetXxxClient -> generated method behaves as the plain functional map says:
   a value a Factory returned next to an error is never a client, never escapes next to the NotFound
   error, and is never called. *)
From SC Require Import Base.Prelude Router.Registry Router.RegistryProofs Router.RegistryW Router.RegistryWProofs
  Router.Pump Router.Route Router.RouteW.

Local Arguments set : simpl never.
Local Arguments remove : simpl never.

(* what router.Get returns (both results), from RegistryW's summary of the same call *)
Definition results_of (r : rres) : client * gerr :=
  match r with
  | RGet (Got c) => (c, ENone)
  | RGet (NotFound m) => (nil_client, ENotFound m)
  | _ => (nil_client, ENone)
  end.

(* router.Get's two results are (client, nil) or (nil, NotFound): whatever values the fallback and
   the factory left in the variables child and err never escape *)
Theorem get_full_is_getW : forall o n fbo fao s,
  get_full o n fbo fao s =
  let '(s', WR r k1 k2) := getW o n fbo fao s in (s', results_of r, k1, k2).
Proof.
  intros o n fbo fao s. unfold get_full, getW, get_read, invoke3, invoke_w.
  destruct (find n (sreg s)) as [c0|] eqn:E; cbn; [reflexivity|].
  destruct (w_fb o); destruct fbo as [| |c|c]; cbn;
    try (destruct (c =? nil_client) eqn:Ec; cbn; try reflexivity);
    destruct (w_fac o); destruct fao as [| |d|d]; cbn; try reflexivity;
    try (destruct (d =? nil_client) eqn:Ed; cbn; try reflexivity);
    try (destruct (get_insert n d s) as [s' c']; reflexivity);
    try (apply Z.eqb_eq in Ed; subst d; reflexivity);
    try (apply Z.eqb_eq in Ec; subst c; cbn; try reflexivity;
         try (destruct (d =? nil_client) eqn:Ed2; cbn; try reflexivity;
              try (destruct (get_insert n d s) as [s' c']; reflexivity);
              try (apply Z.eqb_eq in Ed2; subst d; reflexivity))).
Qed.

Corollary get_full_clean : forall o n fbo fao s s' v e k1 k2,
  get_full o n fbo fao s = (s', (v, e), k1, k2) ->
  (e = ENone /\ exists k1' k2', getW o n fbo fao s = (s', WR (RGet (Got v)) k1' k2'))
  \/ (v = nil_client /\ e = ENotFound n /\ s' = s).
Proof.
  intros o n fbo fao s s' v e k1 k2 H. rewrite get_full_is_getW in H.
  pose proof (getW_cases o n fbo fao s) as HC.
  destruct (find n (sreg s)).
  - rewrite HC in H. inversion H; subst. left. split; auto. eauto.
  - destruct (if w_fb o then yields fbo else None).
    + rewrite HC in H. inversion H; subst. left. split; auto. eauto.
    + destruct (if w_fac o then yields fao else None); rewrite HC in H; inversion H; subst.
      * left. split; auto. eauto.
      * right. auto.
Qed.

(* no nil client is stored: the typed Add refuses nil, the factory path needs child != nil *)
Definition NN (p : pstate) : Prop := forall k, pm p k <> Some nil_client.

Lemma yields_nonnil : forall o c, yields o = Some c -> c <> nil_client.
Proof.
  intros [| |c'|c'] c; cbn; try discriminate. destruct (c' =? nil_client) eqn:E; [discriminate|].
  intros H. inversion H; subst. apply Z.eqb_neq. exact E.
Qed.

Lemma pget_cases : forall o p n fbo fao, NN p ->
  let '(p', r, k1, k2) := pget o p n fbo fao in
  pstepW o p (WGet n fbo fao) = (p', WR (RGet r) k1 k2) /\ NN p' /\
  match r with Got c => c <> nil_client | NotFound m => m = n /\ p' = p end.
Proof.
  intros o p n fbo fao HN. unfold pget. cbn [pstepW].
  destruct (pm p n) as [c|] eqn:E.
  - repeat split; auto. intros ->. exact (HN n E).
  - destruct (if w_fb o then yields fbo else None) as [c|] eqn:E1.
    + repeat split; auto. destruct (w_fb o); [|discriminate]. eapply yields_nonnil; eauto.
    + destruct (if w_fac o then yields fao else None) as [c|] eqn:E2.
      * assert (Hc : c <> nil_client) by (destruct (w_fac o); [|discriminate]; eapply yields_nonnil; eauto).
        repeat split; auto. intros k. cbn. unfold pset. destruct (String.eqb k n); [congruence|apply HN].
      * repeat split; auto.
Qed.

Lemma typed_get_client : forall c, c <> nil_client -> typed_get (c, ENone) = (c, ENone).
Proof. intros c H. unfold typed_get. cbn. apply Z.eqb_neq in H. rewrite H. reflexivity. Qed.

Lemma xstep_refines : forall o fe ae s p op, RW s p -> NN p ->
  snd (xstep o fe ae s op) = snd (pstepX o p op)
  /\ RW (fst (xstep o fe ae s op)) (fst (pstepX o p op)) /\ NN (fst (pstepX o p op)).
Proof.
  intros o fe ae s p op HR HN.
  assert (Hget : forall n fbo fao,
    let '(s', r, k1, k2) := get_full o n fbo fao s in
    let '(p', g, j1, j2) := pget o p n fbo fao in
    r = results_of (RGet g) /\ k1 = j1 /\ k2 = j2 /\ RW s' p' /\ NN p' /\
    match g with Got c => c <> nil_client | NotFound m => m = n end).
  { intros n fbo fao. rewrite get_full_is_getW.
    pose proof (wstep_refines o s p (WGet n fbo fao) HR) as [Hr HR']. cbn [wstep] in Hr, HR'.
    pose proof (pget_cases o p n fbo fao HN) as HP.
    destruct (getW o n fbo fao s) as [s' [r k1 k2]]. destruct (pget o p n fbo fao) as [[[p' g] j1] j2].
    destruct HP as [HP [HN' Hg]]. rewrite HP in Hr, HR'. cbn [fst snd] in Hr, HR'. inversion Hr; subst.
    split; [reflexivity|]. split; [reflexivity|]. split; [reflexivity|]. split; [exact HR'|]. split; [exact HN'|].
    destruct g as [gc|gm]; [exact Hg|exact (proj1 Hg)]. }
  destruct op as [n c|n|n|n fbo fao|n fbo fao|n fbo fao u|n fbo fao c k]; cbn [xstep pstepX].
  - destruct (c =? nil_client) eqn:Ec; [cbn [fst snd]; split; [reflexivity|split; assumption]|].
    pose proof (wstep_refines o s p (WAdd n c) HR) as [Hr HR']. cbn [wstep pstepW] in *.
    destruct (add n c s) as [s' old]. cbn [fst snd] in *. inversion Hr; subst.
    split; [reflexivity|]. split; [exact HR'|].
    intros k. cbn. unfold pset. destruct (String.eqb k n); [|apply HN].
    intros H. inversion H. apply Z.eqb_neq in Ec. congruence.
  - pose proof (wstep_refines o s p (WRemove n) HR) as [Hr HR']. cbn [wstep] in *.
    destruct (rem n s) as [s' old]. destruct (pstepW o p (WRemove n)) as [p' [r a b]] eqn:EP. cbn [fst snd] in *.
    inversion Hr; subst. split; [reflexivity|]. split; [exact HR'|].
    cbn [pstepW] in EP. destruct (pm p n); inversion EP; subst; auto.
    intros k. cbn. unfold pdel. destruct (String.eqb k n); [discriminate|apply HN].
  - pose proof (wstep_refines o s p (WHas n) HR) as [Hr HR']. cbn [wstep pstepW] in *. cbn [fst snd] in *.
    inversion Hr; subst. split; [reflexivity|]. split; assumption.
  - specialize (Hget n fbo fao). destruct (get_full o n fbo fao s) as [[[s' r] k1] k2].
    destruct (pget o p n fbo fao) as [[[p' g] j1] j2]. destruct Hget as (-> & -> & -> & HR' & HN' & Hg).
    destruct g as [c|m]; cbn; (split; [reflexivity|split; assumption]).
  - specialize (Hget n fbo fao). destruct (get_full o n fbo fao s) as [[[s' r] k1] k2].
    destruct (pget o p n fbo fao) as [[[p' g] j1] j2]. destruct Hget as (-> & -> & -> & HR' & HN' & Hg).
    destruct g as [c|m]; cbn [results_of fst snd].
    + rewrite typed_get_client by exact Hg. cbn. split; [reflexivity|split; assumption].
    + cbn. split; [reflexivity|split; assumption].
  - specialize (Hget n fbo fao). destruct (get_full o n fbo fao s) as [[[s' r] k1] k2].
    destruct (pget o p n fbo fao) as [[[p' g] j1] j2]. destruct Hget as (-> & -> & -> & HR' & HN' & Hg).
    destruct g as [c|m]; cbn [results_of fst snd]; unfold forward.
    + rewrite typed_get_client by exact Hg. cbn [gerr_status]. apply Z.eqb_neq in Hg. rewrite Hg.
      split; [reflexivity|split; assumption].
    + cbn. split; [reflexivity|split; assumption].
  - specialize (Hget n fbo fao). destruct (get_full o n fbo fao s) as [[[s' r] k1] k2].
    destruct (pget o p n fbo fao) as [[[p' g] j1] j2]. destruct Hget as (-> & -> & -> & HR' & HN' & Hg).
    destruct g as [cl|m]; cbn [results_of fst snd]; unfold forward.
    + rewrite typed_get_client by exact Hg. cbn [gerr_status]. apply Z.eqb_neq in Hg. rewrite Hg.
      split; [reflexivity|split; assumption].
    + cbn. split; [reflexivity|split; assumption].
Qed.

(* every history on a generated router, any option subset, per-call outcomes: results (both
   results of every Get, who was called with what, the caller's transcript, the numbers of
   fallback and factory calls), registry contents and change log are the plain functional map's *)
Theorem routeW_is_map : forall o fe ae ops s p, RW s p -> NN p ->
  snd (xrun o fe ae s ops) = snd (prunX o p ops)
  /\ RW (fst (xrun o fe ae s ops)) (fst (prunX o p ops)) /\ NN (fst (prunX o p ops)).
Proof.
  intros o fe ae ops. induction ops as [|op ops IH]; intros s p HR HN; cbn [xrun prunX].
  - cbn. auto.
  - destruct (xstep_refines o fe ae s p op HR HN) as [Hr [HR' HN']].
    destruct (xstep o fe ae s op) as [s1 x]. destruct (pstepX o p op) as [p1 y]. cbn [fst snd] in *.
    destruct (IH s1 p1 HR' HN') as [Hrs [HR2 HN2]].
    destruct (xrun o fe ae s1 ops) as [s2 xs]. destruct (prunX o p1 ops) as [p2 ys]. cbn [fst snd] in *.
    subst. auto.
Qed.

Lemma RW_init : RW (init 1) (mkP pempty [] 1).
Proof. split; auto. Qed.
Lemma NN_init : NN (mkP pempty [] 1).
Proof. intros k. cbn. unfold pempty. discriminate. Qed.

(* a nil client is never called: XNilDeref does not occur in any history *)
Theorem routeW_no_nil_deref : forall o fe ae ops,
  ~ In XNilDeref (snd (xrun o fe ae (init 1) ops)).
Proof.
  intros o fe ae ops. destruct (routeW_is_map o fe ae ops _ _ RW_init NN_init) as [Hr _]. rewrite Hr. clear Hr.
  generalize (mkP pempty [] 1). induction ops as [|op ops IH]; intros p; cbn [prunX].
  - cbn. auto.
  - destruct (pstepX o p op) as [p1 y] eqn:E. specialize (IH p1). destruct (prunX o p1 ops) as [p2 ys].
    cbn [snd] in *. intros [H|H]; [|exact (IH H)]. subst y.
    destruct op as [n c|n|n|n fbo fao|n fbo fao|n fbo fao u|n fbo fao c k]; cbn [pstepX] in E.
    + destruct (c =? nil_client); [inversion E|]. destruct (pstepW o p (WAdd n c)) as [p' [r a b]]. inversion E.
    + destruct (pstepW o p (WRemove n)) as [p' [r a b]]. inversion E.
    + destruct (pstepW o p (WHas n)) as [p' [r a b]]. inversion E.
    + destruct (pget o p n fbo fao) as [[[p' [c|m]] k1] k2]; inversion E.
    + destruct (pget o p n fbo fao) as [[[p' [c|m]] k1] k2]; inversion E.
    + destruct (pget o p n fbo fao) as [[[p' [c|m]] k1] k2]; inversion E.
    + destruct (pget o p n fbo fao) as [[[p' [cc|m]] k1] k2]; inversion E.
Qed.

(* the clause "a name with no client yields NotFound and touches no client", for the whole chain and
   whatever the fallback and the factory return (FBoth: a client together with an error): if neither
   the registry, nor a configured fallback, nor a configured factory yields a client for n, then
   Router.Get and GetXxxClient return (nil, NotFound n), every method returns NotFound n having
   called nobody, and the registry and its log are unchanged *)
Theorem routeW_notfound_touches_nothing : forall o fe ae s n fbo fao,
  find n (sreg s) = None ->
  (if w_fb o then yields fbo else None) = None ->
  (if w_fac o then yields fao else None) = None ->
  let k1 := if w_fb o then 1 else 0 in
  let k2 := if w_fac o then 1 else 0 in
  xstep o fe ae s (XGetRaw n fbo fao) = (s, XGot nil_client (Some (not_found_code, n)) k1 k2)
  /\ xstep o fe ae s (XGetTyped n fbo fao) = (s, XGot nil_client (Some (not_found_code, n)) k1 k2)
  /\ (forall u, xstep o fe ae s (XUnary n fbo fao u) = (s, XCalled [] (not_found_tr n) k1 k2))
  /\ (forall c k, xstep o fe ae s (XStream n fbo fao c k) = (s, XCalled [] (not_found_tr n) k1 k2)).
Proof.
  intros o fe ae s n fbo fao Hf H1 H2. cbn zeta.
  pose proof (getW_cases o n fbo fao s) as HC. rewrite Hf, H1, H2 in HC.
  cbn [xstep]. rewrite get_full_is_getW, HC. cbn. repeat split; reflexivity.
Qed.

(* and the converse clause: when the plain map yields a client it is that client that is called,
   exactly once, with the caller's request, and the body's transcript is the forwarder's *)
Theorem routeW_forwards_once : forall o fe ae s n fbo fao c s' k1 k2,
  c <> nil_client ->
  getW o n fbo fao s = (s', WR (RGet (Got c)) k1 k2) ->
  xstep o fe ae s (XGetTyped n fbo fao) = (s', XGot c None k1 k2)
  /\ (forall u, xstep o fe ae s (XUnary n fbo fao u) = (s', XCalled [(c, true, true)] (unary u) k1 k2))
  /\ (forall ch k, xstep o fe ae s (XStream n fbo fao ch k) = (s', XCalled [(c, true, true)] (pump ch k) k1 k2)).
Proof.
  intros o fe ae s n fbo fao c s' k1 k2 Hc HG. cbn [xstep]. rewrite get_full_is_getW, HG. cbn [results_of].
  unfold forward. rewrite typed_get_client by exact Hc. cbn. apply Z.eqb_neq in Hc. rewrite Hc. auto.
Qed.
