(* Proofs about Router/RouterCbW.v (concurrent calls, callbacks as steps of their own, PER-CALL
   fallback / factory outcomes):
   - for EVERY schedule of any threads with any per-call outcomes the callback log plus the changes
     still to be reported is a permutation of the transition log (callbacks_are_transitions_W);
   - concurrent first Gets of one name whose fallback / factory calls may answer differently for
     each caller still commit at most one client, that client is some caller's own factory client,
     every returned result is justified by the caller's own outcomes or by the committed client,
     and the callbacks are the transitions in order (single_commit_W);
   - two callers that both return a client not from their fallback return the SAME client
     (no_fresh_client_after_commit_W);
   - observations by computation: client+error is no client while the other callers share one
     client (per_call_factory_race); a caller whose factory failed returns NotFound although the
     registry holds a client by then (notfound_beside_committed). *)
From Coq Require Import Permutation.
From SC Require Import Base.Prelude Router.Registry Router.RegistryProofs Router.RouterGet Router.RouterGetProofs
  Router.RouterCb Router.RouterCbProofs Router.RegistryW Router.RouterCbW.

Local Arguments set : simpl never.
Local Arguments remove : simpl never.

(* ---- 1. callbacks are exactly the transitions, as a multiset ---- *)
Lemma pending_initW : forall {A} (ths : list A), pending (map (fun _ => CStart) ths) = [].
Proof. induction ths; cbn; auto. Qed.

Ltac quietW Ep H := eapply inv_quiet; [exact Ep|reflexivity|reflexivity|reflexivity|exact H].

Lemma cgstepW_inv : forall o ths G i, CbInv G -> CbInv (cgstepW o ths G i).
Proof.
  intros o ths [s cbs pcs] i H. unfold CbInv in *. unfold cgstepW. cbn [cst ccbs cpcs] in *.
  destruct (nth_error ths i) as [k|] eqn:Ek; [|exact H].
  destruct (nth_error pcs i) as [p|] eqn:Ep; [|exact H].
  destruct p as [| |c|ch r|r].
  - (* CStart *) destruct k as [n fbo fao|n c|n]; cbn [cstepW].
    + unfold get_read. destruct (find n (sreg s)); cbn [cst ccbs cpcs]; quietW Ep H.
    + unfold add. cbn [cst ccbs cpcs].
      eapply inv_commit; [exact Ep|reflexivity|reflexivity|exact H].
    + destruct (find n (sreg s)) as [old|] eqn:Ef; cbn [cst ccbs cpcs].
      * eapply inv_commit; [exact Ep|reflexivity| |exact H]. unfold rem. rewrite Ef. reflexivity.
      * quietW Ep H.
  - (* CMissed: this call's fallback and factory outcomes; nothing is committed *)
    destruct k as [n fbo fao|n c|n]; cbn [cstepW]; [|cbn [cst ccbs cpcs]; quietW Ep H..].
    destruct (fst (invoke_w (w_fb o) fbo)); [cbn [cst ccbs cpcs]; quietW Ep H|].
    destruct (fst (invoke_w (w_fac o) fao)); cbn [cst ccbs cpcs]; quietW Ep H.
  - (* CMade *) destruct k as [n fbo fao|n c'|n]; cbn [cstepW]; [|cbn [cst ccbs cpcs]; quietW Ep H..].
    destruct (find n (sreg s)) as [c2|] eqn:Ef; cbn [cst ccbs cpcs].
    + quietW Ep H.
    + eapply inv_commit; [exact Ep|reflexivity| |exact H]. unfold get_insert. rewrite Ef. reflexivity.
  - (* CCb: the callback is delivered *) cbn [cstepW cst ccbs cpcs].
    pose proof (pending_upd pcs i (CCb ch r) (CDone r) Ep) as HP. cbn in HP.
    eapply perm_trans; [exact H|]. rewrite <- app_assoc. apply Permutation_app_head. cbn.
    symmetry. exact HP.
  - cbn [cstepW cst ccbs cpcs]. quietW Ep H.
Qed.

Lemma cgrunW_inv : forall o ths sched G, CbInv G -> CbInv (cgrunW o ths sched G).
Proof.
  intros o ths sched. induction sched as [|i sched IH]; intros G H; cbn; auto.
  apply IH. apply cgstepW_inv. exact H.
Qed.

Lemma cginitW_inv : forall s ths, CbInv (cginitW s ths).
Proof. intros s ths. unfold CbInv, cginitW. cbn. rewrite pending_initW, app_nil_r. apply Permutation_refl. Qed.

(* Under EVERY schedule of any threads (Get/Add/Remove on any names, any per-call fallback and
   factory outcomes) and at every moment: the transition log is a permutation of the callbacks
   delivered so far followed by the changes committed but not yet reported; once every call has
   returned, of the callbacks alone. *)
Theorem callbacks_are_transitions_W : forall o ths s0 sched,
  let G := cgrunW o ths sched (cginitW s0 ths) in
  Permutation (slog (cst G)) (ccbs G ++ pending (cpcs G)) /\
  (call_done G = true -> Permutation (slog (cst G)) (ccbs G)).
Proof.
  intros o ths s0 sched G.
  assert (H : CbInv G) by (apply cgrunW_inv, cginitW_inv).
  split; [exact H|]. intros Hd. unfold CbInv in H. unfold call_done in Hd.
  rewrite (pending_done _ Hd), app_nil_r in H. exact H.
Qed.

(* callbacks are only ever appended *)
Lemma ccbs_stepW_extends : forall o ths G0 i, exists u, ccbs (cgstepW o ths G0 i) = ccbs G0 ++ u.
Proof.
  intros o ths G0 i. unfold cgstepW.
  destruct (nth_error ths i) as [k|]; [|exists []; rewrite app_nil_r; reflexivity].
  destruct (nth_error (cpcs G0) i) as [p|]; [|exists []; rewrite app_nil_r; reflexivity].
  destruct p as [| |c|ch r|r]; cbn [cstepW].
  - destruct k as [m fbo fao|m c|m].
    + destruct (get_read m (cst G0)); exists []; rewrite app_nil_r; reflexivity.
    + unfold add. exists []. rewrite app_nil_r. reflexivity.
    + destruct (find m (sreg (cst G0))); exists []; rewrite app_nil_r; reflexivity.
  - destruct k as [m fbo fao|m c|m]; try (exists []; rewrite app_nil_r; reflexivity).
    destruct (fst (invoke_w (w_fb o) fbo)); [exists []; rewrite app_nil_r; reflexivity|].
    destruct (fst (invoke_w (w_fac o) fao)); exists []; rewrite app_nil_r; reflexivity.
  - destruct k as [m fbo fao|m c'|m]; try (exists []; rewrite app_nil_r; reflexivity).
    destruct (find m (sreg (cst G0))); exists []; rewrite app_nil_r; reflexivity.
  - exists [ch]. reflexivity.
  - exists []. rewrite app_nil_r. reflexivity.
Qed.

Lemma ccbs_extends_W : forall o ths sched G0, exists t, ccbs (cgrunW o ths sched G0) = ccbs G0 ++ t.
Proof.
  intros o ths sched. induction sched as [|i sched IH]; intros G0; cbn.
  - exists []. rewrite app_nil_r. reflexivity.
  - destruct (IH (cgstepW o ths G0 i)) as [t Ht]. fold (cgrunW o ths sched (cgstepW o ths G0 i)). rewrite Ht.
    destruct (ccbs_stepW_extends o ths G0 i) as [u Hu]. rewrite Hu. exists (u ++ t). rewrite app_assoc. reflexivity.
Qed.

(* ---- 2. concurrent first Gets of one name, outcomes differing per caller ---- *)
Section OneNameW.
  Variable o : wopts.
  Variable n : string.
  Variable ths : list wkind.
  Variable s0 : state.
  Hypothesis all_get : forall k, In k ths -> exists fbo fao, k = WTGet n fbo fao.
  Hypothesis absent : find n (sreg s0) = None.

  (* what a thread with outcomes fbo / fao may hold while the registry holds commit for n *)
  Definition pc_ok (commit : option client) (fbo fao : fout) (p : cpc) : Prop :=
    match p with
    | CStart | CMissed => True
    | CMade c => fst (invoke_w (w_fb o) fbo) = None /\ fst (invoke_w (w_fac o) fao) = Some c
    | CCb ch r => exists c, ch = mkChange n nil_client c true /\ r = RGet (Got c) /\ commit = Some c
    | CDone r =>
        (exists c, r = RGet (Got c) /\ fst (invoke_w (w_fb o) fbo) = Some c) \/
        (exists c, r = RGet (Got c) /\ commit = Some c) \/
        (r = RGet (NotFound n) /\ fst (invoke_w (w_fb o) fbo) = None /\ fst (invoke_w (w_fac o) fao) = None)
    end.

  Lemma pc_ok_mono : forall commit commit' fbo fao p,
    (forall c, commit = Some c -> commit' = Some c) -> pc_ok commit fbo fao p -> pc_ok commit' fbo fao p.
  Proof.
    intros commit commit' fbo fao p Hm H. destruct p as [| |c|ch r|r]; cbn in *; auto.
    - destruct H as [c [H1 [H2 H3]]]. exists c. auto.
    - destruct H as [H|[[c [H1 H2]]|H]]; auto. right. left. exists c. auto.
  Qed.

  Definition committed_by_a_factory (commit : option client) : Prop :=
    forall c, commit = Some c -> exists i fbo fao,
      nth_error ths i = Some (WTGet n fbo fao) /\
      fst (invoke_w (w_fb o) fbo) = None /\ fst (invoke_w (w_fac o) fao) = Some c.

  (* holds after every prefix of every schedule *)
  Definition InvW (G : cgstate) : Prop :=
    let commit := find n (sreg (cst G)) in
    slog (cst G) = slog s0 ++ auto_entry n commit /\
    (forall k, String.eqb k n = false -> find k (sreg (cst G)) = find k (sreg s0)) /\
    committed_by_a_factory commit /\
    (forall i p fbo fao, nth_error (cpcs G) i = Some p -> nth_error ths i = Some (WTGet n fbo fao) ->
       pc_ok commit fbo fao p).

  Lemma InvW_init : InvW (cginitW s0 ths).
  Proof.
    unfold InvW, cginitW. cbn. rewrite absent. cbn. rewrite app_nil_r. repeat split; auto.
    - intros c H. discriminate.
    - intros i p fbo fao H _. apply nth_error_In in H. apply in_map_iff in H. destruct H as [_ [<- _]]. exact I.
  Qed.

  Lemma InvW_step : forall G i, InvW G -> InvW (cgstepW o ths G i).
  Proof.
    intros [s cbs pcs] i HI. unfold cgstepW. cbn [cst ccbs cpcs].
    destruct (nth_error ths i) as [k|] eqn:Ek; auto.
    destruct (nth_error pcs i) as [p|] eqn:Ep; auto.
    destruct (all_get k (nth_error_In _ _ Ek)) as [fbo [fao Hk]]. subst k.
    destruct HI as [Hlog [Hoth [Hfac Hpc]]]. cbn [cst ccbs cpcs] in *.
    pose proof (Hpc i p fbo fao Ep Ek) as Hp.
    (* what a thread other than i holds stays justified; thread i gets p' *)
    assert (Hupd : forall s' cbs' p',
      (slog s' = slog s0 ++ auto_entry n (find n (sreg s'))) ->
      (forall k, String.eqb k n = false -> find k (sreg s') = find k (sreg s0)) ->
      (forall c, find n (sreg s) = Some c -> find n (sreg s') = Some c) ->
      committed_by_a_factory (find n (sreg s')) ->
      pc_ok (find n (sreg s')) fbo fao p' ->
      InvW (mkCG s' cbs' (upd i p' pcs))).
    { intros s' cbs' p' H1 H2 H3 H4 H5. unfold InvW. cbn [cst ccbs cpcs]. repeat split; auto.
      intros j q fbo' fao' Hq Hj. rewrite nth_error_upd in Hq. destruct (Nat.eqb_spec i j) as [->|Hne].
      - rewrite Ep in Hq. inversion Hq. subst q. rewrite Ek in Hj. inversion Hj. subst fbo' fao'. exact H5.
      - eapply pc_ok_mono; [exact H3|]. exact (Hpc j q fbo' fao' Hq Hj). }
    (* a step that leaves the registry state alone *)
    assert (Hsame : forall cbs' p', pc_ok (find n (sreg s)) fbo fao p' -> InvW (mkCG s cbs' (upd i p' pcs))).
    { intros cbs' p' H5. apply Hupd; auto. }
    destruct p as [| |c|ch r|r]; cbn [cstepW].
    - (* read *) unfold get_read. destruct (find n (sreg s)) as [c|] eqn:E; apply Hsame; rewrite ?E; cbn.
      + right. left. exists c. auto.
      + exact I.
    - (* this call's fallback, then this call's factory *)
      destruct (fst (invoke_w (w_fb o) fbo)) as [c|] eqn:Efb.
      + apply Hsame. cbn. left. exists c. auto.
      + destruct (fst (invoke_w (w_fac o) fao)) as [c|] eqn:Efa; apply Hsame; cbn.
        * split; [exact Efb|exact Efa].
        * right. right. auto.
    - (* insert *) cbn in Hp. destruct Hp as [Hfb Hfa].
      destruct (find n (sreg s)) as [c2|] eqn:E.
      + apply Hsame. rewrite ?E. cbn. right. left. exists c2. auto.
      + unfold get_insert. rewrite E. cbn [fst]. apply Hupd; cbn [sreg slog].
        * rewrite find_set, String.eqb_refl. cbn. rewrite Hlog. cbn. rewrite app_nil_r. reflexivity.
        * intros k Hk. rewrite find_set, Hk. apply Hoth. exact Hk.
        * intros c0 H. discriminate.
        * intros c0 H. rewrite find_set, String.eqb_refl in H. inversion H. subst c0.
          exists i, fbo, fao. auto.
        * cbn. exists c. rewrite find_set, String.eqb_refl. auto.
    - (* callback delivery *) cbn in Hp. destruct Hp as [c [Hch [Hr Hc]]].
      apply Hsame. cbn. right. left. exists c. auto.
    - (* finished: stutter *) apply Hsame. exact Hp.
  Qed.

  Lemma InvW_run : forall sched G, InvW G -> InvW (cgrunW o ths sched G).
  Proof.
    induction sched as [|i sched IH]; intros G HI; cbn; auto. apply IH. apply InvW_step. exact HI.
  Qed.
End OneNameW.

(* Concurrent first Gets of one name n; every caller has its OWN fallback outcome and its OWN
   factory outcome (a factory may return client+error to one caller and a good client to another,
   fail for one and succeed for another).  For EVERY schedule (any length, finished or not):
   (a) at most one client is ever committed and the log gains exactly one Auto change iff one is;
   (b) no other name changes;
   (c) the committed client is the factory client of a caller whose own fallback missed;
   (d) every returned result is justified: the caller's own fallback client, or the committed
       client, or NotFound when the caller's own fallback and factory both gave no client;
   (e) once every call has returned the callbacks are the transitions, in order. *)
Theorem single_commit_W : forall o n ths s0,
  (forall k, In k ths -> exists fbo fao, k = WTGet n fbo fao) ->
  find n (sreg s0) = None ->
  forall sched,
  let G := cgrunW o ths sched (cginitW s0 ths) in
  let commit := find n (sreg (cst G)) in
  slog (cst G) = slog s0 ++ auto_entry n commit /\
  (forall k, String.eqb k n = false -> find k (sreg (cst G)) = find k (sreg s0)) /\
  (forall c, commit = Some c -> exists i fbo fao,
     nth_error ths i = Some (WTGet n fbo fao) /\
     fst (invoke_w (w_fb o) fbo) = None /\ fst (invoke_w (w_fac o) fao) = Some c) /\
  (forall i r fbo fao, nth_error (cpcs G) i = Some (CDone r) -> nth_error ths i = Some (WTGet n fbo fao) ->
     (exists c, r = RGet (Got c) /\ fst (invoke_w (w_fb o) fbo) = Some c) \/
     (exists c, r = RGet (Got c) /\ commit = Some c) \/
     (r = RGet (NotFound n) /\ fst (invoke_w (w_fb o) fbo) = None /\ fst (invoke_w (w_fac o) fao) = None)) /\
  (call_done G = true -> ccbs G = slog (cst G)).
Proof.
  intros o n ths s0 Hall Habs sched G commit.
  destruct (InvW_run o n ths s0 Hall sched _ (InvW_init o n ths s0 Habs)) as [Hlog [Hoth [Hfac Hpc]]].
  fold G in Hlog, Hoth, Hfac, Hpc. fold commit in Hlog, Hfac, Hpc.
  split; [exact Hlog|]. split; [exact Hoth|]. split; [exact Hfac|]. split.
  - intros i r fbo fao Hi Ht. exact (Hpc i (CDone r) fbo fao Hi Ht).
  - intros Hd. destruct (callbacks_are_transitions_W o ths s0 sched) as [_ HP]. fold G in HP.
    specialize (HP Hd). rewrite Hlog in HP |- *.
    (* ccbs G extends slog s0 (callbacks are only appended): a permutation with a tail of length <= 1 *)
    destruct (ccbs_extends_W o ths sched (cginitW s0 ths)) as [t Ht]. fold G in Ht.
    unfold cginitW in Ht. cbn [ccbs] in Ht.
    rewrite Ht in HP |- *. apply Permutation_app_inv_l in HP. f_equal.
    unfold auto_entry in *. destruct commit as [c|].
    + apply Permutation_length_1_inv in HP. exact HP.
    + apply Permutation_nil in HP. exact HP.
Qed.

(* ---- 3. two callers that return a client which is not their fallback's return the same one:
   after the commit nobody walks away with a fresh client of their own factory ---- *)
Corollary no_fresh_client_after_commit_W : forall o n ths s0,
  (forall k, In k ths -> exists fbo fao, k = WTGet n fbo fao) ->
  find n (sreg s0) = None ->
  forall sched i j ci cj fboi faoi fboj faoj,
  let G := cgrunW o ths sched (cginitW s0 ths) in
  nth_error ths i = Some (WTGet n fboi faoi) -> nth_error ths j = Some (WTGet n fboj faoj) ->
  nth_error (cpcs G) i = Some (CDone (RGet (Got ci))) -> nth_error (cpcs G) j = Some (CDone (RGet (Got cj))) ->
  fst (invoke_w (w_fb o) fboi) = None -> fst (invoke_w (w_fb o) fboj) = None ->
  ci = cj /\ find n (sreg (cst G)) = Some ci.
Proof.
  intros o n ths s0 Hall Habs sched i j ci cj fboi faoi fboj faoj G Hti Htj Hi Hj Hfi Hfj.
  destruct (single_commit_W o n ths s0 Hall Habs sched) as [_ [_ [_ [Hd _]]]]. fold G in Hd.
  assert (Hone : forall k ck fbok faok, nth_error ths k = Some (WTGet n fbok faok) ->
            nth_error (cpcs G) k = Some (CDone (RGet (Got ck))) -> fst (invoke_w (w_fb o) fbok) = None ->
            find n (sreg (cst G)) = Some ck).
  { intros k ck fbok faok Ht Hk Hf. destruct (Hd k _ fbok faok Hk Ht) as [[c [_ H]]|[[c [Hr H]]|[Hr _]]].
    - rewrite Hf in H. discriminate.
    - inversion Hr. subst c. exact H.
    - discriminate. }
  pose proof (Hone i ci fboi faoi Hti Hi Hfi) as H1.
  pose proof (Hone j cj fboj faoj Htj Hj Hfj) as H2.
  split; [|exact H1]. rewrite H1 in H2. inversion H2. reflexivity.
Qed.

(* ---- 4. observations by computation (non-vacuity) ---- *)
(* three callers all miss before anyone inserts; the factory hands client 7 WITH an error to the
   first (no client as far as invoke is concerned: NotFound), 8 to the second, 9 to the third.
   The third inserts first: the second drops its 8 and returns 9 too; exactly one Auto change. *)
Example per_call_factory_race :
  let o := mkW true true true in
  let ths := [WTGet "n" FNil (FBoth 7); WTGet "n" FNil (FOk 8); WTGet "n" FErr (FOk 9)]%string in
  let G := cgrunW o ths [0;1;2;0;1;2;2;1;0;2;1]%nat (cginitW (init 1) ths) in
  cpcs G = [CDone (RGet (NotFound "n")); CDone (RGet (Got 9)); CDone (RGet (Got 9))] /\
  call_done G = true /\
  cpcs_results (cpcs G) = Some [RGet (NotFound "n"); RGet (Got 9); RGet (Got 9)] /\
  find "n"%string (sreg (cst G)) = Some 9 /\
  slog (cst G) = [mkChange "n" 0 9 true] /\ ccbs G = [mkChange "n" 0 9 true].
Proof. vm_compute. repeat split. Qed.

(* A fact about the model (and about router.go's Get): thread 0 misses in the registry, thread 1
   then runs to completion (commit of 8 and its callback), only then thread 0's fallback and
   factory run and fail: thread 0 returns NotFound although the registry holds 8 for the name by
   now -- Get does not look at the registry again after a failed factory. *)
Example notfound_beside_committed :
  let o := mkW true true true in
  let ths := [WTGet "n" FNil FErr; WTGet "n" FNil (FOk 8)]%string in
  let G := cgrunW o ths [0;1;1;1;1;0]%nat (cginitW (init 1) ths) in
  let G1 := cgrunW o ths [0;1;1;1;1]%nat (cginitW (init 1) ths) in
  (* before thread 0's last step: thread 1 has returned 8, the registry holds 8, thread 0 is parked after its miss *)
  cpcs G1 = [CMissed; CDone (RGet (Got 8))] /\ find "n"%string (sreg (cst G1)) = Some 8 /\
  (* after it *)
  cpcs G = [CDone (RGet (NotFound "n")); CDone (RGet (Got 8))] /\
  call_done G = true /\
  find "n"%string (sreg (cst G)) = Some 8 /\
  slog (cst G) = [mkChange "n" 0 8 true] /\ ccbs G = [mkChange "n" 0 8 true].
Proof. vm_compute. repeat split. Qed.

Print Assumptions callbacks_are_transitions_W.
Print Assumptions single_commit_W.
Print Assumptions no_fresh_client_after_commit_W.
Print Assumptions per_call_factory_race.
Print Assumptions notfound_beside_committed.
