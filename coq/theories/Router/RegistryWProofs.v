(* Proofs about Router/RegistryW.v: with per-call fallback/factory outcomes and any subset of the
   options, the registry still refines a plain functional map for every operation sequence;
   Registry.v's Get is the instance where the outcomes come from the configuration. *)
From SC Require Import Base.Prelude Router.Registry Router.RegistryProofs Router.RegistryW.

Local Arguments set : simpl never.
Local Arguments remove : simpl never.

Definition RW (s : state) (p : pstate) : Prop := (forall k, find k (sreg s) = pm p k) /\ slog s = plog p.

Lemma invoke_w_yields : forall b o, invoke_w b o = ((if b then yields o else None), (if b then 1 else 0)).
Proof.
  intros [|] o; cbn; auto. destruct o as [| |c|c]; cbn; auto. destruct (c =? nil_client); reflexivity.
Qed.

Lemma wstep_refines : forall o s p op, RW s p ->
  snd (wstep o s op) = snd (pstepW o p op) /\ RW (fst (wstep o s op)) (fst (pstepW o p op)).
Proof.
  intros o s p op [Hm Hl]. destruct op as [n c|n|n|n fbo fao]; cbn [wstep pstepW].
  - unfold add. cbn. rewrite Hm, Hl. split; auto. split; cbn; auto.
    intros k. rewrite find_set. unfold pset. rewrite Hm. reflexivity.
  - unfold rem. rewrite Hm. destruct (pm p n) as [old|] eqn:E; cbn.
    + split; auto. split; cbn; [|congruence].
      intros k. rewrite find_remove. unfold pdel. rewrite Hm. reflexivity.
    + split; auto. split; auto.
  - unfold has. rewrite Hm. cbn. split; auto. split; auto.
  - unfold getW, get_read. rewrite Hm. destruct (pm p n) as [c|] eqn:E; cbn.
    + split; auto. split; auto.
    + rewrite !invoke_w_yields.
      destruct (if w_fb o then yields fbo else None) as [c|]; cbn.
      * split; auto. split; auto.
      * destruct (if w_fac o then yields fao else None) as [c|]; cbn.
        -- unfold get_insert. rewrite Hm, E. cbn. rewrite Hl. split; auto. split; cbn; auto.
           intros k. rewrite find_set. unfold pset. rewrite Hm. reflexivity.
        -- split; auto. split; auto.
Qed.

Theorem registryW_is_map : forall o ops s p, RW s p ->
  snd (wrun o s ops) = snd (prunW o p ops) /\ RW (fst (wrun o s ops)) (fst (prunW o p ops)).
Proof.
  intros o ops. induction ops as [|op ops IH]; intros s p HR; cbn.
  - split; auto.
  - destruct (wstep_refines o s p op HR) as [Hr HR'].
    destruct (wstep o s op) as [s1 x] eqn:E1. destruct (pstepW o p op) as [p1 y] eqn:E2. cbn in Hr, HR'.
    specialize (IH s1 p1 HR'). destruct IH as [Hrs HR2].
    destruct (wrun o s1 ops) as [s2 xs]. destruct (prunW o p1 ops) as [p2 ys]. cbn in *.
    split; [congruence|exact HR2].
Qed.

(* a Get that returns NotFound changed nothing, whatever the fallback and the factory did; and a
   Get changes the registry only by binding its own name, only when the registry and the fallback
   had nothing and the factory yielded a client -- and then it is that client that is returned *)
Theorem getW_cases : forall o n fbo fao s,
  match find n (sreg s), (if w_fb o then yields fbo else None), (if w_fac o then yields fao else None) with
  | Some c, _, _ => getW o n fbo fao s = (s, WR (RGet (Got c)) 0 0)
  | None, Some c, _ => getW o n fbo fao s = (s, WR (RGet (Got c)) (if w_fb o then 1 else 0) 0)
  | None, None, Some c =>
      getW o n fbo fao s = (mkState (set n c (sreg s)) (slog s ++ [mkChange n nil_client c true]) (snext s),
                            WR (RGet (Got c)) (if w_fb o then 1 else 0) (if w_fac o then 1 else 0))
  | None, None, None => getW o n fbo fao s = (s, WR (RGet (NotFound n)) (if w_fb o then 1 else 0) (if w_fac o then 1 else 0))
  end.
Proof.
  intros o n fbo fao s. unfold getW, get_read. destruct (find n (sreg s)) eqn:E; auto.
  rewrite !invoke_w_yields.
  destruct (if w_fb o then yields fbo else None); auto.
  destruct (if w_fac o then yields fao else None); auto.
  unfold get_insert. rewrite E. reflexivity.
Qed.

(* the factory is consulted only after the fallback yielded nothing, each at most once per Get *)
Theorem getW_call_counts : forall o n fbo fao s s' r k1 k2, getW o n fbo fao s = (s', WR r k1 k2) ->
  (k1 = 0 \/ k1 = 1) /\ (k2 = 0 \/ k2 = 1) /\
  (k1 = 1 -> w_fb o = true /\ find n (sreg s) = None) /\
  (k2 = 1 -> w_fac o = true /\ find n (sreg s) = None /\ (if w_fb o then yields fbo else None) = None).
Proof.
  intros o n fbo fao s s' r k1 k2 H. pose proof (getW_cases o n fbo fao s) as HC.
  destruct (find n (sreg s)) eqn:E.
  - rewrite HC in H. inversion H; subst. repeat split; auto; intros; discriminate.
  - destruct (if w_fb o then yields fbo else None) eqn:E1.
    + rewrite HC in H. inversion H; subst. destruct (w_fb o); repeat split; auto; intros; discriminate.
    + destruct (if w_fac o then yields fao else None) eqn:E2; rewrite HC in H; inversion H; subst;
        destruct (w_fb o); destruct (w_fac o); repeat split; auto; intros; discriminate.
Qed.

(* Registry.v's Get is getW with the outcomes its configuration prescribes (all options given;
   factory identities are positive, as in every run of the harness) *)
Theorem get_is_getW : forall g n s, 0 < snext s ->
  let '(s1, r1) := get g n s in
  let '(s2, WR r2 _ _) := getW (mkW true true true) n (fb_out g n) (fac_out g n s) s in
  sreg s1 = sreg s2 /\ slog s1 = slog s2 /\ RGet r1 = r2.
Proof.
  intros g n s Hpos. pose proof (get_cases g n s) as HG.
  pose proof (getW_cases (mkW true true true) n (fb_out g n) (fac_out g n s) s) as HW.
  cbn [w_fb w_fac] in HW. unfold invoke_fb in HG.
  assert (Hn : (snext s =? nil_client) = false) by (apply Z.eqb_neq; unfold nil_client; lia).
  destruct (find n (sreg s)) eqn:E.
  - rewrite HG, HW. auto.
  - assert (Hfb : yields (fb_out g n) = match find n (fb g) with Some c => if c =? nil_client then None else Some c | None => None end).
    { unfold fb_out. destruct (find n (fb g)); reflexivity. }
    assert (Hfa : yields (fac_out g n s) = if mem_str n (fac_ok g) then Some (snext s) else None).
    { unfold fac_out. destruct (mem_str n (fac_ok g)); cbn; [rewrite Hn|]; reflexivity. }
    rewrite Hfb, Hfa in HW.
    destruct (match find n (fb g) with Some c => if c =? nil_client then None else Some c | None => None end).
    + rewrite HG, HW. auto.
    + destruct (mem_str n (fac_ok g)); rewrite HG, HW; cbn; auto.
Qed.
