(* Proofs about Router/NameDefault.v. *)
From SC Require Import Base.Prelude Router.NameDefault.

(* the interceptor changes a request exactly when it is a message whose singular string field
   "name" is empty, and then only that field, to the default *)
Theorem default_name_only_empty : forall r name,
  (shape r = NameString "" -> replace_empty_name r name = mkReq (NameString name) (payload r)) /\
  (shape r <> NameString "" -> replace_empty_name r name = r).
Proof.
  intros r name. unfold replace_empty_name. split.
  - intros H. rewrite H. reflexivity.
  - intros H. destruct (shape r) as [| | |n|s] eqn:E; auto.
    destruct (String.eqb_spec s ""); auto. subst. contradiction.
Qed.

Theorem default_name_keeps_payload : forall r name, payload (replace_empty_name r name) = payload r.
Proof. intros r name. unfold replace_empty_name. destruct (shape r); auto. destruct (String.eqb _ _); auto. Qed.

Theorem default_name_idempotent : forall r name, name <> ""%string ->
  replace_empty_name (replace_empty_name r name) name = replace_empty_name r name.
Proof.
  intros [sh p] name Hn. unfold replace_empty_name. cbn [shape payload].
  destruct sh as [| | |n|s]; cbn [shape payload]; auto.
  destruct (String.eqb_spec s "") as [->|Hs]; cbn [shape payload].
  - destruct (String.eqb_spec name ""); [contradiction|reflexivity].
  - destruct (String.eqb_spec s ""); [contradiction|reflexivity].
Qed.

(* the stream wrapper only touches messages that were actually received *)
Theorem stream_recv_failed_untouched : forall name r, stream_recv name false r = r.
Proof. reflexivity. Qed.
