(* Proofs about Router/NameDefault.v. *)
From SC Require Import Base.Prelude Router.NameDefault.

(* the interceptor changes a request exactly when it is a message whose singular string field
   "name" is empty, and then only that field, to the default *)
Theorem default_name_only_empty : forall r name,
  (shape r = NameString "" -> replace_empty_name r name = mkReq (NameString name) (payload r)) /\
  (shape r <> NameString "" -> replace_empty_name r name = r).
Proof.
  intros r name. unfold replace_empty_name. split.
  - intros H. rewrite H. reflexivity.
  - intros H. destruct (shape r) as [| | |n|s] eqn:E; auto.
    destruct (String.eqb_spec s ""); auto. subst. contradiction.
Qed.

Theorem default_name_keeps_payload : forall r name, payload (replace_empty_name r name) = payload r.
Proof. intros r name. unfold replace_empty_name. destruct (shape r); auto. destruct (String.eqb _ _); auto. Qed.

Theorem default_name_idempotent : forall r name, name <> ""%string ->
  replace_empty_name (replace_empty_name r name) name = replace_empty_name r name.
Proof.
  intros [sh p] name Hn. unfold replace_empty_name. cbn [shape payload].
  destruct sh as [| | |n|s]; cbn [shape payload]; auto.
  destruct (String.eqb_spec s "") as [->|Hs]; cbn [shape payload].
  - destruct (String.eqb_spec name ""); [contradiction|reflexivity].
  - destruct (String.eqb_spec s ""); [contradiction|reflexivity].
Qed.

(* the stream wrapper only touches messages that were actually received *)
Theorem stream_recv_failed_untouched : forall name r, stream_recv name false r = r.
Proof. reflexivity. Qed.

(* ---- sequences of requests of arbitrary message types ---- *)

(* field numbers and their order never change *)
Theorem replace_in_keeps_fields : forall t v d, map fst (replace_in t v d) = map fst v.
Proof.
  intros t v d. unfold replace_in. rewrite map_map. apply map_ext. intros p. destruct (is_empty_name t p); reflexivity.
Qed.

(* only the field called "name" of THIS message type is ever written: an entry changes iff it is
   the singular string name field of t and is empty, and then it becomes the default *)
Theorem replace_in_only_empty_name : forall t v d i p,
  nth_error v i = Some p ->
  nth_error (replace_in t v d) i =
  Some (if is_empty_name t p then (fst p, d) else p).
Proof. intros t v d i p H. unfold replace_in. rewrite nth_error_map, H. reflexivity. Qed.

Theorem is_empty_name_spec : forall t p, is_empty_name t p = true <->
  exists f, name_field t = Some f /\ fk f = FString /\ fst p = fnum f /\ snd p = ""%string.
Proof.
  intros t p. unfold is_empty_name. split.
  - destruct (name_field t) as [f|]; [|discriminate]. destruct (fk f) eqn:E; try discriminate.
    intros H. apply andb_true_iff in H. destruct H as [H1 H2]. exists f. repeat split; auto.
    + apply Z.eqb_eq. exact H1.
    + apply String.eqb_eq. exact H2.
  - intros [f [-> [-> [-> H]]]]. rewrite Z.eqb_refl. destruct p as [n s]. cbn in *. subst s. reflexivity.
Qed.

(* the name field is found by its text name in the type of the message at hand *)
Theorem name_field_spec : forall t f, name_field t = Some f -> In f (tfields t) /\ ftext f = "name"%string.
Proof.
  intros t f H. unfold name_field in H. apply find_some in H. destruct H as [H1 H2].
  split; auto. apply String.eqb_eq. exact H2.
Qed.

(* for EVERY sequence of requests of arbitrary types through one interceptor, each request is
   treated on its own: what passed before (of whatever type) has no influence, a request whose
   RecvMsg failed is untouched *)
Theorem default_name_sequence : forall d steps i path t v,
  nth_error steps i = Some (path, t, v) ->
  nth_error (run_seq d steps) i = Some (if path =? 2 then v else replace_in t v d).
Proof.
  intros d steps. unfold run_seq. induction steps as [|s steps IH]; intros [|i] path t v H; cbn in *; try discriminate.
  - inversion H. reflexivity.
  - apply IH. exact H.
Qed.

Theorem run_seq_app : forall d s1 s2, run_seq d (s1 ++ s2) = run_seq d s1 ++ run_seq d s2.
Proof. intros. unfold run_seq. apply map_app. Qed.

(* for every sequence of messages received on one wrapped stream, each successfully received
   message -- the first as well as every later one -- is treated as by the unary interceptor,
   and a message whose RecvMsg failed is left alone *)
Theorem stream_session_per_message : forall d rs i ok t v,
  nth_error rs i = Some (ok, t, v) ->
  nth_error (stream_session d rs) i = Some (if ok then unary_msg d t v else v).
Proof.
  intros d rs. unfold stream_session. induction rs as [|r rs IH]; intros [|i] ok t v H; cbn in *; try discriminate.
  - inversion H. reflexivity.
  - apply IH. exact H.
Qed.

Theorem stream_session_length : forall d rs, List.length (stream_session d rs) = List.length rs.
Proof. intros. unfold stream_session. apply map_length. Qed.
