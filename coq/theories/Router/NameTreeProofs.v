(* replaceEmptyNameField over message trees fills in only an empty root name: every other field of
   the root -- in particular every nested message, whatever its own "name" holds -- is unchanged. *)
From SC Require Import Base.Prelude Router.NameDefault Router.NameDefaultProofs Router.NameTree.

Theorem replace_tree_fields : forall d t fs i p, nth_error fs i = Some p ->
  nth_error (tfields_of (replace_tree d (MT t fs))) i = Some (if is_empty_name_t t p then (fst p, VStr d) else p).
Proof. intros d t fs i p H. cbn. rewrite nth_error_map, H. reflexivity. Qed.

Theorem replace_tree_shape : forall d m,
  ttype_of (replace_tree d m) = ttype_of m /\
  map fst (tfields_of (replace_tree d m)) = map fst (tfields_of m).
Proof.
  intros d [t fs]. cbn. split; auto. rewrite map_map. apply map_ext.
  intros p. destruct (is_empty_name_t t p); reflexivity.
Qed.

(* what can change: exactly the singular string field called "name" of the ROOT's type, when "" *)
Theorem is_empty_name_t_spec : forall t n v,
  is_empty_name_t t (n, v) = true <->
  exists f, name_field t = Some f /\ fk f = FString /\ n = fnum f /\ v = VStr "".
Proof.
  intros t n v. unfold is_empty_name_t. cbn [fst snd]. split.
  - destruct (name_field t) as [f|]; [|discriminate]. destruct (fk f) eqn:Ek; try discriminate.
    intros H. apply andb_true_iff in H. destruct H as [Hn Hv]. apply Z.eqb_eq in Hn.
    destruct v as [s| | | |]; try discriminate. apply String.eqb_eq in Hv. subst. exists f. auto.
  - intros [f [Hf [Hk [Hn Hv]]]]. rewrite Hf, Hk. subst. rewrite Z.eqb_refl. reflexivity.
Qed.

(* nested messages, repeated fields, scalars and non-empty strings are never touched *)
Theorem replace_tree_nested_untouched : forall d t fs i n v, nth_error fs i = Some (n, v) ->
  (forall s, v = VStr s -> s <> ""%string) ->
  nth_error (tfields_of (replace_tree d (MT t fs))) i = Some (n, v).
Proof.
  intros d t fs i n v H Hv. rewrite (replace_tree_fields d t fs i (n, v) H).
  destruct (is_empty_name_t t (n, v)) eqn:E; auto.
  apply is_empty_name_t_spec in E. destruct E as [f [_ [_ [_ E]]]]. exfalso. exact (Hv ""%string E eq_refl).
Qed.

Corollary replace_tree_submessage_untouched : forall d t fs i n sub, nth_error fs i = Some (n, VMsg sub) ->
  nth_error (tfields_of (replace_tree d (MT t fs))) i = Some (n, VMsg sub).
Proof. intros. apply replace_tree_nested_untouched; auto. intros s Hs. discriminate. Qed.

(* a type without a name field, or whose name is not a singular string: nothing changes *)
Theorem replace_tree_no_string_name : forall d t fs,
  (match name_field t with Some f => fk f <> FString | None => True end) ->
  replace_tree d (MT t fs) = MT t fs.
Proof.
  intros d t fs H. cbn. f_equal. rewrite <- (map_id fs) at 2. apply map_ext. intros p.
  unfold is_empty_name_t. destruct (name_field t) as [f|]; auto. destruct (fk f); auto. contradiction.
Qed.

(* applying the interceptor twice is applying it once *)
Theorem replace_tree_idempotent : forall d m, replace_tree d (replace_tree d m) = replace_tree d m.
Proof.
  intros d [t fs]. cbn. f_equal. rewrite map_map. apply map_ext. intros [n v].
  destruct (is_empty_name_t t (n, v)) eqn:E; cbn [fst]; [|rewrite E; reflexivity].
  destruct (is_empty_name_t t (n, VStr d)); reflexivity.
Qed.

(* the field-level model of NameDefault.v (used by the correspondence) is the image of the tree
   model under ANY rendering of field values that renders a string as itself *)
Theorem replace_tree_renders_to_replace_in : forall (rend : fval -> string) d t fs,
  (forall s, rend (VStr s) = s) -> well_typed_name t fs ->
  map (fun p => (fst p, rend (snd p))) (tfields_of (replace_tree d (MT t fs))) =
  replace_in t (map (fun p => (fst p, rend (snd p))) fs) d.
Proof.
  intros rend d t fs Hr Hwt. cbn. unfold replace_in. rewrite !map_map. apply map_ext_in.
  intros [n v] Hin. cbn [fst snd].
  assert (E : is_empty_name t (n, rend v) = is_empty_name_t t (n, v)).
  { unfold is_empty_name, is_empty_name_t. cbn [fst snd]. destruct (name_field t) as [f|] eqn:Ef; auto.
    destruct (fk f) eqn:Ek; auto. destruct (Z.eqb_spec n (fnum f)) as [Hn|Hn]; auto. cbn [andb].
    destruct (Hwt f n v Ef Ek Hin Hn) as [s Hs]. subst v. rewrite Hr. reflexivity. }
  rewrite E. destruct (is_empty_name_t t (n, v)); cbn [fst snd]; [rewrite Hr|]; reflexivity.
Qed.
