(* Agreement with the model implies the property predicate for the two schedule kinds of the
   judge (KSched: RouterGet.v's LTS; KSchedCb: RouterCb.v's LTS with callbacks as steps), for EVERY
   configuration, prefix, thread list and schedule -- so the judge's verdict 0 on such a case never
   rests on an unproved link between the model's run and the boolean predicate.
   Ingredients: completeness of the computable multiset comparison perm_eqb / remove_all;
   positivity of factory identities along every run; the model-run theorems of
   RouterGetProofs.v / RouterCbProofs.v; an invariant relating the callbacks delivered so far to
   what each finished call returned (the per-call oracle expected_cbs). *)
From Coq Require Import Permutation.
From SC Require Import Base.Prelude Router.Registry Router.RegistryProofs Router.RouterGet Router.RouterGetProofs
  Router.RouterCb Router.RouterCbProofs Router.RegistryW Router.RouteW Router.Route Router.Pump Router.NameDefault
  Router.C12Judge Router.C12JudgeProofs.

Local Arguments set : simpl never.
Local Arguments remove : simpl never.

(* ---------- completeness of the multiset comparison ---------- *)
Lemma remove1_in : forall c l, In c l -> exists l', remove1 c l = Some l' /\ Permutation l (c :: l').
Proof.
  intros c l. induction l as [|d l IH]; intros H; [destruct H|]. cbn [remove1].
  destruct (change_eqb c d) eqn:E.
  - apply change_eqb_eq in E. subst d. exists l. split; auto.
  - destruct H as [->|H]; [rewrite change_eqb_refl in E; discriminate|].
    destruct (IH H) as [l' [E1 P]]. rewrite E1. exists (d :: l'). split; auto.
    eapply perm_trans; [apply perm_skip; exact P|apply perm_swap].
Qed.

Theorem perm_eqb_complete : forall a b, Permutation a b -> perm_eqb a b = true.
Proof.
  induction a as [|c a IH]; intros b H.
  - apply Permutation_nil in H. subst b. reflexivity.
  - cbn [perm_eqb]. assert (Hin : In c b) by (eapply Permutation_in; [exact H|left; reflexivity]).
    destruct (remove1_in c b Hin) as [b' [E P]]. rewrite E. apply IH.
    eapply Permutation_cons_inv. eapply perm_trans; [exact H|exact P].
Qed.

Theorem perm_eqb_iff : forall a b, perm_eqb a b = true <-> Permutation a b.
Proof. intros a b. split; [apply perm_eqb_sound|apply perm_eqb_complete]. Qed.

Lemma remove_all_complete : forall e t a, Permutation t (e ++ a) ->
  exists rest, remove_all e t = Some rest /\ Permutation rest a.
Proof.
  induction e as [|c e IH]; intros t a H; cbn [remove_all].
  - exists t. split; auto.
  - assert (Hin : In c t) by (eapply Permutation_in; [symmetry; exact H|left; reflexivity]).
    destruct (remove1_in c t Hin) as [t' [E P]]. rewrite E. apply IH.
    eapply Permutation_cons_inv. eapply perm_trans; [symmetry; exact P|exact H].
Qed.

Lemma nodup_changes_NoDup : forall l, nodup_changes l = true -> NoDup l.
Proof.
  induction l as [|c l IH]; cbn; intros H; [constructor|].
  apply andb_true_iff in H. destruct H as [H1 H2]. constructor; auto.
  intros Hin. apply negb_true_iff in H1.
  assert (existsb (change_eqb c) l = true) by (apply existsb_exists; exists c; split; auto; apply change_eqb_refl).
  congruence.
Qed.

Lemma NoDup_nodup_changes : forall l, NoDup l -> nodup_changes l = true.
Proof.
  induction l as [|c l IH]; cbn; intros H; auto. inversion H; subst.
  rewrite IH by assumption. rewrite andb_true_r. apply negb_true_iff.
  destruct (existsb (change_eqb c) l) eqn:E; auto.
  apply existsb_exists in E. destruct E as [d [Hd He]]. apply change_eqb_eq in He. subst d. contradiction.
Qed.

(* ---------- small list facts ---------- *)
Lemma NoDup_app_tail : forall {A} (l t : list A), NoDup (l ++ t) -> NoDup t.
Proof. induction l; cbn; intros t H; auto. inversion H; subst. apply IHl. assumption. Qed.
Lemma skipn_length_app : forall {A} (l t : list A), skipn (List.length l) (l ++ t) = t.
Proof. induction l; cbn; auto. Qed.
Lemma firstn_length_app : forall {A} (l t : list A), firstn (List.length l) (l ++ t) = l.
Proof. induction l; cbn; intros; auto. rewrite IHl. reflexivity. Qed.

Lemma pcs_results_spec : forall pcs rs, pcs_results pcs = Some rs -> pcs = map PDone rs.
Proof.
  unfold pcs_results. induction pcs as [|p pcs IH]; cbn [fold_right]; intros rs H.
  - inversion H. reflexivity.
  - destruct p; try discriminate. destruct (fold_right _ _ pcs) as [l|]; [|discriminate].
    inversion H; subst. cbn. f_equal. apply IH. reflexivity.
Qed.

Lemma cpcs_results_spec : forall pcs rs, cpcs_results pcs = Some rs -> pcs = map CDone rs /\ forallb cdone pcs = true.
Proof.
  unfold cpcs_results. induction pcs as [|p pcs IH]; cbn [fold_right]; intros rs H.
  - inversion H. split; reflexivity.
  - destruct p; try discriminate. destruct (fold_right _ _ pcs) as [l|]; [|discriminate].
    inversion H; subst. cbn. destruct (IH l eq_refl) as [H1 H2]. rewrite <- H1, H2. split; reflexivity.
Qed.

Lemma gstep_len : forall g ths G i, List.length (gpcs (gstep g ths G i)) = List.length (gpcs G).
Proof.
  intros g ths G i. unfold gstep. destruct (nth_error ths i); auto. destruct (nth_error (gpcs G) i); auto.
  destruct (tstep g t p (gst G)). cbn. apply upd_length.
Qed.
Lemma grun_len : forall g ths sched G, List.length (gpcs (grun g ths sched G)) = List.length (gpcs G).
Proof.
  intros g ths sched. induction sched as [|i sched IH]; intros G; cbn; auto.
  fold (grun g ths sched (gstep g ths G i)). rewrite IH. apply gstep_len.
Qed.

Lemma same_get_name_spec : forall ths n, same_get_name ths = Some n ->
  ths <> [] /\ forall k, In k ths -> k = TGet n.
Proof.
  intros ths n H. unfold same_get_name in H. destruct ths as [|[m| |] r]; try discriminate.
  destruct (forallb _ r) eqn:E; [|discriminate]. inversion H; subst m. split; [discriminate|].
  intros k [<-|Hk]; auto. rewrite forallb_forall in E. specialize (E k Hk).
  destruct k; try discriminate. apply String.eqb_eq in E. subst. reflexivity.
Qed.

(* ---------- factory identities are positive along every run of concurrent Gets ---------- *)
Section Positive.
  Variable g : cfg.
  Variable n : string.
  Variable ths : list tkind.
  Variable s0 : state.
  Hypothesis all_get : forall k, In k ths -> k = TGet n.
  Hypothesis absent : find n (sreg s0) = None.
  Hypothesis pos0 : 0 < snext s0.

  Definition PosInv (G : gstate) : Prop :=
    0 < snext (gst G) /\
    (forall c, find n (sreg (gst G)) = Some c -> 0 < c) /\
    (forall i c, nth_error (gpcs G) i = Some (PMade c) -> 0 < c).

  Lemma PosInv_step : forall G i, PosInv G -> PosInv (gstep g ths G i).
  Proof.
    intros [s pcs] i [H1 [H2 H3]]. unfold gstep. cbn [gst gpcs] in *.
    destruct (nth_error ths i) as [k|] eqn:Ek; [|repeat split; auto].
    destruct (nth_error pcs i) as [p|] eqn:Ep; [|repeat split; auto].
    assert (Hk : k = TGet n) by (apply all_get; eapply nth_error_In; eauto). subst k.
    assert (Hupd : forall s' p', 0 < snext s' ->
       (forall c, find n (sreg s') = Some c -> 0 < c) ->
       (match p' with PMade c => 0 < c | _ => True end) ->
       PosInv (mkG s' (upd i p' pcs))).
    { intros s' p' A B C. repeat split; cbn [gst gpcs]; auto.
      intros j c Hj. rewrite nth_error_upd in Hj. destruct (Nat.eqb_spec i j) as [->|Hne].
      - rewrite Ep in Hj. inversion Hj; subst. exact C.
      - eapply H3; eauto. }
    destruct p as [| |c|r]; cbn [tstep].
    - unfold get_read. destruct (find n (sreg s)) eqn:E; apply Hupd; auto; rewrite E; exact H2.
    - unfold get_make. destruct (invoke_fb g n); [apply Hupd; auto|].
      destruct (mem_str n (fac_ok g)); apply Hupd; cbn; auto; lia.
    - unfold get_insert. destruct (find n (sreg s)) eqn:E; [apply Hupd; auto; rewrite E; exact H2|].
      apply Hupd; cbn; auto. intros c0. rewrite find_set, String.eqb_refl. intros Hc. inversion Hc; subst.
      eapply H3; eauto.
    - apply Hupd; auto.
  Qed.

  Lemma PosInv_run : forall sched G, PosInv G -> PosInv (grun g ths sched G).
  Proof. induction sched as [|i sched IH]; intros G H; cbn; auto. apply IH, PosInv_step, H. Qed.

  Lemma commit_positive : forall sched c,
    find n (sreg (gst (grun g ths sched (ginit s0 ths)))) = Some c -> 0 < c.
  Proof.
    intros sched c. assert (H0 : PosInv (ginit s0 ths)).
    { repeat split; cbn; auto.
      - rewrite absent. discriminate.
      - intros i c0 H. apply nth_error_In in H. apply in_map_iff in H. destruct H as [_ [H _]]. discriminate. }
    destruct (PosInv_run sched _ H0) as [_ [H _]]. apply H.
  Qed.
End Positive.

(* ---------- KSched: the concurrent-first-Get predicate holds of every completed run ---------- *)
Lemma rrun_prun : forall g first pre, 0 < first -> ops_nonnil pre = true ->
  let s0 := fst (rrun g (init first) pre) in
  let p0 := fst (prun g (mkP pempty [] first) pre) in
  R s0 p0 /\ 0 < snext s0 /\ (forall k c, find k (sreg s0) = Some c -> c <> nil_client).
Proof.
  intros g first pre Hf Hnn s0 p0.
  destruct (registry_is_map g pre (init first) (mkP pempty [] first) (R_init first)) as [_ HR].
  fold s0 p0 in HR. split; auto.
  assert (HP : PInv p0).
  { apply prun_inv; auto. repeat split; cbn; auto. intros; discriminate. }
  destruct HR as [Hm [Hl Hn]]. destruct HP as [_ [_ [Hp Hz]]]. split; [rewrite Hn; exact Hp|].
  intros k c. rewrite Hm. apply Hz.
Qed.

Lemma all_sim_got : forall c rs, (forall r, In r rs -> r = RGet (Got c)) -> forallb (rres_sim (RGet (Got c))) rs = true.
Proof.
  intros c rs H. apply forallb_forall. intros r Hr. rewrite (H r Hr). cbn. apply Z.eqb_refl.
Qed.

Lemma sched_ok_run : forall g first pre ths sched rs final,
  0 < first -> ops_nonnil pre = true ->
  let s0 := fst (rrun g (init first) pre) in
  let G := grun g ths sched (ginit s0 ths) in
  gpcs G = map PDone rs ->
  forallb (fun nc => or_nil (find (fst nc) (sreg (gst G))) =? snd nc) final = true ->
  sched_ok g first pre ths rs (slog (gst G)) final = true.
Proof.
  intros g first pre ths sched rs final Hf Hnn s0 G Hpcs Hfin.
  destruct (rrun_prun g first pre Hf Hnn) as [[Hm [Hl _]] [Hpos _]]. fold s0 in Hm, Hl, Hpos.
  unfold sched_ok. destruct (same_get_name ths) as [n|] eqn:Esn; [|reflexivity].
  destruct (same_get_name_spec _ _ Esn) as [Hne Hall].
  destruct (prun g (mkP pempty [] first) pre) as [p0 ys]. cbn [fst] in Hm, Hl.
  destruct (pm p0 n) as [c0|] eqn:Epm; [reflexivity|].
  destruct (invoke_fb g n) as [cf|] eqn:Efb; [reflexivity|].
  assert (Habs : find n (sreg s0) = None) by (rewrite Hm; exact Epm).
  assert (Hlen : List.length rs = List.length ths).
  { rewrite <- (map_length PDone rs), <- Hpcs. unfold G. rewrite grun_len. unfold ginit. cbn. apply map_length. }
  assert (Hlz : (Z.of_nat (List.length rs) =? zlen ths) = true) by (unfold zlen; rewrite Hlen; apply Z.eqb_refl).
  rewrite Hlz. cbn [andb].
  assert (Hnth : forall r, In r rs -> exists i, nth_error (gpcs G) i = Some (PDone r)).
  { intros r Hr. apply In_nth_error in Hr. destruct Hr as [i Hi]. exists i. rewrite Hpcs, nth_error_map, Hi. reflexivity. }
  destruct rs as [|r0 rs']. { destruct ths; [contradiction|discriminate]. }
  rewrite <- Hl.
  destruct (mem_str n (fac_ok g)) eqn:Efac.
  - (* the factory knows the name *)
    destruct (single_factory_commit g n ths s0 Hall Habs Efb Efac sched) as [Hlog [_ Hdone]]. fold G in Hlog, Hdone.
    destruct (Hnth r0 (or_introl eq_refl)) as [i0 Hi0]. destruct (Hdone _ _ Hi0) as [c [Hc Hr0]].
    assert (Hrs : forall r, In r (r0 :: rs') -> r = RGet (Got c)).
    { intros r Hr. destruct (Hnth r Hr) as [i Hi]. destruct (Hdone _ _ Hi) as [c' [Hc' Hr']]. congruence. }
    subst r0. rewrite Hc in Hlog. cbn [auto_entry] in Hlog.
    assert (Hcpos : 0 < c) by (eapply (commit_positive g n ths s0 Hall Habs Hpos sched); exact Hc).
    cbn [all_same_res]. rewrite (all_sim_got c rs') by (intros r Hr; apply Hrs; right; exact Hr).
    rewrite Hlog, skipn_length_app. unfold count_auto. cbn [filter cauto cname andb]. rewrite String.eqb_refl. cbn [andb zlen List.length].
    assert (Hnz : (c =? nil_client) = false) by (apply Z.eqb_neq; unfold nil_client; lia). rewrite Hnz.
    cbn [negb andb Z.of_nat Z.eqb Pos.of_succ_nat Pos.eqb].
    apply andb_true_iff. split; [apply andb_true_iff; split; [reflexivity|]|].
    + apply forallb_forall. intros [k v] Hin. rewrite forallb_forall in Hfin. specialize (Hfin (k, v) Hin). cbn [fst snd] in *.
      destruct (String.eqb k n) eqn:En; auto. apply String.eqb_eq in En. subst k. rewrite Hc in Hfin. cbn in Hfin.
      cbn. rewrite Z.eqb_sym. exact Hfin.
    + rewrite existsb_app. cbn [existsb cauto cname cnew cold].
      rewrite String.eqb_refl, !Z.eqb_refl. cbn. apply orb_true_r.
  - (* nobody knows the name *)
    destruct (concurrent_notfound_touches_nothing g n ths s0 Hall Habs Efb Efac sched) as [Hst Hdone]. fold G in Hst, Hdone.
    assert (Hrs : forall r, In r (r0 :: rs') -> r = RGet (NotFound n)).
    { intros r Hr. destruct (Hnth r Hr) as [i Hi]. apply (Hdone _ _ Hi). }
    rewrite (Hrs r0 (or_introl eq_refl)). cbn [all_same_res negb andb].
    assert (Hsim : forallb (rres_sim (RGet (NotFound n))) rs' = true).
    { apply forallb_forall. intros r Hr. rewrite (Hrs r (or_intror Hr)). reflexivity. }
    rewrite Hsim, Hst, skipn_all. cbn [andb]. unfold count_auto. cbn [filter zlen List.length Z.of_nat Z.eqb andb].
    apply forallb_forall. intros [k v] Hin. rewrite forallb_forall in Hfin. specialize (Hfin (k, v) Hin). cbn [fst snd] in *.
    destruct (String.eqb k n) eqn:En; auto. apply String.eqb_eq in En. subst k. rewrite Hst, Habs in Hfin. cbn in Hfin.
    cbn. rewrite Z.eqb_sym. exact Hfin.
Qed.

Lemma sched_guard_spec : forall first pre ths, sched_guard first pre ths = true ->
  0 < first /\ ops_nonnil pre = true /\ (forall n c, In (TAdd n c) ths -> c <> nil_client).
Proof.
  intros first pre ths H. unfold sched_guard in H. apply andb_true_iff in H. destruct H as [H H3].
  apply andb_true_iff in H. destruct H as [H1 H2]. split; [apply Z.ltb_lt; exact H1|]. split; [exact H2|].
  intros n c Hin. rewrite forallb_forall in H3. specialize (H3 _ Hin). cbn in H3.
  apply negb_true_iff in H3. apply Z.eqb_neq in H3. exact H3.
Qed.

Theorem judge_agrees_ok_sched : forall g first pre ths sched obs log final,
  sched_guard first pre ths = true ->
  agrees (KSched g first pre ths sched obs log final) = true ->
  C12_ok (KSched g first pre ths sched obs log final) = true.
Proof.
  intros g first pre ths sched obs log final Hg. destruct (sched_guard_spec _ _ _ Hg) as [Hf [Hnn _]].
  cbn [agrees C12_ok]. pose proof (sched_ok_run g first pre ths sched) as HS. cbn zeta in HS.
  destruct (rrun g (init first) pre) as [s0 xs]. cbn [fst] in HS.
  destruct (pcs_results (gpcs (grun g ths sched (ginit s0 ths)))) as [rs|] eqn:Er; [|discriminate].
  intros H. apply andb_true_iff in H. destruct H as [H H3]. apply andb_true_iff in H. destruct H as [H1 H2].
  rewrite (list_eqb_eq rres_eqb rres_eqb_eq _ _ H1), (list_eqb_eq change_eqb change_eqb_eq _ _ H2).
  apply HS; auto. apply pcs_results_spec. exact Er.
Qed.

(* ---------- KSchedCb ---------- *)
(* what a finished call of kind k reported, from what it returned (the judge's expected_cbs, per thread) *)
Definition exp1 (k : tkind) (p : cpc) : list change :=
  match p with
  | CDone r =>
      match k, r with
      | TAdd n c, RClient old => [mkChange n old c false]
      | TRemove n, RClient old => if old =? nil_client then [] else [mkChange n old nil_client false]
      | _, _ => []
      end
  | _ => []
  end.

Fixpoint exp_of (ths : list tkind) (pcs : list cpc) : list change :=
  match ths, pcs with
  | k :: ths', p :: pcs' => exp1 k p ++ exp_of ths' pcs'
  | _, _ => []
  end.

Lemma expected_cbs_exp : forall ths pcs rs, cpcs_results pcs = Some rs -> expected_cbs ths rs = exp_of ths pcs.
Proof.
  induction ths as [|k ths IH]; intros pcs rs H.
  - destruct rs; reflexivity.
  - destruct pcs as [|p pcs].
    + cbn in H. inversion H. destruct k; reflexivity.
    + unfold cpcs_results in H. cbn [fold_right] in H. fold (cpcs_results pcs) in H.
      destruct p; try discriminate. destruct (cpcs_results pcs) as [l|] eqn:El; [|discriminate].
      inversion H; subst rs. cbn [exp_of exp1]. specialize (IH pcs l El).
      destruct k as [n|n c|n]; destruct r as [old|b|gr]; cbn [expected_cbs]; rewrite IH; try reflexivity.
      destruct (old =? nil_client); reflexivity.
Qed.

Lemma exp_upd : forall ths pcs i k p p', nth_error ths i = Some k -> nth_error pcs i = Some p ->
  Permutation (exp1 k p ++ exp_of ths (upd i p' pcs)) (exp1 k p' ++ exp_of ths pcs).
Proof.
  induction ths as [|k0 ths IH]; intros pcs i k p p' Hk Hp.
  - destruct i; discriminate.
  - destruct pcs as [|q pcs]; [destruct i; discriminate|].
    destruct i as [|i]; cbn in Hk, Hp.
    + inversion Hk; inversion Hp; subst. cbn [upd exp_of].
      rewrite !app_assoc. apply Permutation_app_tail. apply Permutation_app_comm.
    + cbn [upd exp_of]. specialize (IH pcs i k p p' Hk Hp).
      rewrite !app_assoc.
      eapply perm_trans. { apply Permutation_app_tail. apply Permutation_app_comm. }
      rewrite <- !app_assoc. eapply perm_trans. { apply Permutation_app_head. exact IH. }
      rewrite !app_assoc. apply Permutation_app_tail. apply Permutation_app_comm.
Qed.

Section CbOracle.
  Variable g : cfg.
  Variable ths : list tkind.
  Variable base : list change.
  Hypothesis adds_nonnil : forall n c, In (TAdd n c) ths -> c <> nil_client.

  (* the judge's test of a left-over callback: an Auto change nil -> c for a factory name somebody asked for *)
  Definition autoPb (ch : change) : bool :=
    cauto ch && (cold ch =? nil_client) && negb (cnew ch =? nil_client)
    && mem_str (cname ch) (fac_ok g)
    && existsb (fun k => match k with TGet m => String.eqb m (cname ch) | _ => false end) ths.

  (* a thread parked before its callback will report exactly what the oracle expects of its result,
     or (a Get that committed) a legitimate Auto change *)
  Definition wfcb (k : tkind) (ch : change) (r : rres) : Prop :=
    exp1 k (CDone r) = [ch] \/ (exp1 k (CDone r) = [] /\ autoPb ch = true).

  Definition wfp (k : tkind) (p : cpc) : Prop :=
    match p with
    | CMade c => exists n, k = TGet n /\ mem_str n (fac_ok g) = true /\ 0 < c
    | CCb ch r => wfcb k ch r
    | _ => True
    end.

  Definition MInv (G : cgstate) : Prop :=
    (exists t autos, ccbs G = base ++ t /\ Permutation t (exp_of ths (cpcs G) ++ autos)
                     /\ Forall (fun ch => autoPb ch = true) autos) /\
    (forall i k p, nth_error ths i = Some k -> nth_error (cpcs G) i = Some p -> wfp k p) /\
    (forall k c, find k (sreg (cst G)) = Some c -> c <> nil_client) /\
    0 < snext (cst G).

  Lemma MInv_quiet : forall s cbs pcs i k p s' p',
    MInv (mkCG s cbs pcs) -> nth_error ths i = Some k -> nth_error pcs i = Some p ->
    exp1 k p = [] -> exp1 k p' = [] -> wfp k p' ->
    (forall k c, find k (sreg s') = Some c -> c <> nil_client) -> 0 < snext s' ->
    MInv (mkCG s' cbs (upd i p' pcs)).
  Proof.
    intros s cbs pcs i k p s' p' [[t [autos [Hc [HP HA]]]] [Hw _]] Hk Hp He He' Hw' Hr Hn.
    cbn [cst ccbs cpcs] in *. split; [|split; [|split]]; cbn [cst ccbs cpcs]; auto.
    - exists t, autos. split; auto. split; auto.
      pose proof (exp_upd ths pcs i k p p' Hk Hp) as HU. rewrite He, He' in HU. cbn in HU.
      eapply perm_trans; [exact HP|]. apply Permutation_app_tail. symmetry. exact HU.
    - intros j k' q Hk' Hq. rewrite nth_error_upd in Hq. destruct (Nat.eqb_spec i j) as [->|Hne].
      + rewrite Hp in Hq. inversion Hq; subst q. rewrite Hk in Hk'. inversion Hk'; subst k'. exact Hw'.
      + eapply Hw; eauto.
  Qed.

  Lemma MInv_step : forall G i, MInv G -> MInv (cgstep g ths G i).
  Proof.
    intros [s cbs pcs] i HI. unfold cgstep. cbn [cst ccbs cpcs].
    destruct (nth_error ths i) as [k|] eqn:Ek; [|exact HI].
    destruct (nth_error pcs i) as [p|] eqn:Ep; [|exact HI].
    pose proof HI as [[t [autos [Hc [HP HA]]]] [Hw [Hr Hn]]]. cbn [cst ccbs cpcs] in *.
    assert (Hstut : MInv (mkCG s cbs (upd i p pcs))) by (rewrite upd_same; auto).
    destruct p as [| |c|ch r|r].
    - (* CStart *) destruct k as [n|n c|n]; cbn [cstep].
      + unfold get_read. destruct (find n (sreg s)); eapply MInv_quiet; eauto; try reflexivity; try exact I.
      + unfold add. eapply MInv_quiet; eauto; try reflexivity.
        * left. reflexivity.
        * cbn [sreg]. intros k c0. rewrite find_set. destruct (String.eqb k n); [|apply Hr].
          intros H. inversion H; subst. eapply adds_nonnil. eapply nth_error_In. exact Ek.
      + destruct (find n (sreg s)) as [old|] eqn:Ef.
        * unfold rem. rewrite Ef. cbn [fst]. eapply MInv_quiet; eauto; try reflexivity.
          -- left. cbn [exp1]. assert (Ho : (old =? nil_client) = false) by (apply Z.eqb_neq; eapply Hr; eauto).
             rewrite Ho. reflexivity.
          -- cbn [sreg]. intros k c0. rewrite find_remove. destruct (String.eqb k n); [discriminate|apply Hr].
        * eapply MInv_quiet; eauto; try reflexivity; try exact I.
    - (* CMissed *) destruct k as [n|n c|n]; cbn [cstep]; try exact Hstut.
      unfold get_make. destruct (invoke_fb g n); [eapply MInv_quiet; eauto; try reflexivity; try exact I|].
      destruct (mem_str n (fac_ok g)) eqn:Em; eapply MInv_quiet; eauto; try reflexivity; cbn; try exact I; try lia.
      exists n. auto.
    - (* CMade *) destruct k as [n|n c'|n]; cbn [cstep]; try exact Hstut.
      destruct (find n (sreg s)) as [c2|] eqn:Ef; [eapply MInv_quiet; eauto; try reflexivity; try exact I|].
      unfold get_insert. rewrite Ef. cbn [fst].
      destruct (Hw i _ _ Ek Ep) as [n' [Hn' [Hm Hpos]]]. inversion Hn'; subst n'.
      assert (Hcz : c <> nil_client) by (unfold nil_client; lia).
      eapply MInv_quiet; eauto; try reflexivity.
      + right. split; [reflexivity|]. unfold autoPb. cbn [cauto cold cnew cname]. rewrite Hm.
        assert (Hz : (c =? nil_client) = false) by (apply Z.eqb_neq; exact Hcz). rewrite Hz. cbn.
        apply existsb_exists. exists (TGet n). split; [eapply nth_error_In; eauto|apply String.eqb_refl].
      + cbn [sreg]. intros k c0. rewrite find_set. destruct (String.eqb k n); [|apply Hr].
        intros H. inversion H; subst. exact Hcz.
    - (* CCb: the callback is delivered *) cbn [cstep].
      pose proof (Hw i _ _ Ek Ep) as Hcb. cbn [wfp] in Hcb.
      pose proof (exp_upd ths pcs i k (CCb ch r) (CDone r) Ek Ep) as HU.
      change (exp1 k (CCb ch r)) with (@nil change) in HU. cbn [app] in HU.
      split; [|split; [|split]]; cbn [cst ccbs cpcs]; auto.
      + destruct Hcb as [He|[He Ha]].
        * exists (t ++ [ch]), autos. split; [rewrite Hc, app_assoc; reflexivity|]. split; auto.
          rewrite He in HU. eapply perm_trans. { apply Permutation_app_tail. exact HP. }
          eapply perm_trans. { apply Permutation_app_comm. } cbn [app].
          eapply perm_trans. 2:{ apply Permutation_app_tail. symmetry. exact HU. }
          reflexivity.
        * exists (t ++ [ch]), (autos ++ [ch]). split; [rewrite Hc, app_assoc; reflexivity|]. split.
          -- rewrite He in HU. cbn [app] in HU. rewrite app_assoc. apply Permutation_app_tail.
             eapply perm_trans; [exact HP|]. apply Permutation_app_tail. symmetry. exact HU.
          -- apply Forall_app. split; auto.
      + intros j k' q Hk' Hq. rewrite nth_error_upd in Hq. destruct (Nat.eqb_spec i j) as [->|Hne].
        * rewrite Ep in Hq. inversion Hq; subst q. exact I.
        * eapply Hw; eauto.
    - exact Hstut.
  Qed.

  Lemma MInv_run : forall sched G, MInv G -> MInv (cgrun g ths sched G).
  Proof. induction sched as [|i sched IH]; intros G H; cbn; auto. apply IH, MInv_step, H. Qed.
End CbOracle.

Lemma exp_of_start : forall ths, exp_of ths (map (fun _ => CStart) ths) = [].
Proof. induction ths; cbn; auto. Qed.

Lemma cb_multiset_ok_run : forall g ths s0 sched rs,
  (forall n c, In (TAdd n c) ths -> c <> nil_client) ->
  (forall k c, find k (sreg s0) = Some c -> c <> nil_client) -> 0 < snext s0 ->
  let G := cgrun g ths sched (cginit s0 ths) in
  cpcs_results (cpcs G) = Some rs ->
  exists t, ccbs G = slog s0 ++ t /\ cb_multiset_ok g ths rs t = true.
Proof.
  intros g ths s0 sched rs Ha Hr Hn G Hres.
  assert (H0 : MInv g ths (slog s0) (cginit s0 ths)).
  { unfold cginit. split; [|split; [|split]]; cbn [cst ccbs cpcs]; auto.
    - exists [], []. rewrite app_nil_r, exp_of_start. repeat split; auto.
    - intros i k p _ Hp. apply nth_error_In in Hp. apply in_map_iff in Hp. destruct Hp as [_ [<- _]]. exact I. }
  destruct (MInv_run g ths (slog s0) Ha sched _ H0) as [[t [autos [Hc [HP HA]]]] _]. fold G in Hc, HP.
  exists t. split; auto. unfold cb_multiset_ok. rewrite (expected_cbs_exp ths _ rs Hres).
  destruct (remove_all_complete _ _ _ HP) as [rest [E PR]]. rewrite E.
  apply forallb_forall. intros ch Hin. rewrite Forall_forall in HA.
  apply (HA ch). eapply Permutation_in; eauto.
Qed.

(* all calls returned + Gets of one absent name without a fallback: callbacks = transitions, in order *)
Lemma cb_gets_in_order : forall g n ths s0 sched,
  (forall k, In k ths -> k = TGet n) -> find n (sreg s0) = None -> invoke_fb g n = None ->
  let G := cgrun g ths sched (cginit s0 ths) in
  call_done G = true -> ccbs G = slog (cst G).
Proof.
  intros g n ths s0 sched Hall Habs Hfb G Hd.
  destruct (mem_str n (fac_ok g)) eqn:Efac.
  - destruct (cb_single_factory_commit g n ths s0 sched Hall Habs Hfb Efac) as [_ [_ [_ H]]]. apply H. exact Hd.
  - destruct (cb_run_erases g ths sched (cginit s0 ths)) as [sched' [He _]]. rewrite erased_init in He.
    destruct (concurrent_notfound_touches_nothing g n ths s0 Hall Habs Hfb Efac sched') as [Hst _].
    rewrite <- He in Hst. unfold erased in Hst. cbn [gst] in Hst. fold G in Hst.
    destruct (callbacks_are_transitions g ths s0 sched) as [_ HP]. fold G in HP. specialize (HP Hd).
    destruct (ccbs_extends g ths sched (cginit s0 ths)) as [t Ht]. fold G in Ht. cbn [cginit ccbs] in Ht.
    rewrite Ht, Hst in HP |- *. rewrite <- (app_nil_r (slog s0)) in HP at 1.
    apply Permutation_app_inv_l in HP. apply Permutation_nil in HP. subst t. apply app_nil_r.
Qed.

(* transitions are only ever appended *)
Lemma slog_step_extends : forall g ths G0 i, exists u, slog (cst (cgstep g ths G0 i)) = slog (cst G0) ++ u.
Proof.
  intros g ths G0 i. unfold cgstep.
  destruct (nth_error ths i) as [k|]; [|exists []; rewrite app_nil_r; reflexivity].
  destruct (nth_error (cpcs G0) i) as [p|]; [|exists []; rewrite app_nil_r; reflexivity].
  destruct p as [| |c|ch r|r]; cbn [cstep].
  - destruct k as [m|m c|m].
    + destruct (get_read m (cst G0)); exists []; rewrite app_nil_r; reflexivity.
    + unfold add. cbn. eexists. reflexivity.
    + destruct (find m (sreg (cst G0))) eqn:E; [|exists []; rewrite app_nil_r; reflexivity].
      unfold rem. rewrite E. cbn. eexists. reflexivity.
  - destruct k as [m|m c|m]; try (exists []; rewrite app_nil_r; reflexivity).
    unfold get_make. destruct (invoke_fb g m); [exists []; rewrite app_nil_r; reflexivity|].
    destruct (mem_str m (fac_ok g)); exists []; rewrite app_nil_r; reflexivity.
  - destruct k as [m|m c'|m]; try (exists []; rewrite app_nil_r; reflexivity).
    destruct (find m (sreg (cst G0))) eqn:E; [exists []; rewrite app_nil_r; reflexivity|].
    unfold get_insert. rewrite E. cbn. eexists. reflexivity.
  - exists []. rewrite app_nil_r. reflexivity.
  - exists []. rewrite app_nil_r. reflexivity.
Qed.

Lemma slog_extends : forall g ths sched G0, exists e, slog (cst (cgrun g ths sched G0)) = slog (cst G0) ++ e.
Proof.
  intros g ths sched. induction sched as [|i sched IH]; intros G0; cbn.
  - exists []. rewrite app_nil_r. reflexivity.
  - destruct (IH (cgstep g ths G0 i)) as [e He]. fold (cgrun g ths sched (cgstep g ths G0 i)). rewrite He.
    destruct (slog_step_extends g ths G0 i) as [u Hu]. rewrite Hu. exists (u ++ e). rewrite app_assoc. reflexivity.
Qed.

Theorem judge_agrees_ok_schedcb : forall g first pre ths sched obs cbs final,
  sched_guard first pre ths = true ->
  agrees (KSchedCb g first pre ths sched obs cbs final) = true ->
  C12_ok (KSchedCb g first pre ths sched obs cbs final) = true.
Proof.
  intros g first pre ths sched obs cbs final Hg. destruct (sched_guard_spec _ _ _ Hg) as [Hf [Hnn Hadds]].
  cbn [agrees C12_ok]. unfold cb_ok.
  pose proof (sched_ok_run g first pre ths) as HS. cbn zeta in HS.
  destruct (rrun_prun g first pre Hf Hnn) as [[Hm [Hl _]] [Hpos Hreg]].
  pose proof (cb_multiset_ok_run g ths (fst (rrun g (init first) pre)) sched) as HM. cbn zeta in HM.
  pose proof (cb_gets_in_order g) as HO.
  destruct (rrun g (init first) pre) as [s0 xs]. destruct (prun g (mkP pempty [] first) pre) as [p0 ys] eqn:Epr.
  cbn [fst] in *.
  set (G := cgrun g ths sched (cginit s0 ths)) in *.
  destruct (cpcs_results (cpcs G)) as [rs|] eqn:Er; [|discriminate].
  destruct (cpcs_results_spec _ _ Er) as [Hpcs Hdone].
  intros H. apply andb_true_iff in H. destruct H as [H H3]. apply andb_true_iff in H. destruct H as [H1 H2].
  apply (list_eqb_eq rres_eqb rres_eqb_eq) in H1. apply (list_eqb_eq change_eqb change_eqb_eq) in H2. subst obs cbs.
  destruct (HM rs Hadds Hreg Hpos eq_refl) as [t [Ht Hmul]].
  destruct (callbacks_are_transitions g ths s0 sched) as [_ HP]. fold G in HP. specialize (HP Hdone).
  rewrite <- Hl, Ht, skipn_length_app, firstn_length_app, Hmul.
  rewrite (list_eqb_refl change_eqb) by apply change_eqb_refl.
  rewrite <- Ht. rewrite (perm_eqb_complete _ _ (Permutation_sym HP)). rewrite !andb_true_r.
  apply andb_true_iff. split.
  - (* the concurrent-first-Get clause, through the erasure to RouterGet.v's LTS *)
    destruct (cb_run_erases g ths sched (cginit s0 ths)) as [sched' [He _]]. rewrite erased_init in He. fold G in He.
    unfold erased in He.
    assert (Hst : gst (grun g ths sched' (ginit s0 ths)) = cst G) by (rewrite <- He; reflexivity).
    assert (Hgp : gpcs (grun g ths sched' (ginit s0 ths)) = map PDone rs).
    { rewrite <- He. cbn [gpcs]. rewrite Hpcs, map_map. reflexivity. }
    specialize (HS sched' rs final Hf Hnn Hgp). rewrite Hst in HS. specialize (HS H3).
    unfold sched_ok in *. rewrite Epr in *.
    destruct (same_get_name ths) as [n|] eqn:Esn; [|reflexivity].
    destruct (pm p0 n) eqn:Epm; [reflexivity|]. destruct (invoke_fb g n) eqn:Efb; [reflexivity|].
    destruct (same_get_name_spec _ _ Esn) as [_ Hall].
    assert (Habs : find n (sreg s0) = None) by (rewrite Hm; exact Epm).
    pose proof (HO n ths s0 sched Hall Habs Efb Hdone) as HOO. fold G in HOO. rewrite HOO. exact HS.
  - destruct (slog_extends g ths sched (cginit s0 ths)) as [e He]. fold G in He. cbn [cginit cst] in He.
    rewrite He, skipn_length_app. rewrite He, Ht in HP. apply Permutation_app_inv_l in HP.
    apply implb_true_iff. intros Hnd. apply nodup_changes_NoDup in Hnd.
    apply NoDup_nodup_changes. eapply Permutation_NoDup; [exact HP|exact Hnd].
Qed.

(* "no change is reported twice" cannot be demanded outright: three overlapping Add(n, 5) commit --
   and therefore report -- the transition {n, 5 -> 5} twice (a fact about the model; the first
   version of cb_ok demanded distinct callbacks and would have failed on it although code and
   model agree) *)
Example cb_report_twice_needs_commit_twice :
  let ths := [TAdd "n" 5; TAdd "n" 5; TAdd "n" 5]%string in
  let G := cgrun (mkCfg [] []) ths [0; 0; 1; 1; 2; 2]%nat (cginit (init 1000) ths) in
  call_done G = true /\ nodup_changes (ccbs G) = false /\ ccbs G = slog (cst G).
Proof. vm_compute. repeat split. Qed.

(* ---------- KSchedW: concurrent calls with per-call fallback/factory outcomes ---------- *)
From SC Require Import Router.RouterCbW Router.RouterCbWProofs.

Lemma invoke_w_fst : forall b x, fst (invoke_w b x) = if b then yields x else None.
Proof. intros [|] [| |c|c]; cbn; auto. destruct (c =? nil_client); reflexivity. Qed.

Lemma cgstepW_len : forall o ths G i, List.length (cpcs (cgstepW o ths G i)) = List.length (cpcs G).
Proof.
  intros o ths G i. unfold cgstepW. destruct (nth_error ths i); auto. destruct (nth_error (cpcs G) i); auto.
  destruct (cstepW o w c (cst G) (ccbs G)) as [[s' cbs'] p']. cbn. apply upd_length.
Qed.
Lemma cgrunW_len : forall o ths sched G, List.length (cpcs (cgrunW o ths sched G)) = List.length (cpcs G).
Proof.
  intros o ths sched. induction sched as [|i sched IH]; intros G; cbn; auto.
  fold (cgrunW o ths sched (cgstepW o ths G i)). rewrite IH. apply cgstepW_len.
Qed.

Lemma all2_nth : forall {A B} (f : A -> B -> bool) l1 l2, List.length l1 = List.length l2 ->
  (forall i a b, nth_error l1 i = Some a -> nth_error l2 i = Some b -> f a b = true) -> all2 f l1 l2 = true.
Proof.
  intros A B f l1. induction l1 as [|a l1 IH]; intros [|b l2] Hl H; cbn in *; try discriminate; auto.
  rewrite (H 0%nat a b eq_refl eq_refl). cbn. apply IH; [lia|]. intros i a' b' Ha Hb. apply (H (S i)); assumption.
Qed.

Lemma same_getw_name_spec : forall ths n, same_getw_name ths = Some n ->
  forall k, In k ths -> exists fbo fao, k = WTGet n fbo fao.
Proof.
  intros ths n H. unfold same_getw_name in H. destruct ths as [|[m fbo fao| |] r]; try discriminate.
  destruct (forallb _ r) eqn:E; [|discriminate]. inversion H; subst m.
  intros k [<-|Hk]; [eauto|]. rewrite forallb_forall in E. specialize (E k Hk).
  destruct k as [m f1 f2| |]; try discriminate. apply String.eqb_eq in E. subst. eauto.
Qed.

(* the per-call oracle along every run of RouterCbW.v's LTS (the invariant of CbOracle again) *)
Definition exp1W (k : wkind) (p : cpc) : list change :=
  match p with
  | CDone r =>
      match k, r with
      | WTAdd n c, RClient old => [mkChange n old c false]
      | WTRemove n, RClient old => if old =? nil_client then [] else [mkChange n old nil_client false]
      | _, _ => []
      end
  | _ => []
  end.

Fixpoint exp_ofW (ths : list wkind) (pcs : list cpc) : list change :=
  match ths, pcs with
  | k :: ths', p :: pcs' => exp1W k p ++ exp_ofW ths' pcs'
  | _, _ => []
  end.

Lemma expected_cbsW_exp : forall ths pcs rs, cpcs_results pcs = Some rs -> expected_cbsW ths rs = exp_ofW ths pcs.
Proof.
  induction ths as [|k ths IH]; intros pcs rs H.
  - destruct rs; reflexivity.
  - destruct pcs as [|p pcs].
    + cbn in H. inversion H. destruct k; reflexivity.
    + unfold cpcs_results in H. cbn [fold_right] in H. fold (cpcs_results pcs) in H.
      destruct p; try discriminate. destruct (cpcs_results pcs) as [l|] eqn:El; [|discriminate].
      inversion H; subst rs. cbn [exp_ofW exp1W]. specialize (IH pcs l El).
      destruct k as [n fbo fao|n c|n]; destruct r as [old|b|gr]; cbn [expected_cbsW]; rewrite IH; try reflexivity.
      destruct (old =? nil_client); reflexivity.
Qed.

Lemma exp_updW : forall ths pcs i k p p', nth_error ths i = Some k -> nth_error pcs i = Some p ->
  Permutation (exp1W k p ++ exp_ofW ths (upd i p' pcs)) (exp1W k p' ++ exp_ofW ths pcs).
Proof.
  induction ths as [|k0 ths IH]; intros pcs i k p p' Hk Hp.
  - destruct i; discriminate.
  - destruct pcs as [|q pcs]; [destruct i; discriminate|].
    destruct i as [|i]; cbn in Hk, Hp.
    + inversion Hk; inversion Hp; subst. cbn [upd exp_ofW].
      rewrite !app_assoc. apply Permutation_app_tail. apply Permutation_app_comm.
    + cbn [upd exp_ofW]. specialize (IH pcs i k p p' Hk Hp).
      rewrite !app_assoc.
      eapply perm_trans. { apply Permutation_app_tail. apply Permutation_app_comm. }
      rewrite <- !app_assoc. eapply perm_trans. { apply Permutation_app_head. exact IH. }
      rewrite !app_assoc. apply Permutation_app_tail. apply Permutation_app_comm.
Qed.

Lemma invoke_w_nonnil : forall b x c, fst (invoke_w b x) = Some c -> c <> nil_client.
Proof.
  intros [|] [| |c0|c0] c; cbn; try discriminate. destruct (c0 =? nil_client) eqn:E; cbn; [discriminate|].
  intros H. inversion H; subst. apply Z.eqb_neq. exact E.
Qed.

Section CbOracleW.
  Variable o : wopts.
  Variable ths : list wkind.
  Variable base : list change.
  Hypothesis adds_nonnil : forall n c, In (WTAdd n c) ths -> c <> nil_client.

  Definition wfcbW (k : wkind) (ch : change) (r : rres) : Prop :=
    exp1W k (CDone r) = [ch] \/ (exp1W k (CDone r) = [] /\ autoW_ok o ths ch = true).

  Definition wfpW (k : wkind) (p : cpc) : Prop :=
    match p with
    | CMade c => exists n fbo fao, k = WTGet n fbo fao /\ fst (invoke_w (w_fb o) fbo) = None
                                   /\ fst (invoke_w (w_fac o) fao) = Some c
    | CCb ch r => wfcbW k ch r
    | _ => True
    end.

  Definition MInvW (G : cgstate) : Prop :=
    (exists t autos, ccbs G = base ++ t /\ Permutation t (exp_ofW ths (cpcs G) ++ autos)
                     /\ Forall (fun ch => autoW_ok o ths ch = true) autos) /\
    (forall i k p, nth_error ths i = Some k -> nth_error (cpcs G) i = Some p -> wfpW k p) /\
    (forall k c, find k (sreg (cst G)) = Some c -> c <> nil_client).

  Lemma MInvW_quiet : forall s cbs pcs i k p s' p',
    MInvW (mkCG s cbs pcs) -> nth_error ths i = Some k -> nth_error pcs i = Some p ->
    exp1W k p = [] -> exp1W k p' = [] -> wfpW k p' ->
    (forall k c, find k (sreg s') = Some c -> c <> nil_client) ->
    MInvW (mkCG s' cbs (upd i p' pcs)).
  Proof.
    intros s cbs pcs i k p s' p' [[t [autos [Hc [HP HA]]]] [Hw _]] Hk Hp He He' Hw' Hr.
    cbn [cst ccbs cpcs] in *. split; [|split]; cbn [cst ccbs cpcs]; auto.
    - exists t, autos. split; auto. split; auto.
      pose proof (exp_updW ths pcs i k p p' Hk Hp) as HU. rewrite He, He' in HU. cbn in HU.
      eapply perm_trans; [exact HP|]. apply Permutation_app_tail. symmetry. exact HU.
    - intros j k' q Hk' Hq. rewrite nth_error_upd in Hq. destruct (Nat.eqb_spec i j) as [->|Hne].
      + rewrite Hp in Hq. inversion Hq; subst q. rewrite Hk in Hk'. inversion Hk'; subst k'. exact Hw'.
      + eapply Hw; eauto.
  Qed.

  Lemma MInvW_step : forall G i, MInvW G -> MInvW (cgstepW o ths G i).
  Proof.
    intros [s cbs pcs] i HI. unfold cgstepW. cbn [cst ccbs cpcs].
    destruct (nth_error ths i) as [k|] eqn:Ek; [|exact HI].
    destruct (nth_error pcs i) as [p|] eqn:Ep; [|exact HI].
    pose proof HI as [[t [autos [Hc [HP HA]]]] [Hw Hr]]. cbn [cst ccbs cpcs] in *.
    assert (Hstut : MInvW (mkCG s cbs (upd i p pcs))) by (rewrite upd_same; auto).
    destruct p as [| |c|ch r|r].
    - (* CStart *) destruct k as [n fbo fao|n c|n]; cbn [cstepW].
      + unfold get_read. destruct (find n (sreg s)); eapply MInvW_quiet; eauto; try reflexivity; try exact I.
      + unfold add. eapply MInvW_quiet; eauto; try reflexivity.
        * left. reflexivity.
        * cbn [sreg]. intros k c0. rewrite find_set. destruct (String.eqb k n); [|apply Hr].
          intros H. inversion H; subst. eapply adds_nonnil. eapply nth_error_In. exact Ek.
      + destruct (find n (sreg s)) as [old|] eqn:Ef.
        * unfold rem. rewrite Ef. cbn [fst]. eapply MInvW_quiet; eauto; try reflexivity.
          -- left. cbn [exp1W]. assert (Ho : (old =? nil_client) = false) by (apply Z.eqb_neq; eapply Hr; eauto).
             rewrite Ho. reflexivity.
          -- cbn [sreg]. intros k c0. rewrite find_remove. destruct (String.eqb k n); [discriminate|apply Hr].
        * eapply MInvW_quiet; eauto; try reflexivity; try exact I.
    - (* CMissed *) destruct k as [n fbo fao|n c|n]; cbn [cstepW]; try exact Hstut.
      destruct (fst (invoke_w (w_fb o) fbo)) eqn:Efb; [eapply MInvW_quiet; eauto; try reflexivity; try exact I|].
      destruct (fst (invoke_w (w_fac o) fao)) eqn:Efac; eapply MInvW_quiet; eauto; try reflexivity; try exact I.
      exists n, fbo, fao. auto.
    - (* CMade *) destruct k as [n fbo fao|n c'|n]; cbn [cstepW]; try exact Hstut.
      destruct (find n (sreg s)) as [c2|] eqn:Ef; [eapply MInvW_quiet; eauto; try reflexivity; try exact I|].
      unfold get_insert. rewrite Ef. cbn [fst].
      destruct (Hw i _ _ Ek Ep) as [n' [fbo' [fao' [Hn' [Hfb Hfac]]]]]. inversion Hn'; subst n' fbo' fao'.
      assert (Hcz : c <> nil_client) by (eapply invoke_w_nonnil; eauto).
      eapply MInvW_quiet; eauto; try reflexivity.
      + right. split; [reflexivity|]. unfold autoW_ok. cbn [cauto cold cnew cname]. cbn [andb Z.eqb nil_client].
        apply existsb_exists. exists (WTGet n fbo fao). split; [eapply nth_error_In; eauto|].
        rewrite String.eqb_refl. unfold fb_yield, fac_yield. rewrite <- !invoke_w_fst, Hfb, Hfac. cbn. apply Z.eqb_refl.
      + cbn [sreg]. intros k c0. rewrite find_set. destruct (String.eqb k n); [|apply Hr].
        intros H. inversion H; subst. exact Hcz.
    - (* CCb: the callback is delivered *) cbn [cstepW].
      pose proof (Hw i _ _ Ek Ep) as Hcb. cbn [wfpW] in Hcb.
      pose proof (exp_updW ths pcs i k (CCb ch r) (CDone r) Ek Ep) as HU.
      change (exp1W k (CCb ch r)) with (@nil change) in HU. cbn [app] in HU.
      split; [|split]; cbn [cst ccbs cpcs]; auto.
      + destruct Hcb as [He|[He Ha]].
        * exists (t ++ [ch]), autos. split; [rewrite Hc, app_assoc; reflexivity|]. split; auto.
          rewrite He in HU. eapply perm_trans. { apply Permutation_app_tail. exact HP. }
          eapply perm_trans. { apply Permutation_app_comm. } cbn [app].
          eapply perm_trans. 2:{ apply Permutation_app_tail. symmetry. exact HU. }
          reflexivity.
        * exists (t ++ [ch]), (autos ++ [ch]). split; [rewrite Hc, app_assoc; reflexivity|]. split.
          -- rewrite He in HU. cbn [app] in HU. rewrite app_assoc. apply Permutation_app_tail.
             eapply perm_trans; [exact HP|]. apply Permutation_app_tail. symmetry. exact HU.
          -- apply Forall_app. split; auto.
      + intros j k' q Hk' Hq. rewrite nth_error_upd in Hq. destruct (Nat.eqb_spec i j) as [->|Hne].
        * rewrite Ep in Hq. inversion Hq; subst q. exact I.
        * eapply Hw; eauto.
    - exact Hstut.
  Qed.

  Lemma MInvW_run : forall sched G, MInvW G -> MInvW (cgrunW o ths sched G).
  Proof. induction sched as [|i sched IH]; intros G H; cbn; auto. apply IH, MInvW_step, H. Qed.
End CbOracleW.

Lemma exp_ofW_start : forall ths, exp_ofW ths (map (fun _ => CStart) ths) = [].
Proof. induction ths; cbn; auto. Qed.

Lemma cbw_multiset_ok_run : forall o ths sched rs,
  (forall n c, In (WTAdd n c) ths -> c <> nil_client) ->
  let G := cgrunW o ths sched (cginitW (init 1) ths) in
  cpcs_results (cpcs G) = Some rs -> cbw_multiset_ok o ths rs (ccbs G) = true.
Proof.
  intros o ths sched rs Ha G Hres.
  assert (H0 : MInvW o ths [] (cginitW (init 1) ths)).
  { unfold cginitW. split; [|split]; cbn [cst ccbs cpcs init sreg slog]; auto.
    - exists [], []. rewrite exp_ofW_start. repeat split; auto.
    - intros i k p _ Hp. apply nth_error_In in Hp. apply in_map_iff in Hp. destruct Hp as [_ [<- _]]. exact I.
    - intros k c H. discriminate. }
  destruct (MInvW_run o ths [] Ha sched _ H0) as [[t [autos [Hc [HP HA]]]] _]. fold G in Hc, HP.
  cbn [app] in Hc. rewrite Hc. unfold cbw_multiset_ok. rewrite (expected_cbsW_exp ths _ rs Hres).
  destruct (remove_all_complete _ _ _ HP) as [rest [E PR]]. rewrite E.
  apply forallb_forall. intros ch Hin. rewrite Forall_forall in HA.
  apply (HA ch). eapply Permutation_in; eauto.
Qed.

Theorem judge_agrees_ok_schedw : forall o ths sched obs cbs final,
  C12_guard (KSchedW o ths sched obs cbs final) = true ->
  agrees (KSchedW o ths sched obs cbs final) = true -> C12_ok (KSchedW o ths sched obs cbs final) = true.
Proof.
  intros o ths sched obs cbs final Hg. cbn [C12_guard] in Hg.
  assert (Hadds : forall n c, In (WTAdd n c) ths -> c <> nil_client).
  { intros n c Hin. rewrite forallb_forall in Hg. specialize (Hg _ Hin). cbn in Hg.
    apply negb_true_iff in Hg. apply Z.eqb_neq in Hg. exact Hg. }
  cbn [agrees C12_ok]. unfold schedw_ok.
  pose proof (cbw_multiset_ok_run o ths sched) as HM. cbn zeta in HM.
  set (G := cgrunW o ths sched (cginitW (init 1) ths)).
  destruct (cpcs_results (cpcs G)) as [rs|] eqn:Er; [|discriminate].
  destruct (cpcs_results_spec _ _ Er) as [Hpcs Hdone].
  intros H. apply andb_true_iff in H. destruct H as [H H3]. apply andb_true_iff in H. destruct H as [H1 H2].
  apply (list_eqb_eq rres_eqb rres_eqb_eq) in H1. apply (list_eqb_eq change_eqb change_eqb_eq) in H2. subst obs cbs.
  destruct (callbacks_are_transitions_W o ths (init 1) sched) as [_ HP]. fold G in HP. specialize (HP Hdone).
  rewrite (perm_eqb_complete _ _ (Permutation_sym HP)). fold G in HM. rewrite (HM rs Hadds Er). cbn [andb].
  destruct (same_getw_name ths) as [n|] eqn:Esn; [|reflexivity].
  pose proof (same_getw_name_spec _ _ Esn) as Hall.
  destruct (single_commit_W o n ths (init 1) Hall eq_refl sched) as [Hlog [_ [Hc [Hd He]]]]. fold G in Hlog, Hc, Hd, He.
  rewrite (He Hdone), Hlog. cbn [init slog app].
  assert (Hlen : List.length ths = List.length rs).
  { rewrite <- (map_length CDone rs), <- Hpcs. unfold G. rewrite cgrunW_len. unfold cginitW. cbn. rewrite map_length. reflexivity. }
  assert (Hres : forall commit, commit = find n (sreg (cst G)) -> all2 (getw_res_ok o commit) ths rs = true).
  { intros commit ->. apply all2_nth; auto. intros i k r Hk Hr.
    destruct (Hall k (nth_error_In _ _ Hk)) as [fbo [fao ->]].
    assert (Hp : nth_error (cpcs G) i = Some (CDone r)) by (rewrite Hpcs, nth_error_map, Hr; reflexivity).
    unfold getw_res_ok, fb_yield, fac_yield. rewrite <- !invoke_w_fst.
    destruct (Hd i r fbo fao Hp Hk) as [[c [-> Hf]]|[[c [-> Hf]]|[-> [Hf1 Hf2]]]].
    - rewrite Hf. cbn. rewrite Z.eqb_refl. reflexivity.
    - rewrite Hf. cbn [option_eqb]. rewrite Z.eqb_refl. apply orb_true_r.
    - rewrite Hf1, Hf2. reflexivity. }
  destruct (find n (sreg (cst G))) as [c|] eqn:Ecm; cbn [auto_entry].
  - cbn [cauto cname cold cnew]. rewrite String.eqb_refl, Z.eqb_refl. cbn [andb].
    rewrite (Hres (Some c) eq_refl).
    apply andb_true_iff. split; [apply andb_true_iff; split; [|reflexivity]|].
    + destruct (Hc c eq_refl) as [i [fbo [fao [Hk [Hf1 Hf2]]]]].
      apply existsb_exists. exists (WTGet n fbo fao). split; [eapply nth_error_In; eauto|].
      unfold fb_yield, fac_yield. rewrite <- !invoke_w_fst, Hf1, Hf2. cbn. apply Z.eqb_refl.
    + apply forallb_forall. intros [k v] Hin. rewrite forallb_forall in H3. specialize (H3 (k, v) Hin). cbn [fst snd] in *.
      destruct (String.eqb k n) eqn:En; auto. apply String.eqb_eq in En. subst k. rewrite Ecm in H3. cbn in H3.
      cbn. rewrite Z.eqb_sym. exact H3.
  - rewrite (Hres None eq_refl). cbn [andb].
    apply forallb_forall. intros [k v] Hin. rewrite forallb_forall in H3. specialize (H3 (k, v) Hin). cbn [fst snd] in *.
    destruct (String.eqb k n) eqn:En; auto. apply String.eqb_eq in En. subst k. rewrite Ecm in H3. cbn in H3.
    cbn. rewrite Z.eqb_sym. exact H3.
Qed.
