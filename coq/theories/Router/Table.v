(* The shape of Gen/Routers.v (written by the translator in /verif/harness/c12 on every run) and
   the check evaluated over it.  One entry per service of the trait protos in the compiled
   descriptors; the router side is what go/ast finds in the checked-in *_router.pb.go.
   No proofs here. *)
From SC Require Import Base.Prelude.

Record dmethod := mkDM {
  dm_name : string;
  dm_sstream : bool;       (* server streaming *)
  dm_cstream : bool;       (* client streaming: the router template has no forwarder for it *)
  dm_named : bool          (* the request type has a singular string field "name" *)
}.

Record rmethod := mkRM {
  rm_name : string;
  rm_stream : bool;        (* signature (request, server) error rather than (ctx, request) (response, error) *)
  rm_feats : list string;  (* structural facts found in the body, sorted *)
  rm_class : Z             (* index of the normalised body among the bodies of that shape: 0 = the common one *)
}.

Record entry := mkEntry {
  e_service : string; e_goname : string; e_proto : string;
  e_methods : list dmethod;
  e_router : option string; e_rmethods : list rmethod;
  e_wrapper : option string; e_wrap_desc : string; e_wrap_client : string
}.

Definition has_feat (f : string) (m : rmethod) : bool := existsb (String.eqb f) (rm_feats m).
Definition has_all (fs : list string) (m : rmethod) : bool := forallb (fun f => has_feat f m) fs.

(* what a forwarder for a method of that shape must do (names as produced by the translator):
   look the client up by request.Name, return the lookup error, call the same method on that
   client exactly once with the caller's request; streams additionally forward header, every
   message, trailer, map io.EOF to nil and cancel the child on a caller error *)
Definition unary_feats : list string :=
  ["lookup"; "lookup-error-returned"; "forward-once"; "forward-ctx"; "return-forward"]%string.
Definition stream_feats : list string :=
  ["lookup"; "lookup-error-returned"; "forward-once"; "forward-reqctx"; "derived-ctx"; "header"; "sendheader";
   "recv"; "send"; "trailer"; "settrailer"; "eof"; "cancel"]%string.

Definition forwards (d : dmethod) (m : rmethod) : bool :=
  String.eqb (dm_name d) (rm_name m) && Bool.eqb (dm_sstream d) (rm_stream m)
  && negb (has_feat "odd-signature" m)
  && has_all (if dm_sstream d then stream_feats else unary_feats) m
  && (rm_class m =? 0).

Definition method_routed (e : entry) (d : dmethod) : bool :=
  negb (dm_cstream d) && dm_named d && existsb (forwards d) (e_rmethods e).

Definition is_some {A} (o : option A) : bool := match o with Some _ => true | None => false end.

Definition entry_ok (e : entry) : bool :=
  is_some (e_router e) && forallb (method_routed e) (e_methods e)
  (* nothing but the service's methods is defined on the router *)
  && forallb (fun m => existsb (fun d => String.eqb (dm_name d) (rm_name m)) (e_methods e)) (e_rmethods e)
  && (Z.of_nat (List.length (e_rmethods e)) =? Z.of_nat (List.length (e_methods e)))
  (* the wrapper adapts this very service *)
  && is_some (e_wrapper e) && String.eqb (e_wrap_desc e) (e_goname e) && String.eqb (e_wrap_client e) (e_goname e).
