(* Histories on a generated router (pkg/trait/*/*_router.pb.go): registry operations mixed with
   RPCs.  An RPC naming n does GetXxxClient(n) (= Registry.get, including the factory commit and
   its Auto change) and then runs the generated body (Pump.unary / Pump.pump) on the client found.
   Each RPC result lists which clients were invoked (identity, method matched, request bytes
   equal to what the caller sent) and the caller's transcript.  No proofs here. *)
From SC Require Import Base.Prelude Router.Registry Router.Pump.

Inductive hop :=
| HReg (o : rop)
| HAddBad (n : string)     (* XxxRouter.Add with something that is not an XxxClient: panics before Router.Add *)
| HUnary (n : string) (u : unary_script)
| HStream (n : string) (c : child_script) (k : caller_script).

Definition call := (client * bool * bool)%type.

Inductive hres :=
| HR (r : rres)
| HPanic
| HCalled (calls : list call) (t : transcript).

Definition not_found_code : Z := 5.
Definition not_found_tr (m : string) : transcript := mkTr None [] None (Some (not_found_code, m)) false 0.

Definition hstep (g : cfg) (s : state) (o : hop) : state * hres :=
  match o with
  | HReg o => let '(s', r) := rstep g s o in (s', HR r)
  | HAddBad _ => (s, HPanic)
  | HUnary n u =>
      match get g n s with
      | (s', Got c) => (s', HCalled [(c, true, true)] (unary u))
      | (s', NotFound m) => (s', HCalled [] (not_found_tr m))
      end
  | HStream n c k =>
      match get g n s with
      | (s', Got cl) => (s', HCalled [(cl, true, true)] (pump c k))
      | (s', NotFound m) => (s', HCalled [] (not_found_tr m))
      end
  end.

Fixpoint hrun (g : cfg) (s : state) (ops : list hop) : state * list hres :=
  match ops with
  | [] => (s, [])
  | o :: r => let '(s1, x) := hstep g s o in let '(s2, xs) := hrun g s1 r in (s2, x :: xs)
  end.

Definition call_eqb (a b : call) : bool :=
  let '(c1, m1, r1) := a in let '(c2, m2, r2) := b in (c1 =? c2) && Bool.eqb m1 m2 && Bool.eqb r1 r2.
Definition hres_eqb (a b : hres) : bool :=
  match a, b with
  | HR x, HR y => rres_eqb x y
  | HPanic, HPanic => true
  | HCalled c1 t1, HCalled c2 t2 => list_eqb call_eqb c1 c2 && transcript_eqb t1 t2
  | _, _ => false
  end.
