(* Proofs about Router/Pump.v: the generated forwarders are transparent. *)
From SC Require Import Base.Prelude Router.Pump.

Lemma zlen_cons : forall {A} (x : A) l, zlen (x :: l) = zlen l + 1.
Proof. intros. unfold zlen. cbn [List.length]. lia. Qed.

Lemma pump_loop_cooperative : forall c rest i acc,
  pump_loop c cooperative rest i acc =
  mkTr (Some (hdr c)) (rev acc ++ rest) (trl c) (fin c) false (i + zlen rest + 1).
Proof.
  intros c rest. induction rest as [|m rest IH]; intros i acc; cbn [pump_loop cooperative send_err_at].
  - rewrite app_nil_r. unfold zlen. cbn. f_equal; lia.
  - rewrite IH. cbn [rev]. rewrite <- app_assoc. cbn [app]. rewrite zlen_cons. f_equal; lia.
Qed.

(* for every child script whose Header() succeeds (both transports of the tree never fail it),
   a caller that accepts everything ends up with exactly what the child produced: header,
   every message in order, trailer, final status (io.EOF = OK); nothing is cancelled *)
Theorem pump_transparent : forall c, hdr_err c = None -> pump c cooperative = direct c.
Proof.
  intros c Hh. unfold pump, direct. destruct (open_err c); auto. rewrite Hh. cbn [sendheader_err cooperative].
  rewrite pump_loop_cooperative. cbn [rev app]. f_equal; lia.
Qed.

(* an error from Header() is returned as the status; nothing reaches the caller *)
Theorem pump_header_error : forall c k e, open_err c = None -> hdr_err c = Some e ->
  pump c k = mkTr None [] None (Some e) false 0.
Proof. intros c k e Ho Hh. unfold pump. rewrite Ho, Hh. reflexivity. Qed.

(* the loop with a caller whose j-th Send fails *)
Lemma pump_loop_send_error : forall c k j e rest i acc,
  send_err_at k = Some (j, e) -> i <= j ->
  pump_loop c k rest i acc =
  if j - i <? zlen rest
  then mkTr (Some (hdr c)) (rev acc ++ firstn (Z.to_nat (j - i)) rest) None (Some e) true (j + 1)
  else mkTr (Some (hdr c)) (rev acc ++ rest) (trl c) (fin c) false (i + zlen rest + 1).
Proof.
  intros c k j e rest. induction rest as [|m rest IH]; intros i acc Hk Hij; cbn [pump_loop].
  - unfold zlen. cbn [List.length Z.of_nat]. destruct (Z.ltb_spec (j - i) 0); [lia|].
    rewrite app_nil_r. f_equal; lia.
  - rewrite Hk. rewrite zlen_cons. destruct (Z.eqb_spec j i) as [->|Hne].
    + replace (i - i) with 0 by lia. destruct (Z.ltb_spec 0 (zlen rest + 1)); [|unfold zlen in *; lia].
      cbn [Z.to_nat firstn]. rewrite app_nil_r. reflexivity.
    + rewrite IH by (auto; lia). replace (j - (i + 1)) with (j - i - 1) by lia.
      destruct (Z.ltb_spec (j - i - 1) (zlen rest)); destruct (Z.ltb_spec (j - i) (zlen rest + 1)); try lia.
      * replace (Z.to_nat (j - i)) with (S (Z.to_nat (j - i - 1))) by lia.
        cbn [firstn rev]. rewrite <- app_assoc. reflexivity.
      * cbn [rev]. rewrite <- app_assoc. cbn [app]. f_equal; lia.
Qed.

(* caller errors: the caller's own error is what the method returns, the messages delivered are
   the prefix before the failing Send, the child is cancelled, no trailer is set *)
Theorem pump_caller_send_error : forall c k j e,
  open_err c = None -> hdr_err c = None -> sendheader_err k = None -> send_err_at k = Some (j, e) ->
  0 <= j < zlen (msgs c) ->
  pump c k = mkTr (Some (hdr c)) (firstn (Z.to_nat j) (msgs c)) None (Some e) true (j + 1).
Proof.
  intros c k j e Ho Hh Hs Hk Hj. unfold pump. rewrite Ho, Hh, Hs.
  rewrite (pump_loop_send_error c k j e) by (auto; lia). replace (j - 0) with j by lia.
  destruct (Z.ltb_spec j (zlen (msgs c))); [reflexivity|lia].
Qed.

(* a caller error that is never reached changes nothing *)
Theorem pump_caller_error_unreached : forall c k j e,
  hdr_err c = None -> sendheader_err k = None -> send_err_at k = Some (j, e) -> zlen (msgs c) <= j ->
  pump c k = direct c.
Proof.
  intros c k j e Hh Hs Hk Hj. unfold pump, direct. destruct (open_err c); auto. rewrite Hh, Hs.
  rewrite (pump_loop_send_error c k j e) by (auto; unfold zlen in *; lia). replace (j - 0) with j by lia.
  destruct (Z.ltb_spec j (zlen (msgs c))); [lia|]. cbn [rev app]. f_equal; lia.
Qed.

Theorem pump_sendheader_error : forall c k e, open_err c = None -> hdr_err c = None -> sendheader_err k = Some e ->
  pump c k = mkTr None [] None (Some e) false 0.
Proof. intros c k e Ho Hh Hs. unfold pump. rewrite Ho, Hh, Hs. reflexivity. Qed.

(* the unary forwarder returns the child's answer *)
Theorem unary_transparent : forall u,
  unary u = match u with UResp m => mkTr None [m] None None false 0 | UErr e => mkTr None [] None (Some e) false 0 end.
Proof. destruct u; reflexivity. Qed.
