(* Concurrent calls on one router with PER-CALL fallback / factory outcomes.

   RouterGet.v and RouterCb.v fix PER NAME (cfg g) whether the fallback and the factory succeed:
   every concurrent Get of a name sees the same answer.  A Factory is an arbitrary
   func(string) (any, error), though: it may hand a client plus an error to one goroutine and a
   good client to another, fail for one call and succeed for the next one.  Here every Get thread
   carries what ITS fallback call and ITS factory call return this time (RegistryW.fout: nil,nil /
   nil,err / client,err / client,nil), and invoke() is RegistryW.invoke_w in full
   (f == nil -> no call; otherwise exists = child != nil && err == nil).

   The steps are those of RouterCb.v -- the lock-protected blocks of router.go and the callback
   delivery, which runs after the lock was released:

     Add     : [lock; old := reg[n]; reg[n] = c; unlock]            ; [onChange{n, old, c}]
     Remove  : [lock; old, ok := reg[n]; !ok -> return; delete; unlock] ; [onChange{n, old, nil}]
     Get     : [rlock; read; runlock] ; [fallback; factory -- THIS call's outcomes fbo, fao]
               ; [lock; check again; store; unlock] ; [onChange{n, nil, c, Auto}]

   The only difference from RouterCb.cstep is the second block of Get: the client comes from the
   outcome the thread carries (no identity counter, the state is unchanged by that block); a
   failed factory ends the call with NotFound WITHOUT a second look at the registry, as Get does.

   onChange is assumed to be configured (WithOnChange given): every committed change is reported
   by a callback step.  w_cb of the options is ignored.

   State: as in RouterCb.v (record cgstate): the registry state, whose slog is the TRANSITION log,
   and ccbs, the CALLBACK log.  Types cpc / cgstate and pending / call_done / cpcs_results are
   those of RouterCb.v.  No proofs here. *)
From SC Require Import Base.Prelude Router.Registry Router.RouterGet Router.RouterCb Router.RegistryW.

Inductive wkind :=
| WTGet (n : string) (fbo fao : fout)     (* Get(n); fbo / fao: what the fallback / the factory return to THIS call *)
| WTAdd (n : string) (c : client)
| WTRemove (n : string).

Definition cstepW (o : wopts) (k : wkind) (p : cpc) (s : state) (cbs : list change) : state * list change * cpc :=
  match p with
  | CDone _ => (s, cbs, p)
  | CCb ch r => (s, cbs ++ [ch], CDone r)
  | CStart =>
      match k with
      | WTAdd n c => let '(s', old) := add n c s in (s', cbs, CCb (mkChange n old c false) (RClient old))
      | WTRemove n =>
          match find n (sreg s) with
          | None => (s, cbs, CDone (RClient nil_client))
          | Some old => (fst (rem n s), cbs, CCb (mkChange n old nil_client false) (RClient old))
          end
      | WTGet n _ _ =>
          match get_read n s with
          | Some c => (s, cbs, CDone (RGet (Got c)))
          | None => (s, cbs, CMissed)
          end
      end
  | CMissed =>
      match k with
      | WTGet n fbo fao =>
          match fst (invoke_w (w_fb o) fbo) with
          | Some c => (s, cbs, CDone (RGet (Got c)))
          | None =>
              match fst (invoke_w (w_fac o) fao) with
              | Some c => (s, cbs, CMade c)
              | None => (s, cbs, CDone (RGet (NotFound n)))
              end
          end
      | _ => (s, cbs, p)
      end
  | CMade c =>
      match k with
      | WTGet n _ _ =>
          match find n (sreg s) with
          | Some c2 => (s, cbs, CDone (RGet (Got c2)))
          | None => (fst (get_insert n c s), cbs, CCb (mkChange n nil_client c true) (RGet (Got c)))
          end
      | _ => (s, cbs, p)
      end
  end.

Definition cgstepW (o : wopts) (ths : list wkind) (G : cgstate) (i : nat) : cgstate :=
  match nth_error ths i, nth_error (cpcs G) i with
  | Some k, Some p => let '(s', cbs', p') := cstepW o k p (cst G) (ccbs G) in mkCG s' cbs' (upd i p' (cpcs G))
  | _, _ => G
  end.

Definition cgrunW (o : wopts) (ths : list wkind) (sched : list nat) (G : cgstate) : cgstate :=
  fold_left (cgstepW o ths) sched G.

(* the callbacks for what happened before the threads start have been delivered *)
Definition cginitW (s : state) (ths : list wkind) : cgstate := mkCG s (slog s) (map (fun _ => CStart) ths).
