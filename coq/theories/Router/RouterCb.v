(* Concurrent calls on one router with the onChange callbacks as steps of their own.

   router.go runs every callback AFTER releasing the lock ("no locks are held when invoking
   fallbacks, factories, or callbacks"): Add, Remove and the insert block of Get unlock r.mu and
   only then call r.onChange(Change{...}).  Another call can therefore commit, and even deliver
   its own callback, between a block and the callback that reports it.  Here a thread's atomic
   steps are the lock-protected blocks (as in RouterGet.v) AND the callback delivery:

     Add     : [lock; old := reg[n]; reg[n] = c; unlock]            ; [onChange{n, old, c}]
     Remove  : [lock; old, ok := reg[n]; !ok -> return; delete; unlock] ; [onChange{n, old, nil}]
     Get     : [rlock; read; runlock] ; [fallback; factory] ; [lock; check again; store; unlock] ; [onChange{n, nil, c, Auto}]

   State: the registry state of Registry.v, whose slog is here the TRANSITION log (changes in the
   order in which they were committed under the lock), and ccbs, the CALLBACK log (changes in the
   order in which onChange was entered).  No proofs here. *)
From SC Require Import Base.Prelude Router.Registry Router.RouterGet.

Inductive cpc :=
| CStart
| CMissed                          (* Get: registry miss seen *)
| CMade (c : client)               (* Get: factory returned c *)
| CCb (ch : change) (r : rres)     (* block committed and unlocked; about to call onChange(ch), then return r *)
| CDone (r : rres).

Definition cstep (g : cfg) (k : tkind) (p : cpc) (s : state) (cbs : list change) : state * list change * cpc :=
  match p with
  | CDone _ => (s, cbs, p)
  | CCb ch r => (s, cbs ++ [ch], CDone r)
  | CStart =>
      match k with
      | TAdd n c => let '(s', old) := add n c s in (s', cbs, CCb (mkChange n old c false) (RClient old))
      | TRemove n =>
          match find n (sreg s) with
          | None => (s, cbs, CDone (RClient nil_client))
          | Some old => (fst (rem n s), cbs, CCb (mkChange n old nil_client false) (RClient old))
          end
      | TGet n =>
          match get_read n s with
          | Some c => (s, cbs, CDone (RGet (Got c)))
          | None => (s, cbs, CMissed)
          end
      end
  | CMissed =>
      match k with
      | TGet n =>
          match get_make g n s with
          | (s1, inl c) => (s1, cbs, CDone (RGet (Got c)))
          | (s1, inr None) => (s1, cbs, CDone (RGet (NotFound n)))
          | (s1, inr (Some c)) => (s1, cbs, CMade c)
          end
      | _ => (s, cbs, p)
      end
  | CMade c =>
      match k with
      | TGet n =>
          match find n (sreg s) with
          | Some c2 => (s, cbs, CDone (RGet (Got c2)))
          | None => (fst (get_insert n c s), cbs, CCb (mkChange n nil_client c true) (RGet (Got c)))
          end
      | _ => (s, cbs, p)
      end
  end.

Record cgstate := mkCG { cst : state; ccbs : list change; cpcs : list cpc }.

Definition cgstep (g : cfg) (ths : list tkind) (G : cgstate) (i : nat) : cgstate :=
  match nth_error ths i, nth_error (cpcs G) i with
  | Some k, Some p => let '(s', cbs', p') := cstep g k p (cst G) (ccbs G) in mkCG s' cbs' (upd i p' (cpcs G))
  | _, _ => G
  end.

Definition cgrun (g : cfg) (ths : list tkind) (sched : list nat) (G : cgstate) : cgstate :=
  fold_left (cgstep g ths) sched G.

(* the callbacks for what happened before the threads start have been delivered *)
Definition cginit (s : state) (ths : list tkind) : cgstate := mkCG s (slog s) (map (fun _ => CStart) ths).

Definition cdone (p : cpc) : bool := match p with CDone _ => true | _ => false end.
Definition call_done (G : cgstate) : bool := forallb cdone (cpcs G).

(* changes committed but not yet reported *)
Definition pend (p : cpc) : list change := match p with CCb ch _ => [ch] | _ => [] end.
Definition pending (l : list cpc) : list change := flat_map pend l.

Definition cpcs_results (l : list cpc) : option (list rres) :=
  fold_right (fun p acc => match p, acc with CDone r, Some l => Some (r :: l) | _, _ => None end) (Some []) l.

(* erasing the callback steps: the program counter RouterGet.v has for the same thread *)
Definition erase_pc (p : cpc) : pc :=
  match p with
  | CStart => PStart
  | CMissed => PMissed
  | CMade c => PMade c
  | CCb _ r => PDone r
  | CDone r => PDone r
  end.

(* multiset equality of change lists, computable (for the judge) *)
Fixpoint remove1 (c : change) (l : list change) : option (list change) :=
  match l with
  | [] => None
  | d :: r => if change_eqb c d then Some r else match remove1 c r with Some r' => Some (d :: r') | None => None end
  end.
Fixpoint perm_eqb (a b : list change) : bool :=
  match a with
  | [] => match b with [] => true | _ => false end
  | c :: a' => match remove1 c b with Some b' => perm_eqb a' b' | None => false end
  end.
