(* The generated table Gen/Routers.v satisfies the routing check, and what the check means. *)
From SC Require Import Base.Prelude Router.Table Gen.Routers.

(* every service of the trait protos has a checked-in router that forwards every one of its
   methods with the right shape, and a wrapper for that very service; no router file is left
   over for a service that no longer exists *)
Theorem all_routed : forallb entry_ok table = true /\ orphan_routers = [].
Proof. vm_compute. split; reflexivity. Qed.

(* meaning of the check for one method *)
Lemma entry_ok_method : forall e d, entry_ok e = true -> In d (e_methods e) ->
  dm_cstream d = false /\ dm_named d = true /\
  exists m, In m (e_rmethods e) /\ rm_name m = dm_name d /\ rm_stream m = dm_sstream d /\ rm_class m = 0 /\
            forall f, In f (if dm_sstream d then stream_feats else unary_feats) -> has_feat f m = true.
Proof.
  intros e d He Hd. unfold entry_ok in He.
  do 5 (apply andb_true_iff in He; destruct He as [He _]).
  apply andb_true_iff in He. destruct He as [_ Hall].
  rewrite forallb_forall in Hall. specialize (Hall d Hd). unfold method_routed in Hall.
  apply andb_true_iff in Hall. destruct Hall as [Hall Hex]. apply andb_true_iff in Hall. destruct Hall as [Hc Hn].
  apply negb_true_iff in Hc. split; auto. split; auto.
  apply existsb_exists in Hex. destruct Hex as [m [Hm Hf]]. exists m. split; auto.
  unfold forwards in Hf. repeat (apply andb_true_iff in Hf; destruct Hf as [Hf ?]).
  apply String.eqb_eq in Hf. split; [congruence|]. split. { symmetry. apply eqb_prop. assumption. }
  split. { apply Z.eqb_eq. assumption. }
  intros f Hin. unfold has_all in *. match goal with H : forallb _ _ = true |- _ => rewrite forallb_forall in H; apply H; exact Hin end.
Qed.

Theorem every_method_routed : forall e d, In e table -> In d (e_methods e) ->
  exists m, In m (e_rmethods e) /\ rm_name m = dm_name d /\ rm_stream m = dm_sstream d /\ rm_class m = 0 /\
            forall f, In f (if dm_sstream d then stream_feats else unary_feats) -> has_feat f m = true.
Proof.
  intros e d He Hd. destruct all_routed as [Hall _]. rewrite forallb_forall in Hall.
  destruct (entry_ok_method e d (Hall e He) Hd) as [_ [_ H]]. exact H.
Qed.

(* the enter/leave sensor ApiRouter as it was checked in before the fix: two RPCs unrouted *)
Definition enterleave_api_v0 : entry :=
  mkEntry "smartcore.traits.EnterLeaveSensorApi" "EnterLeaveSensorApi" "traits/enter_leave_sensor.proto"
    [mkDM "PullEnterLeaveEvents" true false true; mkDM "GetEnterLeaveEvent" false false true; mkDM "ResetEnterLeaveTotals" false false true]
    (Some "pkg/trait/enterleavesensorpb/api_router.pb.go"%string)
    [mkRM "PullEnterLeaveEvents" true ["cancel"; "derived-ctx"; "eof"; "forward-once"; "forward-reqctx"; "header"; "lookup"; "lookup-error-returned"; "recv"; "send"; "sendheader"; "settrailer"; "trailer"]%string 0]
    (Some "pkg/trait/enterleavesensorpb/api_wrap.pb.go"%string) "EnterLeaveSensorApi" "EnterLeaveSensorApi".

Theorem all_routed_v0_refuted :
  entry_ok enterleave_api_v0 = false /\
  exists d, In d (e_methods enterleave_api_v0) /\ method_routed enterleave_api_v0 d = false.
Proof.
  split; [vm_compute; reflexivity|].
  exists (mkDM "GetEnterLeaveEvent" false false true). split; [cbn; auto|vm_compute; reflexivity].
Qed.

Example table_nonvacuous :
  (20 <? zlen table) = true /\
  existsb (fun e => existsb dm_sstream (e_methods e)) table = true /\
  existsb (fun e => existsb (fun d => negb (dm_sstream d)) (e_methods e)) table = true.
Proof. vm_compute. repeat split. Qed.
