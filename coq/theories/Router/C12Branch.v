(* Model-branch coverage, computed in Coq over the cases of a run.

   For every correspondence case the branch classes the MODEL takes on it: which arm of
   Registry/RegistryW's Get (registered / fallback / factory / notfound, by option subset), which
   arm of Add/Remove/Has, which step of the two LTSs (read hit/miss, fallback, factory, notfound,
   insert / insert-taken, add, remove, callback delivery, stutter) and whether a callback schedule
   reported commits out of order, which arm of the stream pump, which shape of request the
   default-name interceptor saw.  bin/props.d/C12.py evaluates [branch_hist] over all case files of
   a run and puts the counts into the evidence (coverage.model_branches); classes of [all_classes]
   that no case reached are listed as coverage.model_branches_unhit.  Nothing here is judged. *)
From SC Require Import Base.Prelude Router.Registry Router.Pump Router.Route Router.RouterGet Router.RouterCb
  Router.RegistryW Router.RouterCbW Router.RouteW Router.NameDefault Router.C12Judge.
Open Scope string_scope.
Local Infix "+++" := (@List.app _) (at level 60, right associativity).

(* ---- Registry.v (per-name configuration) ---- *)
Definition get_class (g : cfg) (n : string) (s : state) : string :=
  match find n (sreg s) with
  | Some _ => "registered"
  | None => match invoke_fb g n with
            | Some _ => "fallback"
            | None => if mem_str n (fac_ok g) then "factory" else "notfound"
            end
  end.

Definition rbranch (g : cfg) (s : state) (o : rop) : string :=
  match o with
  | OAdd n c => (if Z.eqb c nil_client then "add-nil:" else "add:") ++ match find n (sreg s) with Some _ => "replace" | None => "new" end
  | ORemove n => match find n (sreg s) with Some _ => "remove:present" | None => "remove:absent" end
  | OHas n => match find n (sreg s) with Some _ => "has:true" | None => "has:false" end
  | OGet n => "get:" ++ get_class g n s
  end.

(* ---- Pump.v ---- *)
Definition pump_class (c : child_script) (k : caller_script) : string :=
  match open_err c, hdr_err c, sendheader_err k, send_err_at k with
  | Some _, _, _, _ => "open-error"
  | None, Some _, _, _ => "header-error"
  | None, None, Some _, _ => "sendheader-error"
  | None, None, None, Some (j, _) =>
      if Z.leb 0 j && Z.ltb j (zlen (msgs c)) then "send-error" else "send-error-never-reached"
  | None, None, None, None =>
      match fin c, trl c with
      | Some _, Some _ => "child-status+trailer"
      | Some _, None => "child-status"
      | None, Some _ => "eof+trailer"
      | None, None => "eof"
      end
  end.

Definition hbranch (g : cfg) (s : state) (o : hop) : string :=
  match o with
  | HReg ro => "h:" ++ rbranch g s ro
  | HAddBad _ => "h:add-wrong-type"
  | HUnary n u => "h:unary:" ++ get_class g n s ++ match u with UResp _ => ":resp" | UErr _ => ":err" end
  | HStream n c k => "h:stream:" ++ get_class g n s ++ ":" ++ pump_class c k
  end.

Fixpoint hbranches (g : cfg) (s : state) (ops : list hop) : list string :=
  match ops with [] => [] | o :: r => hbranch g s o :: hbranches g (fst (hstep g s o)) r end.

(* ---- RegistryW.v / RouteW.v (option subsets, per-call outcomes) ---- *)
Fixpoint wbranches (o : wopts) (s : state) (ops : list wop) : list string :=
  match ops with [] => [] | op :: r => ("w:" ++ wbranch o s op) :: wbranches o (fst (wstep o s op)) r end.

Definition xbranch (o : wopts) (s : state) (op : xop) : string :=
  match op with
  | XAdd n c => if Z.eqb c nil_client then "x:add-nil:panic" else "x:" ++ wbranch o s (WAdd n c)
  | XRemove n => "x:" ++ wbranch o s (WRemove n)
  | XHas n => "x:" ++ wbranch o s (WHas n)
  | XGetRaw n fbo fao => "x:raw:" ++ wbranch o s (WGet n fbo fao)
  | XGetTyped n fbo fao => "x:typed:" ++ wbranch o s (WGet n fbo fao)
  | XUnary n fbo fao _ => "x:unary:" ++ wbranch o s (WGet n fbo fao)
  | XStream n fbo fao c k => "x:stream:" ++ wbranch o s (WGet n fbo fao)
  end.

Fixpoint xbranches (o : wopts) (fe ae : status) (s : state) (ops : list xop) : list string :=
  match ops with [] => [] | op :: r => xbranch o s op :: xbranches o fe ae (fst (xstep o fe ae s op)) r end.

(* ---- the two LTSs ---- *)
Definition tbranch (g : cfg) (k : tkind) (p : pc) (s : state) : string :=
  match p, k with
  | PDone _, _ => "stutter"
  | PStart, TAdd n _ => match find n (sreg s) with Some _ => "add:replace" | None => "add:new" end
  | PStart, TRemove n => match find n (sreg s) with Some _ => "remove:present" | None => "remove:absent" end
  | PStart, TGet n => match find n (sreg s) with Some _ => "get:read-hit" | None => "get:read-miss" end
  | PMissed, TGet n =>
      match invoke_fb g n with
      | Some _ => "get:fallback"
      | None => if mem_str n (fac_ok g) then "get:factory" else "get:notfound"
      end
  | PMade _, TGet n => match find n (sreg s) with Some _ => "get:insert-taken" | None => "get:insert" end
  | _, _ => "stutter"
  end.

Fixpoint gbranches (g : cfg) (ths : list tkind) (sched : list nat) (G : gstate) : list string :=
  match sched with
  | [] => []
  | i :: r =>
      (match nth_error ths i, nth_error (gpcs G) i with
       | Some k, Some p => "g:" ++ tbranch g k p (gst G)
       | _, _ => "g:stutter"
       end) :: gbranches g ths r (gstep g ths G i)
  end.

Definition cbranch (g : cfg) (k : tkind) (p : cpc) (s : state) : string :=
  match p with
  | CCb ch _ => if cauto ch then "callback:auto" else if Z.eqb (cnew ch) nil_client then "callback:remove" else "callback:add"
  | _ => tbranch g k (erase_pc p) s
  end.

Fixpoint cbranches (g : cfg) (ths : list tkind) (sched : list nat) (G : cgstate) : list string :=
  match sched with
  | [] => []
  | i :: r =>
      (match nth_error ths i, nth_error (cpcs G) i with
       | Some k, Some p => "cb:" ++ cbranch g k p (cst G)
       | _, _ => "cb:stutter"
       end) :: cbranches g ths r (cgstep g ths G i)
  end.

(* ---- RouterCbW.v (per-call outcomes under concurrency) ---- *)
Definition wcbranch (o : wopts) (k : wkind) (p : cpc) (s : state) : string :=
  match p, k with
  | CDone _, _ => "stutter"
  | CCb ch _, _ => if cauto ch then "callback:auto" else if Z.eqb (cnew ch) nil_client then "callback:remove" else "callback:add"
  | CStart, WTAdd n _ => match find n (sreg s) with Some _ => "add:replace" | None => "add:new" end
  | CStart, WTRemove n => match find n (sreg s) with Some _ => "remove:present" | None => "remove:absent" end
  | CStart, WTGet n _ _ => match find n (sreg s) with Some _ => "get:read-hit" | None => "get:read-miss" end
  | CMissed, WTGet n fbo fao =>
      match fst (invoke_w (w_fb o) fbo) with
      | Some _ => "get:fallback"
      | None =>
          (if w_fb o then "get:fallback=" ++ fout_class fbo ++ "," else "get:no-fallback,") ++
          (if w_fac o then "factory=" ++ fout_class fao else "no-factory") ++
          (* the registry at the moment THIS caller's factory answered *)
          match fst (invoke_w (w_fac o) fao), find n (sreg s) with
          | None, Some _ => ":notfound-beside-committed"
          | None, None => ":notfound"
          | Some _, _ => ""
          end
      end
  | CMade _, WTGet n _ _ => match find n (sreg s) with Some _ => "get:insert-taken" | None => "get:insert" end
  | _, _ => "stutter"
  end.

Fixpoint wcbranches (o : wopts) (ths : list wkind) (sched : list nat) (G : cgstate) : list string :=
  match sched with
  | [] => []
  | i :: r =>
      (match nth_error ths i, nth_error (cpcs G) i with
       | Some k, Some p => "cw:" ++ wcbranch o k p (cst G)
       | _, _ => "cw:stutter"
       end) :: wcbranches o ths r (cgstepW o ths G i)
  end.

(* ---- NameDefault.v ---- *)
Definition shape_class (r : request) : string :=
  match shape r with
  | NameString s => if String.eqb s "" then "name-empty" else "name-set"
  | _ => "no-string-name"
  end.

Definition fields_class (t : mtype) (v : mvalue) : string :=
  if existsb (is_empty_name t) v then "name-empty" else "untouched".

Definition case_branches (c : c12case) : list string :=
  match c with
  | KHist g first ops _ _ => hbranches g (init first) ops
  | KSched g first pre ths sched _ _ _ =>
      let s0 := fst (rrun g (init first) pre) in
      gbranches g ths sched (ginit s0 ths)
  | KSchedCb g first pre ths sched _ _ _ =>
      let s0 := fst (rrun g (init first) pre) in
      let G := cgrun g ths sched (cginit s0 ths) in
      (if list_eqb change_eqb (ccbs G) (slog (cst G)) then "cb:order:commit-order" else "cb:order:inverted")
      :: cbranches g ths sched (cginit s0 ths)
  | KRegW o ops _ _ => wbranches o (init 1) ops
  | KSchedW o ths sched _ _ _ => wcbranches o ths sched (cginitW (init 1) ths)
  | KRouteW o fe ae ops _ _ => xbranches o fe ae (init 1) ops
  | KDefault _ r _ => ["d:unary:" ++ shape_class r]
  | KDefaultStream _ ok r _ => ["d:stream:" ++ (if ok then shape_class r else "recv-failed")]
  | KDefaultSeq _ steps _ =>
      map (fun st => let '(path, t, v) := st in
                     "d:seq:" ++ (if Z.eqb path 2 then "recv-failed" else fields_class t v)) steps
  | KStreamSession _ rs _ =>
      map (fun r => let '(ok, t, v) := r in
                    "d:session:" ++ (if ok : bool then fields_class t v else "recv-failed")) rs
  end.

(* ---- histogram ---- *)
Fixpoint bump (k : string) (h : list (string * Z)) : list (string * Z) :=
  match h with
  | [] => [(k, 1)]
  | (k', n) :: r => if String.eqb k k' then (k', n + 1) :: r else (k', n) :: bump k r
  end.

Definition branch_hist (cs : list c12case) : list (string * Z) :=
  fold_left (fun h c => fold_left (fun h k => bump k h) (case_branches c) h) cs [].

Definition merge_hist (a b : list (string * Z)) : list (string * Z) :=
  fold_left (fun h kn => let '(k, n) := kn in
                         match List.find (fun x => String.eqb (fst x) k) h with
                         | Some _ => map (fun x => if String.eqb (fst x) k then (fst x, snd x + n) else x) h
                         | None => h +++ [(k, n)]
                         end) b a.

(* the classes of the router models one would like a run to reach (reported when unhit, never judged) *)
Definition all_classes : list string :=
  let gets := ["get:registered"; "get:fallback"; "get:fallback-miss,factory"; "get:no-fallback,factory";
               "get:factory-miss,notfound"; "get:no-factory,notfound"] in
  let regs := ["add:new"; "add:replace"; "remove:present"; "remove:absent"; "has:true"; "has:false"] in
  map (fun k => "w:" ++ k) (regs +++ gets)
  +++ map (fun k => "x:" ++ k) regs +++ ["x:add-nil:panic"]
  +++ flat_map (fun c => map (fun k => "x:" ++ c ++ ":" ++ k) gets) ["raw"; "typed"; "unary"; "stream"]
  +++ map (fun k => "g:" ++ k) ["get:read-hit"; "get:read-miss"; "get:fallback"; "get:factory"; "get:notfound";
                                "get:insert"; "get:insert-taken"; "add:new"; "add:replace"; "remove:present"; "remove:absent"; "stutter"]
  +++ map (fun k => "cb:" ++ k) ["get:read-hit"; "get:read-miss"; "get:factory"; "get:notfound";
                                 "get:insert"; "get:insert-taken"; "add:new"; "add:replace"; "remove:present"; "remove:absent";
                                 "callback:auto"; "callback:add"; "callback:remove"; "order:commit-order"; "order:inverted"]
  +++ map (fun k => "cw:" ++ k) ["get:read-hit"; "get:read-miss"; "get:fallback"; "get:insert"; "get:insert-taken"; "callback:auto";
                                 "get:fallback=nil,nil,factory=client,err:notfound"; "get:fallback=nil,nil,factory=nil,err:notfound-beside-committed";
                                 "get:fallback=nil,nil,factory=client,nil"; "get:no-fallback,factory=client,nil"; "get:fallback=nil,err,no-factory:notfound"]
  +++ flat_map (fun c => map (fun k => "h:stream:" ++ c ++ ":" ++ k)
                 ["open-error"; "header-error"; "sendheader-error"; "send-error"; "child-status+trailer"; "child-status"; "eof+trailer"; "eof"])
       ["registered"]
  +++ map (fun k => "h:" ++ k) ["get:registered"; "get:fallback"; "get:factory"; "get:notfound"; "add-wrong-type";
                                "unary:registered:resp"; "unary:registered:err"; "unary:fallback:resp"; "unary:factory:resp"; "unary:notfound:resp";
                                "stream:notfound:eof"; "add-nil:new"]
  +++ ["d:unary:name-empty"; "d:unary:name-set"; "d:unary:no-string-name"; "d:stream:name-empty"; "d:stream:name-set"; "d:stream:recv-failed";
      "d:seq:name-empty"; "d:seq:untouched"; "d:seq:recv-failed"; "d:session:name-empty"; "d:session:untouched"; "d:session:recv-failed"].

Definition unhit (h : list (string * Z)) : list string :=
  filter (fun k => negb (existsb (fun x => String.eqb (fst x) k) h)) all_classes.
