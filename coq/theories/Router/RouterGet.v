(* Concurrent calls on one router as a labelled transition system.

   A thread runs one call.  Its atomic steps are the blocks of router.go that execute without
   another thread being able to interleave: Add and Remove are one step (one critical section;
   the callback follows it immediately), Get is up to three steps (Registry.get_read,
   get_make, get_insert) separated by the two verif yield points "router.get.miss" and
   "router.get.insert".  A schedule is a list of thread indices; an entry naming a finished (or
   non-existent) thread is a stutter.  No proofs here. *)
From SC Require Import Base.Prelude Router.Registry.

Inductive tkind := TGet (n : string) | TAdd (n : string) (c : client) | TRemove (n : string).

Inductive pc :=
| PStart
| PMissed                 (* Get: registry miss seen, parked at router.get.miss *)
| PMade (c : client)      (* Get: factory returned c, parked at router.get.insert *)
| PDone (r : rres).

Definition tstep (g : cfg) (k : tkind) (p : pc) (s : state) : state * pc :=
  match p with
  | PDone _ => (s, p)
  | PStart =>
      match k with
      | TAdd n c => let '(s', old) := add n c s in (s', PDone (RClient old))
      | TRemove n => let '(s', old) := rem n s in (s', PDone (RClient old))
      | TGet n =>
          match get_read n s with
          | Some c => (s, PDone (RGet (Got c)))
          | None => (s, PMissed)
          end
      end
  | PMissed =>
      match k with
      | TGet n =>
          match get_make g n s with
          | (s1, inl c) => (s1, PDone (RGet (Got c)))
          | (s1, inr None) => (s1, PDone (RGet (NotFound n)))
          | (s1, inr (Some c)) => (s1, PMade c)
          end
      | _ => (s, p)
      end
  | PMade c =>
      match k with
      | TGet n => let '(s2, c') := get_insert n c s in (s2, PDone (RGet (Got c')))
      | _ => (s, p)
      end
  end.

Record gstate := mkG { gst : state; gpcs : list pc }.

Fixpoint upd {A} (i : nat) (x : A) (l : list A) : list A :=
  match l, i with
  | [], _ => []
  | _ :: r, O => x :: r
  | y :: r, S i' => y :: upd i' x r
  end.

Definition gstep (g : cfg) (ths : list tkind) (G : gstate) (i : nat) : gstate :=
  match nth_error ths i, nth_error (gpcs G) i with
  | Some k, Some p => let '(s', p') := tstep g k p (gst G) in mkG s' (upd i p' (gpcs G))
  | _, _ => G
  end.

Definition grun (g : cfg) (ths : list tkind) (sched : list nat) (G : gstate) : gstate :=
  fold_left (gstep g ths) sched G.

Definition ginit (s : state) (ths : list tkind) : gstate := mkG s (map (fun _ => PStart) ths).

Definition done (p : pc) : bool := match p with PDone _ => true | _ => false end.
Definition all_done (G : gstate) : bool := forallb done (gpcs G).

Definition pc_eqb (a b : pc) : bool :=
  match a, b with
  | PStart, PStart | PMissed, PMissed => true
  | PMade x, PMade y => x =? y
  | PDone x, PDone y => rres_eqb x y
  | _, _ => false
  end.
