(* Model of pkg/router/router.go: the registry of named clients.

   Clients are opaque identities (Z); 0 is Go's nil.  The Go map is an association list with
   "remove every binding, then cons" as assignment, so lookups never depend on duplicates.
   Every exported method is one function; Get is split into the three blocks that are atomic
   in the Go code (read under RLock / fallback+factory outside locks / insert under Lock with
   the double check + onChange) so that RouterGet.v can interleave exactly these blocks.
   No proofs here. *)
From SC Require Import Base.Prelude.

(* a string given by its bytes (the harness writes names outside printable ASCII this way: names
   are opaque byte strings, "\t" and U+00A0 are names like any other) *)
Definition bytes_str (l : list Z) : string :=
  fold_right (fun b acc => String (Ascii.ascii_of_N (Z.to_N b)) acc) EmptyString l.

Definition client := Z.          (* 0 = nil *)
Definition nil_client : client := 0.

Record change := mkChange { cname : string; cold : client; cnew : client; cauto : bool }.

Definition reg := list (string * client).

Fixpoint find (n : string) (r : reg) : option client :=
  match r with
  | [] => None
  | (k, c) :: r' => if String.eqb k n then Some c else find n r'
  end.

Fixpoint remove (n : string) (r : reg) : reg :=
  match r with
  | [] => []
  | (k, c) :: r' => if String.eqb k n then remove n r' else (k, c) :: remove n r'
  end.

Definition set (n : string) (c : client) (r : reg) : reg := (n, c) :: remove n r.

(* Router options: WithFallback, WithFactory.  The fallback knows a fixed set of names (anything
   else: nil client or an error, which invoke() treats alike).  The factory succeeds exactly for
   the names in fac_ok and returns a fresh client each time it is called (identity = counter). *)
Record cfg := mkCfg { fb : list (string * client); fac_ok : list string }.

Record state := mkState { sreg : reg; slog : list change; snext : Z }.

Definition init (first_auto : Z) : state := mkState [] [] first_auto.

Definition or_nil (o : option client) : client := match o with Some c => c | None => nil_client end.

(* func (r *router) Add *)
Definition add (n : string) (c : client) (s : state) : state * client :=
  let old := or_nil (find n (sreg s)) in
  (mkState (set n c (sreg s)) (slog s ++ [mkChange n old c false]) (snext s), old).

(* func (r *router) Remove *)
Definition rem (n : string) (s : state) : state * client :=
  match find n (sreg s) with
  | None => (s, nil_client)
  | Some old => (mkState (remove n (sreg s)) (slog s ++ [mkChange n old nil_client false]) (snext s), old)
  end.

(* func (r *router) Has *)
Definition has (n : string) (s : state) : bool :=
  match find n (sreg s) with Some _ => true | None => false end.

(* invoke(name, f): (child, child != nil && err == nil) *)
Definition invoke_fb (g : cfg) (n : string) : option client :=
  match find n (fb g) with
  | Some c => if c =? nil_client then None else Some c
  | None => None
  end.

Definition mem_str (n : string) (l : list string) : bool := existsb (String.eqb n) l.

(* ---- the three blocks of Get ---- *)
(* 1. r.mu.RLock(); child, exists := r.registry[name]; r.mu.RUnlock() *)
Definition get_read (n : string) (s : state) : option client := find n (sreg s).

(* 2. fallback, then factory; no locks held.  inl c: found by the fallback (not remembered);
      inr (Some c): created by the factory; inr None: nothing. The factory consumes an identity. *)
Definition get_make (g : cfg) (n : string) (s : state) : state * (client + option client) :=
  match invoke_fb g n with
  | Some c => (s, inl c)
  | None =>
      if mem_str n (fac_ok g)
      then (mkState (sreg s) (slog s) (snext s + 1), inr (Some (snext s)))
      else (s, inr None)
  end.

(* 3. r.mu.Lock(); check again; remember; r.mu.Unlock(); onChange(Auto) *)
Definition get_insert (n : string) (c : client) (s : state) : state * client :=
  match find n (sreg s) with
  | Some c2 => (s, c2)
  | None => (mkState (set n c (sreg s)) (slog s ++ [mkChange n nil_client c true]) (snext s), c)
  end.

(* result of Get: the client, or the NotFound status carrying the name *)
Inductive getres := Got (c : client) | NotFound (msg : string).

(* func (r *router) Get, run without interference *)
Definition get (g : cfg) (n : string) (s : state) : state * getres :=
  match get_read n s with
  | Some c => (s, Got c)
  | None =>
      match get_make g n s with
      | (s1, inl c) => (s1, Got c)
      | (s1, inr None) => (s1, NotFound n)
      | (s1, inr (Some c)) => let '(s2, c') := get_insert n c s1 in (s2, Got c')
      end
  end.

(* ---- operation sequences on the bare registry ---- *)
Inductive rop := OAdd (n : string) (c : client) | ORemove (n : string) | OHas (n : string) | OGet (n : string).
Inductive rres := RClient (c : client) | RBool (b : bool) | RGet (r : getres).

Definition rstep (g : cfg) (s : state) (o : rop) : state * rres :=
  match o with
  | OAdd n c => let '(s', old) := add n c s in (s', RClient old)
  | ORemove n => let '(s', old) := rem n s in (s', RClient old)
  | OHas n => (s, RBool (has n s))
  | OGet n => let '(s', r) := get g n s in (s', RGet r)
  end.

Fixpoint rrun (g : cfg) (s : state) (ops : list rop) : state * list rres :=
  match ops with
  | [] => (s, [])
  | o :: r => let '(s1, x) := rstep g s o in let '(s2, xs) := rrun g s1 r in (s2, x :: xs)
  end.

(* ---- the specification: a plain (total, functional) map ---- *)
Definition pmap := string -> option client.
Definition pempty : pmap := fun _ => None.
Definition pset (n : string) (c : client) (m : pmap) : pmap := fun k => if String.eqb k n then Some c else m k.
Definition pdel (n : string) (m : pmap) : pmap := fun k => if String.eqb k n then None else m k.

Record pstate := mkP { pm : pmap; plog : list change; pnext : Z }.

Definition pstep (g : cfg) (s : pstate) (o : rop) : pstate * rres :=
  match o with
  | OAdd n c => (mkP (pset n c (pm s)) (plog s ++ [mkChange n (or_nil (pm s n)) c false]) (pnext s),
                 RClient (or_nil (pm s n)))
  | ORemove n =>
      match pm s n with
      | Some old => (mkP (pdel n (pm s)) (plog s ++ [mkChange n old nil_client false]) (pnext s), RClient old)
      | None => (s, RClient nil_client)
      end
  | OHas n => (s, RBool (match pm s n with Some _ => true | None => false end))
  | OGet n =>
      match pm s n with
      | Some c => (s, RGet (Got c))
      | None =>
          match invoke_fb g n with
          | Some c => (s, RGet (Got c))
          | None =>
              if mem_str n (fac_ok g)
              then (mkP (pset n (pnext s) (pm s)) (plog s ++ [mkChange n nil_client (pnext s) true]) (pnext s + 1),
                    RGet (Got (pnext s)))
              else (s, RGet (NotFound n))
          end
      end
  end.

Fixpoint prun (g : cfg) (s : pstate) (ops : list rop) : pstate * list rres :=
  match ops with
  | [] => (s, [])
  | o :: r => let '(s1, x) := pstep g s o in let '(s2, xs) := prun g s1 r in (s2, x :: xs)
  end.

(* replaying a change log on a plain map: New = nil means the entry was removed.
   (a nil client can only be stored by calling the untyped Add with nil; the generated routers refuse it) *)
Definition apply_change (m : pmap) (c : change) : pmap :=
  if cnew c =? nil_client then pdel (cname c) m else pset (cname c) (cnew c) m.

Definition replay (l : list change) : pmap := fold_left apply_change l pempty.

(* ---- boolean equalities used by the judge ---- *)
Definition change_eqb (a b : change) : bool :=
  String.eqb (cname a) (cname b) && (cold a =? cold b) && (cnew a =? cnew b) && Bool.eqb (cauto a) (cauto b).
Definition getres_eqb (a b : getres) : bool :=
  match a, b with
  | Got x, Got y => x =? y
  | NotFound x, NotFound y => String.eqb x y
  | _, _ => false
  end.
Definition rres_eqb (a b : rres) : bool :=
  match a, b with
  | RClient x, RClient y => x =? y
  | RBool x, RBool y => Bool.eqb x y
  | RGet x, RGet y => getres_eqb x y
  | _, _ => false
  end.
