(* replaceEmptyNameField over message TREES.

   NameDefault.v's field-level model renders every field of the request to a string; here the
   request is a tree: a message type and, for every populated field, a value that may itself be
   a message (with its own type, which may again have a field called "name"), a list of messages,
   a list of strings or a scalar.  replaceEmptyNameField only ever touches the root:
   msg.ProtoReflect().Descriptor().Fields().ByTextName("name") is looked up in the ROOT's
   descriptor and Set on the ROOT message.  No proofs here. *)
From SC Require Import Base.Prelude Router.NameDefault.

Inductive fval :=
| VStr (s : string)               (* singular string *)
| VRepStr (l : list string)       (* repeated string *)
| VScalar (z : Z)                 (* any other scalar (int32 name, bytes name, enum, ...) *)
| VMsg (m : option mtree)         (* singular message field; None = unset *)
| VRepMsg (l : list mtree)        (* repeated message / map entries *)
with mtree := MT (t : mtype) (fs : list (Z * fval)).

Definition tfields_of (m : mtree) : list (Z * fval) := match m with MT _ fs => fs end.
Definition ttype_of (m : mtree) : mtype := match m with MT t _ => t end.

(* is (n, v) the singular string field called "name" of type t, holding ""? *)
Definition is_empty_name_t (t : mtype) (p : Z * fval) : bool :=
  match name_field t with
  | Some f =>
      match fk f with
      | FString => (fst p =? fnum f) && match snd p with VStr s => String.eqb s "" | _ => false end
      | _ => false
      end
  | None => false
  end.

Definition replace_tree (d : string) (m : mtree) : mtree :=
  match m with
  | MT t fs => MT t (map (fun p => if is_empty_name_t t p then (fst p, VStr d) else p) fs)
  end.

(* a value fits the kind its type declares for the name field (what protoreflect guarantees) *)
Definition well_typed_name (t : mtype) (fs : list (Z * fval)) : Prop :=
  forall f n v, name_field t = Some f -> fk f = FString -> In (n, v) fs -> n = fnum f -> exists s, v = VStr s.
