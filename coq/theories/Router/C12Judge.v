(* Correspondence cases for C12.  Each case carries the inputs and what the Go code did.
   [agrees] compares with the model (Registry/Route/Pump/RouterGet/NameDefault);
   [C12_ok] evaluates the property on the observation with a reference that does not use the
   model's algorithms: a plain functional map replayed over the history (Registry.pstep),
   declarative conditions on transcripts (firstn, no loop), and for concurrent first Gets the
   property itself (all results equal, exactly one Auto change). *)
From SC Require Import Base.Prelude Router.Registry Router.Pump Router.Route Router.RouterGet Router.RouterCb Router.RegistryW Router.RouterCbW Router.RouteW Router.NameDefault.

Inductive c12case :=
| KHist (g : cfg) (first : Z) (ops : list hop) (obs : list hres) (log : list change)
| KSched (g : cfg) (first : Z) (pre : list rop) (ths : list tkind) (sched : list nat)
         (obs : list rres) (log : list change) (final : list (string * client))
(* as KSched, but the harness's onChange parks on entry, so callbacks are steps of the schedule
   (RouterCb.v); cbs = the changes in the order in which onChange was entered *)
| KSchedCb (g : cfg) (first : Z) (pre : list rop) (ths : list tkind) (sched : list nat)
           (obs : list rres) (cbs : list change) (final : list (string * client))
(* bare registry built from any subset of the options, every Get with its own fallback/factory
   outcome (RegistryW.v); obs carry the number of fallback and factory calls made *)
| KRegW (o : wopts) (ops : list wop) (obs : list wres) (log : list change)
(* concurrent calls with PER-CALL fallback/factory outcomes (RouterCbW.v): every Get thread carries
   what its own fallback call and its own factory call return; router built from a subset of
   WithFallback / WithFactory (+ WithOnChange, parked on entry as in KSchedCb); fresh router *)
| KSchedW (o : wopts) (ths : list wkind) (sched : list nat) (obs : list rres) (cbs : list change)
          (final : list (string * client))
(* a generated router built from any subset of the options; every lookup (Router.Get, GetXxxClient,
   unary and streaming methods) with its own fallback/factory outcome (RouteW.v); fe/ae = the
   statuses of the errors this router's fallback and factory return; obs carry BOTH results of
   every Get and the number of fallback and factory calls *)
| KRouteW (o : wopts) (fe ae : status) (ops : list xop) (obs : list xres) (log : list change)
| KDefault (name : string) (r : request) (obs : request)
| KDefaultStream (name : string) (recv_ok : bool) (r : request) (obs : request)
| KDefaultSeq (name : string) (steps : list dstep) (obs : list mvalue)
| KStreamSession (name : string) (rs : list recvd) (obs : list mvalue).

(* ---------- model side ---------- *)
Definition pcs_results (l : list pc) : option (list rres) :=
  fold_right (fun p acc => match p, acc with PDone r, Some l => Some (r :: l) | _, _ => None end) (Some []) l.

Definition agrees (c : c12case) : bool :=
  match c with
  | KHist g first ops obs log =>
      let '(s, rs) := hrun g (init first) ops in
      list_eqb hres_eqb obs rs && list_eqb change_eqb log (slog s)
  | KSched g first pre ths sched obs log final =>
      let '(s0, _) := rrun g (init first) pre in
      let G := grun g ths sched (ginit s0 ths) in
      match pcs_results (gpcs G) with
      | Some rs =>
          list_eqb rres_eqb obs rs && list_eqb change_eqb log (slog (gst G))
          && forallb (fun nc => or_nil (find (fst nc) (sreg (gst G))) =? snd nc) final
      | None => false   (* the harness only reports completed schedules *)
      end
  | KSchedCb g first pre ths sched obs cbs final =>
      let '(s0, _) := rrun g (init first) pre in
      let G := cgrun g ths sched (cginit s0 ths) in
      match cpcs_results (cpcs G) with
      | Some rs =>
          list_eqb rres_eqb obs rs && list_eqb change_eqb cbs (ccbs G)
          && forallb (fun nc => or_nil (find (fst nc) (sreg (cst G))) =? snd nc) final
      | None => false
      end
  | KRegW o ops obs log =>
      let '(s, rs) := wrun o (init 1) ops in
      list_eqb wres_eqb obs rs && list_eqb change_eqb log (wlog o s)
  | KSchedW o ths sched obs cbs final =>
      let G := cgrunW o ths sched (cginitW (init 1) ths) in
      match cpcs_results (cpcs G) with
      | Some rs =>
          list_eqb rres_eqb obs rs && list_eqb change_eqb cbs (ccbs G)
          && forallb (fun nc => or_nil (find (fst nc) (sreg (cst G))) =? snd nc) final
      | None => false
      end
  | KRouteW o fe ae ops obs log =>
      let '(s, rs) := xrun o fe ae (init 1) ops in
      list_eqb xres_eqb obs rs && list_eqb change_eqb log (wlog o s)
  | KDefault name r obs => request_eqb obs (unary_interceptor name r)
  | KDefaultStream name ok r obs => request_eqb obs (stream_recv name ok r)
  | KDefaultSeq name steps obs => list_eqb mvalue_eqb obs (run_seq name steps)
  | KStreamSession name rs obs => list_eqb mvalue_eqb obs (stream_session name rs)
  end.

(* ---------- property side ---------- *)
(* results up to the text of the NotFound message *)
Definition rres_sim (a b : rres) : bool :=
  match a, b with
  | RGet (NotFound _), RGet (NotFound _) => true
  | _, _ => rres_eqb a b
  end.

Definition is_prefix_tr (t : transcript) (h : option md) (ms : list msg) (tr : option md) (st : option status) : bool :=
  option_eqb md_eqb (t_header t) h && list_eqb Z.eqb (t_msgs t) ms
  && option_eqb md_eqb (t_trailer t) tr && option_eqb status_eqb (t_status t) st.

(* what the caller must have seen, stated without the loop.  The child must have been cancelled when
   the caller's Send failed; whether its context is also cancelled once the stream has ended is not
   part of the property (agrees still compares it with the model: the code does not) *)
Definition stream_ok (c : child_script) (k : caller_script) (t : transcript) : bool :=
  match open_err c with
  | Some e => is_prefix_tr t None [] None (Some e)
  | None =>
      match hdr_err c with
      | Some e => is_prefix_tr t None [] None (Some e)
      | None =>
          match sendheader_err k with
          | Some e => is_prefix_tr t None [] None (Some e)
          | None =>
              match send_err_at k with
              | Some (j, e) =>
                  if (0 <=? j) && (j <? zlen (msgs c))
                  then is_prefix_tr t (Some (hdr c)) (firstn (Z.to_nat j) (msgs c)) None (Some e) && t_cancelled t
                  else is_prefix_tr t (Some (hdr c)) (msgs c) (trl c) (fin c)
              | None => is_prefix_tr t (Some (hdr c)) (msgs c) (trl c) (fin c)
              end
          end
      end
  end.

Definition unary_ok (u : unary_script) (t : transcript) : bool :=
  match u with
  | UResp m => is_prefix_tr t None [m] None None
  | UErr e => is_prefix_tr t None [] None (Some e)
  end.

(* exactly once, to the client the plain map holds under the name, with the caller's request *)
Definition routed_ok (target : getres) (n : string) (calls : list call) (t : transcript) (body_ok : bool) : bool :=
  match target with
  | Got c => match calls with [(c', true, true)] => (c' =? c) && body_ok | _ => false end
  | NotFound _ =>
      (* NotFound status (the message text is not part of the property), nothing delivered, nobody called *)
      match calls, t_status t with
      | [], Some (code, _) =>
          (code =? not_found_code) && is_prefix_tr t None [] None (t_status t)
      | _, _ => false
      end
  end.

Fixpoint hist_ok (g : cfg) (s : pstate) (ops : list hop) (obs : list hres) : option pstate :=
  match ops, obs with
  | [], [] => Some s
  | o :: ops', x :: obs' =>
      let next s' ok := if ok : bool then hist_ok g s' ops' obs' else None in
      match o, x with
      | HReg ro, HR r => let '(s', r') := pstep g s ro in next s' (rres_sim r r')
      | HAddBad _, HPanic => next s true
      | HUnary n u, HCalled calls t =>
          match pstep g s (OGet n) with
          | (s', RGet tgt) => next s' (routed_ok tgt n calls t (unary_ok u t))
          | _ => None
          end
      | HStream n c k, HCalled calls t =>
          match pstep g s (OGet n) with
          | (s', RGet tgt) => next s' (routed_ok tgt n calls t (stream_ok c k t))
          | _ => None
          end
      | _, _ => None
      end
  | _, _ => None
  end.

Definition same_get_name (ths : list tkind) : option string :=
  match ths with
  | TGet n :: r => if forallb (fun k => match k with TGet m => String.eqb m n | _ => false end) r then Some n else None
  | _ => None
  end.

Definition count_auto (n : string) (l : list change) : Z :=
  zlen (filter (fun c => cauto c && String.eqb (cname c) n) l).

Definition all_same_res (l : list rres) : bool :=
  match l with [] => true | x :: r => forallb (rres_sim x) r end.

(* concurrent first Gets of one name: one client for everybody, one Auto change, and it is the one remembered *)
Definition sched_ok (g : cfg) (first : Z) (pre : list rop) (ths : list tkind) (obs : list rres) (log : list change)
           (final : list (string * client)) : bool :=
  match same_get_name ths with
  | None => true
  | Some n =>
      let '(p0, _) := prun g (mkP pempty [] first) pre in
      match pm p0 n, invoke_fb g n with
      | None, None =>
          let auto := count_auto n (skipn (List.length (plog p0)) log) in
          (Z.of_nat (List.length obs) =? zlen ths) && all_same_res obs &&
          match obs with
          | RGet (Got c) :: _ =>
              mem_str n (fac_ok g) && (auto =? 1) && negb (c =? nil_client)
              && forallb (fun nc => negb (String.eqb (fst nc) n) || (snd nc =? c)) final
              && existsb (fun ch => cauto ch && String.eqb (cname ch) n && (cnew ch =? c) && (cold ch =? nil_client)) log
          | RGet (NotFound m) :: _ =>
              negb (mem_str n (fac_ok g)) && (auto =? 0)
              && forallb (fun nc => negb (String.eqb (fst nc) n) || (snd nc =? nil_client)) final
          | _ => false
          end
      | _, _ => true
      end
  end.

(* ---- callbacks under concurrency (no use of the LTS) ----
   what each mutating call must have reported, from what it returned: Add(n, c) returning old
   reports {n, old, c}; Remove(n) returning a client reports {n, old, nil}, returning nil nothing *)
Fixpoint expected_cbs (ths : list tkind) (obs : list rres) : list change :=
  match ths, obs with
  | TAdd n c :: ths', RClient old :: obs' => mkChange n old c false :: expected_cbs ths' obs'
  | TRemove n :: ths', RClient old :: obs' =>
      if old =? nil_client then expected_cbs ths' obs' else mkChange n old nil_client false :: expected_cbs ths' obs'
  | _ :: ths', _ :: obs' => expected_cbs ths' obs'
  | _, _ => []
  end.

Fixpoint remove_all (l : list change) (from : list change) : option (list change) :=
  match l with
  | [] => Some from
  | c :: l' => match remove1 c from with Some from' => remove_all l' from' | None => None end
  end.

(* every mutating call reported exactly its own transition, once; whatever else was reported is
   an Auto change nil -> c for a client some Get of that name could have been given *)
Definition cb_multiset_ok (g : cfg) (ths : list tkind) (obs : list rres) (newcbs : list change) : bool :=
  match remove_all (expected_cbs ths obs) newcbs with
  | Some rest =>
      forallb (fun ch => cauto ch && (cold ch =? nil_client) && negb (cnew ch =? nil_client)
                         && mem_str (cname ch) (fac_ok g)
                         && existsb (fun k => match k with TGet m => String.eqb m (cname ch) | _ => false end) ths) rest
  | None => false
  end.

(* no change is reported twice *)
Fixpoint nodup_changes (l : list change) : bool :=
  match l with
  | [] => true
  | c :: r => negb (existsb (change_eqb c) r) && nodup_changes r
  end.

(* "change callbacks report exactly the transitions" for concurrent committers, as the property
   states it: WHICH transitions are reported (each committed transition exactly once, nothing else),
   not the order in which callbacks of different threads arrive.
   - the callbacks of the sequential prefix (one committer: program order) are the prefix's log, in order;
   - every mutating call reported exactly its own transition, once (cb_multiset_ok, from the results alone);
   - nothing is reported twice unless it was committed twice (three overlapping Add(n, c) of one
     client commit {n, c, c} twice: C12_cb_report_twice_needs_commit_twice);
   - all calls having returned (nothing committed is still unreported), the callbacks are a
     permutation of the transition log (commit order; taken from RouterCb.v's run of the same
     schedule, the harness cannot see commits) -- C12_callbacks_are_transitions;
   - the concurrent-first-Get clause (one client for everybody, one Auto change).
   Each thread commits at most one transition, so per-committer order inside the concurrent part is
   the order "prefix before thread" checked by the first item.  Nothing about cross-thread order. *)
Definition cb_ok (g : cfg) (first : Z) (pre : list rop) (ths : list tkind) (sched : list nat) (obs : list rres)
           (cbs : list change) (final : list (string * client)) : bool :=
  let '(p0, _) := prun g (mkP pempty [] first) pre in
  let '(s0, _) := rrun g (init first) pre in
  let G := cgrun g ths sched (cginit s0 ths) in
  let newcbs := skipn (List.length (plog p0)) cbs in
  sched_ok g first pre ths obs cbs final
  && list_eqb change_eqb (firstn (List.length (plog p0)) cbs) (plog p0)
  && cb_multiset_ok g ths obs newcbs
  && implb (nodup_changes (skipn (List.length (plog p0)) (slog (cst G)))) (nodup_changes newcbs)
  && perm_eqb cbs (slog (cst G)).

(* ---- concurrent Gets with per-call outcomes (no use of the LTS for the Get clause) ----
   what a fallback / factory call yields as far as Get is concerned: a non-nil client without an error *)
Definition fb_yield (o : wopts) (fbo : fout) : option client := if w_fb o then yields fbo else None.
Definition fac_yield (o : wopts) (fao : fout) : option client := if w_fac o then yields fao else None.

Definition same_getw_name (ths : list wkind) : option string :=
  match ths with
  | WTGet n _ _ :: r =>
      if forallb (fun k => match k with WTGet m _ _ => String.eqb m n | _ => false end) r then Some n else None
  | _ => None
  end.

Fixpoint all2 {A B} (f : A -> B -> bool) (l1 : list A) (l2 : list B) : bool :=
  match l1, l2 with
  | [], [] => true
  | a :: l1', b :: l2' => f a b && all2 f l1' l2'
  | _, _ => false
  end.

(* a Get's result is justified by its OWN calls and the one committed client: the client its own
   fallback yielded, or the committed client, or NotFound when neither of its own calls yielded one *)
Definition getw_res_ok (o : wopts) (commit : option client) (k : wkind) (r : rres) : bool :=
  match k, r with
  | WTGet _ fbo fao, RGet (Got c) => option_eqb Z.eqb (fb_yield o fbo) (Some c) || option_eqb Z.eqb commit (Some c)
  | WTGet _ fbo fao, RGet (NotFound _) =>
      match fb_yield o fbo, fac_yield o fao with None, None => true | _, _ => false end
  | _, _ => false
  end.

(* the per-call oracle of cb_ok for threads with their own outcomes: every Add/Remove reported exactly
   its own transition (from what it returned), once; whatever else was reported is an Auto change
   nil -> c under a name for which some Get thread's own factory yielded c after its own fallback missed *)
Fixpoint expected_cbsW (ths : list wkind) (obs : list rres) : list change :=
  match ths, obs with
  | WTAdd n c :: ths', RClient old :: obs' => mkChange n old c false :: expected_cbsW ths' obs'
  | WTRemove n :: ths', RClient old :: obs' =>
      if old =? nil_client then expected_cbsW ths' obs' else mkChange n old nil_client false :: expected_cbsW ths' obs'
  | _ :: ths', _ :: obs' => expected_cbsW ths' obs'
  | _, _ => []
  end.

Definition autoW_ok (o : wopts) (ths : list wkind) (ch : change) : bool :=
  cauto ch && (cold ch =? nil_client)
  && existsb (fun k => match k with
                       | WTGet m fbo fao =>
                           String.eqb m (cname ch)
                           && match fb_yield o fbo with
                              | None => option_eqb Z.eqb (fac_yield o fao) (Some (cnew ch))
                              | Some _ => false
                              end
                       | _ => false
                       end) ths.

Definition cbw_multiset_ok (o : wopts) (ths : list wkind) (obs : list rres) (cbs : list change) : bool :=
  match remove_all (expected_cbsW ths obs) cbs with
  | Some rest => forallb (autoW_ok o ths) rest
  | None => false
  end.

(* all calls returned.  Any threads: the callbacks are a permutation of the transition log (commit
   order, from RouterCbW.v's run of the same schedule), and the per-call oracle above holds.  Concurrent first Gets of one name on a fresh
   router, each with its own fallback/factory outcomes: at most ONE Auto change nil -> c was reported
   and nothing else; c is what some caller's own factory yielded after its own fallback missed;
   every result is justified (getw_res_ok); the registry holds c (or nothing) *)
Definition schedw_ok (o : wopts) (ths : list wkind) (sched : list nat) (obs : list rres) (cbs : list change)
           (final : list (string * client)) : bool :=
  let G := cgrunW o ths sched (cginitW (init 1) ths) in
  perm_eqb cbs (slog (cst G)) && cbw_multiset_ok o ths obs cbs &&
  match same_getw_name ths with
  | None => true
  | Some n =>
      match cbs with
      | [] => all2 (getw_res_ok o None) ths obs
              && forallb (fun nc => negb (String.eqb (fst nc) n) || (snd nc =? nil_client)) final
      | [ch] =>
          cauto ch && String.eqb (cname ch) n && (cold ch =? nil_client)
          && existsb (fun k => match k with
                               | WTGet _ fbo fao =>
                                   match fb_yield o fbo with
                                   | None => option_eqb Z.eqb (fac_yield o fao) (Some (cnew ch))
                                   | Some _ => false
                                   end
                               | _ => false
                               end) ths
          && all2 (getw_res_ok o (Some (cnew ch))) ths obs
          && forallb (fun nc => negb (String.eqb (fst nc) n) || (snd nc =? cnew ch)) final
      | _ => false
      end
  end.

Definition wres_sim (a b : wres) : bool :=
  let '(WR r1 a1 b1) := a in let '(WR r2 a2 b2) := b in rres_sim r1 r2 && (a1 =? a2) && (b1 =? b2).

Definition regw_ok (o : wopts) (ops : list wop) (obs : list wres) (log : list change) : bool :=
  let '(p, rs) := prunW o (mkP pempty [] 1) ops in
  list_eqb wres_sim obs rs && list_eqb change_eqb log (if w_cb o then plog p else []).

(* what a Get (raw or typed) must return for the plain map's answer: the client and no error, or
   an error with code NotFound (the value next to an error is not judged: Go callers must ignore it;
   the message text is not part of the property) *)
Definition got_ok (target : getres) (v : client) (e : option status) : bool :=
  match target, e with
  | Got c, None => v =? c
  | NotFound _, Some (code, _) => code =? not_found_code
  | _, _ => false
  end.

(* histories on a generated router with per-call outcomes: replay RegistryW's plain map; every RPC
   went exactly once to the client the map holds (routed_ok), or to nobody with NotFound; the typed
   Add refused nil; the fallback and the factory were called as often as the map says *)
Fixpoint xhist_ok (o : wopts) (p : pstate) (ops : list xop) (obs : list xres) : option pstate :=
  match ops, obs with
  | [], [] => Some p
  | op :: ops', x :: obs' =>
      let next p' ok := if ok : bool then xhist_ok o p' ops' obs' else None in
      let lookup n fbo fao (k : pstate -> getres -> Z -> Z -> option pstate) :=
        match pstepW o p (WGet n fbo fao) with
        | (p', WR (RGet tgt) j1 j2) => k p' tgt j1 j2
        | _ => None
        end in
      match op, x with
      | XAdd n c, XPanic => next p (c =? nil_client)
      | XAdd n c, XR r =>
          if c =? nil_client then None
          else let '(p', WR r' _ _) := pstepW o p (WAdd n c) in next p' (rres_sim r r')
      | XRemove n, XR r => let '(p', WR r' _ _) := pstepW o p (WRemove n) in next p' (rres_sim r r')
      | XHas n, XR r => let '(p', WR r' _ _) := pstepW o p (WHas n) in next p' (rres_sim r r')
      | XGetRaw n fbo fao, XGot v e k1 k2 | XGetTyped n fbo fao, XGot v e k1 k2 =>
          lookup n fbo fao (fun p' tgt j1 j2 => next p' ((k1 =? j1) && (k2 =? j2) && got_ok tgt v e))
      | XUnary n fbo fao u, XCalled calls t k1 k2 =>
          lookup n fbo fao (fun p' tgt j1 j2 => next p' ((k1 =? j1) && (k2 =? j2) && routed_ok tgt n calls t (unary_ok u t)))
      | XStream n fbo fao c k, XCalled calls t k1 k2 =>
          lookup n fbo fao (fun p' tgt j1 j2 => next p' ((k1 =? j1) && (k2 =? j2) && routed_ok tgt n calls t (stream_ok c k t)))
      | _, _ => None
      end
  | _, _ => None
  end.

Definition routew_ok (o : wopts) (ops : list xop) (obs : list xres) (log : list change) : bool :=
  match xhist_ok o (mkP pempty [] 1) ops obs with
  | Some p => list_eqb change_eqb log (if w_cb o then plog p else [])
  | None => false
  end.

Definition default_ok (name : string) (applied : bool) (r obs : request) : bool :=
  match shape r with
  | NameString s =>
      if applied && String.eqb s "" then request_eqb obs (mkReq (NameString name) (payload r)) else request_eqb obs r
  | _ => request_eqb obs r
  end.

(* one request of a sequence, judged on its own (whatever passed through the interceptor before):
   same fields in the same order; the field whose text name is "name" -- if it is a singular
   string, was empty, and the message was actually received -- holds the default; every other
   field, and a non-empty name, is untouched *)
Fixpoint fields_ok (t : mtype) (applied : bool) (dflt : string) (v o : mvalue) : bool :=
  match v, o with
  | [], [] => true
  | (n, x) :: v', (n', x') :: o' =>
      (n =? n')
      && (let is_name := existsb (fun f => String.eqb (ftext f) "name" && (fnum f =? n)
                                           && match fk f with FString => true | _ => false end)
                                 (tfields t) in
          if applied && is_name && String.eqb x "" then String.eqb x' dflt else String.eqb x' x)
      && fields_ok t applied dflt v' o'
  | _, _ => false
  end.

Fixpoint seq_ok (dflt : string) (steps : list dstep) (obs : list mvalue) : bool :=
  match steps, obs with
  | [], [] => true
  | (path, t, v) :: steps', o :: obs' => fields_ok t (negb (path =? 2)) dflt v o && seq_ok dflt steps' obs'
  | _, _ => false
  end.

Definition C12_ok (c : c12case) : bool :=
  match c with
  | KHist g first ops obs log =>
      match hist_ok g (mkP pempty [] first) ops obs with
      | Some s => list_eqb change_eqb log (plog s)
      | None => false
      end
  | KSched g first pre ths sched obs log final => sched_ok g first pre ths obs log final
  | KSchedCb g first pre ths sched obs cbs final => cb_ok g first pre ths sched obs cbs final
  | KRegW o ops obs log => regw_ok o ops obs log
  | KSchedW o ths sched obs cbs final => schedw_ok o ths sched obs cbs final
  | KRouteW o fe ae ops obs log => routew_ok o ops obs log
  | KDefault name r obs => default_ok name true r obs
  | KDefaultStream name ok r obs => default_ok name ok r obs
  | KDefaultSeq name steps obs => seq_ok name steps obs
  (* every message received on the stream is judged on its own, first or not *)
  | KStreamSession name rs obs =>
      seq_ok name (map (fun r => let '(ok, t, v) := r in ((if ok : bool then 1 else 2), t, v)) rs) obs
  end.

(* hypothesis of the sequence/session theorems: a message type has at most one field whose text
   name is "name" (protobuf guarantees unique field names; the model looks the field up with
   ByTextName = first match, the predicate quantifies over all fields) *)
Definition named (f : fdesc) : bool := String.eqb (ftext f) "name".
Definition type_wf (t : mtype) : bool := zlen (filter named (tfields t)) <=? 1.
Definition steps_wf (steps : list dstep) : bool := forallb (fun s => type_wf (snd (fst s))) steps.
Definition recvd_wf (rs : list recvd) : bool := forallb (fun r => type_wf (snd (fst r))) rs.

(* hypothesis of the schedule theorems: client identities are non-nil (the factory's identities
   start above 0; no Add(name, nil) -- the generated routers refuse it, and with a stored nil a
   Remove returns nil although it removed something, so the per-call oracle of cb_ok would not
   apply).  The harness never generates such a schedule case; if it did, it would be reported. *)
Definition sched_guard (first : Z) (pre : list rop) (ths : list tkind) : bool :=
  (0 <? first)
  && forallb (fun o => match o with OAdd _ c => negb (c =? nil_client) | _ => true end) pre
  && forallb (fun k => match k with TAdd _ c => negb (c =? nil_client) | _ => true end) ths.

Definition C12_guard (c : c12case) : bool :=
  match c with
  | KDefaultSeq _ steps _ => steps_wf steps
  | KStreamSession _ rs _ => recvd_wf rs
  | KSched _ first pre ths _ _ _ _ | KSchedCb _ first pre ths _ _ _ _ => sched_guard first pre ths
  | KSchedW _ ths _ _ _ _ => forallb (fun k => match k with WTAdd _ c => negb (c =? nil_client) | _ => true end) ths
  | _ => true
  end.

(* a case outside the guard (a type description no protobuf descriptor can produce) is not passed
   over in silence: it is reported as a mismatch, so the guard holds of every case of an OK run *)
Definition judge (c : c12case) : Z :=
  if C12_guard c then verdict (agrees c) (C12_ok c) None else 1.
