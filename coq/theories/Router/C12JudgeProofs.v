(* The predicate evaluated by the judge holds of the model's own output for all inputs:
   stream/unary transcripts, default names, and whole histories on a generated router. *)
From SC Require Import Base.Prelude Router.Registry Router.RegistryProofs Router.Pump Router.PumpProofs
  Router.Route Router.NameDefault Router.RegistryW Router.RegistryWProofs Router.C12Judge.

Lemma list_eqb_refl : forall {A} (e : A -> A -> bool) l, (forall x, e x x = true) -> list_eqb e l l = true.
Proof. intros A e l H. induction l as [|x l IH]; cbn; auto. rewrite H, IH. reflexivity. Qed.
Lemma option_eqb_refl : forall {A} (e : A -> A -> bool) o, (forall x, e x x = true) -> option_eqb e o o = true.
Proof. intros A e [x|] H; cbn; auto. Qed.
Lemma md_eqb_refl : forall m, md_eqb m m = true.
Proof.
  intros m. apply list_eqb_refl. intros [k vs]. cbn. rewrite String.eqb_refl. cbn.
  apply list_eqb_refl. apply String.eqb_refl.
Qed.
Lemma status_eqb_refl : forall s, status_eqb s s = true.
Proof. intros [c m]. unfold status_eqb. cbn. rewrite Z.eqb_refl, String.eqb_refl. reflexivity. Qed.

Lemma is_prefix_tr_refl : forall h ms tr st ca rc, is_prefix_tr (mkTr h ms tr st ca rc) h ms tr st = true.
Proof.
  intros. unfold is_prefix_tr. cbn.
  rewrite !(option_eqb_refl md_eqb) by apply md_eqb_refl.
  rewrite (list_eqb_refl Z.eqb) by apply Z.eqb_refl.
  rewrite (option_eqb_refl status_eqb) by apply status_eqb_refl. reflexivity.
Qed.

Lemma pump_loop_send_error_past : forall c k j e rest i acc,
  send_err_at k = Some (j, e) -> j < i ->
  pump_loop c k rest i acc = mkTr (Some (hdr c)) (rev acc ++ rest) (trl c) (fin c) false (i + zlen rest + 1).
Proof.
  intros c k j e rest. induction rest as [|m rest IH]; intros i acc Hk Hij; cbn [pump_loop].
  - rewrite app_nil_r. unfold zlen. cbn. f_equal; lia.
  - rewrite Hk. destruct (Z.eqb_spec j i); [lia|]. rewrite IH by (auto; lia).
    cbn [rev]. rewrite <- app_assoc. cbn [app]. rewrite zlen_cons. f_equal; lia.
Qed.

Theorem stream_ok_sound : forall c k, stream_ok c k (pump c k) = true.
Proof.
  intros c k. unfold stream_ok, pump.
  destruct (open_err c) as [e|] eqn:Eo. { apply is_prefix_tr_refl. }
  destruct (hdr_err c) as [e|] eqn:Eh. { apply is_prefix_tr_refl. }
  destruct (sendheader_err k) as [e|] eqn:Es. { apply is_prefix_tr_refl. }
  destruct (send_err_at k) as [[j e]|] eqn:Ek.
  - destruct (Z.leb_spec 0 j) as [H0|H0]; cbn [andb].
    + rewrite (pump_loop_send_error c k j e) by (auto; lia). replace (j - 0) with j by lia.
      destruct (Z.ltb_spec j (zlen (msgs c))); cbn [rev app]; rewrite is_prefix_tr_refl; reflexivity.
    + rewrite (pump_loop_send_error_past c k j e) by (auto; lia). cbn [rev app]. rewrite is_prefix_tr_refl. reflexivity.
  - assert (Hk : k = mkCaller (sendheader_err k) None) by (destruct k; cbn in *; subst; reflexivity).
    assert (Hl : forall rest i acc, pump_loop c k rest i acc = mkTr (Some (hdr c)) (rev acc ++ rest) (trl c) (fin c) false (i + zlen rest + 1)).
    { induction rest as [|m rest IH]; intros i acc; cbn [pump_loop].
      - rewrite app_nil_r. unfold zlen. cbn. f_equal; lia.
      - rewrite Ek, IH. cbn [rev]. rewrite <- app_assoc. cbn [app]. rewrite zlen_cons. f_equal; lia. }
    rewrite Hl. cbn [rev app]. rewrite is_prefix_tr_refl. reflexivity.
Qed.

Theorem unary_ok_sound : forall u, unary_ok u (unary u) = true.
Proof. intros [m|e]; cbn [unary unary_ok]; apply is_prefix_tr_refl. Qed.

Lemma shape_eqb_refl : forall s, shape_eqb s s = true.
Proof. intros [| | |n|s]; cbn; auto using Z.eqb_refl, String.eqb_refl. Qed.
Lemma request_eqb_refl : forall r, request_eqb r r = true.
Proof. intros r. unfold request_eqb. rewrite shape_eqb_refl, Z.eqb_refl. reflexivity. Qed.

Theorem default_ok_sound : forall name ok r, default_ok name ok r (stream_recv name ok r) = true.
Proof.
  intros name ok r. unfold default_ok, stream_recv, replace_empty_name.
  destruct (shape r) as [| | |n|s] eqn:E; try (destruct ok; apply request_eqb_refl).
  destruct ok; cbn [andb]; [|apply request_eqb_refl].
  destruct (String.eqb s ""); apply request_eqb_refl.
Qed.

(* whole histories: the model's results and log satisfy the history predicate, which replays a
   plain functional map *)
Lemma rres_eqb_refl : forall r, rres_eqb r r = true.
Proof.
  intros [c|b|[c|m]]; cbn; auto using Z.eqb_refl, String.eqb_refl. destruct b; reflexivity.
Qed.
Lemma rres_sim_refl : forall r, rres_sim r r = true.
Proof. intros r. unfold rres_sim. destruct r as [c|b|[c|m]]; auto using rres_eqb_refl. Qed.
Lemma change_eqb_refl : forall c, change_eqb c c = true.
Proof.
  intros c. unfold change_eqb. rewrite String.eqb_refl, !Z.eqb_refl. destruct (cauto c); reflexivity.
Qed.

Lemma get_refines : forall g n s p, R s p ->
  RGet (snd (get g n s)) = snd (pstep g p (OGet n)) /\ R (fst (get g n s)) (fst (pstep g p (OGet n))).
Proof.
  intros g n s p HR. pose proof (step_refines g s p (OGet n) HR) as H. cbn [rstep] in H.
  destruct (get g n s) as [s' r]. exact H.
Qed.

Lemma hist_ok_sound : forall g ops s p, R s p ->
  exists p', hist_ok g p ops (snd (hrun g s ops)) = Some p' /\ R (fst (hrun g s ops)) p'.
Proof.
  intros g ops. induction ops as [|o ops IH]; intros s p HR; cbn [hrun hist_ok].
  - exists p. split; auto.
  - destruct o as [ro|n|n u|n c k]; cbn [hstep].
    + pose proof (step_refines g s p ro HR) as [Hr HR'].
      destruct (rstep g s ro) as [s1 x] eqn:E1. destruct (pstep g p ro) as [p1 y] eqn:E2. cbn [fst snd] in *.
      destruct (IH s1 p1 HR') as [p' [Hh HR2]]. destruct (hrun g s1 ops) as [s2 xs]. cbn [fst snd] in *.
      subst y. rewrite rres_sim_refl. exists p'. split; auto.
    + destruct (IH s p HR) as [p' [Hh HR2]]. destruct (hrun g s ops) as [s2 xs]. cbn [fst snd] in *.
      exists p'. split; auto.
    + pose proof (get_refines g n s p HR) as [Hr HR'].
      destruct (get g n s) as [s1 r] eqn:E1. destruct (pstep g p (OGet n)) as [p1 y] eqn:E2. cbn [fst snd] in *. subst y.
      destruct (IH s1 p1 HR') as [p' [Hh HR2]].
      destruct r as [cl|m]; destruct (hrun g s1 ops) as [s2 xs]; cbn [fst snd] in *; exists p'; split; auto.
      * cbn [routed_ok]. rewrite Z.eqb_refl, unary_ok_sound. exact Hh.
      * unfold routed_ok, not_found_tr, not_found_code, is_prefix_tr, status_eqb. cbn.
        rewrite String.eqb_refl. cbn. exact Hh.
    + pose proof (get_refines g n s p HR) as [Hr HR'].
      destruct (get g n s) as [s1 r] eqn:E1. destruct (pstep g p (OGet n)) as [p1 y] eqn:E2. cbn [fst snd] in *. subst y.
      destruct (IH s1 p1 HR') as [p' [Hh HR2]].
      destruct r as [cl|m]; destruct (hrun g s1 ops) as [s2 xs]; cbn [fst snd] in *; exists p'; split; auto.
      * cbn [routed_ok]. rewrite Z.eqb_refl, stream_ok_sound. exact Hh.
      * unfold routed_ok, not_found_tr, not_found_code, is_prefix_tr, status_eqb. cbn.
        rewrite String.eqb_refl. cbn. exact Hh.
Qed.

(* the judge's property predicate holds of the model on every history *)
Theorem judge_sound_hist : forall g first ops,
  C12_ok (KHist g first ops (snd (hrun g (init first) ops)) (slog (fst (hrun g (init first) ops)))) = true.
Proof.
  intros g first ops. cbn [C12_ok].
  destruct (hist_ok_sound g ops (init first) (mkP pempty [] first) (R_init first)) as [p' [Hh [_ [Hl _]]]].
  rewrite Hh, Hl. apply list_eqb_refl. apply change_eqb_refl.
Qed.

(* ---- agreement with the model implies the property predicate ---- *)
Lemma list_eqb_impl : forall {A} (e1 e2 : A -> A -> bool) a b,
  (forall x y, e1 x y = true -> e2 x y = true) -> list_eqb e1 a b = true -> list_eqb e2 a b = true.
Proof.
  intros A e1 e2 a. induction a as [|x a IH]; intros [|y b] Hi H; cbn in *; auto; try discriminate.
  apply andb_true_iff in H. destruct H as [H1 H2]. rewrite (Hi _ _ H1), (IH _ Hi H2). reflexivity.
Qed.

Lemma rres_eqb_sim : forall a b, rres_eqb a b = true -> rres_sim a b = true.
Proof. intros a b H. unfold rres_sim. destruct a as [c|x|[c|m]]; destruct b as [c'|x'|[c'|m']]; auto. Qed.

Lemma wres_eqb_sim : forall a b, wres_eqb a b = true -> wres_sim a b = true.
Proof.
  intros [r1 a1 b1] [r2 a2 b2]. cbn. intros H. apply andb_true_iff in H. destruct H as [H Hb].
  apply andb_true_iff in H. destruct H as [Hr Ha]. rewrite (rres_eqb_sim _ _ Hr), Ha, Hb. reflexivity.
Qed.

(* registries built from any option subset with per-call fallback/factory outcomes: whenever the
   code's observation agrees with the model (RegistryW.v) it satisfies the plain-map predicate *)
Theorem judge_agrees_ok_regw : forall o ops obs log, agrees (KRegW o ops obs log) = true -> C12_ok (KRegW o ops obs log) = true.
Proof.
  intros o ops obs log. cbn [agrees C12_ok]. unfold regw_ok.
  assert (HR0 : RW (init 1) (mkP pempty [] 1)) by (split; auto).
  destruct (registryW_is_map o ops _ _ HR0) as [Hrs [_ Hl]].
  destruct (wrun o (init 1) ops) as [s rs]. destruct (prunW o (mkP pempty [] 1) ops) as [p prs]. cbn [fst snd] in *.
  subst prs. intros H. apply andb_true_iff in H. destruct H as [H1 H2].
  rewrite (list_eqb_impl _ _ _ _ wres_eqb_sim H1). unfold wlog in H2. rewrite Hl in H2. exact H2.
Qed.

Theorem judge_agrees_ok_default : forall name r obs,
  agrees (KDefault name r obs) = true -> C12_ok (KDefault name r obs) = true.
Proof.
  intros name r obs. cbn [agrees C12_ok]. unfold unary_interceptor, default_ok, replace_empty_name.
  destruct (shape r) as [| | |n|s] eqn:E; auto. cbn [andb]. destruct (String.eqb s ""); auto.
Qed.

Theorem judge_agrees_ok_default_stream : forall name ok r obs,
  agrees (KDefaultStream name ok r obs) = true -> C12_ok (KDefaultStream name ok r obs) = true.
Proof.
  intros name ok r obs. cbn [agrees C12_ok]. unfold stream_recv, default_ok, replace_empty_name.
  destruct ok; destruct (shape r) as [| | |n|s] eqn:E; auto. cbn [andb]. destruct (String.eqb s ""); auto.
Qed.
