(* The predicate evaluated by the judge holds of the model's own output for all inputs:
   stream/unary transcripts, default names, and whole histories on a generated router. *)
From SC Require Import Base.Prelude Router.Registry Router.RegistryProofs Router.Pump Router.PumpProofs
  Router.Route Router.NameDefault Router.RegistryW Router.RegistryWProofs Router.RouteW Router.RouteWProofs Router.C12Judge.

Lemma list_eqb_refl : forall {A} (e : A -> A -> bool) l, (forall x, e x x = true) -> list_eqb e l l = true.
Proof. intros A e l H. induction l as [|x l IH]; cbn; auto. rewrite H, IH. reflexivity. Qed.
Lemma option_eqb_refl : forall {A} (e : A -> A -> bool) o, (forall x, e x x = true) -> option_eqb e o o = true.
Proof. intros A e [x|] H; cbn; auto. Qed.
Lemma md_eqb_refl : forall m, md_eqb m m = true.
Proof.
  intros m. apply list_eqb_refl. intros [k vs]. cbn. rewrite String.eqb_refl. cbn.
  apply list_eqb_refl. apply String.eqb_refl.
Qed.
Lemma status_eqb_refl : forall s, status_eqb s s = true.
Proof. intros [c m]. unfold status_eqb. cbn. rewrite Z.eqb_refl, String.eqb_refl. reflexivity. Qed.

Lemma is_prefix_tr_refl : forall h ms tr st ca rc, is_prefix_tr (mkTr h ms tr st ca rc) h ms tr st = true.
Proof.
  intros. unfold is_prefix_tr. cbn.
  rewrite !(option_eqb_refl md_eqb) by apply md_eqb_refl.
  rewrite (list_eqb_refl Z.eqb) by apply Z.eqb_refl.
  rewrite (option_eqb_refl status_eqb) by apply status_eqb_refl. reflexivity.
Qed.

Lemma pump_loop_send_error_past : forall c k j e rest i acc,
  send_err_at k = Some (j, e) -> j < i ->
  pump_loop c k rest i acc = mkTr (Some (hdr c)) (rev acc ++ rest) (trl c) (fin c) false (i + zlen rest + 1).
Proof.
  intros c k j e rest. induction rest as [|m rest IH]; intros i acc Hk Hij; cbn [pump_loop].
  - rewrite app_nil_r. unfold zlen. cbn. f_equal; lia.
  - rewrite Hk. destruct (Z.eqb_spec j i); [lia|]. rewrite IH by (auto; lia).
    cbn [rev]. rewrite <- app_assoc. cbn [app]. rewrite zlen_cons. f_equal; lia.
Qed.

Theorem stream_ok_sound : forall c k, stream_ok c k (pump c k) = true.
Proof.
  intros c k. unfold stream_ok, pump.
  destruct (open_err c) as [e|] eqn:Eo. { apply is_prefix_tr_refl. }
  destruct (hdr_err c) as [e|] eqn:Eh. { apply is_prefix_tr_refl. }
  destruct (sendheader_err k) as [e|] eqn:Es. { apply is_prefix_tr_refl. }
  destruct (send_err_at k) as [[j e]|] eqn:Ek.
  - destruct (Z.leb_spec 0 j) as [H0|H0]; cbn [andb].
    + rewrite (pump_loop_send_error c k j e) by (auto; lia). replace (j - 0) with j by lia.
      destruct (Z.ltb_spec j (zlen (msgs c))); cbn [rev app]; rewrite is_prefix_tr_refl; reflexivity.
    + rewrite (pump_loop_send_error_past c k j e) by (auto; lia). cbn [rev app]. rewrite is_prefix_tr_refl. reflexivity.
  - assert (Hk : k = mkCaller (sendheader_err k) None) by (destruct k; cbn in *; subst; reflexivity).
    assert (Hl : forall rest i acc, pump_loop c k rest i acc = mkTr (Some (hdr c)) (rev acc ++ rest) (trl c) (fin c) false (i + zlen rest + 1)).
    { induction rest as [|m rest IH]; intros i acc; cbn [pump_loop].
      - rewrite app_nil_r. unfold zlen. cbn. f_equal; lia.
      - rewrite Ek, IH. cbn [rev]. rewrite <- app_assoc. cbn [app]. rewrite zlen_cons. f_equal; lia. }
    rewrite Hl. cbn [rev app]. rewrite is_prefix_tr_refl. reflexivity.
Qed.

Theorem unary_ok_sound : forall u, unary_ok u (unary u) = true.
Proof. intros [m|e]; cbn [unary unary_ok]; apply is_prefix_tr_refl. Qed.

Lemma shape_eqb_refl : forall s, shape_eqb s s = true.
Proof. intros [| | |n|s]; cbn; auto using Z.eqb_refl, String.eqb_refl. Qed.
Lemma request_eqb_refl : forall r, request_eqb r r = true.
Proof. intros r. unfold request_eqb. rewrite shape_eqb_refl, Z.eqb_refl. reflexivity. Qed.

Theorem default_ok_sound : forall name ok r, default_ok name ok r (stream_recv name ok r) = true.
Proof.
  intros name ok r. unfold default_ok, stream_recv, replace_empty_name.
  destruct (shape r) as [| | |n|s] eqn:E; try (destruct ok; apply request_eqb_refl).
  destruct ok; cbn [andb]; [|apply request_eqb_refl].
  destruct (String.eqb s ""); apply request_eqb_refl.
Qed.

(* whole histories: the model's results and log satisfy the history predicate, which replays a
   plain functional map *)
Lemma rres_eqb_refl : forall r, rres_eqb r r = true.
Proof.
  intros [c|b|[c|m]]; cbn; auto using Z.eqb_refl, String.eqb_refl. destruct b; reflexivity.
Qed.
Lemma rres_sim_refl : forall r, rres_sim r r = true.
Proof. intros r. unfold rres_sim. destruct r as [c|b|[c|m]]; auto using rres_eqb_refl. Qed.
Lemma change_eqb_refl : forall c, change_eqb c c = true.
Proof.
  intros c. unfold change_eqb. rewrite String.eqb_refl, !Z.eqb_refl. destruct (cauto c); reflexivity.
Qed.

Lemma get_refines : forall g n s p, R s p ->
  RGet (snd (get g n s)) = snd (pstep g p (OGet n)) /\ R (fst (get g n s)) (fst (pstep g p (OGet n))).
Proof.
  intros g n s p HR. pose proof (step_refines g s p (OGet n) HR) as H. cbn [rstep] in H.
  destruct (get g n s) as [s' r]. exact H.
Qed.

Lemma hist_ok_sound : forall g ops s p, R s p ->
  exists p', hist_ok g p ops (snd (hrun g s ops)) = Some p' /\ R (fst (hrun g s ops)) p'.
Proof.
  intros g ops. induction ops as [|o ops IH]; intros s p HR; cbn [hrun hist_ok].
  - exists p. split; auto.
  - destruct o as [ro|n|n u|n c k]; cbn [hstep].
    + pose proof (step_refines g s p ro HR) as [Hr HR'].
      destruct (rstep g s ro) as [s1 x] eqn:E1. destruct (pstep g p ro) as [p1 y] eqn:E2. cbn [fst snd] in *.
      destruct (IH s1 p1 HR') as [p' [Hh HR2]]. destruct (hrun g s1 ops) as [s2 xs]. cbn [fst snd] in *.
      subst y. rewrite rres_sim_refl. exists p'. split; auto.
    + destruct (IH s p HR) as [p' [Hh HR2]]. destruct (hrun g s ops) as [s2 xs]. cbn [fst snd] in *.
      exists p'. split; auto.
    + pose proof (get_refines g n s p HR) as [Hr HR'].
      destruct (get g n s) as [s1 r] eqn:E1. destruct (pstep g p (OGet n)) as [p1 y] eqn:E2. cbn [fst snd] in *. subst y.
      destruct (IH s1 p1 HR') as [p' [Hh HR2]].
      destruct r as [cl|m]; destruct (hrun g s1 ops) as [s2 xs]; cbn [fst snd] in *; exists p'; split; auto.
      * cbn [routed_ok]. rewrite Z.eqb_refl, unary_ok_sound. exact Hh.
      * unfold routed_ok, not_found_tr, not_found_code, is_prefix_tr, status_eqb. cbn.
        rewrite String.eqb_refl. cbn. exact Hh.
    + pose proof (get_refines g n s p HR) as [Hr HR'].
      destruct (get g n s) as [s1 r] eqn:E1. destruct (pstep g p (OGet n)) as [p1 y] eqn:E2. cbn [fst snd] in *. subst y.
      destruct (IH s1 p1 HR') as [p' [Hh HR2]].
      destruct r as [cl|m]; destruct (hrun g s1 ops) as [s2 xs]; cbn [fst snd] in *; exists p'; split; auto.
      * cbn [routed_ok]. rewrite Z.eqb_refl, stream_ok_sound. exact Hh.
      * unfold routed_ok, not_found_tr, not_found_code, is_prefix_tr, status_eqb. cbn.
        rewrite String.eqb_refl. cbn. exact Hh.
Qed.

(* the judge's property predicate holds of the model on every history *)
Theorem judge_sound_hist : forall g first ops,
  C12_ok (KHist g first ops (snd (hrun g (init first) ops)) (slog (fst (hrun g (init first) ops)))) = true.
Proof.
  intros g first ops. cbn [C12_ok].
  destruct (hist_ok_sound g ops (init first) (mkP pempty [] first) (R_init first)) as [p' [Hh [_ [Hl _]]]].
  rewrite Hh, Hl. apply list_eqb_refl. apply change_eqb_refl.
Qed.

(* ---- agreement with the model implies the property predicate ---- *)
Lemma list_eqb_impl : forall {A} (e1 e2 : A -> A -> bool) a b,
  (forall x y, e1 x y = true -> e2 x y = true) -> list_eqb e1 a b = true -> list_eqb e2 a b = true.
Proof.
  intros A e1 e2 a. induction a as [|x a IH]; intros [|y b] Hi H; cbn in *; auto; try discriminate.
  apply andb_true_iff in H. destruct H as [H1 H2]. rewrite (Hi _ _ H1), (IH _ Hi H2). reflexivity.
Qed.

Lemma rres_eqb_sim : forall a b, rres_eqb a b = true -> rres_sim a b = true.
Proof. intros a b H. unfold rres_sim. destruct a as [c|x|[c|m]]; destruct b as [c'|x'|[c'|m']]; auto. Qed.

Lemma wres_eqb_sim : forall a b, wres_eqb a b = true -> wres_sim a b = true.
Proof.
  intros [r1 a1 b1] [r2 a2 b2]. cbn. intros H. apply andb_true_iff in H. destruct H as [H Hb].
  apply andb_true_iff in H. destruct H as [Hr Ha]. rewrite (rres_eqb_sim _ _ Hr), Ha, Hb. reflexivity.
Qed.

(* registries built from any option subset with per-call fallback/factory outcomes: whenever the
   code's observation agrees with the model (RegistryW.v) it satisfies the plain-map predicate *)
Theorem judge_agrees_ok_regw : forall o ops obs log, agrees (KRegW o ops obs log) = true -> C12_ok (KRegW o ops obs log) = true.
Proof.
  intros o ops obs log. cbn [agrees C12_ok]. unfold regw_ok.
  assert (HR0 : RW (init 1) (mkP pempty [] 1)) by (split; auto).
  destruct (registryW_is_map o ops _ _ HR0) as [Hrs [_ Hl]].
  destruct (wrun o (init 1) ops) as [s rs]. destruct (prunW o (mkP pempty [] 1) ops) as [p prs]. cbn [fst snd] in *.
  subst prs. intros H. apply andb_true_iff in H. destruct H as [H1 H2].
  rewrite (list_eqb_impl _ _ _ _ wres_eqb_sim H1). unfold wlog in H2. rewrite Hl in H2. exact H2.
Qed.

Theorem judge_agrees_ok_default : forall name r obs,
  agrees (KDefault name r obs) = true -> C12_ok (KDefault name r obs) = true.
Proof.
  intros name r obs. cbn [agrees C12_ok]. unfold unary_interceptor, default_ok, replace_empty_name.
  destruct (shape r) as [| | |n|s] eqn:E; auto. cbn [andb]. destruct (String.eqb s ""); auto.
Qed.

Theorem judge_agrees_ok_default_stream : forall name ok r obs,
  agrees (KDefaultStream name ok r obs) = true -> C12_ok (KDefaultStream name ok r obs) = true.
Proof.
  intros name ok r obs. cbn [agrees C12_ok]. unfold stream_recv, default_ok, replace_empty_name.
  destruct ok; destruct (shape r) as [| | |n|s] eqn:E; auto. cbn [andb]. destruct (String.eqb s ""); auto.
Qed.

(* ---- boolean equalities reflect equality ---- *)
Lemma list_eqb_eq : forall {A} (e : A -> A -> bool), (forall x y, e x y = true -> x = y) ->
  forall a b, list_eqb e a b = true -> a = b.
Proof.
  intros A e He a. induction a as [|x a IH]; intros [|y b] H; cbn in H; try discriminate; auto.
  apply andb_true_iff in H. destruct H as [H1 H2]. rewrite (He _ _ H1), (IH _ H2). reflexivity.
Qed.
Lemma option_eqb_eq : forall {A} (e : A -> A -> bool), (forall x y, e x y = true -> x = y) ->
  forall a b, option_eqb e a b = true -> a = b.
Proof. intros A e He [x|] [y|] H; cbn in H; try discriminate; auto. rewrite (He _ _ H). reflexivity. Qed.
Lemma Zeqb_eq : forall x y, (x =? y) = true -> x = y.
Proof. intros x y H. apply Z.eqb_eq. exact H. Qed.
Lemma Seqb_eq : forall x y, String.eqb x y = true -> x = y.
Proof. intros x y H. apply String.eqb_eq. exact H. Qed.
Lemma md_eqb_eq : forall a b, md_eqb a b = true -> a = b.
Proof.
  apply list_eqb_eq. intros [k vs] [k' vs'] H. cbn in H. apply andb_true_iff in H. destruct H as [H1 H2].
  rewrite (Seqb_eq _ _ H1), (list_eqb_eq String.eqb Seqb_eq _ _ H2). reflexivity.
Qed.
Lemma status_eqb_eq : forall a b, status_eqb a b = true -> a = b.
Proof.
  intros [c m] [c' m'] H. unfold status_eqb in H. cbn in H. apply andb_true_iff in H. destruct H as [H1 H2].
  rewrite (Zeqb_eq _ _ H1), (Seqb_eq _ _ H2). reflexivity.
Qed.
Lemma transcript_eqb_eq : forall a b, transcript_eqb a b = true -> a = b.
Proof.
  intros [h ms tr st ca rc] [h' ms' tr' st' ca' rc'] H. unfold transcript_eqb in H. cbn in H.
  repeat (apply andb_true_iff in H; destruct H as [H ?]).
  rewrite (option_eqb_eq md_eqb md_eqb_eq _ _ H), (list_eqb_eq Z.eqb Zeqb_eq _ _ H4),
    (option_eqb_eq md_eqb md_eqb_eq _ _ H3), (option_eqb_eq status_eqb status_eqb_eq _ _ H2),
    (Bool.eqb_prop _ _ H1), (Zeqb_eq _ _ H0). reflexivity.
Qed.
Lemma call_eqb_eq : forall a b, call_eqb a b = true -> a = b.
Proof.
  intros [[c m] r] [[c' m'] r'] H. cbn in H. repeat (apply andb_true_iff in H; destruct H as [H ?]).
  rewrite (Zeqb_eq _ _ H), (Bool.eqb_prop _ _ H1), (Bool.eqb_prop _ _ H0). reflexivity.
Qed.
Lemma rres_eqb_eq : forall a b, rres_eqb a b = true -> a = b.
Proof.
  intros [c|x|[c|m]] [c'|x'|[c'|m']] H; cbn in H; try discriminate.
  - rewrite (Zeqb_eq _ _ H). reflexivity.
  - rewrite (Bool.eqb_prop _ _ H). reflexivity.
  - rewrite (Zeqb_eq _ _ H). reflexivity.
  - rewrite (Seqb_eq _ _ H). reflexivity.
Qed.
Lemma change_eqb_eq : forall a b, change_eqb a b = true -> a = b.
Proof.
  intros [n o c a] [n' o' c' a'] H. unfold change_eqb in H. cbn in H.
  repeat (apply andb_true_iff in H; destruct H as [H ?]).
  rewrite (Seqb_eq _ _ H), (Zeqb_eq _ _ H2), (Zeqb_eq _ _ H1), (Bool.eqb_prop _ _ H0). reflexivity.
Qed.
Lemma hres_eqb_eq : forall a b, hres_eqb a b = true -> a = b.
Proof.
  intros [x| |c t] [y| |c' t'] H; cbn in H; try discriminate; auto.
  - rewrite (rres_eqb_eq _ _ H). reflexivity.
  - apply andb_true_iff in H. destruct H as [H1 H2].
    rewrite (list_eqb_eq call_eqb call_eqb_eq _ _ H1), (transcript_eqb_eq _ _ H2). reflexivity.
Qed.
Lemma xres_eqb_eq : forall a b, xres_eqb a b = true -> a = b.
Proof.
  intros [x| |v e a1 b1|c t a1 b1|] [y| |v' e' a2 b2|c' t' a2 b2|] H; cbn in H; try discriminate; auto.
  - rewrite (rres_eqb_eq _ _ H). reflexivity.
  - repeat (apply andb_true_iff in H; destruct H as [H ?]).
    rewrite (Zeqb_eq _ _ H), (option_eqb_eq status_eqb status_eqb_eq _ _ H2), (Zeqb_eq _ _ H1), (Zeqb_eq _ _ H0). reflexivity.
  - repeat (apply andb_true_iff in H; destruct H as [H ?]).
    rewrite (list_eqb_eq call_eqb call_eqb_eq _ _ H), (transcript_eqb_eq _ _ H2), (Zeqb_eq _ _ H1), (Zeqb_eq _ _ H0). reflexivity.
Qed.

(* router histories: whenever the code's observation agrees with the model (Route.v) it satisfies
   the plain-map predicate *)
Theorem judge_agrees_ok_hist : forall g first ops obs log,
  agrees (KHist g first ops obs log) = true -> C12_ok (KHist g first ops obs log) = true.
Proof.
  intros g first ops obs log. cbn [agrees C12_ok].
  destruct (hist_ok_sound g ops (init first) (mkP pempty [] first) (R_init first)) as [p' [Hh [_ [Hl _]]]].
  destruct (hrun g (init first) ops) as [s rs]. cbn [fst snd] in *. intros H.
  apply andb_true_iff in H. destruct H as [H1 H2].
  rewrite (list_eqb_eq hres_eqb hres_eqb_eq _ _ H1), Hh, <- Hl. exact H2.
Qed.

(* ---- generated routers with per-call outcomes (RouteW.v) ---- *)
Lemma pstepW_get_shape : forall o p n fbo fao, exists p' g k1 k2,
  pstepW o p (WGet n fbo fao) = (p', WR (RGet g) k1 k2).
Proof.
  intros o p n fbo fao. cbn [pstepW]. destruct (pm p n); [eauto|].
  destruct (if w_fb o then yields fbo else None); [eauto|].
  destruct (if w_fac o then yields fao else None); eauto.
Qed.

Lemma routed_ok_notfound : forall m n b, routed_ok (NotFound m) n [] (not_found_tr m) b = true.
Proof.
  intros m n b. unfold routed_ok, not_found_tr, not_found_code, is_prefix_tr, status_eqb. cbn.
  rewrite String.eqb_refl. reflexivity.
Qed.

(* the plain-map run satisfies the history predicate *)
Lemma xhist_ok_spec : forall o ops p, xhist_ok o p ops (snd (prunX o p ops)) = Some (fst (prunX o p ops)).
Proof.
  intros o ops. induction ops as [|op ops IH]; intros p; cbn [prunX].
  - reflexivity.
  - destruct (pstepX o p op) as [p1 y] eqn:E. specialize (IH p1). destruct (prunX o p1 ops) as [p2 ys].
    cbn [fst snd] in *.
    destruct op as [n c|n|n|n fbo fao|n fbo fao|n fbo fao u|n fbo fao c k]; cbn [pstepX] in E.
    + destruct (c =? nil_client) eqn:Ec.
      * inversion E; subst. cbn [xhist_ok]. rewrite Ec. exact IH.
      * destruct (pstepW o p (WAdd n c)) as [p' [r a b]] eqn:EW. inversion E; subst.
        cbn [xhist_ok]. rewrite Ec, EW, rres_sim_refl. exact IH.
    + destruct (pstepW o p (WRemove n)) as [p' [r a b]] eqn:EW. inversion E; subst.
      cbn [xhist_ok]. rewrite EW, rres_sim_refl. exact IH.
    + destruct (pstepW o p (WHas n)) as [p' [r a b]] eqn:EW. inversion E; subst.
      cbn [xhist_ok]. rewrite EW, rres_sim_refl. exact IH.
    + destruct (pstepW_get_shape o p n fbo fao) as (p' & g & k1 & k2 & EW). unfold pget in E. rewrite EW in E.
      destruct g as [cl|m]; inversion E; subst; cbn [xhist_ok]; rewrite EW, !Z.eqb_refl; cbn [got_ok andb];
        [rewrite Z.eqb_refl|unfold not_found_code; cbn]; exact IH.
    + destruct (pstepW_get_shape o p n fbo fao) as (p' & g & k1 & k2 & EW). unfold pget in E. rewrite EW in E.
      destruct g as [cl|m]; inversion E; subst; cbn [xhist_ok]; rewrite EW, !Z.eqb_refl; cbn [got_ok andb];
        [rewrite Z.eqb_refl|unfold not_found_code; cbn]; exact IH.
    + destruct (pstepW_get_shape o p n fbo fao) as (p' & g & k1 & k2 & EW). unfold pget in E. rewrite EW in E.
      destruct g as [cl|m]; inversion E; subst; cbn [xhist_ok]; rewrite EW, !Z.eqb_refl; cbn [andb].
      * cbn [routed_ok]. rewrite Z.eqb_refl, unary_ok_sound. exact IH.
      * rewrite routed_ok_notfound. exact IH.
    + destruct (pstepW_get_shape o p n fbo fao) as (p' & g & k1 & k2 & EW). unfold pget in E. rewrite EW in E.
      destruct g as [cl|m]; inversion E; subst; cbn [xhist_ok]; rewrite EW, !Z.eqb_refl; cbn [andb].
      * cbn [routed_ok]. rewrite Z.eqb_refl, stream_ok_sound. exact IH.
      * rewrite routed_ok_notfound. exact IH.
Qed.

(* the judge's predicate holds of the model (RouteW.v) on every history, any option subset, any
   per-call outcomes *)
Theorem judge_sound_routew : forall o fe ae ops,
  C12_ok (KRouteW o fe ae ops (snd (xrun o fe ae (init 1) ops)) (wlog o (fst (xrun o fe ae (init 1) ops)))) = true.
Proof.
  intros o fe ae ops. cbn [C12_ok]. unfold routew_ok.
  destruct (routeW_is_map o fe ae ops _ _ RW_init NN_init) as [Hr [[_ Hl] _]].
  rewrite Hr, xhist_ok_spec. unfold wlog. rewrite Hl. apply list_eqb_refl. apply change_eqb_refl.
Qed.

Theorem judge_agrees_ok_routew : forall o fe ae ops obs log,
  agrees (KRouteW o fe ae ops obs log) = true -> C12_ok (KRouteW o fe ae ops obs log) = true.
Proof.
  intros o fe ae ops obs log. cbn [agrees]. pose proof (judge_sound_routew o fe ae ops) as HS.
  destruct (xrun o fe ae (init 1) ops) as [s rs]. cbn [fst snd] in HS. intros H.
  apply andb_true_iff in H. destruct H as [H1 H2].
  rewrite (list_eqb_eq xres_eqb xres_eqb_eq _ _ H1).
  cbn [C12_ok] in *. unfold routew_ok in *. destruct (xhist_ok o (mkP pempty [] 1) ops rs) as [p|]; [|discriminate].
  rewrite <- (list_eqb_eq change_eqb change_eqb_eq _ _ HS). exact H2.
Qed.

(* ---- sequences and stream sessions through the default-name interceptors ---- *)
Definition is_str (f : fdesc) : bool := match fk f with FString => true | _ => false end.

Lemma existsb_none : forall n l, filter named l = [] ->
  existsb (fun f => String.eqb (ftext f) "name" && (fnum f =? n) && match fk f with FString => true | _ => false end) l = false.
Proof.
  intros n l. induction l as [|f l IH]; cbn; auto. unfold named at 1. destruct (String.eqb (ftext f) "name"); cbn; [discriminate|auto].
Qed.

Lemma is_name_first : forall n l, zlen (filter named l) <=? 1 = true ->
  existsb (fun f => String.eqb (ftext f) "name" && (fnum f =? n) && match fk f with FString => true | _ => false end) l
  = match List.find named l with Some f => is_str f && (n =? fnum f) | None => false end.
Proof.
  intros n l. induction l as [|f l IH]; cbn [filter existsb List.find]; auto.
  destruct (named f) eqn:E; intros H.
  - unfold named in E. rewrite E. cbn [andb].
    assert (Hr : filter named l = []).
    { destruct (filter named l) eqn:EF; auto. rewrite !zlen_cons in H. unfold zlen in H. apply Z.leb_le in H. lia. }
    rewrite (existsb_none n l Hr), orb_false_r. unfold is_str. rewrite (Z.eqb_sym (fnum f) n). apply andb_comm.
  - unfold named in E. rewrite E. cbn [andb orb]. apply IH. exact H.
Qed.

Lemma fields_ok_model : forall t applied d v, type_wf t = true ->
  fields_ok t applied d v (if applied then replace_in t v d else v) = true.
Proof.
  intros t applied d v Hwf. unfold type_wf in Hwf.
  assert (Hsame : forall v, fields_ok t false d v v = true).
  { induction v0 as [|[n x] v0 IH]; cbn; auto. rewrite Z.eqb_refl, String.eqb_refl, IH. reflexivity. }
  destruct applied; [|apply Hsame]. unfold replace_in.
  induction v as [|[n x] v IH]; cbn [map]; auto.
  assert (Hhead : is_empty_name t (n, x) =
     existsb (fun f => String.eqb (ftext f) "name" && (fnum f =? n) && match fk f with FString => true | _ => false end) (tfields t)
     && String.eqb x "").
  { rewrite (is_name_first n _ Hwf). unfold is_empty_name, name_field. fold named.
    destruct (List.find named (tfields t)) as [f|]; cbn [fst snd]; auto.
    unfold is_str. destruct (fk f); cbn [andb]; auto. }
  destruct (is_empty_name t (n, x)) eqn:Ee; cbn [fields_ok fst snd]; rewrite IH, Z.eqb_refl, andb_true_r; cbn [andb].
  - symmetry in Hhead. apply andb_true_iff in Hhead. destruct Hhead as [H1 H2]. rewrite H1, H2. apply String.eqb_refl.
  - destruct (existsb _ (tfields t)); cbn [andb] in *; [rewrite <- Hhead|]; apply String.eqb_refl.
Qed.

Lemma seq_ok_model : forall d steps, steps_wf steps = true -> seq_ok d steps (run_seq d steps) = true.
Proof.
  intros d steps. induction steps as [|[[path t] v] steps IH]; cbn [steps_wf forallb run_seq map seq_ok]; auto.
  cbn [fst snd]. intros H. apply andb_true_iff in H. destruct H as [Ht Hs].
  unfold run_seq, steps_wf in IH. rewrite (IH Hs), andb_true_r. unfold run_step.
  pose proof (fields_ok_model t (negb (path =? 2)) d v Ht) as HF.
  destruct (path =? 2); exact HF.
Qed.

Definition as_steps (rs : list recvd) : list dstep :=
  map (fun r => let '(ok, t, v) := r in ((if ok : bool then 1 else 2), t, v)) rs.

Lemma session_is_seq : forall d rs, stream_session d rs = run_seq d (as_steps rs).
Proof.
  intros d rs. unfold stream_session, run_seq, as_steps. rewrite map_map. apply map_ext.
  intros [[ok t] v]. destruct ok; reflexivity.
Qed.

Lemma as_steps_wf : forall rs, recvd_wf rs = true -> steps_wf (as_steps rs) = true.
Proof.
  intros rs. unfold recvd_wf, steps_wf, as_steps. induction rs as [|[[ok t] v] rs IH]; cbn; auto.
  intros H. apply andb_true_iff in H. destruct H as [H1 H2]. rewrite H1, (IH H2). reflexivity.
Qed.

Lemma mvalue_eqb_eq : forall a b, mvalue_eqb a b = true -> a = b.
Proof.
  apply list_eqb_eq. intros [n x] [n' x'] H. cbn in H. apply andb_true_iff in H. destruct H as [H1 H2].
  rewrite (Zeqb_eq _ _ H1), (Seqb_eq _ _ H2). reflexivity.
Qed.

Theorem judge_agrees_ok_seq : forall name steps obs, steps_wf steps = true ->
  agrees (KDefaultSeq name steps obs) = true -> C12_ok (KDefaultSeq name steps obs) = true.
Proof.
  intros name steps obs Hwf H. cbn [agrees C12_ok] in *.
  rewrite (list_eqb_eq mvalue_eqb mvalue_eqb_eq _ _ H). apply seq_ok_model. exact Hwf.
Qed.

Theorem judge_agrees_ok_session : forall name rs obs, recvd_wf rs = true ->
  agrees (KStreamSession name rs obs) = true -> C12_ok (KStreamSession name rs obs) = true.
Proof.
  intros name rs obs Hwf H. cbn [agrees C12_ok] in *.
  rewrite (list_eqb_eq mvalue_eqb mvalue_eqb_eq _ _ H), session_is_seq. apply seq_ok_model. apply as_steps_wf. exact Hwf.
Qed.
