(* Proofs about Router/RouterCb.v (callbacks delivered outside the lock, as steps of their own):
   for EVERY schedule the callback log plus the changes still to be reported is a permutation of
   the transition log; erasing the callback steps gives a run of RouterGet.v's LTS (so its
   theorems carry over); but the ORDER of callbacks is not the order of transitions. *)
From Coq Require Import Permutation.
From SC Require Import Base.Prelude Router.Registry Router.RegistryProofs Router.RouterGet Router.RouterGetProofs Router.RouterCb.

Local Arguments set : simpl never.
Local Arguments remove : simpl never.

Lemma pending_init : forall (ths : list tkind), pending (map (fun _ => CStart) ths) = [].
Proof. induction ths; cbn; auto. Qed.

Lemma pending_upd : forall pcs i p p', nth_error pcs i = Some p ->
  Permutation (pend p ++ pending (upd i p' pcs)) (pend p' ++ pending pcs).
Proof.
  induction pcs as [|q pcs IH]; intros i p p' H.
  - destruct i; discriminate.
  - destruct i as [|i]; cbn in H.
    + inversion H; subst q. cbn [upd pending flat_map].
      rewrite !app_assoc. apply Permutation_app_tail. apply Permutation_app_comm.
    + cbn [upd pending flat_map]. fold (pending (upd i p' pcs)). fold (pending pcs).
      specialize (IH i p p' H).
      rewrite !app_assoc.
      eapply perm_trans. { apply Permutation_app_tail. apply Permutation_app_comm. }
      rewrite <- !app_assoc. eapply perm_trans. { apply Permutation_app_head. exact IH. }
      rewrite !app_assoc. apply Permutation_app_tail. apply Permutation_app_comm.
Qed.

Definition CbInv (G : cgstate) : Prop := Permutation (slog (cst G)) (ccbs G ++ pending (cpcs G)).

(* a step that commits nothing and reports nothing *)
Lemma inv_quiet : forall s s' cbs pcs i p p',
  nth_error pcs i = Some p -> pend p = [] -> pend p' = [] -> slog s' = slog s ->
  Permutation (slog s) (cbs ++ pending pcs) -> Permutation (slog s') (cbs ++ pending (upd i p' pcs)).
Proof.
  intros s s' cbs pcs i p p' Hn Hp Hp' Hl H. rewrite Hl.
  pose proof (pending_upd pcs i p p' Hn) as HP. rewrite Hp, Hp' in HP. cbn in HP.
  eapply perm_trans; [exact H|]. apply Permutation_app_head. symmetry. exact HP.
Qed.

(* a step that commits ch and parks before the callback *)
Lemma inv_commit : forall s s' cbs pcs i p ch r,
  nth_error pcs i = Some p -> pend p = [] -> slog s' = slog s ++ [ch] ->
  Permutation (slog s) (cbs ++ pending pcs) -> Permutation (slog s') (cbs ++ pending (upd i (CCb ch r) pcs)).
Proof.
  intros s s' cbs pcs i p ch r Hn Hp Hl H. rewrite Hl.
  pose proof (pending_upd pcs i p (CCb ch r) Hn) as HP. rewrite Hp in HP. cbn in HP.
  eapply perm_trans. { apply Permutation_app_tail. exact H. }
  rewrite <- app_assoc. apply Permutation_app_head.
  eapply perm_trans. { apply Permutation_app_comm. } cbn. symmetry. exact HP.
Qed.

Ltac quiet Ep H := eapply inv_quiet; [exact Ep|reflexivity|reflexivity|reflexivity|exact H].

Lemma cgstep_inv : forall g ths G i, CbInv G -> CbInv (cgstep g ths G i).
Proof.
  intros g ths [s cbs pcs] i H. unfold CbInv in *. unfold cgstep. cbn [cst ccbs cpcs] in *.
  destruct (nth_error ths i) as [k|] eqn:Ek; [|exact H].
  destruct (nth_error pcs i) as [p|] eqn:Ep; [|exact H].
  destruct p as [| |c|ch r|r].
  - (* CStart *) destruct k as [n|n c|n]; cbn [cstep].
    + unfold get_read. destruct (find n (sreg s)); cbn [cst ccbs cpcs]; quiet Ep H.
    + unfold add. cbn [cst ccbs cpcs].
      eapply inv_commit; [exact Ep|reflexivity|reflexivity|exact H].
    + destruct (find n (sreg s)) as [old|] eqn:Ef; cbn [cst ccbs cpcs].
      * eapply inv_commit; [exact Ep|reflexivity| |exact H]. unfold rem. rewrite Ef. reflexivity.
      * quiet Ep H.
  - (* CMissed *) destruct k as [n|n c|n]; cbn [cstep]; [|cbn [cst ccbs cpcs]; quiet Ep H..].
    unfold get_make. destruct (invoke_fb g n); [cbn [cst ccbs cpcs]; quiet Ep H|].
    destruct (mem_str n (fac_ok g)); cbn [cst ccbs cpcs]; quiet Ep H.
  - (* CMade *) destruct k as [n|n c'|n]; cbn [cstep]; [|cbn [cst ccbs cpcs]; quiet Ep H..].
    destruct (find n (sreg s)) as [c2|] eqn:Ef; cbn [cst ccbs cpcs].
    + quiet Ep H.
    + eapply inv_commit; [exact Ep|reflexivity| |exact H]. unfold get_insert. rewrite Ef. reflexivity.
  - (* CCb: the callback is delivered *) cbn [cstep cst ccbs cpcs].
    pose proof (pending_upd pcs i (CCb ch r) (CDone r) Ep) as HP. cbn in HP.
    eapply perm_trans; [exact H|]. rewrite <- app_assoc. apply Permutation_app_head. cbn.
    symmetry. exact HP.
  - cbn [cstep cst ccbs cpcs]. quiet Ep H.
Qed.

Lemma cgrun_inv : forall g ths sched G, CbInv G -> CbInv (cgrun g ths sched G).
Proof.
  intros g ths sched. induction sched as [|i sched IH]; intros G H; cbn; auto.
  apply IH. apply cgstep_inv. exact H.
Qed.

Lemma cginit_inv : forall s ths, CbInv (cginit s ths).
Proof. intros s ths. unfold CbInv, cginit. cbn. rewrite pending_init, app_nil_r. apply Permutation_refl. Qed.

Lemma pending_done : forall pcs, forallb cdone pcs = true -> pending pcs = [].
Proof.
  induction pcs as [|p pcs IH]; cbn; auto. intros H. apply andb_true_iff in H. destruct H as [Hp H].
  destruct p; try discriminate. cbn. apply IH. exact H.
Qed.

(* Change callbacks report exactly the transitions, as a multiset, under EVERY schedule of any
   threads (Get/Add/Remove on any names) and at every moment: the transition log (commit order) is
   a permutation of the callbacks delivered so far followed by the changes committed but not yet
   reported; once every call has returned, of the callbacks alone. *)
Theorem callbacks_are_transitions : forall g ths s0 sched,
  let G := cgrun g ths sched (cginit s0 ths) in
  Permutation (slog (cst G)) (ccbs G ++ pending (cpcs G)) /\
  (call_done G = true -> Permutation (slog (cst G)) (ccbs G)).
Proof.
  intros g ths s0 sched G.
  assert (H : CbInv G) by (apply cgrun_inv, cginit_inv).
  split; [exact H|]. intros Hd. unfold CbInv in H. unfold call_done in Hd.
  rewrite (pending_done _ Hd), app_nil_r in H. exact H.
Qed.

(* ---- erasing the callback steps gives a run of RouterGet.v ---- *)
Lemma upd_same : forall {A} (l : list A) i x, nth_error l i = Some x -> upd i x l = l.
Proof.
  induction l as [|y l IH]; intros i x H; destruct i; cbn in *; try discriminate; auto.
  - inversion H. reflexivity.
  - rewrite IH; auto.
Qed.

Lemma map_upd : forall {A B} (f : A -> B) l i x, map f (upd i x l) = upd i (f x) (map f l).
Proof.
  induction l as [|y l IH]; intros i x; destruct i; cbn; auto. rewrite IH. reflexivity.
Qed.

Definition erased (G : cgstate) : gstate := mkG (cst G) (map erase_pc (cpcs G)).

Definition is_cb (p : cpc) : bool := match p with CCb _ _ => true | _ => false end.

Lemma cstep_erase : forall g k p s cbs, is_cb p = false ->
  tstep g k (erase_pc p) s = (fst (fst (cstep g k p s cbs)), erase_pc (snd (cstep g k p s cbs))).
Proof.
  intros g k p s cbs Hp. destruct p as [| |c|ch r|r]; try discriminate; cbn [erase_pc tstep cstep].
  - destruct k as [n|n c|n].
    + destruct (get_read n s); reflexivity.
    + unfold add. reflexivity.
    + unfold rem. destruct (find n (sreg s)); reflexivity.
  - destruct k as [n|n c|n]; try reflexivity.
    destruct (get_make g n s) as [s1 [c|[c|]]]; reflexivity.
  - destruct k as [n|n c'|n]; try reflexivity.
    unfold get_insert. destruct (find n (sreg s)); reflexivity.
  - reflexivity.
Qed.

(* one step of the callback LTS is one step of RouterGet's LTS, or (callback delivery) none *)
Lemma cgstep_erase : forall g ths G i,
  erased (cgstep g ths G i) =
  match nth_error (cpcs G) i with
  | Some p => if is_cb p then erased G else gstep g ths (erased G) i
  | None => gstep g ths (erased G) i
  end.
Proof.
  intros g ths [s cbs pcs] i. unfold cgstep, gstep, erased. cbn [cst ccbs cpcs gst gpcs].
  rewrite nth_error_map.
  destruct (nth_error pcs i) as [p|] eqn:Ep; cbn [option_map].
  - destruct (nth_error ths i) as [k|] eqn:Ek.
    + destruct (is_cb p) eqn:Ec.
      * destruct p; try discriminate. cbn [cstep cst cpcs]. rewrite map_upd. cbn [erase_pc].
        rewrite upd_same; auto. rewrite nth_error_map, Ep. reflexivity.
      * rewrite (cstep_erase g k p s cbs Ec).
        destruct (cstep g k p s cbs) as [[s' cbs'] p']. cbn [fst snd cst cpcs].
        rewrite map_upd. reflexivity.
    + destruct (is_cb p); reflexivity.
  - destruct (nth_error ths i); reflexivity.
Qed.

Theorem cb_run_erases : forall g ths sched G, exists sched',
  erased (cgrun g ths sched G) = grun g ths sched' (erased G) /\ (List.length sched' <= List.length sched)%nat.
Proof.
  intros g ths sched. induction sched as [|i sched IH]; intros G.
  - exists []. split; auto.
  - cbn [cgrun fold_left]. fold (cgrun g ths sched (cgstep g ths G i)).
    destruct (IH (cgstep g ths G i)) as [sched' [H Hl]]. rewrite cgstep_erase in H.
    destruct (nth_error (cpcs G) i) as [p|] eqn:Ep.
    + destruct (is_cb p).
      * exists sched'. split; [exact H|cbn; lia].
      * exists (i :: sched'). split; [exact H|cbn; lia].
    + exists (i :: sched'). split; [exact H|cbn; lia].
Qed.

Lemma erased_init : forall s ths, erased (cginit s ths) = ginit s ths.
Proof. intros s ths. unfold erased, cginit, ginit. cbn. rewrite map_map. reflexivity. Qed.

Lemma nth_error_erased : forall pcs i r, nth_error pcs i = Some (CDone r) -> nth_error (map erase_pc pcs) i = Some (PDone r).
Proof. intros pcs i r H. rewrite nth_error_map, H. reflexivity. Qed.

(* callbacks are only ever appended *)
Lemma ccbs_step_extends : forall g ths G0 i, exists u, ccbs (cgstep g ths G0 i) = ccbs G0 ++ u.
Proof.
  intros g ths G0 i. unfold cgstep.
  destruct (nth_error ths i) as [k|]; [|exists []; rewrite app_nil_r; reflexivity].
  destruct (nth_error (cpcs G0) i) as [p|]; [|exists []; rewrite app_nil_r; reflexivity].
  destruct p as [| |c|ch r|r]; cbn [cstep].
  - destruct k as [m|m c|m].
    + destruct (get_read m (cst G0)); exists []; rewrite app_nil_r; reflexivity.
    + unfold add. exists []. rewrite app_nil_r. reflexivity.
    + destruct (find m (sreg (cst G0))); exists []; rewrite app_nil_r; reflexivity.
  - destruct k as [m|m c|m]; try (exists []; rewrite app_nil_r; reflexivity).
    destruct (get_make g m (cst G0)) as [s1 [c|[c|]]]; exists []; rewrite app_nil_r; reflexivity.
  - destruct k as [m|m c'|m]; try (exists []; rewrite app_nil_r; reflexivity).
    destruct (find m (sreg (cst G0))); exists []; rewrite app_nil_r; reflexivity.
  - exists [ch]. reflexivity.
  - exists []. rewrite app_nil_r. reflexivity.
Qed.

Lemma ccbs_extends : forall g ths sched G0, exists t, ccbs (cgrun g ths sched G0) = ccbs G0 ++ t.
Proof.
  intros g ths sched. induction sched as [|i sched IH]; intros G0; cbn.
  - exists []. rewrite app_nil_r. reflexivity.
  - destruct (IH (cgstep g ths G0 i)) as [t Ht]. fold (cgrun g ths sched (cgstep g ths G0 i)). rewrite Ht.
    destruct (ccbs_step_extends g ths G0 i) as [u Hu]. rewrite Hu. exists (u ++ t). rewrite app_assoc. reflexivity.
Qed.

(* Concurrent first Gets of one name, callbacks outside the lock, EVERY schedule: at most one
   client is committed, every returned client is that one, and the callbacks delivered so far are
   exactly the earlier ones plus -- once the committing thread's callback has run -- the single
   Auto change: with Gets alone the order of callbacks IS the order of transitions. *)
Theorem cb_single_factory_commit : forall g n ths s0 sched,
  (forall k, In k ths -> k = TGet n) -> find n (sreg s0) = None -> invoke_fb g n = None ->
  mem_str n (fac_ok g) = true ->
  let G := cgrun g ths sched (cginit s0 ths) in
  let commit := find n (sreg (cst G)) in
  slog (cst G) = slog s0 ++ auto_entry n commit /\
  (forall k, String.eqb k n = false -> find k (sreg (cst G)) = find k (sreg s0)) /\
  (forall i r, nth_error (cpcs G) i = Some (CDone r) -> exists c, commit = Some c /\ r = RGet (Got c)) /\
  (call_done G = true -> ccbs G = slog (cst G)).
Proof.
  intros g n ths s0 sched H1 H2 H3 H4 G commit.
  destruct (cb_run_erases g ths sched (cginit s0 ths)) as [sched' [He _]].
  rewrite erased_init in He.
  pose proof (single_factory_commit g n ths s0 H1 H2 H3 H4 sched') as HS. cbn zeta in HS.
  rewrite <- He in HS. unfold erased in HS. cbn [gst gpcs] in HS. fold G in HS.
  destruct HS as [Hlog [Hoth Hres]].
  split; [exact Hlog|]. split; [exact Hoth|]. split.
  - intros i r Hi. apply (Hres i r). apply nth_error_erased. exact Hi.
  - intros Hd. destruct (callbacks_are_transitions g ths s0 sched) as [_ HP]. fold G in HP.
    specialize (HP Hd). fold commit in Hlog. rewrite Hlog in HP |- *.
    (* ccbs G extends slog s0 (callbacks are only appended): use the permutation with a tail of length <= 1 *)
    destruct (ccbs_extends g ths sched (cginit s0 ths)) as [t Ht]. fold G in Ht.
 unfold cginit in Ht. cbn [ccbs] in Ht.
    rewrite Ht in HP |- *. apply Permutation_app_inv_l in HP. f_equal.
    unfold auto_entry in *. destruct commit as [c|].
    + apply Permutation_length_1_inv in HP. exact HP.
    + apply Permutation_nil in HP. exact HP.
Qed.

(* ---- the ORDER of callbacks of concurrent committers is not guaranteed to be the order of their
   transitions (a fact about the model, not a violation of the property as written) ---- *)
(* two overlapping Adds of one name: A commits, B commits, B's callback, A's callback.  Every call
   has returned, each callback is correct on its own, yet a consumer that mirrors the router from
   its callbacks ends with client 1 under "n" while the registry holds client 2. *)
Theorem cb_order_not_guaranteed_add_add :
  exists g ths sched,
    let G := cgrun g ths sched (cginit (init 1000) ths) in
    call_done G = true /\ ccbs G <> slog (cst G) /\
    replay (ccbs G) "n"%string = Some 1 /\ find "n"%string (sreg (cst G)) = Some 2.
Proof.
  exists (mkCfg [] []), [TAdd "n" 1; TAdd "n" 2]%string, [0; 1; 1; 0]%nat.
  vm_compute. repeat split; try reflexivity. discriminate.
Qed.

(* ... also with a Remove overtaking the Add it undoes: the mirror keeps a client the registry dropped *)
Theorem cb_order_not_guaranteed_add_remove :
  exists g ths sched,
    let G := cgrun g ths sched (cginit (init 1000) ths) in
    call_done G = true /\ replay (ccbs G) "n"%string = Some 1 /\ find "n"%string (sreg (cst G)) = None.
Proof.
  exists (mkCfg [] []), [TAdd "n" 1; TRemove "n"]%string, [0; 1; 1; 0]%nat.
  vm_compute. repeat split; reflexivity.
Qed.

(* ... and a first Get overtaken by the Remove of the client it created *)
Theorem cb_order_not_guaranteed_get_remove :
  exists g ths sched,
    let G := cgrun g ths sched (cginit (init 1000) ths) in
    call_done G = true /\ replay (ccbs G) "n"%string = Some 1000 /\ find "n"%string (sreg (cst G)) = None.
Proof.
  exists (mkCfg [] ["n"%string]), [TGet "n"; TRemove "n"]%string, [0; 0; 0; 1; 1; 0]%nat.
  vm_compute. repeat split; reflexivity.
Qed.

(* soundness of the computable multiset comparison used by the judge *)
Lemma change_eqb_eq : forall a b, change_eqb a b = true -> a = b.
Proof.
  intros [n1 o1 w1 a1] [n2 o2 w2 a2]. unfold change_eqb. cbn.
  intros H. apply andb_true_iff in H. destruct H as [H Ha]. apply andb_true_iff in H. destruct H as [H Hw].
  apply andb_true_iff in H. destruct H as [Hn Ho].
  apply String.eqb_eq in Hn. apply Z.eqb_eq in Ho. apply Z.eqb_eq in Hw. apply Bool.eqb_prop in Ha. subst. reflexivity.
Qed.

Lemma remove1_perm : forall c l l', remove1 c l = Some l' -> Permutation l (c :: l').
Proof.
  intros c l. induction l as [|d l IH]; intros l' H; cbn in H; [discriminate|].
  destruct (change_eqb c d) eqn:E.
  - apply change_eqb_eq in E. subst d. inversion H. apply Permutation_refl.
  - destruct (remove1 c l) as [r|] eqn:Er; [|discriminate]. inversion H; subst l'.
    eapply perm_trans. { apply perm_skip. apply IH. reflexivity. } apply perm_swap.
Qed.

Lemma perm_eqb_sound : forall a b, perm_eqb a b = true -> Permutation a b.
Proof.
  induction a as [|c a IH]; intros b H; cbn in H.
  - destruct b; [apply perm_nil|discriminate].
  - destruct (remove1 c b) as [b'|] eqn:E; [|discriminate].
    eapply perm_trans. { apply perm_skip. apply IH. exact H. } symmetry. apply remove1_perm. exact E.
Qed.
