(* Proofs about Router/RouterGet.v: concurrent first Gets of one name commit a single client. *)
From SC Require Import Base.Prelude Router.Registry Router.RegistryProofs Router.RouterGet.

Local Arguments set : simpl never.

Lemma nth_error_upd : forall {A} (l : list A) i j x,
  nth_error (upd i x l) j = if Nat.eqb i j then (match nth_error l j with Some _ => Some x | None => None end) else nth_error l j.
Proof.
  induction l as [|y l IH]; intros i j x.
  - destruct i, j; cbn; auto; destruct (Nat.eqb i j); auto.
  - destruct i, j; cbn; auto; try apply IH.
Qed.

Lemma upd_length : forall {A} (l : list A) i x, List.length (upd i x l) = List.length l.
Proof. induction l as [|y l IH]; intros [|i] x; cbn; auto. Qed.

Section OneName.
  Variable g : cfg.
  Variable n : string.
  Variable ths : list tkind.
  Variable s0 : state.
  Hypothesis all_get : forall k, In k ths -> k = TGet n.
  Hypothesis absent : find n (sreg s0) = None.
  Hypothesis no_fallback : invoke_fb g n = None.

  Definition auto_entry (commit : option client) : list change :=
    match commit with Some c => [mkChange n nil_client c true] | None => [] end.

  (* holds after every prefix of every schedule *)
  Definition Inv (G : gstate) : Prop :=
    let commit := find n (sreg (gst G)) in
    slog (gst G) = slog s0 ++ auto_entry commit /\
    (forall k, String.eqb k n = false -> find k (sreg (gst G)) = find k (sreg s0)) /\
    (forall i p, nth_error (gpcs G) i = Some p ->
       match p with PDone r => exists c, commit = Some c /\ r = RGet (Got c) | _ => True end).

  Hypothesis factory_ok : mem_str n (fac_ok g) = true.

  Lemma Inv_init : Inv (ginit s0 ths).
  Proof.
    unfold Inv, ginit. cbn. rewrite absent. cbn. rewrite app_nil_r. repeat split; auto.
    intros i p H. apply nth_error_In in H. apply in_map_iff in H. destruct H as [_ [<- _]]. exact I.
  Qed.

  Lemma Inv_step : forall G i, Inv G -> Inv (gstep g ths G i).
  Proof.
    intros [s pcs] i HI. unfold gstep. cbn [gst gpcs].
    destruct (nth_error ths i) as [k|] eqn:Ek; auto.
    destruct (nth_error pcs i) as [p|] eqn:Ep; auto.
    assert (Hk : k = TGet n) by (apply all_get; eapply nth_error_In; eauto). subst k.
    destruct HI as [Hlog [Hoth Hpc]]. cbn [gst gpcs] in *.
    (* what a thread other than i holds is untouched; thread i gets p' *)
    assert (Hupd : forall s' p', 
      (slog s' = slog s0 ++ auto_entry (find n (sreg s'))) ->
      (forall k, String.eqb k n = false -> find k (sreg s') = find k (sreg s0)) ->
      (forall c, find n (sreg s) = Some c -> find n (sreg s') = Some c) ->
      (match p' with PDone r => exists c, find n (sreg s') = Some c /\ r = RGet (Got c) | _ => True end) ->
      Inv (mkG s' (upd i p' pcs))).
    { intros s' p' H1 H2 H3 H4. unfold Inv. cbn [gst gpcs]. repeat split; auto.
      intros j q Hq. rewrite nth_error_upd in Hq. destruct (Nat.eqb_spec i j) as [->|Hne].
      - rewrite Ep in Hq. inversion Hq. subst q. exact H4.
      - specialize (Hpc j q Hq). destruct q; auto. destruct Hpc as [c [Hc Hr]]. exists c. split; auto. }
    destruct p as [| |c|r]; cbn [tstep].
    - (* read *) unfold get_read. destruct (find n (sreg s)) as [c|] eqn:E.
      + apply Hupd; [rewrite E; exact Hlog|exact Hoth|intros c0 H0; rewrite E; exact H0|exists c; auto].
      + apply Hupd; [rewrite E; exact Hlog|exact Hoth|intros c0 H0; discriminate|exact I].
    - (* fallback + factory *) unfold get_make. rewrite no_fallback, factory_ok.
      apply Hupd; cbn [sreg slog]; [exact Hlog|exact Hoth|auto|exact I].
    - (* insert *) unfold get_insert. destruct (find n (sreg s)) as [c2|] eqn:E.
      + apply Hupd; [rewrite E; exact Hlog|exact Hoth|intros c0 H0; rewrite E; exact H0|exists c2; auto].
      + apply Hupd; cbn [sreg slog].
        * rewrite find_set, String.eqb_refl. cbn. rewrite Hlog. cbn. rewrite app_nil_r. reflexivity.
        * intros k Hk. rewrite find_set, Hk. apply Hoth. exact Hk.
        * intros c0 H. discriminate.
        * exists c. rewrite find_set, String.eqb_refl. auto.
    - (* finished: stutter *)
      replace (upd i (PDone r) pcs) with pcs; [repeat split; auto|].
      clear - Ep. revert i Ep. induction pcs as [|q pcs IH]; intros [|i] Ep; cbn in *; try discriminate.
      + inversion Ep. reflexivity.
      + f_equal. apply IH. exact Ep.
  Qed.

  Lemma Inv_run : forall sched G, Inv G -> Inv (grun g ths sched G).
  Proof.
    induction sched as [|i sched IH]; intros G HI; cbn; auto. apply IH. apply Inv_step. exact HI.
  Qed.

  (* For EVERY schedule (any length, any order, finished or not): the registry holds at most one
     client for n, the log gained exactly one Auto change for it if it holds one and none
     otherwise, no other name changed, and every thread that has returned returned that client. *)
  Theorem single_factory_commit : forall sched,
    let G := grun g ths sched (ginit s0 ths) in
    let commit := find n (sreg (gst G)) in
    slog (gst G) = slog s0 ++ auto_entry commit /\
    (forall k, String.eqb k n = false -> find k (sreg (gst G)) = find k (sreg s0)) /\
    (forall i r, nth_error (gpcs G) i = Some (PDone r) -> exists c, commit = Some c /\ r = RGet (Got c)).
  Proof.
    intros sched G commit. destruct (Inv_run sched _ Inv_init) as [H1 [H2 H3]].
    repeat split; auto. intros i r H. exact (H3 i _ H).
  Qed.

  (* ---- every thread finishes once it has been scheduled three times ---- *)
  Definition rank (p : pc) : nat := match p with PStart => 0%nat | PMissed => 1%nat | PMade _ => 2%nat | PDone _ => 3%nat end.

  Lemma tstep_rank : forall p s, (rank (snd (tstep g (TGet n) p s)) >= Nat.min 3 (S (rank p)))%nat.
  Proof.
    intros p s. destruct p; cbn.
    - unfold get_read. destruct (find n (sreg s)); cbn; lia.
    - unfold get_make. rewrite no_fallback, factory_ok. cbn. lia.
    - destruct (get_insert n c s). cbn. lia.
    - lia.
  Qed.

  Lemma gstep_pcs : forall G i j, List.length (gpcs G) = List.length ths ->
    List.length (gpcs (gstep g ths G i)) = List.length ths /\
    forall p, nth_error (gpcs G) j = Some p ->
      exists p', nth_error (gpcs (gstep g ths G i)) j = Some p' /\
                 (rank p' >= (if Nat.eqb i j then Nat.min 3 (S (rank p)) else rank p))%nat.
  Proof.
    intros [s pcs] i j Hlen. unfold gstep. cbn [gst gpcs] in *.
    destruct (nth_error ths i) as [k|] eqn:Ek.
    2:{ split; auto. intros p Hp. exists p. split; auto.
        destruct (Nat.eqb_spec i j); [|lia]. subst. apply nth_error_None in Ek.
        assert (nth_error pcs j <> None) by congruence. apply nth_error_Some in H. lia. }
    destruct (nth_error pcs i) as [p0|] eqn:Ep.
    2:{ apply nth_error_None in Ep. assert (nth_error ths i <> None) by congruence. apply nth_error_Some in H. lia. }
    assert (Hk : k = TGet n) by (apply all_get; eapply nth_error_In; eauto). subst k.
    pose proof (tstep_rank p0 s) as Hr. destruct (tstep g (TGet n) p0 s) as [s' p'] eqn:Et. cbn [gst gpcs snd] in *.
    split. { rewrite upd_length. exact Hlen. }
    intros p Hp. rewrite nth_error_upd. destruct (Nat.eqb_spec i j) as [->|Hne].
    - rewrite Hp. exists p'. split; auto. rewrite Ep in Hp. inversion Hp. subst. exact Hr.
    - exists p. split; auto.
  Qed.

  Lemma run_rank : forall sched G j p, List.length (gpcs G) = List.length ths ->
    nth_error (gpcs G) j = Some p ->
    exists p', nth_error (gpcs (grun g ths sched G)) j = Some p' /\
               (rank p' >= Nat.min 3 (rank p + count_occ Nat.eq_dec sched j))%nat.
  Proof.
    induction sched as [|i sched IH]; intros G j p Hlen Hp; cbn [grun fold_left count_occ].
    - exists p. split; auto. lia.
    - destruct (gstep_pcs G i j Hlen) as [Hlen' Hstep]. destruct (Hstep p Hp) as [p1 [Hp1 Hr1]].
      destruct (IH (gstep g ths G i) j p1 Hlen' Hp1) as [p2 [Hp2 Hr2]]. exists p2. split; auto.
      destruct (Nat.eq_dec i j) as [->|Hne].
      + rewrite Nat.eqb_refl in Hr1. lia.
      + destruct (Nat.eqb_spec i j); [contradiction|]. lia.
  Qed.

  Lemma run_length : forall sched G, List.length (gpcs G) = List.length ths ->
    List.length (gpcs (grun g ths sched G)) = List.length ths.
  Proof.
    induction sched as [|i sched IH]; intros G H; cbn; auto. apply IH.
    destruct (gstep_pcs G i 0%nat H) as [H' _]. exact H'.
  Qed.

  (* ... and then all of them hold the same client and exactly one Auto change was logged *)
  Theorem all_return_same_client : forall sched,
    ths <> [] ->
    (forall j, (j < List.length ths)%nat -> (count_occ Nat.eq_dec sched j >= 3)%nat) ->
    let G := grun g ths sched (ginit s0 ths) in
    exists c, find n (sreg (gst G)) = Some c /\
              slog (gst G) = slog s0 ++ [mkChange n nil_client c true] /\
              gpcs G = map (fun _ => PDone (RGet (Got c))) ths.
  Proof.
    intros sched Hne Hfair G.
    destruct (single_factory_commit sched) as [Hlog [_ Hdone]]. fold G in Hlog, Hdone.
    assert (Hall : forall j, (j < List.length ths)%nat -> exists r, nth_error (gpcs G) j = Some (PDone r)).
    { intros j Hj. assert (Hp : nth_error (gpcs (ginit s0 ths)) j = Some PStart).
      { unfold ginit. cbn. rewrite nth_error_map. destruct (nth_error ths j) eqn:E; auto.
        apply nth_error_None in E. lia. }
      destruct (run_rank sched (ginit s0 ths) j PStart) as [p' [Hp' Hr]]; auto.
      { unfold ginit. cbn. apply map_length. }
      specialize (Hfair j Hj).
      assert (Hr3 : (rank p' >= 3)%nat) by (cbn [rank] in Hr; lia).
      destruct p' as [| |cm|rr]; cbn [rank] in Hr3; try lia. exists rr. exact Hp'. }
    assert (Hpos : (0 < List.length ths)%nat) by (destruct ths; [contradiction|cbn; lia]).
    destruct (Hall 0%nat Hpos) as [r0 Hr0].
    destruct (Hdone _ _ Hr0) as [c [Hc _]]. exists c. split; auto. split. { rewrite Hlog, Hc. reflexivity. }
    assert (Hlen : List.length (gpcs G) = List.length ths).
    { apply run_length. unfold ginit. cbn. apply map_length. }
    apply nth_ext with (d := PStart) (d' := PStart).
    { rewrite map_length. exact Hlen. }
    intros j Hj. rewrite Hlen in Hj. destruct (Hall j Hj) as [r Hr]. destruct (Hdone _ _ Hr) as [c' [Hc' Hrr]].
    rewrite Hc in Hc'. inversion Hc'. subst c' r.
    rewrite (nth_error_nth _ _ _ Hr).
    assert (Hm : nth_error (map (fun _ : tkind => PDone (RGet (Got c))) ths) j = Some (PDone (RGet (Got c)))).
    { rewrite nth_error_map. destruct (nth_error ths j) eqn:E; auto. apply nth_error_None in E. lia. }
    rewrite (nth_error_nth _ _ _ Hm). reflexivity.
  Qed.
End OneName.

(* without a factory (and fallback) for the name nobody gets a client and nothing at all changes *)
Section NoFactory.
  Variable g : cfg.
  Variable n : string.
  Variable ths : list tkind.
  Variable s0 : state.
  Hypothesis all_get : forall k, In k ths -> k = TGet n.
  Hypothesis absent : find n (sreg s0) = None.
  Hypothesis no_fallback : invoke_fb g n = None.
  Hypothesis no_factory : mem_str n (fac_ok g) = false.

  Definition InvN (G : gstate) : Prop :=
    gst G = s0 /\ forall i p, nth_error (gpcs G) i = Some p -> match p with PDone r => r = RGet (NotFound n) | PMade _ => False | _ => True end.

  Lemma InvN_run : forall sched G0, InvN G0 -> InvN (grun g ths sched G0).
  Proof.
    induction sched as [|i sched IH]; intros G0 HG0; cbn; auto. apply IH.
    destruct G0 as [s pcs]. destruct HG0 as [Hs Hpc]. cbn in Hs. subst s. unfold gstep. cbn [gst gpcs] in *.
    destruct (nth_error ths i) as [k|] eqn:Ek; [|split; auto].
    destruct (nth_error pcs i) as [p|] eqn:Ep; [|split; auto].
    assert (Hk : k = TGet n) by (apply all_get; eapply nth_error_In; eauto). subst k.
    assert (Hstep : exists p', tstep g (TGet n) p s0 = (s0, p') /\
              match p' with PDone r => r = RGet (NotFound n) | PMade _ => False | _ => True end).
    { specialize (Hpc i p Ep). destruct p as [| |cm|rr]; cbn.
      - unfold get_read. rewrite absent. exists PMissed. split; [reflexivity|exact I].
      - unfold get_make. rewrite no_fallback, no_factory. exists (PDone (RGet (NotFound n))). split; reflexivity.
      - contradiction.
      - exists (PDone rr). split; [reflexivity|exact Hpc]. }
    destruct Hstep as [p' [-> Hp']]. split; auto. cbn [gpcs].
    intros j q Hq. rewrite nth_error_upd in Hq. destruct (Nat.eqb_spec i j) as [->|Hne].
    - rewrite Ep in Hq. inversion Hq. subst. exact Hp'.
    - apply (Hpc j q Hq).
  Qed.

  Theorem concurrent_notfound_touches_nothing : forall sched,
    let G := grun g ths sched (ginit s0 ths) in
    gst G = s0 /\ forall i r, nth_error (gpcs G) i = Some (PDone r) -> r = RGet (NotFound n).
  Proof.
    intros sched G.
    assert (H0 : InvN (ginit s0 ths)).
    { split; auto. intros i p H. unfold ginit in H. cbn in H. apply nth_error_In in H. apply in_map_iff in H.
      destruct H as [_ [<- _]]. exact I. }
    destruct (InvN_run sched _ H0) as [Hs Hpc]. split; auto. intros i r Hr. exact (Hpc i _ Hr).
  Qed.
End NoFactory.

(* non-vacuity: three threads, one schedule where all three miss before anyone inserts *)
Example three_gets_race :
  let g := mkCfg [] ["n"%string] in
  let G := grun g [TGet "n"; TGet "n"; TGet "n"]%string [0;1;2;0;1;2;2;1;0]%nat (ginit (init 1000) [TGet "n"; TGet "n"; TGet "n"]%string) in
  gpcs G = [PDone (RGet (Got 1002)); PDone (RGet (Got 1002)); PDone (RGet (Got 1002))] /\
  slog (gst G) = [mkChange "n" 0 1002 true] /\ snext (gst G) = 1003.
Proof. vm_compute. repeat split. Qed.
