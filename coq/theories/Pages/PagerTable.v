(* Obligations over the tables generated from the source on every run (Gen/Pagers.v): every paged
   List RPC has a row, every row has the shape the model interprets, and the configuration read
   from it satisfies what the theorems need ([cfg_ok]: default 50, cap 1000, encodePageToken and
   decodePageToken use the same base64 alphabet, validatePageSize is called, the paged listing is
   not read through the read mask) - in fact it IS the hand model [std_cfg].  A change to pages.go
   or to a handler that touches any of this makes this file fail to compile. *)
From SC Require Import Base.Prelude Pages.Codec Pages.PagerCfg Gen.Pagers Pages.Pager Pages.Listing.

Definition all_servers : list server := [SElectric; SHail; SParent; SPublication; SConsumables; SInventory].

Lemma all_servers_complete s : In s all_servers.
Proof. destruct s; simpl; tauto. Qed.

(* pages.go, per package: the four functions are the modelled text and the two alphabets agree *)
Definition pages_go_ok (p : pages_go) : bool :=
  pg_shape p && (pg_default p =? 50) && (pg_max p =? 1000)
  && b64alpha_eqb (pg_enc p) (pg_dec p) && negb (b64alpha_eqb (pg_enc p) B64Other).

Theorem pages_go_table_ok : forallb pages_go_ok pages_go_table = true.
Proof. vm_compute. reflexivity. Qed.

(* codec round trip obligation, per package: whatever encodePageToken emits, decodePageToken of the
   same package reads back (checked as: same alphabet; Pages/CodecProofs.v proves the round trip) *)
Theorem codec_symmetric_per_package :
  forall p, In p pages_go_table -> pg_enc p = pg_dec p /\ pg_enc p <> B64Other.
Proof.
  intros p Hp. pose proof pages_go_table_ok as H. rewrite forallb_forall in H. specialize (H p Hp).
  unfold pages_go_ok in H. repeat (apply andb_true_iff in H; destruct H as [H ?]).
  split.
  - destruct (pg_enc p), (pg_dec p); simpl in *; congruence.
  - intros Heq. rewrite Heq in *. simpl in *. discriminate.
Qed.

(* handlers: recognised search shape, whole body = modelled text, strict upper bound, total over
   the whole listing, page size validated, listing not masked before paging *)
Definition handler_ok (h : handler_row) : bool :=
  h_shape h && match h_variant h with Some _ => true | None => false end
  && h_validates h && negb (h_mask_before h) && h_resort h && h_ub_strict h && h_total_full h.

Theorem handler_table_ok : forallb handler_ok handler_table = true.
Proof. vm_compute. reflexivity. Qed.

Theorem handler_table_covers : map h_server handler_table = all_servers.
Proof. vm_compute. reflexivity. Qed.

Theorem waste_source_ok : w_handler_shape waste_source && w_model_shape waste_source = true.
Proof. vm_compute. reflexivity. Qed.

(* the configuration of every RPC, as read from the tree, is the hand model *)
Theorem cfg_of_is_model : forall s, cfg_eqb (cfg_of s) (std_cfg (variant_of s)) = true.
Proof. destruct s; vm_compute; reflexivity. Qed.

Theorem all_cfg_ok : forall s, cfg_ok (cfg_of s) = true.
Proof. destruct s; vm_compute; reflexivity. Qed.

Theorem cfg_of_variant : forall s, pc_variant (cfg_of s) = variant_of s.
Proof. destruct s; vm_compute; reflexivity. Qed.

(* every handler re-sorts the model-level listing by the field its search and its token use *)
Theorem all_resort : forall s, resorts_of s = true.
Proof. destruct s; vm_compute; reflexivity. Qed.
