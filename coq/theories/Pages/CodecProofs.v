(* Round trip of the page-token codec: decode (encode k) = k for every key (any length, any bytes
   that are valid UTF-8), for each base64 alphabet, provided both directions use the same one. *)
From SC Require Import Base.Prelude Pages.Codec.
From Coq Require Import Ascii.

Local Open Scope Z_scope.
Local Arguments Z.add : simpl never.
Local Arguments Z.mul : simpl never.
Local Arguments Z.div : simpl never.
Local Arguments Z.modulo : simpl never.
Local Arguments Z.ltb : simpl never.
Local Arguments Z.eqb : simpl never.
Local Arguments Z.of_nat : simpl never.

Ltac zdm := Z.to_euclidean_division_equations; lia.

(* ---- the alphabet: 64 distinct characters, none of them '=' ---- *)

Definition sextets : list Z := map Z.of_nat (seq 0 64).

Lemma sextets_all n : 0 <= n < 64 -> In n sextets.
Proof.
  intros H. unfold sextets. apply in_map_iff. exists (Z.to_nat n). split; [lia|]. apply in_seq. lia.
Qed.

Definition ch_ok (a : b64alpha) (n : Z) : bool :=
  match b64_val a (b64_char a n) with Some m => m =? n | None => false end
  && negb (Ascii.eqb (b64_char a n) pad).

Lemma ch_ok_all a : forallb (ch_ok a) sextets = true.
Proof. destruct a; vm_compute; reflexivity. Qed.

Lemma val_char a n : 0 <= n < 64 -> b64_val a (b64_char a n) = Some n.
Proof.
  intros H. pose proof (ch_ok_all a) as Hall. rewrite forallb_forall in Hall.
  specialize (Hall n (sextets_all n H)). unfold ch_ok in Hall.
  apply andb_true_iff in Hall. destruct Hall as [Hv _].
  destruct (b64_val a (b64_char a n)) as [m|]; [|discriminate].
  apply Z.eqb_eq in Hv. subst. reflexivity.
Qed.

Lemma char_not_pad a n : 0 <= n < 64 -> Ascii.eqb (b64_char a n) pad = false.
Proof.
  intros H. pose proof (ch_ok_all a) as Hall. rewrite forallb_forall in Hall.
  specialize (Hall n (sextets_all n H)). unfold ch_ok in Hall.
  apply andb_true_iff in Hall. destruct Hall as [_ Hp]. apply negb_true_iff in Hp. exact Hp.
Qed.

Definition is_byte (b : Z) : Prop := 0 <= b < 256.

(* ---- base64 ---- *)

Lemma b64_roundtrip_len a : forall n bs, (List.length bs <= n)%nat -> Forall is_byte bs ->
  b64_dec a (b64_enc a bs) = Some bs.
Proof.
  induction n as [|n IH]; intros bs Hn Hb.
  - destruct bs; [reflexivity|simpl in Hn; lia].
  - destruct bs as [|b0 [|b1 [|b2 r]]].
    + reflexivity.
    + inversion Hb as [|? ? H0 _]; subst. unfold is_byte in H0.
      cbn [b64_enc b64_dec].
      assert (R0 : 0 <= b0 / 4 < 64) by zdm.
      assert (R1 : 0 <= b0 mod 4 * 16 < 64) by zdm.
      rewrite (val_char a _ R0), (val_char a _ R1).
      rewrite Ascii.eqb_refl. cbn [andb is_nil].
      f_equal. f_equal. zdm.
    + inversion Hb as [|? ? H0 Hb']; subst. inversion Hb' as [|? ? H1 _]; subst. unfold is_byte in *.
      cbn [b64_enc b64_dec].
      assert (R0 : 0 <= b0 / 4 < 64) by zdm.
      assert (R1 : 0 <= b0 mod 4 * 16 + b1 / 16 < 64) by zdm.
      assert (R2 : 0 <= b1 mod 16 * 4 < 64) by zdm.
      rewrite (val_char a _ R0), (val_char a _ R1), (char_not_pad a _ R2), (val_char a _ R2).
      rewrite Ascii.eqb_refl. cbn [is_nil].
      f_equal. f_equal; [zdm|]. f_equal. zdm.
    + inversion Hb as [|? ? H0 Hb']; subst. inversion Hb' as [|? ? H1 Hb'']; subst.
      inversion Hb'' as [|? ? H2 Hr]; subst. unfold is_byte in *.
      cbn [b64_enc b64_dec].
      assert (R0 : 0 <= b0 / 4 < 64) by zdm.
      assert (R1 : 0 <= b0 mod 4 * 16 + b1 / 16 < 64) by zdm.
      assert (R2 : 0 <= b1 mod 16 * 4 + b2 / 64 < 64) by zdm.
      assert (R3 : 0 <= b2 mod 64 < 64) by zdm.
      rewrite (val_char a _ R0), (val_char a _ R1), (char_not_pad a _ R2), (val_char a _ R2),
        (char_not_pad a _ R3), (val_char a _ R3).
      rewrite (IH r) by (simpl in Hn; auto; lia).
      f_equal. f_equal; [zdm|]. f_equal; [zdm|]. f_equal. zdm.
Qed.

Lemma b64_roundtrip a bs : Forall is_byte bs -> b64_dec a (b64_enc a bs) = Some bs.
Proof. apply (b64_roundtrip_len a (List.length bs)). lia. Qed.

(* ---- varint ---- *)

Lemma varint_roundtrip : forall fuel n r, 0 <= n <= Z.of_nat fuel ->
  varint_dec (varint_enc fuel n ++ r) = Some (n, r).
Proof.
  induction fuel as [|f IH]; intros n r Hn; cbn [varint_enc].
  - assert (n = 0) by lia. subst. reflexivity.
  - destruct (Z.ltb_spec n 128) as [Hlt|Hge].
    + cbn [app varint_dec]. destruct (Z.ltb_spec n 128); [reflexivity|lia].
    + cbn [app varint_dec].
      destruct (Z.ltb_spec (n mod 128 + 128) 128) as [Hc|_]; [zdm|].
      rewrite IH by zdm. f_equal. f_equal. zdm.
Qed.

Lemma varint_bytes : forall fuel n, 0 <= n -> Forall is_byte (varint_enc fuel n).
Proof.
  induction fuel as [|f IH]; intros n Hn; cbn [varint_enc].
  - constructor; [unfold is_byte; zdm|constructor].
  - destruct (Z.ltb_spec n 128).
    + constructor; [unfold is_byte; lia|constructor].
    + constructor; [unfold is_byte; zdm|]. apply IH. zdm.
Qed.

(* ---- strings as bytes ---- *)

Lemma byte_of_range c : is_byte (byte_of c).
Proof.
  unfold is_byte, byte_of. pose proof (N_ascii_bounded c). lia.
Qed.

Lemma char_byte c : char_of (byte_of c) = c.
Proof. unfold char_of, byte_of. rewrite N2Z.id. apply ascii_N_embedding. Qed.

Lemma bytes_of_bytes k : Forall is_byte (bytes_of k).
Proof.
  unfold bytes_of. apply Forall_forall. intros b Hb. apply in_map_iff in Hb.
  destruct Hb as [c [<- _]]. apply byte_of_range.
Qed.

Lemma string_bytes k : string_of_bytes (bytes_of k) = k.
Proof.
  unfold string_of_bytes, bytes_of. rewrite map_map.
  rewrite (map_ext _ (fun c => c)) by (intros; apply char_byte).
  rewrite map_id. apply string_of_list_ascii_of_string.
Qed.

Lemma bytes_len k : zlen (bytes_of k) = Z.of_nat (String.length k).
Proof.
  unfold zlen, bytes_of. rewrite map_length. f_equal.
  induction k as [|c k IH]; simpl; auto.
Qed.

(* ---- the token ---- *)

Lemma parse_token_bytes k : key_utf8 k = true -> parse_token (token_bytes k) = DKey k.
Proof.
  intros Hu. unfold parse_token, token_bytes.
  rewrite varint_roundtrip by lia.
  rewrite bytes_len, Z.eqb_refl. unfold key_utf8 in Hu. rewrite Hu. cbn [andb].
  rewrite string_bytes. reflexivity.
Qed.

Lemma token_bytes_bytes k : Forall is_byte (token_bytes k).
Proof.
  unfold token_bytes. constructor; [unfold is_byte; lia|].
  apply Forall_app. split; [apply varint_bytes; lia|apply bytes_of_bytes].
Qed.

(* decodePageToken . encodePageToken = id when both use the same alphabet *)
Theorem token_roundtrip a k : key_utf8 k = true -> decode_token a (encode_token a k) = DKey k.
Proof.
  intros Hu. unfold decode_token, encode_token.
  rewrite list_ascii_of_string_of_list_ascii.
  rewrite b64_roundtrip by apply token_bytes_bytes.
  apply parse_token_bytes. exact Hu.
Qed.

(* ... and not otherwise: URL-safe encoding read back with the standard alphabet (seeded change
   C15-r3-3): '~' marshals to 0x12 0x01 0x7e, whose last sextets are 62 (0x3e) ... *)
Example token_mixed_alphabets_fail :
  encode_token B64Url "~"%string = "EgF-"%string /\ decode_token B64Std "EgF-"%string = DBad
  /\ encode_token B64Std "~"%string = "EgF+"%string /\ decode_token B64Url "EgF+"%string = DBad.
Proof. vm_compute. repeat split. Qed.

Example token_examples :
  encode_token B64Std ""%string = "EgA="%string
  /\ encode_token B64Std "A"%string = "EgFB"%string
  /\ encode_token B64Std "__-"%string = "EgNfXy0="%string
  /\ decode_token B64Std "EgNfXy0="%string = DKey "__-"%string
  /\ decode_token B64Std "abc"%string = DBad
  /\ decode_token B64Std "CAU="%string = DOther.
Proof. vm_compute. repeat split. Qed.

(* ---- minted tokens (known field + the unknown fields of the client's token) ---- *)

Lemma is_byte_b_spec l : forallb is_byte_b l = true -> Forall is_byte l.
Proof.
  intros H. apply Forall_forall. intros b Hb. rewrite forallb_forall in H. specialize (H b Hb).
  unfold is_byte_b in H. apply andb_true_iff in H. destruct H as [H1 H2].
  apply Z.leb_le in H1. apply Z.ltb_lt in H2. unfold is_byte. lia.
Qed.

Lemma bytes_len_nat k : List.length (bytes_of k) = String.length k.
Proof. pose proof (bytes_len k) as H. unfold zlen in H. lia. Qed.

Theorem minted_roundtrip a k extra : key_utf8 k = true -> Forall is_byte extra ->
  decode_minted a (encode_token_x a k extra) = Some (k, extra).
Proof.
  intros Hu He. unfold decode_minted, encode_token_x.
  rewrite list_ascii_of_string_of_list_ascii.
  rewrite b64_roundtrip.
  2:{ unfold token_bytes_x. apply Forall_app. split; [apply token_bytes_bytes|exact He]. }
  unfold token_bytes_x, token_bytes, parse_minted. cbn [app].
  rewrite <- app_assoc. rewrite varint_roundtrip by lia.
  rewrite Nat2Z.id.
  assert (Hf : firstn (String.length k) (bytes_of k ++ extra) = bytes_of k).
  { rewrite <- (bytes_len_nat k). rewrite firstn_app, Nat.sub_diag, firstn_all. simpl. apply app_nil_r. }
  assert (Hsk : skipn (String.length k) (bytes_of k ++ extra) = extra).
  { rewrite <- (bytes_len_nat k). rewrite skipn_app, Nat.sub_diag, skipn_all. reflexivity. }
  rewrite Hf, Hsk. unfold key_utf8 in Hu. rewrite Hu.
  assert (Hle : Z.of_nat (String.length k) <=? zlen (bytes_of k ++ extra) = true).
  { apply Z.leb_le. unfold zlen. rewrite app_length, bytes_len_nat. lia. }
  rewrite Hle. destruct (Z.leb_spec 0 (Z.of_nat (String.length k))); [|lia]. cbn [andb].
  rewrite string_bytes. reflexivity.
Qed.

Lemma encode_token_x_nil a k : encode_token_x a k [] = encode_token a k.
Proof. unfold encode_token_x, encode_token, token_bytes_x. rewrite app_nil_r. reflexivity. Qed.

(* a client token naming "a" and carrying unknown field 3 = 1: the server's next token keeps it *)
Example minted_example :
  encode_token_x B64Std "~b"%string [24; 1] = "EgJ+YhgB"%string
  /\ decode_minted B64Std "EgJ+YhgB"%string = Some ("~b"%string, [24; 1]).
Proof. vm_compute. split; reflexivity. Qed.
