(* Correspondence cases for C15.  A case is one client-side page chain: the id fields of the items in
   the order of the MODEL-LEVEL listing (Model.Modes(), ListHails(), ...: ascending by the key each item
   is stored under, which is the id itself unless the model was built with an id interceptor - then
   [keys] is NOT ascending; the handler's re-sort is part of the model, Pages/Listing.v), whether the request's read
   mask leaves the key field out, the page size of EACH request of the chain (they may differ), the
   first token (raw text + what the library makes of it: the key it names and the bytes of the
   unknown fields it carries, which the server hands on in its own tokens), and everything the real handler answered
   while the client followed next_page_token (the harness makes at most [length sizes] = n + 3 calls).
   The next_page_token of every answer is recorded as the raw string the server returned.

   [agrees]  : the observation is exactly what the model of the handler computes (incl. the raw
               tokens, byte for byte), and the model's own token decoder does not contradict the
               library's classification of the first token.
   [C15_ok]  : the property itself, evaluated on the observation without the model's pager: walking
               down the expected remainder of the listing page by page; page sizes and total_size
               respected, chain ended by an empty token within n + 2 calls, bad inputs answered by
               one error status; a recovered panic is never acceptable. *)
From SC Require Import Base.Prelude Pages.Codec Pages.PagerCfg Pages.Pager Pages.Listing.

Inductive c15case :=
| KKeys (s : server) (keys : list string) (dropkey : bool) (sizes : list Z) (raw0 : string) (tok : token)
        (extra : list Z) (obs : list (outcome string))
| KWaste (ids : list string) (sizes : list Z) (tok : wtoken) (obs : list (outcome Z))
(* one collection: the (id, key) pairs added (key = what the model's id interceptor maps the id to;
   the id itself when there is none), in the order they were added, and the id fields of the
   model-level listing (Model.Modes(), ListHails(), ... = resource.Collection.List) *)
| KListing (kv : list (string * string)) (listed : list string).

(* page sizes of a chain written as a repeating pattern: request i uses pattern[i mod |pattern|] *)
Definition cyc (p : list Z) (fuel : nat) : list Z :=
  map (fun i => nth (Nat.modulo i (List.length p)) p 0) (seq 0 fuel).

(* strings given by their bytes (ids that are not printable ASCII) *)
Definition bstr (bs : list Z) : string := string_of_bytes bs.

(* ---- equality of observations ---- *)
Definition outcome_eqb {T} (teqb : T -> T -> bool) (a b : outcome T) : bool :=
  match a, b with
  | OPage k1 n1 t1, OPage k2 n2 t2 => list_eqb String.eqb k1 k2 && option_eqb teqb n1 n2 && (t1 =? t2)
  | OErr c1, OErr c2 => c1 =? c2
  | OPanic, OPanic => true
  | _, _ => false
  end.

Definition token_eqb (a b : token) : bool :=
  match a, b with
  | TokEmpty, TokEmpty | TokMalformed, TokMalformed => true
  | TokKey x, TokKey y => String.eqb x y
  | _, _ => false
  end.

(* the model's decoder against the library on the first token: when the model recognises a plain
   last_resource_name token the library must have found the same key *)
Definition first_token_consistent (c : pager_cfg) (raw0 : string) (tok : token) : bool :=
  if String.eqb raw0 EmptyString then token_eqb tok TokEmpty
  else match decode_token (pc_dec c) raw0 with
       | DKey k => token_eqb tok (TokKey k)
       | _ => negb (token_eqb tok TokEmpty)
       end.

Definition agrees (c : c15case) : bool :=
  match c with
  | KKeys s keys dropkey sizes raw0 tok extra obs =>
      list_eqb (outcome_eqb String.eqb) obs (list_chain (resorts_of s) (cfg_of s) keys dropkey sizes (WFirst tok extra))
      && first_token_consistent (cfg_of s) raw0 tok
  | KWaste ids sizes tok obs =>
      list_eqb (outcome_eqb Z.eqb) obs (waste_chain ids sizes tok)
  | KListing kv listed =>
      list_eqb String.eqb listed (coll_listing (assoc_key kv) (map fst kv))
  end.

(* ---- the property, as a predicate on observations ---- *)

(* page size the caller is entitled to: default 50, capped at 1000 (size >= 0) *)
Definition spec_cap (size : Z) : Z := if size =? 0 then 50 else Z.min size 1000.

(* all answers are pages; every page but the last hands out a token, the last one does not *)
Fixpoint chain_shape_ok {T} (obs : list (outcome T)) : bool :=
  match obs with
  | [OPage _ None _] => true
  | OPage _ (Some _) _ :: rest => chain_shape_ok rest
  | _ => false
  end.

Definition page_keys {T} (o : outcome T) : list string := match o with OPage k _ _ => k | _ => [] end.
Definition concat_keys {T} (obs : list (outcome T)) : list string := flat_map page_keys obs.
Definition page_fits {T} (cap n : Z) (o : outcome T) : bool :=
  match o with OPage k _ t => (zlen k <=? cap) && (t =? n) | _ => false end.

Fixpoint is_prefix (a b : list string) : bool :=
  match a, b with
  | [], _ => true
  | x :: a', y :: b' => String.eqb x y && is_prefix a' b'
  | _, _ => false
  end.

(* walk down [rest] (what is still to be listed) along the answers; request i asked for sizes[i]:
   a negative size must be answered by an error status and nothing else; otherwise the answer is a
   page holding the next items of [rest], at most spec_cap sizes[i] of them, total_size n; a page
   without token must exhaust [rest] and be the last answer; a page with a token must be followed by
   another answer (the harness stops after n + 3 calls: an endless chain fails here) *)
Fixpoint enumerates {T} (rest : list string) (n : Z) (sizes : list Z) (obs : list (outcome T)) : bool :=
  match sizes, obs with
  | s :: ss, o :: os =>
      if s <? 0 then match o with OErr c => negb (c =? 0) && is_nil os | _ => false end
      else match o with
           | OPage k nx t =>
               (zlen k <=? spec_cap s) && (t =? n) && is_prefix k rest
               && match nx with
                  | None => is_nil os && (zlen k =? zlen rest)
                  | Some _ => negb (is_nil os) && enumerates (skipn (List.length k) rest) n ss os
                  end
           | _ => false
           end
  | _, _ => false
  end.

(* one answer, an error status *)
Definition rejected {T} (obs : list (outcome T)) : bool :=
  match obs with [OErr c] => negb (c =? 0) | _ => false end.

(* what remains to be listed after a (well-formed) token: the items after the named key, whether
   or not that key still exists *)
Definition expected_after (keys : list string) (tok : token) : list string :=
  match tok with
  | TokKey k => if String.eqb k EmptyString then keys else filter (fun x => String.ltb k x) keys
  | _ => keys
  end.

(* waste: token z = "z records remain, the newest of them is record z-1"; newest first *)
Definition waste_token_bad (n : Z) (tok : wtoken) : bool :=
  match tok with WMalformed => true | WNum z => (z <? 0) || (n <? z) | WEmpty => false end.
Definition waste_expected (ids : list string) (tok : wtoken) : list string :=
  match tok with
  | WNum z => rev (firstn (Z.to_nat z) ids)
  | _ => rev ids
  end.

Fixpoint strictly_sorted (l : list string) : bool :=
  match l with
  | a :: (b :: _) as r => String.ltb a b && strictly_sorted r
  | _ => true
  end.

(* The order of the listing.  A page token names an id and stands for "the items after it", which
   only means something in the order of the ids: the paged listing is the ids in ascending (Go
   string) order.  A chain that starts without a token may as well follow the order of the
   model-level listing (the order of the collection's keys) as long as every item comes once. *)
Definition C15_ok (c : c15case) : bool :=
  match c with
  | KKeys s keys dropkey sizes raw0 tok extra obs =>
      match tok with
      | TokMalformed => rejected obs
      | TokEmpty =>
          (enumerates (sort_keys keys) (zlen keys) sizes obs || enumerates keys (zlen keys) sizes obs)
          && (zlen obs <=? zlen keys + 2)
      | _ => enumerates (expected_after (sort_keys keys) tok) (zlen keys) sizes obs && (zlen obs <=? zlen keys + 2)
      end
  | KWaste ids sizes tok obs =>
      if waste_token_bad (zlen ids) tok then rejected obs
      else enumerates (waste_expected ids tok) (zlen ids) sizes obs && (zlen obs <=? zlen ids + 2)
  | KListing kv listed =>
      (* every added id once, in strictly ascending order of the keys *)
      (zlen listed =? zlen kv) && forallb (fun x => existsb (String.eqb x) listed) (map fst kv)
      && strictly_sorted (map (assoc_key kv) listed)
  end.

(* hypotheses of the theorems: the ids are pairwise different (in whatever order the collection
   lists them; [keys_wf] is what the theorems about the pager proper assume of the re-sorted listing), no id is
   the empty string, ids are valid UTF-8 (they are proto string fields), the collection size fits
   total_size (int32), and the client is prepared to make more calls than there are items *)
Definition keys_wf (keys : list string) : bool :=
  strictly_sorted keys && negb (existsb (String.eqb EmptyString) keys) && forallb key_utf8 keys.

(* [ids_wf] with the quadratic pairwise comparison replaced by "the sorted ids are strictly
   ascending" (the same thing: ListingProofs.ids_wf_fast_spec; linear on a listing that is
   ascending already) *)
Definition ids_wf_fast (ids : list string) : bool :=
  strictly_sorted (sort_keys ids) && negb (existsb (String.eqb EmptyString) ids) && forallb key_utf8 ids.

Definition C15_guard (c : c15case) : bool :=
  match c with
  | KKeys _ keys _ sizes _ _ extra _ => ids_wf_fast keys && in32 (zlen keys) && (zlen keys <? zlen sizes) && forallb is_byte_b extra
  | KWaste ids sizes _ _ => in32 (zlen ids) && (zlen ids <? zlen sizes)
  | KListing kv _ => nodupb (map (assoc_key kv) (map fst kv))     (* the keys of a map *)
  end.

Definition judge (c : c15case) : Z :=
  verdict (agrees c) (if C15_guard c then C15_ok c else true) None.

(* which branch of the model a case exercises (for the coverage histogram in the evidence) *)
Definition first_answer_class {T} (obs : list (outcome T)) : Z :=
  match obs with
  | [] => 0
  | OErr _ :: _ => 1
  | OPanic :: _ => 2
  | OPage [] None _ :: _ => 3        (* empty last page *)
  | OPage _ None _ :: _ => 4         (* everything fits *)
  | OPage _ (Some _) _ :: _ => 5     (* full page + token *)
  end.
