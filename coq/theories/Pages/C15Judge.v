(* Correspondence cases for C15.  A case is one client-side page chain: the listing the server pages
   over (taken from the model-level listing, not from the paged RPC), the requested page size, the
   first token, and everything the real handler answered while the client followed next_page_token
   (cut off by the harness after n + 3 calls).

   [agrees]  : the observation is exactly what the model of the handler computes.
   [C15_ok]  : the property itself, evaluated on the observation without the model's pager:
               concatenation of the pages = the expected remainder of the listing, page sizes and
               total_size respected, chain ended by an empty token within n + 2 calls, bad inputs
               answered by one error status; a recovered panic is never acceptable. *)
From SC Require Import Base.Prelude Pages.Pager.

Inductive c15case :=
| KKeys (s : server) (keys : list string) (size : Z) (tok : token) (obs : list (outcome string))
| KWaste (ids : list string) (size : Z) (tok : wtoken) (obs : list (outcome Z)).

(* ---- equality of observations ---- *)
Definition outcome_eqb {T} (teqb : T -> T -> bool) (a b : outcome T) : bool :=
  match a, b with
  | OPage k1 n1 t1, OPage k2 n2 t2 => list_eqb String.eqb k1 k2 && option_eqb teqb n1 n2 && (t1 =? t2)
  | OErr c1, OErr c2 => c1 =? c2
  | OPanic, OPanic => true
  | _, _ => false
  end.

Definition harness_fuel {A} (l : list A) : nat := (List.length l + 3)%nat.

Definition agrees (c : c15case) : bool :=
  match c with
  | KKeys s keys size tok obs =>
      list_eqb (outcome_eqb String.eqb) obs (key_chain (variant_of s) keys size (harness_fuel keys) tok)
  | KWaste ids size tok obs =>
      list_eqb (outcome_eqb Z.eqb) obs (waste_chain ids size (harness_fuel ids) tok)
  end.

(* the handlers as they were before the fix commits (used once, against the unfixed tree, to confirm
   that the recorded defects are the model's [_v0] behaviour; see notes/C15.md) *)
Definition agrees_v0 (c : c15case) : bool :=
  match c with
  | KKeys s keys size tok obs =>
      list_eqb (outcome_eqb String.eqb) obs (key_chain_v0 (variant_of s) keys size (harness_fuel keys) tok)
  | KWaste ids size tok obs =>
      list_eqb (outcome_eqb Z.eqb) obs (waste_chain_v0 ids size (harness_fuel ids) tok)
  end.

(* ---- the property, as a predicate on observations ---- *)

(* page size the caller is entitled to: default 50, capped at 1000 (size >= 0) *)
Definition spec_cap (size : Z) : Z := if size =? 0 then 50 else Z.min size 1000.

(* all answers are pages; every page but the last hands out a token, the last one does not *)
Fixpoint chain_shape_ok {T} (obs : list (outcome T)) : bool :=
  match obs with
  | [OPage _ None _] => true
  | OPage _ (Some _) _ :: rest => chain_shape_ok rest
  | _ => false
  end.

Definition page_keys {T} (o : outcome T) : list string := match o with OPage k _ _ => k | _ => [] end.
Definition concat_keys {T} (obs : list (outcome T)) : list string := flat_map page_keys obs.
Definition page_fits {T} (cap n : Z) (o : outcome T) : bool :=
  match o with OPage k _ t => (zlen k <=? cap) && (t =? n) | _ => false end.

Definition enumerates {T} (expected : list string) (n size : Z) (obs : list (outcome T)) : bool :=
  chain_shape_ok obs
  && list_eqb String.eqb (concat_keys obs) expected
  && forallb (page_fits (spec_cap size) n) obs
  && (zlen obs <=? n + 2).

(* one answer, an error status *)
Definition rejected {T} (obs : list (outcome T)) : bool :=
  match obs with [OErr c] => negb (c =? 0) | _ => false end.

(* what remains to be listed after a (well-formed) token: the items after the named key, whether
   or not that key still exists *)
Definition expected_after (keys : list string) (tok : token) : list string :=
  match tok with
  | TokKey k => if String.eqb k EmptyString then keys else filter (fun x => String.ltb k x) keys
  | _ => keys
  end.

(* waste: token z = "z records remain, the newest of them is record z-1"; newest first *)
Definition waste_token_bad (n : Z) (tok : wtoken) : bool :=
  match tok with WMalformed => true | WNum z => (z <? 0) || (n <? z) | WEmpty => false end.
Definition waste_expected (ids : list string) (tok : wtoken) : list string :=
  match tok with
  | WNum z => rev (firstn (Z.to_nat z) ids)
  | _ => rev ids
  end.

Definition C15_ok (c : c15case) : bool :=
  match c with
  | KKeys s keys size tok obs =>
      match tok with
      | TokMalformed => rejected obs
      | _ => if size <? 0 then rejected obs
             else enumerates (expected_after keys tok) (zlen keys) size obs
      end
  | KWaste ids size tok obs =>
      if waste_token_bad (zlen ids) tok || (size <? 0) then rejected obs
      else enumerates (waste_expected ids tok) (zlen ids) size obs
  end.

(* hypotheses of the theorems: the listing is strictly ascending (sorted, duplicate free) and no
   key is the empty string; waste needs nothing *)
Fixpoint strictly_sorted (l : list string) : bool :=
  match l with
  | a :: (b :: _) as r => String.ltb a b && strictly_sorted r
  | _ => true
  end.
Definition keys_wf (keys : list string) : bool :=
  strictly_sorted keys && negb (existsb (String.eqb EmptyString) keys).

Definition C15_guard (c : c15case) : bool :=
  match c with
  | KKeys _ keys _ _ _ => keys_wf keys
  | KWaste _ _ _ _ => true
  end.

Definition judge (c : c15case) : Z :=
  verdict (agrees c) (if C15_guard c then C15_ok c else true) None.
Definition judge_v0 (c : c15case) : Z :=
  verdict (agrees_v0 c) (if C15_guard c then C15_ok c else true) None.
