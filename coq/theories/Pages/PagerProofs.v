(* Proofs about the pager model (C15).  Everything is by induction over the listing / the number
   of calls; nothing is bounded. *)
From SC Require Import Base.Prelude Pages.Codec Pages.CodecProofs Pages.PagerCfg Pages.Pager Pages.C15Judge.
From Coq Require Import OrderedTypeEx Sorted.

Local Open Scope Z_scope.
Local Arguments Z.add : simpl never.
Local Arguments Z.sub : simpl never.
Local Arguments Z.div : simpl never.
Local Arguments Z.ltb : simpl never.
Local Arguments Z.leb : simpl never.
Local Arguments Z.eqb : simpl never.
Local Arguments Z.of_nat : simpl never.
Local Arguments Z.to_nat : simpl never.

(* ------------------------------------------------------------------ *)
(* String order (Go's bytewise string comparison)                      *)
(* ------------------------------------------------------------------ *)

Definition slt (a b : string) : Prop := String.ltb a b = true.

Lemma ltb_lt a b : String.ltb a b = true <-> String.compare a b = Lt.
Proof. unfold String.ltb. destruct (String.compare a b); split; congruence. Qed.

Lemma compare_refl a : String.compare a a = Eq.
Proof. apply (String_as_OT.cmp_eq a a). reflexivity. Qed.

Lemma ltb_irrefl a : String.ltb a a = false.
Proof. unfold String.ltb. rewrite compare_refl. reflexivity. Qed.

Lemma ltb_asym a b : String.ltb a b = true -> String.ltb b a = false.
Proof.
  unfold String.ltb. rewrite (String.compare_antisym b a).
  destruct (String.compare a b); simpl; congruence.
Qed.

Lemma ltb_trans a b c : String.ltb a b = true -> String.ltb b c = true -> String.ltb a c = true.
Proof.
  rewrite !ltb_lt. intros H1 H2.
  apply (String_as_OT.cmp_lt a b) in H1. apply (String_as_OT.cmp_lt b c) in H2.
  apply (String_as_OT.cmp_lt a c). eapply String_as_OT.lt_trans; eauto.
Qed.

Lemma ltb_total a b : String.ltb a b = false -> a <> b -> String.ltb b a = true.
Proof.
  unfold String.ltb. rewrite (String.compare_antisym b a). intros H Hne.
  destruct (String.compare a b) eqn:Hc; simpl; try congruence.
  apply String.compare_eq_iff in Hc. contradiction.
Qed.

(* ------------------------------------------------------------------ *)
(* small list / arithmetic facts                                        *)
(* ------------------------------------------------------------------ *)

Lemma zlen_app {A} (a b : list A) : zlen (a ++ b) = zlen a + zlen b.
Proof. unfold zlen. rewrite app_length. lia. Qed.

Lemma zlen_nonneg {A} (l : list A) : 0 <= zlen l.
Proof. unfold zlen. lia. Qed.

Lemma zlen_cons {A} (x : A) l : zlen (x :: l) = 1 + zlen l.
Proof. unfold zlen. simpl List.length. lia. Qed.

Lemma to_nat_zlen {A} (l : list A) : Z.to_nat (zlen l) = List.length l.
Proof. unfold zlen. apply Nat2Z.id. Qed.

Lemma firstn_succ_nth {A} (d : A) : forall m (l : list A), (m < List.length l)%nat ->
  firstn (S m) l = firstn m l ++ [nth m l d].
Proof.
  induction m as [|m IH]; intros l Hm; destruct l as [|x l]; simpl in Hm; try lia.
  - reflexivity.
  - change (x :: firstn (S m) l = x :: (firstn m l ++ [nth m l d])). rewrite IH by lia. reflexivity.
Qed.

Lemma filter_all {A} (f : A -> bool) l : (forall x, In x l -> f x = true) -> filter f l = l.
Proof.
  induction l as [|a l IH]; intros H; simpl; auto.
  rewrite (H a) by (left; reflexivity). f_equal. apply IH. intros x Hx. apply H. right. exact Hx.
Qed.

Lemma filter_len_le {A} (f : A -> bool) l : (List.length (filter f l) <= List.length l)%nat.
Proof. induction l as [|a l IH]; simpl; auto. destruct (f a); simpl; lia. Qed.

Lemma list_eqb_refl {A} (eqb : A -> A -> bool) (Hr : forall x, eqb x x = true) (l : list A) :
  list_eqb eqb l l = true.
Proof. induction l; simpl; auto. rewrite Hr, IHl. reflexivity. Qed.

Lemma list_eqb_eq {A} (eqb : A -> A -> bool) (Hs : forall x y, eqb x y = true -> x = y) :
  forall a b : list A, list_eqb eqb a b = true -> a = b.
Proof.
  induction a as [|x a IH]; intros [|y b] H; simpl in H; try discriminate; auto.
  apply andb_true_iff in H. destruct H as [H1 H2]. f_equal; auto.
Qed.

Lemma cap_bounds size : 0 <= size -> 1 <= cap_page_size size <= 1000.
Proof.
  intros H. unfold cap_page_size, default_page_size, max_page_size.
  destruct (Z.eqb_spec size 0); [lia|]. destruct (Z.ltb_spec 1000 size); lia.
Qed.

Lemma cap_is_spec size : 0 <= size -> spec_cap size = cap_page_size size.
Proof.
  intros H. unfold spec_cap, cap_page_size, default_page_size, max_page_size.
  destruct (Z.eqb_spec size 0); [reflexivity|]. destruct (Z.ltb_spec 1000 size); lia.
Qed.

Lemma cap_le_request size : 0 < size -> cap_page_size size <= size.
Proof.
  intros H. unfold cap_page_size, default_page_size, max_page_size.
  destruct (Z.eqb_spec size 0); [lia|]. destruct (Z.ltb_spec 1000 size); lia.
Qed.

(* ------------------------------------------------------------------ *)
(* sort.Search                                                          *)
(* ------------------------------------------------------------------ *)

(* On a predicate that is false below p and true from p on, the binary search returns p. *)
Lemma go_search_spec pred p : forall fuel i j,
  0 <= i -> i <= p -> p <= j ->
  (forall x, i <= x < p -> pred x = false) ->
  (forall x, p <= x < j -> pred x = true) ->
  j - i <= Z.of_nat fuel ->
  go_search fuel pred i j = p.
Proof.
  induction fuel as [|f IH]; intros i j Hi Hip Hpj Hlo Hhi Hf; cbn [go_search].
  - lia.
  - destruct (Z.ltb_spec i j) as [Hij|Hij]; [|lia].
    assert (Hh : i <= (i + j) / 2 < j).
    { split; [apply Z.div_le_lower_bound; lia | apply Z.div_lt_upper_bound; lia]. }
    destruct (pred ((i + j) / 2)) eqn:Hp.
    + assert (p <= (i + j) / 2).
      { destruct (Z.le_gt_cases p ((i + j) / 2)) as [|Hgt]; auto.
        rewrite Hlo in Hp by lia. discriminate. }
      apply IH; try lia; intros; [apply Hlo|apply Hhi]; lia.
    + assert ((i + j) / 2 < p).
      { destruct (Z.lt_ge_cases ((i + j) / 2) p) as [|Hge]; auto.
        rewrite Hhi in Hp by lia. discriminate. }
      apply IH; try lia; intros; [apply Hlo|apply Hhi]; lia.
Qed.

Lemma sort_search_spec n pred p :
  0 <= p <= n ->
  (forall x, 0 <= x < p -> pred x = false) ->
  (forall x, p <= x < n -> pred x = true) ->
  sort_search n pred = p.
Proof.
  intros Hp Hlo Hhi. unfold sort_search. apply go_search_spec; try lia; auto.
Qed.

(* ------------------------------------------------------------------ *)
(* indexing into pre ++ rest                                            *)
(* ------------------------------------------------------------------ *)

Lemma nth_key_pre pre rest i : 0 <= i < zlen pre ->
  nth_key (pre ++ rest) i = nth (Z.to_nat i) pre EmptyString /\ (Z.to_nat i < List.length pre)%nat.
Proof.
  intros Hi. unfold nth_key. unfold zlen in Hi.
  assert (Hn : (Z.to_nat i < List.length pre)%nat) by lia.
  split; auto. apply app_nth1. exact Hn.
Qed.

Lemma nth_key_rest pre rest i : zlen pre <= i < zlen pre + zlen rest ->
  nth_key (pre ++ rest) i = nth (Z.to_nat (i - zlen pre)) rest EmptyString
  /\ (Z.to_nat (i - zlen pre) < List.length rest)%nat.
Proof.
  intros Hi. unfold nth_key. unfold zlen in *.
  assert (Hn : (Z.to_nat (i - Z.of_nat (List.length pre)) < List.length rest)%nat) by lia.
  split; auto.
  replace (Z.to_nat i) with (List.length pre + Z.to_nat (i - Z.of_nat (List.length pre)))%nat by lia.
  apply app_nth2_plus.
Qed.

Lemma Forall_nth_at {A} (P : A -> Prop) l d m : Forall P l -> (m < List.length l)%nat -> P (nth m l d).
Proof. intros H Hm. apply (proj1 (Forall_nth P l) H). exact Hm. Qed.

(* ------------------------------------------------------------------ *)
(* next_index: both shapes return the length of the "already listed" prefix *)
(* ------------------------------------------------------------------ *)

Definition le_key (k x : string) : Prop := String.ltb k x = false.   (* x <= k *)
Definition gt_key (k x : string) : Prop := String.ltb k x = true.    (* k < x *)

Lemma key_eqb_nonempty k : k <> EmptyString -> key_eqb k EmptyString = false.
Proof. intros H. unfold key_eqb. apply String.eqb_neq. exact H. Qed.

Lemma next_index_greater keys pre rest k :
  keys = pre ++ rest -> k <> EmptyString ->
  Forall (le_key k) pre -> Forall (gt_key k) rest ->
  next_index VGreater keys k = zlen pre.
Proof.
  intros -> Hk Hpre Hrest. unfold next_index. rewrite key_eqb_nonempty by exact Hk.
  pose proof (zlen_nonneg pre). pose proof (zlen_nonneg rest).
  apply sort_search_spec; rewrite ?zlen_app; try lia.
  - intros x Hx. destruct (nth_key_pre pre rest x Hx) as [-> Hn].
    unfold key_ltb. apply (Forall_nth_at _ _ _ _ Hpre Hn).
  - intros x Hx. destruct (nth_key_rest pre rest x Hx) as [-> Hn].
    unfold key_ltb. apply (Forall_nth_at _ _ _ _ Hrest Hn).
Qed.

Lemma SS_app_inv {A} (R : A -> A -> Prop) (a b : list A) :
  StronglySorted R (a ++ b) ->
  StronglySorted R a /\ StronglySorted R b /\ (forall x y, In x a -> In y b -> R x y).
Proof.
  induction a as [|h a IH]; simpl; intros H.
  - repeat split; auto. constructor. intros x y [].
  - apply StronglySorted_inv in H. destruct H as [Hs Hf].
    destruct (IH Hs) as [Ha [Hb Hab]].
    rewrite Forall_app in Hf. destruct Hf as [Hfa Hfb].
    repeat split; auto.
    + constructor; auto.
    + intros x y [<-|Hx] Hy; [|auto]. rewrite Forall_forall in Hfb. auto.
Qed.

(* the parent handler: Search(key >= lastKey), then step over an exact match *)
Lemma next_index_geskip keys pre rest k :
  StronglySorted slt keys ->
  keys = pre ++ rest -> k <> EmptyString ->
  Forall (le_key k) pre -> Forall (gt_key k) rest ->
  next_index VGeSkip keys k = zlen pre.
Proof.
  intros Hs -> Hk Hpre Hrest. unfold next_index. rewrite key_eqb_nonempty by exact Hk.
  pose proof (zlen_nonneg pre) as Hp0. pose proof (zlen_nonneg rest) as Hr0.
  destruct (SS_app_inv _ _ _ Hs) as [Hspre [_ _]].
  (* pre = A ++ [k] or k is not in pre *)
  assert (Hcase : (exists A, pre = A ++ [k]) \/ ~ In k pre).
  { destruct (in_dec string_dec k pre) as [Hin|Hnin]; [left|right; exact Hnin].
    apply in_split in Hin. destruct Hin as [A [B ->]].
    destruct B as [|y B]; [exists A; reflexivity|exfalso].
    destruct (SS_app_inv _ _ _ Hspre) as [_ [HkB _]].
    apply StronglySorted_inv in HkB. destruct HkB as [_ Hf]. inversion Hf as [|? ? Hky _]; subst.
    rewrite Forall_app in Hpre. destruct Hpre as [_ Hpre]. inversion Hpre as [|? ? _ Hpre']; subst.
    inversion Hpre' as [|? ? Hy _]; subst. unfold le_key in Hy. unfold slt in Hky. congruence. }
  destruct Hcase as [[A ->]|Hnin].
  - (* k is the last listed key *)
    pose proof (zlen_nonneg A) as Ha0.
    assert (Hsearch : sort_search (zlen ((A ++ [k]) ++ rest))
                        (fun i => negb (key_ltb (nth_key ((A ++ [k]) ++ rest) i) k)) = zlen A).
    { apply sort_search_spec; rewrite ?zlen_app; change (zlen [k]) with 1; try lia.
      - intros x Hx. rewrite <- app_assoc.
        destruct (nth_key_pre A ([k] ++ rest) x Hx) as [-> Hn].
        destruct (SS_app_inv _ _ _ Hspre) as [_ [_ HAk]].
        unfold key_ltb. rewrite (HAk (nth (Z.to_nat x) A EmptyString) k); auto.
        + apply nth_In. exact Hn.
        + left; reflexivity.
      - intros x Hx. rewrite <- app_assoc.
        assert (Hx' : zlen A <= x < zlen A + zlen ([k] ++ rest)).
        { rewrite zlen_app. change (zlen [k]) with 1. lia. }
        destruct (nth_key_rest A ([k] ++ rest) x Hx') as [-> Hn].
        unfold key_ltb. apply negb_true_iff.
        assert (Hall : Forall (fun y => String.ltb y k = false) ([k] ++ rest)).
        { apply Forall_app. split.
          - constructor; [apply ltb_irrefl|constructor].
          - eapply Forall_impl; [|exact Hrest]. intros y Hy. apply ltb_asym. exact Hy. }
        apply (Forall_nth_at _ _ _ _ Hall Hn). }
    rewrite Hsearch.
    assert (Hnk : nth_key ((A ++ [k]) ++ rest) (zlen A) = k).
    { rewrite <- app_assoc.
      assert (Hx' : zlen A <= zlen A < zlen A + zlen ([k] ++ rest)).
      { rewrite zlen_app. change (zlen [k]) with 1. lia. }
      destruct (nth_key_rest A ([k] ++ rest) (zlen A) Hx') as [-> _].
      replace (zlen A - zlen A) with 0 by lia. reflexivity. }
    rewrite Hnk. unfold key_eqb. rewrite String.eqb_refl.
    rewrite !zlen_app. change (zlen [k]) with 1.
    destruct (Z.ltb_spec (zlen A) (zlen A + 1 + zlen rest)); simpl; lia.
  - (* k is not listed: every listed key is below k *)
    assert (Hsearch : sort_search (zlen (pre ++ rest))
                        (fun i => negb (key_ltb (nth_key (pre ++ rest) i) k)) = zlen pre).
    { apply sort_search_spec; rewrite ?zlen_app; try lia.
      - intros x Hx. destruct (nth_key_pre pre rest x Hx) as [-> Hn].
        unfold key_ltb. apply negb_false_iff.
        assert (Hin : In (nth (Z.to_nat x) pre EmptyString) pre) by (apply nth_In; exact Hn).
        apply ltb_total.
        + apply (Forall_nth_at _ _ _ _ Hpre Hn).
        + intros Heq. apply Hnin. rewrite Heq. exact Hin.
      - intros x Hx. destruct (nth_key_rest pre rest x Hx) as [-> Hn].
        unfold key_ltb. apply negb_true_iff. apply ltb_asym.
        apply (Forall_nth_at _ _ _ _ Hrest Hn). }
    rewrite Hsearch. rewrite zlen_app.
    destruct (Z.ltb_spec (zlen pre) (zlen pre + zlen rest)) as [Hlt|Hge]; simpl; [|reflexivity].
    assert (Hx' : zlen pre <= zlen pre < zlen pre + zlen rest) by lia.
    destruct (nth_key_rest pre rest (zlen pre) Hx') as [-> Hn].
    assert (Hg : gt_key k (nth (Z.to_nat (zlen pre - zlen pre)) rest EmptyString))
      by apply (Forall_nth_at _ _ _ _ Hrest Hn).
    unfold key_eqb. destruct (String.eqb_spec (nth (Z.to_nat (zlen pre - zlen pre)) rest EmptyString) k) as [Heq|]; [|reflexivity].
    unfold gt_key in Hg. rewrite Heq, ltb_irrefl in Hg. discriminate.
Qed.

Lemma next_index_split v keys pre rest k :
  StronglySorted slt keys ->
  keys = pre ++ rest -> k <> EmptyString ->
  Forall (le_key k) pre -> Forall (gt_key k) rest ->
  next_index v keys k = zlen pre.
Proof.
  destruct v; intros.
  - eapply next_index_greater; eauto.
  - eapply next_index_geskip; eauto.
Qed.

(* the two handler shapes are the same function on sorted listings *)
Lemma split_sorted keys k : StronglySorted slt keys ->
  exists pre rest, keys = pre ++ rest /\ Forall (le_key k) pre /\ Forall (gt_key k) rest
                   /\ rest = filter (fun x => String.ltb k x) keys.
Proof.
  induction keys as [|a l IH]; intros Hs.
  - exists [], []. repeat split; constructor.
  - apply StronglySorted_inv in Hs. destruct Hs as [Hs Hf].
    destruct (String.ltb k a) eqn:Hka.
    + exists [], (a :: l). repeat split; try constructor; auto.
      * eapply Forall_impl; [|exact Hf]. intros y Hy. unfold gt_key. eapply ltb_trans; eauto.
      * simpl. rewrite Hka. f_equal. symmetry.
        apply filter_all. intros y Hy.
        rewrite Forall_forall in Hf. eapply ltb_trans; [exact Hka|]. apply Hf. exact Hy.
    + destruct (IH Hs) as [pre [rest [-> [Hp [Hr Hfil]]]]].
      exists (a :: pre), rest. split; [reflexivity|]. split; [constructor; auto|]. split; [exact Hr|].
      simpl. rewrite Hka. exact Hfil.
Qed.

(* position inside a sorted listing: everything up to and including k is <= k, the rest is > k *)
Lemma sorted_split_at A k B : StronglySorted slt (A ++ k :: B) ->
  Forall (le_key k) (A ++ [k]) /\ Forall (gt_key k) B.
Proof.
  intros Hs. destruct (SS_app_inv _ _ _ Hs) as [_ [HkB HAk]].
  apply StronglySorted_inv in HkB. destruct HkB as [_ HB]. split.
  - apply Forall_app. split.
    + apply Forall_forall. intros x Hx. unfold le_key. apply ltb_asym. apply HAk; [exact Hx|left; reflexivity].
    + constructor; [apply ltb_irrefl|constructor].
  - exact HB.
Qed.

(* ------------------------------------------------------------------ *)
(* configurations                                                        *)
(* ------------------------------------------------------------------ *)

Lemma cfg_ok_spec c : cfg_ok c = true ->
  pc_default c = 50 /\ pc_max c = 1000 /\ pc_enc c = pc_dec c
  /\ pc_validates c = true /\ pc_mask_before c = false.
Proof.
  unfold cfg_ok. intros H.
  repeat (apply andb_true_iff in H; destruct H as [H ?]).
  apply Z.eqb_eq in H. 
  repeat split; auto.
  - apply Z.eqb_eq. assumption.
  - destruct (pc_enc c), (pc_dec c); simpl in *; congruence.
  - apply negb_true_iff. assumption.
Qed.

Lemma cap_of_ok c size : cfg_ok c = true -> cap_of c size = cap_page_size size.
Proof.
  intros H. destruct (cfg_ok_spec c H) as [Hd [Hm _]].
  unfold cap_of, cap_page_size, default_page_size, max_page_size. rewrite Hd, Hm. reflexivity.
Qed.

Lemma in32_wrap n : in32 n = true -> wrap32 n = n.
Proof.
  unfold in32, wrap32. intros H. apply andb_true_iff in H. destruct H as [H1 H2].
  apply Z.leb_le in H1. apply Z.leb_le in H2.
  rewrite Z.mod_small by lia. lia.
Qed.

(* ------------------------------------------------------------------ *)
(* one page                                                              *)
(* ------------------------------------------------------------------ *)

Lemma key_page_core_split c keys pre rest lastKey extra size :
  keys = pre ++ rest -> next_index (pc_variant c) keys lastKey = zlen pre -> 1 <= cap_of c size ->
  key_page_core c keys keys lastKey extra size =
    if zlen rest <? cap_of c size
    then OPage rest None (wrap32 (zlen keys))
    else OPage (firstn (Z.to_nat (cap_of c size)) rest)
               (Some (encode_token_x (pc_enc c) (nth (Z.to_nat (cap_of c size) - 1) rest EmptyString) extra))
               (wrap32 (zlen keys)).
Proof.
  intros -> Hni Hc. unfold key_page_core. rewrite Hni.
  set (cp := cap_of c size) in *.
  pose proof (zlen_nonneg pre) as Hp0. pose proof (zlen_nonneg rest) as Hr0.
  rewrite zlen_app.
  destruct (Z.ltb_spec (zlen rest) cp) as [Hlt|Hge].
  - destruct (Z.ltb_spec (zlen pre + zlen rest) (zlen pre + cp)); [|lia].
    destruct (Z.leb_spec (zlen pre) (zlen pre + zlen rest)); [|lia].
    f_equal. unfold slice.
    rewrite to_nat_zlen, skipn_app, skipn_all, Nat.sub_diag. simpl.
    replace (zlen pre + zlen rest - zlen pre) with (zlen rest) by lia.
    rewrite to_nat_zlen. apply firstn_all.
  - destruct (Z.ltb_spec (zlen pre + zlen rest) (zlen pre + cp)); [lia|].
    destruct (Z.ltb_spec (zlen pre + cp - 1) 0); [lia|].
    destruct (Z.ltb_spec (zlen pre + cp) (zlen pre)); [lia|].
    f_equal.
    + unfold slice. rewrite to_nat_zlen, skipn_app, skipn_all, Nat.sub_diag. simpl.
      replace (zlen pre + cp - zlen pre) with cp by lia. reflexivity.
    + f_equal. f_equal.
      assert (Hx : zlen pre <= zlen pre + cp - 1 < zlen pre + zlen rest) by lia.
      destruct (nth_key_rest pre rest _ Hx) as [-> _].
      f_equal. f_equal. lia.
Qed.

(* ------------------------------------------------------------------ *)
(* page chains with a page size per request                              *)
(* ------------------------------------------------------------------ *)

Lemma is_prefix_refl l : is_prefix l l = true.
Proof. induction l; simpl; auto. rewrite String.eqb_refl. exact IHl. Qed.

Lemma is_prefix_firstn m : forall l, is_prefix (firstn m l) l = true.
Proof. induction m; intros [|x l]; simpl; auto. rewrite String.eqb_refl. apply IHm. Qed.

Lemma is_prefix_split : forall a b, is_prefix a b = true -> b = a ++ skipn (List.length a) b.
Proof.
  induction a as [|x a IH]; intros [|y b] H; simpl in *; try discriminate; auto.
  apply andb_true_iff in H. destruct H as [Hxy H]. apply String.eqb_eq in Hxy. subst. f_equal. auto.
Qed.

Lemma chain_req_nonempty {T Tok} (page : Tok -> Z -> outcome T) wrap sizes tok :
  sizes <> [] -> is_nil (chain_req page wrap sizes tok) = false.
Proof. destruct sizes; [congruence|reflexivity]. Qed.

(* number of calls a client makes to list r remaining items when request i asks for sizes[i] *)
Fixpoint calls_key (r : Z) (sizes : list Z) : Z :=
  match sizes with
  | [] => 0
  | s :: ss =>
      if s <? 0 then 1
      else if r <? cap_page_size s then 1
      else 1 + calls_key (r - cap_page_size s) ss
  end.

Lemma calls_key_le : forall sizes r, 0 <= r -> calls_key r sizes <= r + 1.
Proof.
  induction sizes as [|s ss IH]; intros r Hr; cbn [calls_key]; [lia|].
  destruct (Z.ltb_spec s 0); [lia|].
  destruct (Z.ltb_spec r (cap_page_size s)); [lia|].
  pose proof (cap_bounds s ltac:(lia)). specialize (IH (r - cap_page_size s) ltac:(lia)). lia.
Qed.

Lemma calls_key_const size : 0 <= size -> forall fuel r, 0 <= r ->
  r / cap_page_size size + 1 <= Z.of_nat fuel ->
  calls_key r (const_sizes size fuel) = r / cap_page_size size + 1.
Proof.
  intros Hs. pose proof (cap_bounds size Hs) as Hc. set (c := cap_page_size size) in *.
  induction fuel as [|f IH]; intros r Hr Hf.
  - assert (0 <= r / c) by (apply Z.div_pos; lia). lia.
  - unfold const_sizes. cbn [repeat calls_key]. fold (const_sizes size f). fold c.
    destruct (Z.ltb_spec size 0); [lia|].
    destruct (Z.ltb_spec r c) as [Hlt|Hge].
    + rewrite Z.div_small by lia. reflexivity.
    + assert (Hd : r / c = (r - c) / c + 1).
      { replace r with (r - c + 1 * c) at 1 by lia. rewrite Z.div_add by lia. lia. }
      rewrite IH by lia. lia.
Qed.

Definition keys_utf8 (keys : list string) : Prop := forall k, In k keys -> key_utf8 k = true.

Lemma key_page_ok_tok c keys dropkey w size :
  cfg_ok c = true -> token_of c w <> TokMalformed -> 0 <= size ->
  key_page c keys dropkey w size = key_page_core c keys keys (last_key (token_of c w)) (extra_of c w) size.
Proof.
  intros Hc Ht Hs. destruct (cfg_ok_spec c Hc) as [_ [_ [_ [Hv Hm]]]].
  unfold key_page. rewrite Hv, Hm. cbn [andb].
  destruct (Z.ltb_spec size 0); [lia|].
  destruct (token_of c w); try contradiction; reflexivity.
Qed.

Lemma key_page_negative c keys dropkey w size :
  cfg_ok c = true -> size < 0 -> key_page c keys dropkey w size = OErr InvalidArgument.
Proof.
  intros Hc Hs. destruct (cfg_ok_spec c Hc) as [_ [_ [_ [Hv _]]]].
  unfold key_page. rewrite Hv. cbn [andb].
  destruct (Z.ltb_spec size 0); [|lia]. destruct (token_of c w); reflexivity.
Qed.

Lemma token_of_minted c k e : cfg_ok c = true -> key_utf8 k = true -> Forall is_byte e ->
  token_of c (WRaw (encode_token_x (pc_enc c) k e)) = TokKey k
  /\ extra_of c (WRaw (encode_token_x (pc_enc c) k e)) = e.
Proof.
  intros Hc Hu Hb. destruct (cfg_ok_spec c Hc) as [_ [_ [He _]]].
  unfold token_of, extra_of. rewrite <- He. rewrite minted_roundtrip by assumption. split; reflexivity.
Qed.

(* THE induction: any listing, any page sizes (also negative ones), from any position *)
Lemma key_chain_from c keys dropkey :
  cfg_ok c = true -> StronglySorted slt keys -> ~ In EmptyString keys -> keys_utf8 keys ->
  forall sizes pre rest w,
    keys = pre ++ rest -> token_of c w <> TokMalformed -> Forall is_byte (extra_of c w) ->
    next_index (pc_variant c) keys (last_key (token_of c w)) = zlen pre ->
    zlen rest < zlen sizes ->
    let obs := key_chain c keys dropkey sizes w in
    enumerates rest (wrap32 (zlen keys)) sizes obs = true
    /\ zlen obs = calls_key (zlen rest) sizes.
Proof.
  intros Hc Hs Hne Hu.
  induction sizes as [|s ss IH]; intros pre rest w Hk Htok Hex Hni Hfuel obs.
  - pose proof (zlen_nonneg rest). unfold zlen in Hfuel at 2. simpl in Hfuel. lia.
  - unfold obs, key_chain. cbn [chain_req]. fold (key_chain c keys dropkey).
    destruct (Z.ltb_spec s 0) as [Hneg|Hpos].
    + rewrite (key_page_negative c keys dropkey w s Hc Hneg). cbn [enumerates calls_key].
      destruct (Z.ltb_spec s 0); [|lia]. split; reflexivity.
    + rewrite (key_page_ok_tok c keys dropkey w s Hc Htok Hpos).
      pose proof (cap_bounds s Hpos) as Hcb.
      assert (Hcap : cap_of c s = cap_page_size s) by (apply cap_of_ok; exact Hc).
      rewrite (key_page_core_split c keys pre rest _ (extra_of c w) s Hk Hni) by lia.
      rewrite Hcap. set (cp := cap_page_size s) in *.
      pose proof (zlen_nonneg rest) as Hr0.
      cbn [calls_key]. destruct (Z.ltb_spec s 0) as [|_]; [lia|]. fold cp.
      destruct (Z.ltb_spec (zlen rest) cp) as [Hlt|Hge].
      * cbn [enumerates]. destruct (Z.ltb_spec s 0) as [|_]; [lia|].
        rewrite (cap_is_spec s Hpos). fold cp.
        destruct (Z.leb_spec (zlen rest) cp); [|lia].
        rewrite !Z.eqb_refl, is_prefix_refl. split; reflexivity.
      * set (cn := Z.to_nat cp).
        assert (Hcn : (1 <= cn <= List.length rest)%nat) by (unfold cn, zlen in *; lia).
        set (F := firstn cn rest). set (R := skipn cn rest).
        set (k' := nth (cn - 1) rest EmptyString).
        assert (HF : F = firstn (cn - 1) rest ++ [k']).
        { unfold F, k'. replace cn with (S (cn - 1)) at 1 by lia. apply firstn_succ_nth. lia. }
        assert (HFR : rest = F ++ R) by (unfold F, R; symmetry; apply firstn_skipn).
        assert (HlenFn : List.length F = cn) by (unfold F; apply firstn_length_le; lia).
        assert (HlenF : zlen F = cp) by (unfold zlen; rewrite HlenFn; unfold cn; lia).
        assert (Hkeys : keys = (pre ++ firstn (cn - 1) rest) ++ k' :: R).
        { rewrite Hk. rewrite <- app_assoc. f_equal. transitivity (F ++ R); [exact HFR|].
          rewrite HF. rewrite <- app_assoc. reflexivity. }
        assert (Hin : In k' keys) by (rewrite Hkeys; apply in_elt).
        assert (Hk'ne : k' <> EmptyString) by (intros Heq; apply Hne; rewrite <- Heq; exact Hin).
        pose proof Hs as Hs'. rewrite Hkeys in Hs'.
        destruct (sorted_split_at _ _ _ Hs') as [Hle Hgt].
        assert (Hkeys' : keys = (pre ++ F) ++ R).
        { rewrite Hk. rewrite <- app_assoc. f_equal. exact HFR. }
        set (w' := WRaw (encode_token_x (pc_enc c) k' (extra_of c w))).
        assert (Htk : token_of c w' = TokKey k' /\ extra_of c w' = extra_of c w)
          by (apply token_of_minted; auto).
        destruct Htk as [Htk Hex'].
        assert (Hni' : next_index (pc_variant c) keys (last_key (token_of c w')) = zlen (pre ++ F)).
        { rewrite Htk. simpl. apply (next_index_split _ keys (pre ++ F) R k' Hs Hkeys' Hk'ne); auto.
          rewrite HF, app_assoc. exact Hle. }
        assert (HlenR : zlen R = zlen rest - cp).
        { assert (Hz : zlen rest = zlen F + zlen R) by (rewrite <- zlen_app; f_equal; exact HFR). lia. }
        assert (Hss : zlen R < zlen ss).
        { rewrite zlen_cons in Hfuel. lia. }
        assert (Htok' : token_of c w' <> TokMalformed)
          by (rewrite Htk; discriminate).
        assert (Hexb : Forall is_byte (extra_of c w')) by (rewrite Hex'; exact Hex).
        destruct (IH (pre ++ F) R w' Hkeys' Htok' Hexb Hni' Hss) as [IHe IHn].
        assert (Hssne : ss <> []).
        { intros ->. pose proof (zlen_nonneg R). unfold zlen in Hss at 2. simpl in Hss. lia. }
        cbn [enumerates]. destruct (Z.ltb_spec s 0) as [|_]; [lia|].
        rewrite (cap_is_spec s Hpos). fold cp. fold cn. fold F. fold k'. fold w'.
        rewrite HlenF. destruct (Z.leb_spec cp cp); [|lia]. rewrite Z.eqb_refl.
        replace (is_prefix F rest) with true by (symmetry; apply is_prefix_firstn).
        fold (key_chain c keys dropkey ss w').
        assert (Hnn : is_nil (key_chain c keys dropkey ss w') = false)
          by (apply chain_req_nonempty; exact Hssne).
        rewrite Hnn, HlenFn. fold R. cbn [andb negb].
        split.
        -- exact IHe.
        -- rewrite zlen_cons. rewrite IHn, HlenR. reflexivity.
Qed.

(* ---- from hypotheses in boolean form ---- *)

Lemma strictly_sorted_SS l : strictly_sorted l = true -> StronglySorted slt l.
Proof.
  induction l as [|a l IH]; intros H; [constructor|].
  destruct l as [|b r]; [constructor; constructor|].
  cbn [strictly_sorted] in H. apply andb_true_iff in H. destruct H as [Hab Hr].
  specialize (IH Hr). constructor; auto.
  pose proof (StronglySorted_inv IH) as [_ Hf].
  constructor; [exact Hab|].
  eapply Forall_impl; [|exact Hf]. intros y Hy. unfold slt in *. eapply ltb_trans; eauto.
Qed.

Lemma keys_wf_spec keys : keys_wf keys = true ->
  StronglySorted slt keys /\ ~ In EmptyString keys /\ keys_utf8 keys.
Proof.
  unfold keys_wf. intros H. apply andb_true_iff in H. destruct H as [H H3].
  apply andb_true_iff in H. destruct H as [H1 H2]. split; [|split].
  - apply strictly_sorted_SS. exact H1.
  - intros Hin. apply negb_true_iff in H2.
    assert (existsb (String.eqb EmptyString) keys = true).
    { apply existsb_exists. exists EmptyString. split; auto. }
    congruence.
  - intros k Hk. rewrite forallb_forall in H3. auto.
Qed.

Lemma SS_NoDup l : StronglySorted slt l -> NoDup l.
Proof.
  induction 1 as [|a l Hs IH Hf]; constructor; auto.
  intros Hin. rewrite Forall_forall in Hf. specialize (Hf a Hin). unfold slt in Hf.
  rewrite ltb_irrefl in Hf. discriminate.
Qed.

(* where a well-formed token leaves the client: everything after the named key remains *)
Lemma token_split v keys tok :
  StronglySorted slt keys -> tok <> TokMalformed ->
  exists pre, keys = pre ++ expected_after keys tok /\ next_index v keys (last_key tok) = zlen pre.
Proof.
  intros Hs Ht.
  assert (Hstart : exists pre, keys = pre ++ keys /\ next_index v keys EmptyString = zlen pre).
  { exists []. split; [reflexivity|]. unfold next_index. reflexivity. }
  destruct tok as [|k|]; try contradiction; simpl; [exact Hstart|].
  destruct (String.eqb_spec k EmptyString) as [->|Hk]; [exact Hstart|].
  destruct (split_sorted keys k Hs) as [pre [rest [Hk' [Hp [Hr Hfil]]]]].
  exists pre. rewrite <- Hfil. split; [exact Hk'|].
  eapply next_index_split; eauto.
Qed.

Lemma expected_after_len keys tok : zlen (expected_after keys tok) <= zlen keys.
Proof.
  unfold zlen. apply inj_le. destruct tok as [|k|]; simpl; auto.
  destruct (String.eqb k EmptyString); auto. apply filter_len_le.
Qed.

Lemma div_le_self a c : 0 <= a -> 1 <= c -> a / c <= a.
Proof. intros Ha Hc. apply Z.div_le_upper_bound; nia. Qed.

(* a complete chain from any well-formed first token *)
Lemma key_chain_good c keys dropkey sizes tok extra :
  cfg_ok c = true -> keys_wf keys = true -> tok <> TokMalformed -> Forall is_byte extra ->
  zlen (expected_after keys tok) < zlen sizes ->
  let obs := key_chain c keys dropkey sizes (WFirst tok extra) in
  enumerates (expected_after keys tok) (wrap32 (zlen keys)) sizes obs = true
  /\ zlen obs = calls_key (zlen (expected_after keys tok)) sizes.
Proof.
  intros Hc Hwf Htok Hex Hfuel. destruct (keys_wf_spec keys Hwf) as [Hs [Hne Hu]].
  destruct (token_split (pc_variant c) keys tok Hs Htok) as [pre [Hk Hni]].
  apply (key_chain_from c keys dropkey Hc Hs Hne Hu sizes pre _ (WFirst tok extra) Hk Htok Hex Hni Hfuel).
Qed.

Lemma key_chain_rejects c keys dropkey sizes w :
  token_of c w = TokMalformed -> sizes <> [] ->
  key_chain c keys dropkey sizes w = [OErr InvalidArgument].
Proof.
  intros H Hf. destruct sizes as [|s ss]; [congruence|]. unfold key_chain. cbn [chain_req].
  unfold key_page. rewrite H. reflexivity.
Qed.

(* the judge's two conditions on a complete chain over a well-formed (ascending) listing; the
   statement about [C15_ok] itself, where the listing comes in the collection's order and the
   handler re-sorts it, is [list_model_ok] in Pages/ListingProofs.v *)
Theorem key_chain_ok_bool c keys dropkey sizes tok extra :
  cfg_ok c = true -> keys_wf keys = true -> in32 (zlen keys) = true -> zlen keys < zlen sizes ->
  Forall is_byte extra -> tok <> TokMalformed ->
  enumerates (expected_after keys tok) (zlen keys) sizes (key_chain c keys dropkey sizes (WFirst tok extra))
  && (zlen (key_chain c keys dropkey sizes (WFirst tok extra)) <=? zlen keys + 2) = true.
Proof.
  intros Hc Hwf H32 Hfuel Hex Ht. pose proof (expected_after_len keys tok) as Hl.
  destruct (key_chain_good c keys dropkey sizes tok extra Hc Hwf Ht Hex ltac:(lia)) as [He Hn].
  rewrite (in32_wrap _ H32) in He. rewrite He, Hn.
  pose proof (calls_key_le sizes (zlen (expected_after keys tok)) (zlen_nonneg _)).
  destruct (Z.leb_spec (calls_key (zlen (expected_after keys tok)) sizes) (zlen keys + 2)); [reflexivity|lia].
Qed.
