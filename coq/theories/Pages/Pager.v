(* Model of the paged List RPCs (C15).  No proofs here.

   Key-token servers (pkg/trait/{electricpb,hailpb,publicationpb,vendingpb x2,parentpb}/model_server.go
   + pages.go): ONE generic pager [key_page], instantiated per RPC by a [pager_cfg] whose fields are
   read from the source on every run (Gen/Pagers.v: default / max page size, base64 alphabet of
   encodePageToken and of decodePageToken, search operator, whether validatePageSize is called,
   whether the paged listing is read through the request's read mask).  The page token names the key
   of the last item of the previous page; the next page starts at the first item whose key is
   greater (sort.Search on the sorted listing).  The token on the wire is modelled concretely
   (Pages/Codec.v: proto.Marshal of PageToken{last_resource_name} + padded base64); tokens the
   SERVER minted are decoded by the model's own decoder, the FIRST token of a chain (which may be
   arbitrary client bytes) is classified by the harness with the same two library calls the server
   makes ([TokKey k], k = PageToken.GetLastResourceName(), "" when the token carries no resource
   name; [TokEmpty] for ""; [TokMalformed] when base64 or proto decoding fails).
   total_size is int32(len(items)): [wrap32].  Each request of a chain has its own page size.

   Waste server (wastepb/model_server.go + model.go): the token is a decimal index counting down from
   the number of records; the listing is newest first.

   Go panics (index / slice bounds) are explicit outcomes.  Earlier versions of the handlers are
   other configurations ([cfg_no_validate]: before 97d7676; [cfg_mask_before]: before the read-mask
   fix) or [*_v0] functions (waste). *)
From SC Require Import Base.Prelude Pages.Codec Pages.PagerCfg Gen.Pagers.

Inductive outcome (T : Type) :=
| OPage (keys : list string) (next : option T) (total : Z)
| OErr (code : Z)          (* gRPC status code, 3 = InvalidArgument *)
| OPanic.
Arguments OPage {T} keys next total.
Arguments OErr {T} code.
Arguments OPanic {T}.

Definition InvalidArgument : Z := 3.

(* pages.go capPageSize; negative sizes pass through unchanged *)
Definition default_page_size : Z := 50.
Definition max_page_size : Z := 1000.
Definition cap_page_size (z : Z) : Z :=
  if z =? 0 then default_page_size
  else if max_page_size <? z then max_page_size
  else z.

(* Go string comparison is bytewise lexicographic, a proper prefix sorts first: String.ltb *)
Definition key_ltb (a b : string) : bool := String.ltb a b.
Definition key_eqb (a b : string) : bool := String.eqb a b.

Definition nth_key (keys : list string) (i : Z) : string := nth (Z.to_nat i) keys EmptyString.

(* keys[lo:hi] for 0 <= lo <= hi <= len *)
Definition slice (keys : list string) (lo hi : Z) : list string :=
  firstn (Z.to_nat (hi - lo)) (skipn (Z.to_nat lo) keys).

(* sort.Search(n, pred): binary search, exactly the loop of the Go library
     i, j := 0, n; for i < j { h := int(uint(i+j) >> 1); if !f(h) { i = h + 1 } else { j = h } }; return i *)
Fixpoint go_search (fuel : nat) (pred : Z -> bool) (i j : Z) : Z :=
  match fuel with
  | O => i
  | S f =>
      if i <? j then
        let h := (i + j) / 2 in
        if pred h then go_search f pred i h else go_search f pred (h + 1) j
      else i
  end.
Definition sort_search (n : Z) (pred : Z -> bool) : Z := go_search (S (Z.to_nat n)) pred 0 n.

(* ---- configuration of one handler ---- *)
Record pager_cfg := {
  pc_variant : variant;
  pc_default : Z;
  pc_max : Z;
  pc_enc : b64alpha;
  pc_dec : b64alpha;
  pc_validates : bool;      (* validatePageSize between decodePageToken and capPageSize *)
  pc_mask_before : bool     (* the listing is read with the request's read mask before it is paged *)
}.

(* a configuration no theorem applies to: used when a row is missing from the generated tables *)
Definition broken_cfg : pager_cfg :=
  {| pc_variant := VGreater; pc_default := 0; pc_max := 0; pc_enc := B64Other; pc_dec := B64Other;
     pc_validates := false; pc_mask_before := true |}.

Definition cfg_of_tables (pt : list pages_go) (ht : list handler_row) (s : server) : pager_cfg :=
  match find (fun h => server_eqb (h_server h) s) ht with
  | None => broken_cfg
  | Some h =>
      match find (fun p => String.eqb (pg_pkg p) (h_pkg h)) pt with
      | None => broken_cfg
      | Some p =>
          {| pc_variant := match h_variant h with Some v => v | None => VGreater end;
             pc_default := pg_default p; pc_max := pg_max p; pc_enc := pg_enc p; pc_dec := pg_dec p;
             pc_validates := h_validates h; pc_mask_before := h_mask_before h |}
      end
  end.

(* the configuration of each RPC as found in the tree under check *)
Definition cfg_of (s : server) : pager_cfg := cfg_of_tables pages_go_table handler_table s.

(* the handlers as modelled by hand (what the tree contained when the proofs were written) *)
Definition std_cfg (v : variant) : pager_cfg :=
  {| pc_variant := v; pc_default := 50; pc_max := 1000; pc_enc := B64Std; pc_dec := B64Std;
     pc_validates := true; pc_mask_before := false |}.
Definition variant_of (s : server) : variant := match s with SParent => VGeSkip | _ => VGreater end.

Definition cfg_eqb (a b : pager_cfg) : bool :=
  match pc_variant a, pc_variant b with VGreater, VGreater | VGeSkip, VGeSkip => true | _, _ => false end
  && (pc_default a =? pc_default b) && (pc_max a =? pc_max b)
  && b64alpha_eqb (pc_enc a) (pc_enc b) && b64alpha_eqb (pc_dec a) (pc_dec b)
  && Bool.eqb (pc_validates a) (pc_validates b) && Bool.eqb (pc_mask_before a) (pc_mask_before b).

(* what the theorems need of a configuration *)
Definition cfg_ok (c : pager_cfg) : bool :=
  (pc_default c =? 50) && (pc_max c =? 1000)
  && b64alpha_eqb (pc_enc c) (pc_dec c) && negb (b64alpha_eqb (pc_enc c) B64Other)
  && pc_validates c && negb (pc_mask_before c).

Definition with_variant (c : pager_cfg) (v : variant) : pager_cfg :=
  {| pc_variant := v; pc_default := pc_default c; pc_max := pc_max c; pc_enc := pc_enc c; pc_dec := pc_dec c;
     pc_validates := pc_validates c; pc_mask_before := pc_mask_before c |}.
(* before 97d7676: no validatePageSize *)
Definition cfg_no_validate (c : pager_cfg) : pager_cfg :=
  {| pc_variant := pc_variant c; pc_default := pc_default c; pc_max := pc_max c; pc_enc := pc_enc c; pc_dec := pc_dec c;
     pc_validates := false; pc_mask_before := pc_mask_before c |}.
(* before the read-mask fix: model.List(WithReadMask(request.ReadMask)) is what gets paged *)
Definition cfg_mask_before (c : pager_cfg) : pager_cfg :=
  {| pc_variant := pc_variant c; pc_default := pc_default c; pc_max := pc_max c; pc_enc := pc_enc c; pc_dec := pc_dec c;
     pc_validates := pc_validates c; pc_mask_before := true |}.
(* seeded change C15-r3-3: encodePageToken switched to the URL-safe alphabet *)
Definition cfg_enc (c : pager_cfg) (a : b64alpha) : pager_cfg :=
  {| pc_variant := pc_variant c; pc_default := pc_default c; pc_max := pc_max c; pc_enc := a; pc_dec := pc_dec c;
     pc_validates := pc_validates c; pc_mask_before := pc_mask_before c |}.

Definition cap_of (c : pager_cfg) (z : Z) : Z :=
  if z =? 0 then pc_default c
  else if pc_max c <? z then pc_max c
  else z.

Definition next_index (v : variant) (keys : list string) (lastKey : string) : Z :=
  let n := zlen keys in
  if key_eqb lastKey EmptyString then 0
  else match v with
       | VGreater => sort_search n (fun i => key_ltb lastKey (nth_key keys i))
       | VGeSkip =>
           let i := sort_search n (fun i => negb (key_ltb (nth_key keys i) lastKey)) in
           if (i <? n) && key_eqb (nth_key keys i) lastKey then i + 1 else i
       end.

(* the body of the handler after token decoding and size validation; [size] is the raw request
   field; [seen] is the listing the handler pages over (its keys supply the search and the token),
   [keys] the identities of the same items (what the caller receives).  seen = keys unless the
   listing was read through a read mask that leaves the key field out. *)
Definition key_page_core (c : pager_cfg) (seen keys : list string) (lastKey : string) (extra : list Z) (size : Z) : outcome string :=
  let n := zlen seen in
  let ps := cap_of c size in
  let ni := next_index (pc_variant c) seen lastKey in
  let ub := ni + ps in
  if n <? ub then
    (* upperBound = len; pageToken = nil; items[nextIndex:len] *)
    if ni <=? n then OPage (slice keys ni n) None (wrap32 n) else OPanic
  else
    (* items[upperBound-1].key, then items[nextIndex:upperBound] *)
    if ub - 1 <? 0 then OPanic
    else if ub <? ni then OPanic
    else OPage (slice keys ni ub) (Some (encode_token_x (pc_enc c) (nth_key seen (ub - 1)) extra)) (wrap32 n).

Inductive token := TokEmpty | TokKey (k : string) | TokMalformed.

Definition last_key (t : token) : string := match t with TokKey k => k | _ => EmptyString end.

(* what a request carries: the first token of a chain as classified by the harness, or the raw
   next_page_token of the previous answer (never "": the chain stops there) *)
Inductive wiretok := WFirst (t : token) (extra : list Z) | WRaw (raw : string).

Definition token_of (c : pager_cfg) (w : wiretok) : token :=
  match w with
  | WFirst t _ => t
  | WRaw r => match decode_minted (pc_dec c) r with Some (k, _) => TokKey k | None => TokMalformed end
  end.

(* the unknown fields of the decoded PageToken (the struct is reused for the next token) *)
Definition extra_of (c : pager_cfg) (w : wiretok) : list Z :=
  match w with
  | WFirst _ e => e
  | WRaw r => match decode_minted (pc_dec c) r with Some (_, e) => e | None => [] end
  end.

Definition blank_keys (keys : list string) : list string := map (fun _ => EmptyString) keys.

(* the handler: token decoded first (InvalidArgument), then validatePageSize (InvalidArgument for a
   negative size) when the handler calls it, then the listing and the page.  [dropkey]: the request's
   read mask leaves the key field out. *)
Definition key_page (c : pager_cfg) (keys : list string) (dropkey : bool) (w : wiretok) (size : Z) : outcome string :=
  match token_of c w with
  | TokMalformed => OErr InvalidArgument
  | tok =>
      if pc_validates c && (size <? 0) then OErr InvalidArgument
      else
        let seen := if pc_mask_before c && dropkey then blank_keys keys else keys in
        key_page_core c seen keys (last_key tok) (extra_of c w) size
  end.

(* a client following next_page_token; one page size per request, at most [length sizes] calls *)
Fixpoint chain_req {T Tok} (page : Tok -> Z -> outcome T) (wrap : T -> Tok) (sizes : list Z) (tok : Tok) : list (outcome T) :=
  match sizes with
  | [] => []
  | sz :: rest =>
      let o := page tok sz in
      o :: match o with
           | OPage _ (Some k) _ => chain_req page wrap rest (wrap k)
           | _ => []
           end
  end.

Definition key_chain (c : pager_cfg) (keys : list string) (dropkey : bool) (sizes : list Z) (w : wiretok) : list (outcome string) :=
  chain_req (key_page c keys dropkey) WRaw sizes w.

(* the same page size on every request *)
Definition const_sizes (size : Z) (fuel : nat) : list Z := repeat size fuel.

(* ---- waste: records in insertion order, identified by their id strings ---- *)

(* Model.ListWasteRecords(start, count):
     for i := start-1; i >= 0; i-- { out = append(out, all[i]); if len(out) >= count { break } }
   all[i] panics when i >= len(all).  [have] = len(out) so far. *)
Fixpoint waste_loop (fuel : nat) (ids : list string) (i have count : Z) : option (list string) :=
  match fuel with
  | O => Some []
  | S f =>
      if i <? 0 then Some []
      else if zlen ids <=? i then None      (* index out of range *)
      else match nth_error ids (Z.to_nat i) with
           | None => None
           | Some x =>
               if count <=? have + 1 then Some [x]
               else option_map (cons x) (waste_loop f ids (i - 1) (have + 1) count)
           end
  end.
(* fuel: the loop runs at most [start] times, and stops (panics) at once when start > len *)
Definition waste_list (ids : list string) (start count : Z) : option (list string) :=
  waste_loop (S (Z.to_nat (Z.min start (zlen ids)))) ids (start - 1) 0 count.

Inductive wtoken := WEmpty | WNum (z : Z) | WMalformed.   (* strconv.Atoi fails => WMalformed *)

Definition waste_count (size : Z) : Z :=
  if size =? 0 then 50 else if 1000 <? size then 1000 else size.

Definition waste_respond (ids : list string) (start count : Z) : outcome Z :=
  match waste_list ids start count with
  | None => OPanic
  | Some recs =>
      let next := if count =? zlen recs
                  then (if 0 <? start - count then Some (start - count) else None)
                  else None in
      OPage recs next (wrap32 (zlen ids))
  end.

(* before the fixes: Atoi errors are returned as they are (status code Unknown = 2), nothing else is checked *)
Definition waste_page_v0 (ids : list string) (tok : wtoken) (size : Z) : outcome Z :=
  match tok with
  | WMalformed => OErr 2
  | WEmpty => waste_respond ids (zlen ids) (waste_count size)
  | WNum z => waste_respond ids z (waste_count size)
  end.

(* current code: bad / out-of-range tokens and negative sizes are InvalidArgument *)
Definition waste_page (ids : list string) (tok : wtoken) (size : Z) : outcome Z :=
  match tok with
  | WMalformed => OErr InvalidArgument
  | _ =>
      let n := zlen ids in
      let start := match tok with WNum z => z | _ => n end in
      if (start <? 0) || (n <? start) then OErr InvalidArgument
      else if size <? 0 then OErr InvalidArgument
      else waste_respond ids start (waste_count size)
  end.

Definition waste_chain (ids : list string) (sizes : list Z) (tok : wtoken) : list (outcome Z) :=
  chain_req (waste_page ids) WNum sizes tok.
Definition waste_chain_v0 (ids : list string) (sizes : list Z) (tok : wtoken) : list (outcome Z) :=
  chain_req (waste_page_v0 ids) WNum sizes tok.
