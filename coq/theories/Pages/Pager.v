(* Model of the paged List RPCs (C15).  No proofs here.

   Key-token servers (pkg/trait/{electricpb,hailpb,publicationpb,vendingpb x2,parentpb}/model_server.go
   + pages.go): the page token names the key of the last item of the previous page; the next page
   starts at the first item whose key is greater (sort.Search on the sorted listing).  The base64 /
   protobuf (un)marshalling of the token is library code: the model receives the decoded last key
   ([TokKey k], k = PageToken.GetLastResourceName(), "" when the token carries no resource name),
   [TokEmpty] for the empty string, or [TokMalformed] when base64 or proto decoding fails.

   Waste server (wastepb/model_server.go + model.go): the token is a decimal index counting down from
   the number of records; the listing is newest first.

   Go panics (index / slice bounds) are explicit outcomes.  [*_v0] are the handlers as they were
   before the `fix:` commits (no validation of negative page sizes / waste token range). *)
From SC Require Import Base.Prelude.

Inductive outcome (T : Type) :=
| OPage (keys : list string) (next : option T) (total : Z)
| OErr (code : Z)          (* gRPC status code, 3 = InvalidArgument *)
| OPanic.
Arguments OPage {T} keys next total.
Arguments OErr {T} code.
Arguments OPanic {T}.

Definition InvalidArgument : Z := 3.

(* pages.go capPageSize; negative sizes pass through unchanged *)
Definition default_page_size : Z := 50.
Definition max_page_size : Z := 1000.
Definition cap_page_size (z : Z) : Z :=
  if z =? 0 then default_page_size
  else if max_page_size <? z then max_page_size
  else z.

(* Go string comparison is bytewise lexicographic, a proper prefix sorts first: String.ltb *)
Definition key_ltb (a b : string) : bool := String.ltb a b.
Definition key_eqb (a b : string) : bool := String.eqb a b.

Definition nth_key (keys : list string) (i : Z) : string := nth (Z.to_nat i) keys EmptyString.

(* keys[lo:hi] for 0 <= lo <= hi <= len *)
Definition slice (keys : list string) (lo hi : Z) : list string :=
  firstn (Z.to_nat (hi - lo)) (skipn (Z.to_nat lo) keys).

(* sort.Search(n, pred): binary search, exactly the loop of the Go library
     i, j := 0, n; for i < j { h := int(uint(i+j) >> 1); if !f(h) { i = h + 1 } else { j = h } }; return i *)
Fixpoint go_search (fuel : nat) (pred : Z -> bool) (i j : Z) : Z :=
  match fuel with
  | O => i
  | S f =>
      if i <? j then
        let h := (i + j) / 2 in
        if pred h then go_search f pred i h else go_search f pred (h + 1) j
      else i
  end.
Definition sort_search (n : Z) (pred : Z -> bool) : Z := go_search (S (Z.to_nat n)) pred 0 n.

(* the two shapes of "index of the first item after lastKey" *)
Inductive variant :=
| VGreater     (* electric, hail, publication, vending x2: Search(key > lastKey) *)
| VGeSkip.     (* parent: Search(key >= lastKey), then step over an exact match *)

Inductive server := SElectric | SHail | SParent | SPublication | SConsumables | SInventory.
Definition variant_of (s : server) : variant :=
  match s with SParent => VGeSkip | _ => VGreater end.

Definition next_index (v : variant) (keys : list string) (lastKey : string) : Z :=
  let n := zlen keys in
  if key_eqb lastKey EmptyString then 0
  else match v with
       | VGreater => sort_search n (fun i => key_ltb lastKey (nth_key keys i))
       | VGeSkip =>
           let i := sort_search n (fun i => negb (key_ltb (nth_key keys i) lastKey)) in
           if (i <? n) && key_eqb (nth_key keys i) lastKey then i + 1 else i
       end.

(* the body of the handler after token decoding; pageSize is the raw request field *)
Definition key_page_core (v : variant) (keys : list string) (lastKey : string) (size : Z) : outcome string :=
  let n := zlen keys in
  let ps := cap_page_size size in
  let ni := next_index v keys lastKey in
  let ub := ni + ps in
  if n <? ub then
    (* upperBound = len; pageToken = nil; items[nextIndex:len] *)
    if ni <=? n then OPage (slice keys ni n) None n else OPanic
  else
    (* items[upperBound-1].key, then items[nextIndex:upperBound] *)
    if ub - 1 <? 0 then OPanic
    else if ub <? ni then OPanic
    else OPage (slice keys ni ub) (Some (nth_key keys (ub - 1))) n.

Inductive token := TokEmpty | TokKey (k : string) | TokMalformed.

Definition last_key (t : token) : string := match t with TokKey k => k | _ => EmptyString end.

(* before the fix: only the token is validated *)
Definition key_page_v0 (v : variant) (keys : list string) (tok : token) (size : Z) : outcome string :=
  match tok with
  | TokMalformed => OErr InvalidArgument
  | _ => key_page_core v keys (last_key tok) size
  end.

(* current code: negative page sizes are rejected after the token has been decoded *)
Definition key_page (v : variant) (keys : list string) (tok : token) (size : Z) : outcome string :=
  match tok with
  | TokMalformed => OErr InvalidArgument
  | _ => if size <? 0 then OErr InvalidArgument else key_page_core v keys (last_key tok) size
  end.

(* a client following next_page_token; at most [fuel] calls *)
Fixpoint chain_with {T Tok} (page : Tok -> outcome T) (wrap : T -> Tok) (fuel : nat) (tok : Tok) : list (outcome T) :=
  match fuel with
  | O => []
  | S f =>
      let o := page tok in
      o :: match o with
           | OPage _ (Some k) _ => chain_with page wrap f (wrap k)
           | _ => []
           end
  end.

Definition key_chain (v : variant) (keys : list string) (size : Z) (fuel : nat) (tok : token) : list (outcome string) :=
  chain_with (fun t => key_page v keys t size) TokKey fuel tok.
Definition key_chain_v0 (v : variant) (keys : list string) (size : Z) (fuel : nat) (tok : token) : list (outcome string) :=
  chain_with (fun t => key_page_v0 v keys t size) TokKey fuel tok.

(* ---- waste: records in insertion order, identified by their id strings ---- *)

(* Model.ListWasteRecords(start, count):
     for i := start-1; i >= 0; i-- { out = append(out, all[i]); if len(out) >= count { break } }
   all[i] panics when i >= len(all).  [have] = len(out) so far. *)
Fixpoint waste_loop (fuel : nat) (ids : list string) (i have count : Z) : option (list string) :=
  match fuel with
  | O => Some []
  | S f =>
      if i <? 0 then Some []
      else if zlen ids <=? i then None      (* index out of range *)
      else match nth_error ids (Z.to_nat i) with
           | None => None
           | Some x =>
               if count <=? have + 1 then Some [x]
               else option_map (cons x) (waste_loop f ids (i - 1) (have + 1) count)
           end
  end.
(* fuel: the loop runs at most [start] times, and stops (panics) at once when start > len *)
Definition waste_list (ids : list string) (start count : Z) : option (list string) :=
  waste_loop (S (Z.to_nat (Z.min start (zlen ids)))) ids (start - 1) 0 count.

Inductive wtoken := WEmpty | WNum (z : Z) | WMalformed.   (* strconv.Atoi fails => WMalformed *)

Definition waste_count (size : Z) : Z :=
  if size =? 0 then 50 else if 1000 <? size then 1000 else size.

Definition waste_respond (ids : list string) (start count : Z) : outcome Z :=
  match waste_list ids start count with
  | None => OPanic
  | Some recs =>
      let next := if count =? zlen recs
                  then (if 0 <? start - count then Some (start - count) else None)
                  else None in
      OPage recs next (zlen ids)
  end.

(* before the fixes: Atoi errors are returned as they are (status code Unknown = 2), nothing else is checked *)
Definition waste_page_v0 (ids : list string) (tok : wtoken) (size : Z) : outcome Z :=
  match tok with
  | WMalformed => OErr 2
  | WEmpty => waste_respond ids (zlen ids) (waste_count size)
  | WNum z => waste_respond ids z (waste_count size)
  end.

(* current code: bad / out-of-range tokens and negative sizes are InvalidArgument *)
Definition waste_page (ids : list string) (tok : wtoken) (size : Z) : outcome Z :=
  match tok with
  | WMalformed => OErr InvalidArgument
  | _ =>
      let n := zlen ids in
      let start := match tok with WNum z => z | _ => n end in
      if (start <? 0) || (n <? start) then OErr InvalidArgument
      else if size <? 0 then OErr InvalidArgument
      else waste_respond ids start (waste_count size)
  end.

Definition waste_chain (ids : list string) (size : Z) (fuel : nat) (tok : wtoken) : list (outcome Z) :=
  chain_with (fun t => waste_page ids t size) WNum fuel tok.
Definition waste_chain_v0 (ids : list string) (size : Z) (fuel : nat) (tok : wtoken) : list (outcome Z) :=
  chain_with (fun t => waste_page_v0 ids t size) WNum fuel tok.
