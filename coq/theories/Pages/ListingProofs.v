(* Proofs about the listing a handler pages over (Pages/Listing.v): the sorts, and the handler =
   re-sort + pager satisfies the judge's predicate whatever order the collection lists in. *)
From SC Require Import Base.Prelude Pages.Codec Pages.CodecProofs Pages.PagerCfg Pages.Pager Pages.Listing
  Pages.C15Judge Pages.PagerProofs.
From Coq Require Import Sorted Permutation.

Local Open Scope Z_scope.

(* ---- insertion sort: a permutation, whatever the comparison ---- *)

Lemma insert_by_perm lt x l : Permutation (insert_by lt x l) (x :: l).
Proof.
  induction l as [|y r IH]; simpl; [reflexivity|].
  destruct (lt y x); [|reflexivity].
  rewrite IH. apply perm_swap.
Qed.

Lemma isort_perm lt l : Permutation (isort lt l) l.
Proof.
  induction l as [|x r IH]; simpl; [reflexivity|].
  rewrite insert_by_perm. constructor. exact IH.
Qed.

Lemma isort_ext lt1 lt2 l : (forall a b, lt1 a b = lt2 a b) -> isort lt1 l = isort lt2 l.
Proof.
  intros H. induction l as [|x r IH]; simpl; [reflexivity|]. rewrite IH.
  generalize (isort lt2 r). intros m. induction m as [|y m IHm]; simpl; [reflexivity|].
  rewrite H, IHm. reflexivity.
Qed.

Lemma sort_keys_perm l : Permutation (sort_keys l) l.
Proof. apply isort_perm. Qed.

Lemma coll_listing_perm f ids : Permutation (coll_listing f ids) ids.
Proof. apply isort_perm. Qed.

Lemma zlen_perm {A} (a b : list A) : Permutation a b -> zlen a = zlen b.
Proof. intros H. unfold zlen. rewrite (Permutation_length H). reflexivity. Qed.

Lemma zlen_sort_keys l : zlen (sort_keys l) = zlen l.
Proof. apply zlen_perm, sort_keys_perm. Qed.

(* ---- ascending by the Go string order, on pairwise different strings ---- *)

Lemma insert_sorted x l : StronglySorted slt l -> ~ In x l -> StronglySorted slt (insert_by String.ltb x l).
Proof.
  induction 1 as [|y r Hs IH Hf]; intros Hni; simpl.
  - constructor; constructor.
  - destruct (String.ltb y x) eqn:Hyx.
    + constructor.
      * apply IH. intros Hin. apply Hni. right. exact Hin.
      * eapply Permutation_Forall; [symmetry; apply insert_by_perm|].
        constructor; [exact Hyx|exact Hf].
    + assert (Hxy : slt x y).
      { apply ltb_total; [exact Hyx|]. intros ->. apply Hni. left. reflexivity. }
      constructor; [constructor; assumption|].
      constructor; [exact Hxy|].
      eapply Forall_impl; [|exact Hf]. intros z Hz. unfold slt in *. eapply ltb_trans; eauto.
Qed.

Lemma sort_keys_sorted l : NoDup l -> StronglySorted slt (sort_keys l).
Proof.
  induction 1 as [|x r Hni Hnd IH]; simpl; [constructor|].
  apply insert_sorted; [exact IH|].
  intros Hin. apply Hni. apply (Permutation_in _ (sort_keys_perm r)). exact Hin.
Qed.

Lemma SS_strictly_sorted l : StronglySorted slt l -> strictly_sorted l = true.
Proof.
  induction 1 as [|a l Hs IH Hf]; [reflexivity|].
  destruct l as [|b r]; [reflexivity|].
  change (strictly_sorted (a :: b :: r)) with (String.ltb a b && strictly_sorted (b :: r)).
  inversion Hf as [|? ? Hab _]; subst. unfold slt in Hab. rewrite Hab, IH. reflexivity.
Qed.

(* sorting an ascending list changes nothing: without an interceptor the re-sort is the identity *)
Lemma sort_keys_sorted_id l : StronglySorted slt l -> sort_keys l = l.
Proof.
  induction 1 as [|a l Hs IH Hf]; [reflexivity|].
  unfold sort_keys in *. simpl. rewrite IH.
  destruct l as [|b r]; [reflexivity|].
  simpl. inversion Hf as [|? ? Hab _]; subst. unfold slt in Hab. rewrite (ltb_asym _ _ Hab). reflexivity.
Qed.

(* an ascending list is determined by its elements *)
Lemma sorted_perm_unique : forall a b,
  StronglySorted slt a -> StronglySorted slt b -> Permutation a b -> a = b.
Proof.
  induction a as [|x a IH]; intros b Ha Hb Hp.
  - apply Permutation_nil in Hp. congruence.
  - destruct b as [|y b]; [apply Permutation_sym, Permutation_nil in Hp; discriminate|].
    apply StronglySorted_inv in Ha. destruct Ha as [Ha Hfa].
    apply StronglySorted_inv in Hb. destruct Hb as [Hb Hfb].
    assert (Hxy : x = y).
    { assert (Hx : In x (y :: b)) by (apply (Permutation_in _ Hp); left; reflexivity).
      assert (Hy : In y (x :: a)) by (apply (Permutation_in _ (Permutation_sym Hp)); left; reflexivity).
      destruct Hx as [Hx|Hx]; [congruence|]. destruct Hy as [Hy|Hy]; [congruence|].
      rewrite Forall_forall in Hfa, Hfb. specialize (Hfa y Hy). specialize (Hfb x Hx).
      unfold slt in *. rewrite (ltb_asym _ _ Hfa) in Hfb. discriminate. }
    subst y. f_equal. apply IH; auto. eapply Permutation_cons_inv. exact Hp.
Qed.

Lemma sort_keys_of_perm a b : NoDup a -> Permutation a b -> sort_keys a = sort_keys b.
Proof.
  intros Hnd Hp. apply sorted_perm_unique.
  - apply sort_keys_sorted. exact Hnd.
  - apply sort_keys_sorted. eapply Permutation_NoDup; eauto.
  - rewrite sort_keys_perm, sort_keys_perm. exact Hp.
Qed.

(* ---- Collection.List: ascending by key, when the keys are pairwise different ---- *)

Definition klt (f : string -> string) (a b : string) : Prop := slt (f a) (f b).

Lemma insert_sorted_key f x l :
  StronglySorted (klt f) l -> ~ In (f x) (map f l) ->
  StronglySorted (klt f) (insert_by (fun a b => String.ltb (f a) (f b)) x l).
Proof.
  induction 1 as [|y r Hs IH Hf]; intros Hni; simpl.
  - constructor; constructor.
  - destruct (String.ltb (f y) (f x)) eqn:Hyx.
    + constructor.
      * apply IH. intros Hin. apply Hni. right. exact Hin.
      * eapply Permutation_Forall; [symmetry; apply insert_by_perm|].
        constructor; [exact Hyx|exact Hf].
    + assert (Hxy : klt f x y).
      { apply ltb_total; [exact Hyx|]. intros Heq. apply Hni. left. exact Heq. }
      constructor; [constructor; assumption|].
      constructor; [exact Hxy|].
      eapply Forall_impl; [|exact Hf]. intros z Hz. unfold klt, slt in *. eapply ltb_trans; eauto.
Qed.

Lemma coll_listing_sorted f ids : NoDup (map f ids) -> StronglySorted (klt f) (coll_listing f ids).
Proof.
  induction ids as [|x r IH]; intros Hnd; [constructor|].
  simpl in Hnd. inversion Hnd as [|? ? Hni Hr]; subst.
  unfold coll_listing in *. simpl. apply insert_sorted_key; [apply IH; exact Hr|].
  intros Hin. apply Hni. eapply Permutation_in; [apply Permutation_map; apply isort_perm|exact Hin].
Qed.

Lemma SS_klt_map f l : StronglySorted (klt f) l -> StronglySorted slt (map f l).
Proof.
  induction 1 as [|a l Hs IH Hf]; simpl; constructor; auto.
  apply Forall_forall. intros y Hy. apply in_map_iff in Hy. destruct Hy as [z [<- Hz]].
  rewrite Forall_forall in Hf. apply Hf. exact Hz.
Qed.

(* ---- the boolean hypotheses ---- *)

Lemma nodupb_spec l : nodupb l = true -> NoDup l.
Proof.
  induction l as [|a r IH]; intros H; [constructor|].
  simpl in H. apply andb_true_iff in H. destruct H as [Hn Hr]. constructor; [|auto].
  intros Hin. apply negb_true_iff in Hn.
  assert (existsb (String.eqb a) r = true).
  { apply existsb_exists. exists a. split; [exact Hin|apply String.eqb_refl]. }
  congruence.
Qed.

Lemma NoDup_nodupb l : NoDup l -> nodupb l = true.
Proof.
  induction 1 as [|a r Hni Hnd IH]; [reflexivity|]. simpl. rewrite IH, andb_true_r.
  apply negb_true_iff. destruct (existsb (String.eqb a) r) eqn:He; [|reflexivity].
  apply existsb_exists in He. destruct He as [y [Hy He]]. apply String.eqb_eq in He. subst. contradiction.
Qed.

Lemma ids_wf_spec ids : ids_wf ids = true ->
  NoDup ids /\ ~ In EmptyString ids /\ (forall k, In k ids -> key_utf8 k = true).
Proof.
  unfold ids_wf. intros H. apply andb_true_iff in H. destruct H as [H H3].
  apply andb_true_iff in H. destruct H as [H1 H2]. split; [|split].
  - apply nodupb_spec. exact H1.
  - intros Hin. apply negb_true_iff in H2.
    assert (existsb (String.eqb EmptyString) ids = true).
    { apply existsb_exists. exists EmptyString. split; auto. }
    congruence.
  - intros k Hk. rewrite forallb_forall in H3. auto.
Qed.

Lemma keys_wf_of_spec keys :
  StronglySorted slt keys -> ~ In EmptyString keys -> (forall k, In k keys -> key_utf8 k = true) ->
  keys_wf keys = true.
Proof.
  intros Hs Hne Hu. unfold keys_wf. rewrite (SS_strictly_sorted _ Hs), andb_true_l.
  apply andb_true_iff. split.
  - apply negb_true_iff. destruct (existsb (String.eqb EmptyString) keys) eqn:He; [|reflexivity].
    apply existsb_exists in He. destruct He as [y [Hy He]]. apply String.eqb_eq in He. subst. contradiction.
  - apply forallb_forall. exact Hu.
Qed.

Lemma ids_wf_fast_spec ids : ids_wf_fast ids = ids_wf ids.
Proof.
  unfold ids_wf_fast, ids_wf. f_equal. f_equal.
  destruct (nodupb ids) eqn:Hn.
  - apply SS_strictly_sorted, sort_keys_sorted, nodupb_spec. exact Hn.
  - destruct (strictly_sorted (sort_keys ids)) eqn:Hs; [|reflexivity].
    apply strictly_sorted_SS, SS_NoDup in Hs.
    apply (Permutation_NoDup (sort_keys_perm ids)), NoDup_nodupb in Hs. congruence.
Qed.

(* the re-sorted listing is what the theorems about the pager assume *)
Lemma ids_wf_sorted ids : ids_wf ids = true -> keys_wf (sort_keys ids) = true.
Proof.
  intros H. destruct (ids_wf_spec ids H) as [Hnd [Hne Hu]].
  apply keys_wf_of_spec.
  - apply sort_keys_sorted. exact Hnd.
  - intros Hin. apply Hne. apply (Permutation_in _ (sort_keys_perm ids)). exact Hin.
  - intros k Hk. apply Hu. apply (Permutation_in _ (sort_keys_perm ids)). exact Hk.
Qed.

Lemma ids_wf_perm a b : Permutation a b -> ids_wf a = true -> ids_wf b = true.
Proof.
  intros Hp H. destruct (ids_wf_spec a H) as [Hnd [Hne Hu]].
  unfold ids_wf. rewrite (NoDup_nodupb b (Permutation_NoDup Hp Hnd)), andb_true_l.
  apply andb_true_iff. split.
  - apply negb_true_iff. destruct (existsb (String.eqb EmptyString) b) eqn:He; [|reflexivity].
    apply existsb_exists in He. destruct He as [y [Hy He]]. apply String.eqb_eq in He. subst.
    exfalso. apply Hne. apply (Permutation_in _ (Permutation_sym Hp)). exact Hy.
  - apply forallb_forall. intros k Hk. apply Hu. apply (Permutation_in _ (Permutation_sym Hp)). exact Hk.
Qed.

(* a listing that is ascending already: [ids_wf] *)
Lemma keys_wf_ids_wf keys : keys_wf keys = true -> ids_wf keys = true.
Proof.
  intros H. destruct (keys_wf_spec keys H) as [Hs [Hne Hu]].
  unfold ids_wf. rewrite (NoDup_nodupb _ (SS_NoDup _ Hs)), andb_true_l.
  unfold keys_wf in H. apply andb_true_iff in H. destruct H as [H H3].
  apply andb_true_iff in H. destruct H as [_ H2]. rewrite H2, H3. reflexivity.
Qed.

(* ---- the handler: re-sort, then the pager ---- *)

Lemma list_chain_eq r c listing dropkey sizes w :
  list_chain r c listing dropkey sizes w = key_chain c (paged_listing r c dropkey listing) dropkey sizes w.
Proof. reflexivity. Qed.

Lemma paged_listing_resort c dropkey listing :
  cfg_ok c = true -> paged_listing true c dropkey listing = sort_keys listing.
Proof.
  intros Hc. unfold paged_listing. unfold cfg_ok in Hc.
  apply andb_true_iff in Hc. destruct Hc as [_ Hm]. apply negb_true_iff in Hm. rewrite Hm. reflexivity.
Qed.

Lemma paged_listing_none c dropkey listing : paged_listing false c dropkey listing = listing.
Proof. reflexivity. Qed.

(* a handler that re-sorts and one that does not are the same function on a listing that is
   ascending already (no interceptor, or one that keeps the order of the ids) *)
Lemma list_chain_sorted_listing r c listing dropkey sizes w :
  strictly_sorted listing = true ->
  list_chain r c listing dropkey sizes w = key_chain c listing dropkey sizes w.
Proof.
  intros Hs. rewrite list_chain_eq. unfold paged_listing.
  destruct (r && negb (pc_mask_before c && dropkey)); [|reflexivity].
  rewrite sort_keys_sorted_id; [reflexivity|]. apply strictly_sorted_SS. exact Hs.
Qed.

(* the judge's predicate holds of the model for every collection order *)
Theorem list_model_ok s c keys dropkey sizes raw0 tok extra :
  cfg_ok c = true -> ids_wf keys = true -> in32 (zlen keys) = true -> zlen keys < zlen sizes ->
  Forall is_byte extra ->
  C15_ok (KKeys s keys dropkey sizes raw0 tok extra (list_chain true c keys dropkey sizes (WFirst tok extra))) = true.
Proof.
  intros Hc Hwf H32 Hfuel Hex. rewrite list_chain_eq, (paged_listing_resort c dropkey keys Hc).
  pose proof (ids_wf_sorted keys Hwf) as Hk. pose proof (zlen_sort_keys keys) as Hl.
  assert (Hsz : sizes <> []).
  { intros ->. pose proof (zlen_nonneg keys). unfold zlen in Hfuel at 2. simpl in Hfuel. lia. }
  assert (Hgood : tok <> TokMalformed ->
    enumerates (expected_after (sort_keys keys) tok) (zlen keys) sizes
      (key_chain c (sort_keys keys) dropkey sizes (WFirst tok extra))
    && (zlen (key_chain c (sort_keys keys) dropkey sizes (WFirst tok extra)) <=? zlen keys + 2) = true).
  { intros Ht. rewrite <- Hl. apply key_chain_ok_bool; auto; rewrite Hl; assumption. }
  unfold C15_ok. destruct tok as [|k|].
  - specialize (Hgood ltac:(discriminate)). apply andb_true_iff in Hgood. destruct Hgood as [He Hn].
    change (expected_after (sort_keys keys) TokEmpty) with (sort_keys keys) in He.
    rewrite He, Hn. reflexivity.
  - apply Hgood. discriminate.
  - rewrite key_chain_rejects by auto. reflexivity.
Qed.

(* the judge's predicate on a model-level listing holds of the model of Collection.List *)
Theorem listing_model_ok kv :
  nodupb (map (assoc_key kv) (map fst kv)) = true ->
  C15_ok (KListing kv (coll_listing (assoc_key kv) (map fst kv))) = true.
Proof.
  intros Hg. apply nodupb_spec in Hg. unfold C15_ok.
  pose proof (coll_listing_perm (assoc_key kv) (map fst kv)) as Hp.
  apply andb_true_iff. split; [apply andb_true_iff; split|].
  - rewrite (zlen_perm _ _ Hp). unfold zlen. rewrite map_length. apply Z.eqb_refl.
  - apply forallb_forall. intros x Hx. apply existsb_exists. exists x. split; [|apply String.eqb_refl].
    apply (Permutation_in _ (Permutation_sym Hp)). exact Hx.
  - apply SS_strictly_sorted, SS_klt_map, coll_listing_sorted. exact Hg.
Qed.

