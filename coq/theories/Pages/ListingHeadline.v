(* Headline statements over the handler = re-sort + pager (Pages/Listing.v), for every order the
   collection may list its items in - in particular under every id interceptor. *)
From SC Require Import Base.Prelude Pages.Codec Pages.CodecProofs Pages.PagerCfg Gen.Pagers Pages.Pager Pages.Listing
  Pages.C15Judge Pages.PagerProofs Pages.ListingProofs Pages.WasteProofs Pages.PagerTable Pages.C15JudgeProofs.
From Coq Require Import Sorted Permutation.

Local Open Scope Z_scope.

(* the handler of RPC [s] as found in the tree, on a listing in any order *)
Lemma handler_chain_eq s listing dropkey sizes w :
  list_chain (resorts_of s) (cfg_of s) listing dropkey sizes w
  = key_chain (cfg_of s) (sort_keys listing) dropkey sizes w.
Proof. rewrite list_chain_eq, all_resort, (paged_listing_resort _ _ _ (all_cfg_ok s)). reflexivity. Qed.

(* HEADLINE: every RPC, ids in ANY order (pairwise different, non-empty, UTF-8), any first token,
   any page size on each request: the chain lists the ids in ascending order *)
Theorem list_pages_enumerate s listing dropkey sizes tok extra :
  ids_wf listing = true -> in32 (zlen listing) = true ->
  Forall (fun z => 0 <= z) sizes -> tok <> TokMalformed -> Forall is_byte extra ->
  let rest := expected_after (sort_keys listing) tok in
  zlen rest < zlen sizes ->
  let obs := list_chain (resorts_of s) (cfg_of s) listing dropkey sizes (WFirst tok extra) in
  chain_shape_ok obs = true
  /\ concat_keys obs = rest
  /\ NoDup (concat_keys obs)
  /\ pages_within_sizes (zlen listing) sizes obs
  /\ zlen obs = calls_key (zlen rest) sizes
  /\ zlen obs <= zlen rest + 1.
Proof.
  intros Hwf H32 Hpos Htok Hex rest Hfuel obs. unfold obs. rewrite handler_chain_eq.
  rewrite <- (zlen_sort_keys listing). rewrite <- (zlen_sort_keys listing) in H32.
  apply key_pages_enumerate; auto. apply ids_wf_sorted. exact Hwf.
Qed.

Corollary list_pages_enumerate_const s listing dropkey size tok extra fuel :
  ids_wf listing = true -> in32 (zlen listing) = true -> 0 <= size -> tok <> TokMalformed -> Forall is_byte extra ->
  let rest := expected_after (sort_keys listing) tok in
  let c := cap_page_size size in
  zlen rest / c + 1 <= Z.of_nat fuel -> zlen rest < Z.of_nat fuel ->
  let obs := list_chain (resorts_of s) (cfg_of s) listing dropkey (const_sizes size fuel) (WFirst tok extra) in
  zlen obs = zlen rest / c + 1
  /\ chain_shape_ok obs = true
  /\ concat_keys obs = rest
  /\ NoDup (concat_keys obs)
  /\ pages_within c (zlen listing) obs.
Proof.
  intros Hwf H32 Hsize Htok Hex rest c Hf1 Hf2 obs. unfold obs. rewrite handler_chain_eq.
  rewrite <- (zlen_sort_keys listing). rewrite <- (zlen_sort_keys listing) in H32.
  apply key_pages_enumerate_const; auto. apply ids_wf_sorted. exact Hwf.
Qed.

(* ... in particular under ANY id interceptor [f]: the collection lists in the order of the keys
   [f id]; the result is the ids in ascending order all the same.  (The ids of a collection are
   pairwise different because their keys are; nothing else is needed of [f].) *)
Theorem list_pages_enumerate_any_interceptor s (f : string -> string) ids dropkey sizes tok extra :
  ids_wf ids = true -> in32 (zlen ids) = true ->
  Forall (fun z => 0 <= z) sizes -> tok <> TokMalformed -> Forall is_byte extra ->
  let rest := expected_after (sort_keys ids) tok in
  zlen rest < zlen sizes ->
  let obs := list_chain (resorts_of s) (cfg_of s) (coll_listing f ids) dropkey sizes (WFirst tok extra) in
  chain_shape_ok obs = true
  /\ concat_keys obs = rest
  /\ NoDup (concat_keys obs)
  /\ pages_within_sizes (zlen ids) sizes obs
  /\ zlen obs = calls_key (zlen rest) sizes
  /\ zlen obs <= zlen rest + 1.
Proof.
  intros Hwf H32 Hpos Htok Hex rest Hfuel obs.
  pose proof (coll_listing_perm f ids) as Hp.
  assert (Hwf' : ids_wf (coll_listing f ids) = true) by (eapply ids_wf_perm; [symmetry; exact Hp|exact Hwf]).
  assert (Hs : sort_keys (coll_listing f ids) = sort_keys ids).
  { apply sort_keys_of_perm; [|exact Hp]. destruct (ids_wf_spec _ Hwf') as [H _]. exact H. }
  assert (Hl : zlen (coll_listing f ids) = zlen ids) by (apply zlen_perm; exact Hp).
  pose proof (list_pages_enumerate s (coll_listing f ids) dropkey sizes tok extra Hwf') as H.
  cbv zeta in H. rewrite Hs, Hl in H. apply H; auto.
Qed.

Lemma NoDup_map_inv' (f : string -> string) l : NoDup (map f l) -> NoDup l.
Proof.
  induction l as [|a r IH]; intros H; [constructor|]. simpl in H. inversion H as [|? ? Hni Hnd]; subst.
  constructor; [|auto]. intros Hin. apply Hni. apply in_map. exact Hin.
Qed.

(* ids whose keys are pairwise different are pairwise different *)
Lemma ids_distinct_by_keys (f : string -> string) ids : NoDup (map f ids) -> nodupb ids = true.
Proof. intros H. apply NoDup_nodupb. eapply NoDup_map_inv'. exact H. Qed.

(* never a panic, whatever order the collection lists in *)
Theorem list_never_panics s listing dropkey sizes tok extra :
  ids_wf listing = true -> Forall is_byte extra ->
  ~ In OPanic (list_chain (resorts_of s) (cfg_of s) listing dropkey sizes (WFirst tok extra)).
Proof.
  intros Hwf Hex. rewrite handler_chain_eq. apply key_never_panics; auto. apply ids_wf_sorted. exact Hwf.
Qed.

Theorem list_bad_input_rejected s listing dropkey size sizes tok extra :
  tok = TokMalformed \/ size < 0 ->
  list_chain (resorts_of s) (cfg_of s) listing dropkey (size :: sizes) (WFirst tok extra) = [OErr InvalidArgument].
Proof. intros H. rewrite handler_chain_eq. apply key_bad_input_rejected. exact H. Qed.

(* ---- the search key must be the sort key ---- *)

(* an interceptor that keeps the order of the ids (none at all: f = id): the collection's listing
   is ascending by id already, re-sorting changes nothing, and a handler that does not re-sort
   (the five Collection handlers before this round's fix) is the same function *)
Theorem coll_listing_monotone (f : string -> string) ids :
  (forall a b, String.ltb (f a) (f b) = String.ltb a b) -> coll_listing f ids = sort_keys ids.
Proof. intros H. apply isort_ext. exact H. Qed.

Theorem list_chain_no_resort_monotone c (f : string -> string) ids dropkey sizes w :
  (forall a b, String.ltb (f a) (f b) = String.ltb a b) -> nodupb ids = true ->
  list_chain false c (coll_listing f ids) dropkey sizes w = key_chain c (sort_keys ids) dropkey sizes w.
Proof.
  intros H Hnd. rewrite (coll_listing_monotone f ids H). apply list_chain_sorted_listing.
  apply SS_strictly_sorted, sort_keys_sorted, nodupb_spec. exact Hnd.
Qed.

(* before the fix (no re-sort) under strings.ToLower: four modes a, b, c, D are listed in the
   order of their keys a, b, c, d; a page of four ends with "D", the binary search for the first
   id above "D" (on a slice that is NOT ascending by id) answers 0, and the client gets the same
   page and the same token again - for EVERY number of calls *)
Definition abcD : list string := ["a"; "b"; "c"; "D"]%string.

Theorem no_resort_interceptor_endless : forall s fuel,
  list_chain false (cfg_of s) (coll_listing ascii_lower abcD) false (const_sizes 4 fuel) (WFirst TokEmpty [])
  = repeat (OPage abcD (Some "EgFE"%string) 4) fuel.
Proof.
  intros s fuel. rewrite list_chain_eq, paged_listing_none.
  assert (Hl : coll_listing ascii_lower abcD = abcD) by (vm_compute; reflexivity). rewrite Hl.
  assert (H0 : key_page (cfg_of s) abcD false (WFirst TokEmpty []) 4 = OPage abcD (Some "EgFE"%string) 4)
    by (destruct s; vm_compute; reflexivity).
  assert (H1 : key_page (cfg_of s) abcD false (WRaw "EgFE"%string) 4 = OPage abcD (Some "EgFE"%string) 4)
    by (destruct s; vm_compute; reflexivity).
  destruct fuel as [|fuel]; [reflexivity|].
  unfold key_chain, const_sizes. cbn [repeat chain_req]. rewrite H0. f_equal.
  induction fuel as [|n IH]; [reflexivity|]. cbn [repeat chain_req]. rewrite H1. f_equal. exact IH.
Qed.

(* ... and items are skipped: the demonstration of seeded change C15-r4-2 (page size 2) *)
Definition greek : list string := ["Alpha"; "beta"; "Gamma"; "delta"; "Epsilon"; "zeta"; "Eta"; "theta"]%string.

Theorem no_resort_interceptor_skips :
  coll_listing ascii_lower greek = ["Alpha"; "beta"; "delta"; "Epsilon"; "Eta"; "Gamma"; "theta"; "zeta"]%string
  /\ concat_keys (list_chain false (cfg_of SPublication) (coll_listing ascii_lower greek) false (const_sizes 2 11) (WFirst TokEmpty []))
     = ["Alpha"; "beta"; "theta"; "zeta"]%string
  /\ concat_keys (list_chain true (cfg_of SPublication) (coll_listing ascii_lower greek) false (const_sizes 2 11) (WFirst TokEmpty []))
     = ["Alpha"; "Epsilon"; "Eta"; "Gamma"; "beta"; "delta"; "theta"; "zeta"]%string.
Proof. vm_compute. repeat split. Qed.
