(* The page-token codec of pages.go (C15).  No proofs here.

     encodePageToken: proto.Marshal(&types.PageToken{LastResourceName: k}) then base64.<Enc>.EncodeToString
     decodePageToken: base64.<Dec>.DecodeString then proto.Unmarshal

   pages.go is duplicated per package; which base64 alphabet each of the two functions uses is read
   from the source on every run (Gen/Pagers.v).  Bytes are numbers 0..255 (Z).

   Marshal of a PageToken whose oneof is last_resource_name = k (field 2, wire type 2):
     0x12, varint(len k), bytes of k          (also for k = "": the oneof member is present)
   The decoder below recognises exactly this form ([DKey]); every other byte string that is valid
   base64 is [DOther] (left to the library oracle in the harness: other fields, unknown fields,
   truncated input ...); [DBad] = not valid padded base64 in the given alphabet. *)
From SC Require Import Base.Prelude.
From Coq Require Import Ascii.

Inductive b64alpha := B64Std | B64Url | B64Other.   (* StdEncoding, URLEncoding, anything else *)

Definition b64alpha_eqb (a b : b64alpha) : bool :=
  match a, b with B64Std, B64Std | B64Url, B64Url | B64Other, B64Other => true | _, _ => false end.

Definition std_chars : string := "ABCDEFGHIJKLMNOPQRSTUVWXYZabcdefghijklmnopqrstuvwxyz0123456789+/".
Definition url_chars : string := "ABCDEFGHIJKLMNOPQRSTUVWXYZabcdefghijklmnopqrstuvwxyz0123456789-_".
Definition chars_of (a : b64alpha) : string := match a with B64Url => url_chars | _ => std_chars end.

Definition pad : ascii := "="%char.

Definition b64_char (a : b64alpha) (n : Z) : ascii :=
  match String.get (Z.to_nat n) (chars_of a) with Some c => c | None => pad end.

Fixpoint index_of (c : ascii) (s : string) (i : Z) : option Z :=
  match s with
  | EmptyString => None
  | String d r => if Ascii.eqb c d then Some i else index_of c r (i + 1)
  end.
Definition b64_val (a : b64alpha) (c : ascii) : option Z := index_of c (chars_of a) 0.

(* three bytes -> four characters; '=' padding for a tail of one or two bytes *)
Fixpoint b64_enc (a : b64alpha) (bs : list Z) : list ascii :=
  match bs with
  | [] => []
  | [b0] => [b64_char a (b0 / 4); b64_char a ((b0 mod 4) * 16); pad; pad]
  | [b0; b1] => [b64_char a (b0 / 4); b64_char a ((b0 mod 4) * 16 + b1 / 16); b64_char a ((b1 mod 16) * 4); pad]
  | b0 :: b1 :: b2 :: r =>
      b64_char a (b0 / 4) :: b64_char a ((b0 mod 4) * 16 + b1 / 16)
        :: b64_char a ((b1 mod 16) * 4 + b2 / 64) :: b64_char a (b2 mod 64) :: b64_enc a r
  end.

Definition is_nil {A} (l : list A) : bool := match l with [] => true | _ => false end.

Fixpoint b64_dec (a : b64alpha) (cs : list ascii) : option (list Z) :=
  match cs with
  | [] => Some []
  | c0 :: c1 :: c2 :: c3 :: r =>
      match b64_val a c0, b64_val a c1 with
      | Some v0, Some v1 =>
          if Ascii.eqb c2 pad then
            (if Ascii.eqb c3 pad && is_nil r then Some [v0 * 4 + v1 / 16] else None)
          else match b64_val a c2 with
               | None => None
               | Some v2 =>
                   if Ascii.eqb c3 pad then
                     (if is_nil r then Some [v0 * 4 + v1 / 16; (v1 mod 16) * 16 + v2 / 4] else None)
                   else match b64_val a c3 with
                        | None => None
                        | Some v3 =>
                            match b64_dec a r with
                            | None => None
                            | Some t => Some ((v0 * 4 + v1 / 16) :: ((v1 mod 16) * 16 + v2 / 4) :: ((v2 mod 4) * 64 + v3) :: t)
                            end
                        end
               end
      | _, _ => None
      end
  | _ => None
  end.

(* protobuf varint of a length (little-endian groups of 7 bits); fuel >= number of groups - 1 *)
Fixpoint varint_enc (fuel : nat) (n : Z) : list Z :=
  match fuel with
  | O => [n mod 128]
  | S f => if n <? 128 then [n] else (n mod 128 + 128) :: varint_enc f (n / 128)
  end.

Fixpoint varint_dec (bs : list Z) : option (Z * list Z) :=
  match bs with
  | [] => None
  | b :: r =>
      if b <? 128 then Some (b, r)
      else match varint_dec r with
           | Some (v, t) => Some (b - 128 + 128 * v, t)
           | None => None
           end
  end.

Definition byte_of (c : ascii) : Z := Z.of_N (N_of_ascii c).
Definition char_of (b : Z) : ascii := ascii_of_N (Z.to_N b).
Definition bytes_of (s : string) : list Z := map byte_of (list_ascii_of_string s).
Definition string_of_bytes (bs : list Z) : string := string_of_list_ascii (map char_of bs).

(* well-formed UTF-8 (Unicode table 3-7), what utf8.Valid accepts; proto3 string fields are validated
   by both Marshal and Unmarshal *)
Definition inr (lo hi b : Z) : bool := (lo <=? b) && (b <=? hi).
Definition cont (b : Z) : bool := inr 128 191 b.
Fixpoint utf8_valid (bs : list Z) : bool :=
  match bs with
  | [] => true
  | b0 :: r0 =>
      if b0 <? 128 then utf8_valid r0
      else match r0 with
      | [] => false
      | b1 :: r1 =>
          if inr 194 223 b0 then cont b1 && utf8_valid r1
          else match r1 with
          | [] => false
          | b2 :: r2 =>
              if b0 =? 224 then inr 160 191 b1 && cont b2 && utf8_valid r2
              else if inr 225 236 b0 || inr 238 239 b0 then cont b1 && cont b2 && utf8_valid r2
              else if b0 =? 237 then inr 128 159 b1 && cont b2 && utf8_valid r2
              else match r2 with
              | [] => false
              | b3 :: r3 =>
                  if b0 =? 240 then inr 144 191 b1 && cont b2 && cont b3 && utf8_valid r3
                  else if inr 241 243 b0 then cont b1 && cont b2 && cont b3 && utf8_valid r3
                  else if b0 =? 244 then inr 128 143 b1 && cont b2 && cont b3 && utf8_valid r3
                  else false
              end
          end
      end
  end.
Definition key_utf8 (k : string) : bool := utf8_valid (bytes_of k).

(* proto.Marshal(&PageToken{PageStart: &PageToken_LastResourceName{k}}) *)
Definition token_bytes (k : string) : list Z :=
  18 :: varint_enc (String.length k) (Z.of_nat (String.length k)) ++ bytes_of k.

Definition encode_token (a : b64alpha) (k : string) : string :=
  string_of_list_ascii (b64_enc a (token_bytes k)).

Inductive dresult := DKey (k : string) | DBad | DOther.

Definition parse_token (bs : list Z) : dresult :=
  match bs with
  | 18 :: r =>
      match varint_dec r with
      | Some (n, t) => if (n =? zlen t) && utf8_valid t then DKey (string_of_bytes t) else DOther
      | None => DOther
      end
  | _ => DOther
  end.

Definition decode_token (a : b64alpha) (raw : string) : dresult :=
  match b64_dec a (list_ascii_of_string raw) with
  | None => DBad
  | Some bs => parse_token bs
  end.

(* Tokens the SERVER mints.  The handler decodes the request's token into a PageToken, overwrites the
   oneof with last_resource_name and marshals the same struct again: unknown fields the client's token
   carried are kept and re-emitted after the known field ([extra], uninterpreted bytes). *)
Definition token_bytes_x (k : string) (extra : list Z) : list Z := token_bytes k ++ extra.
Definition encode_token_x (a : b64alpha) (k : string) (extra : list Z) : string :=
  string_of_list_ascii (b64_enc a (token_bytes_x k extra)).

Definition parse_minted (bs : list Z) : option (string * list Z) :=
  match bs with
  | 18 :: r =>
      match varint_dec r with
      | Some (n, t) =>
          if (0 <=? n) && (n <=? zlen t) && utf8_valid (firstn (Z.to_nat n) t)
          then Some (string_of_bytes (firstn (Z.to_nat n) t), skipn (Z.to_nat n) t)
          else None
      | None => None
      end
  | _ => None
  end.

Definition decode_minted (a : b64alpha) (raw : string) : option (string * list Z) :=
  match b64_dec a (list_ascii_of_string raw) with
  | None => None
  | Some bs => parse_minted bs
  end.

Definition is_byte_b (b : Z) : bool := (0 <=? b) && (b <? 256).
