(* The judge is sound: an observation that agrees with the model satisfies the property. *)
From SC Require Import Base.Prelude Pages.Codec Pages.CodecProofs Pages.PagerCfg Pages.Pager Pages.Listing Pages.C15Judge
  Pages.PagerProofs Pages.ListingProofs Pages.WasteProofs Pages.PagerTable.
From Coq Require Import Sorted.

Local Open Scope Z_scope.

Lemma option_eqb_eq {A} (eqb : A -> A -> bool) (Hs : forall x y, eqb x y = true -> x = y) :
  forall a b : option A, option_eqb eqb a b = true -> a = b.
Proof. intros [x|] [y|] H; simpl in H; try discriminate; auto. f_equal. auto. Qed.

Lemma outcome_eqb_eq {T} (teqb : T -> T -> bool) (Hs : forall x y, teqb x y = true -> x = y) :
  forall a b : outcome T, outcome_eqb teqb a b = true -> a = b.
Proof.
  intros [k1 n1 t1|c1|] [k2 n2 t2|c2|] H; simpl in H; try discriminate; auto.
  - apply andb_true_iff in H. destruct H as [H Ht]. apply andb_true_iff in H. destruct H as [Hk Hn].
    apply (list_eqb_eq String.eqb (fun x y => proj1 (String.eqb_eq x y))) in Hk.
    apply (option_eqb_eq teqb Hs) in Hn. apply Z.eqb_eq in Ht. subst. reflexivity.
  - apply Z.eqb_eq in H. subst. reflexivity.
Qed.

Lemma agrees_keys s keys dropkey sizes raw0 tok extra obs :
  agrees (KKeys s keys dropkey sizes raw0 tok extra obs) = true ->
  obs = list_chain (resorts_of s) (cfg_of s) keys dropkey sizes (WFirst tok extra).
Proof.
  simpl. intros H. apply andb_true_iff in H. destruct H as [H _]. revert H.
  apply list_eqb_eq. apply outcome_eqb_eq. intros x y. apply String.eqb_eq.
Qed.

Lemma agrees_waste ids sizes tok obs :
  agrees (KWaste ids sizes tok obs) = true ->
  obs = waste_chain ids sizes tok.
Proof.
  simpl. apply list_eqb_eq. apply outcome_eqb_eq. intros x y. apply Z.eqb_eq.
Qed.

Theorem judge_sound c : C15_guard c = true -> agrees c = true -> C15_ok c = true.
Proof.
  destruct c as [s keys dropkey sizes raw0 tok extra obs|ids sizes tok obs|kv listed]; intros Hg Ha.
  - rewrite (agrees_keys _ _ _ _ _ _ _ _ Ha). simpl in Hg.
    apply andb_true_iff in Hg. destruct Hg as [Hg Hex].
    apply andb_true_iff in Hg. destruct Hg as [Hg Hf]. apply andb_true_iff in Hg. destruct Hg as [Hwf H32].
    rewrite all_resort. rewrite ids_wf_fast_spec in Hwf.
    apply list_model_ok; auto; [apply all_cfg_ok|apply Z.ltb_lt; exact Hf|apply is_byte_b_spec; exact Hex].
  - rewrite (agrees_waste _ _ _ _ Ha). simpl in Hg.
    apply andb_true_iff in Hg. destruct Hg as [H32 Hf].
    apply waste_model_ok; auto. apply Z.ltb_lt; exact Hf.
  - simpl in Ha. apply (list_eqb_eq String.eqb (fun x y => proj1 (String.eqb_eq x y))) in Ha. subst listed.
    apply listing_model_ok. exact Hg.
Qed.

Corollary judge_zero c : C15_guard c = true -> agrees c = true -> judge c = 0.
Proof.
  intros Hg Ha. unfold judge. rewrite Ha, Hg, (judge_sound c Hg Ha). reflexivity.
Qed.

(* ------------------------------------------------------------------ *)
(* Statements in Prop form (used by Props/C15.v)                       *)
(* ------------------------------------------------------------------ *)

(* answer i is a page of at most spec_cap sizes[i] items reporting total n *)
Fixpoint pages_within_sizes {T} (n : Z) (sizes : list Z) (obs : list (outcome T)) : Prop :=
  match obs, sizes with
  | [], _ => True
  | o :: os, s :: ss => (exists k nx, o = OPage k nx n /\ zlen k <= spec_cap s) /\ pages_within_sizes n ss os
  | _ :: _, [] => False
  end.

(* every answer is a page of at most c items reporting total n *)
Definition pages_within {T} (c n : Z) (obs : list (outcome T)) : Prop :=
  Forall (fun o => exists k nx, o = OPage k nx n /\ zlen k <= c) obs.

Lemma is_prefix_full a b : is_prefix a b = true -> zlen a = zlen b -> a = b.
Proof.
  intros Hp Hl. pose proof (is_prefix_split a b Hp) as Hb.
  assert (Hlen : List.length b = (List.length a + List.length (skipn (List.length a) b))%nat)
    by (rewrite Hb at 1; apply app_length).
  unfold zlen in Hl. destruct (skipn (List.length a) b) eqn:Hs.
  - rewrite Hb, app_nil_r. reflexivity.
  - simpl in Hlen. lia.
Qed.

(* what the judge's walk means *)
Lemma enumerates_spec {T} : forall sizes rest n (obs : list (outcome T)),
  Forall (fun z => 0 <= z) sizes -> enumerates rest n sizes obs = true ->
  chain_shape_ok obs = true /\ concat_keys obs = rest /\ pages_within_sizes n sizes obs.
Proof.
  induction sizes as [|s ss IH]; intros rest n obs Hpos He; [destruct obs; discriminate|].
  destruct obs as [|o os]; [discriminate|].
  inversion Hpos as [|? ? Hs Hss]; subst.
  cbn [enumerates] in He. destruct (Z.ltb_spec s 0) as [|_]; [lia|].
  destruct o as [k nx t| |]; try discriminate.
  apply andb_true_iff in He. destruct He as [He Hnx].
  apply andb_true_iff in He. destruct He as [He Hpre].
  apply andb_true_iff in He. destruct He as [Hk Ht].
  apply Z.leb_le in Hk. apply Z.eqb_eq in Ht. subst t.
  destruct nx as [x|].
  - apply andb_true_iff in Hnx. destruct Hnx as [Hnn Hrec].
    destruct (IH _ _ _ Hss Hrec) as [Hsh [Hcat Hw]].
    destruct os as [|o' os']; [discriminate|].
    repeat split.
    + exact Hsh.
    + change (concat_keys (OPage k (Some x) n :: o' :: os')) with (k ++ concat_keys (o' :: os')).
      rewrite Hcat. symmetry. apply is_prefix_split. exact Hpre.
    + exists k, (Some x). auto.
    + exact Hw.
  - apply andb_true_iff in Hnx. destruct Hnx as [Hnil Hlen].
    destruct os; [|discriminate]. apply Z.eqb_eq in Hlen.
    split; [reflexivity|]. split.
    + simpl. rewrite app_nil_r. apply is_prefix_full; auto.
    + simpl. split; [|destruct ss; exact I]. exists k, None. auto.
Qed.

Lemma enumerates_no_panic {T} : forall sizes rest n (obs : list (outcome T)),
  enumerates rest n sizes obs = true -> ~ In OPanic obs.
Proof.
  induction sizes as [|s ss IH]; intros rest n obs He; [destruct obs; discriminate|].
  destruct obs as [|o os]; [discriminate|].
  cbn [enumerates] in He. destruct (s <? 0).
  - destruct o; try discriminate. apply andb_true_iff in He. destruct He as [_ Hn].
    destruct os; [|discriminate]. intros [H|[]]. discriminate.
  - destruct o as [k nx t| |]; try discriminate.
    apply andb_true_iff in He. destruct He as [_ Hnx].
    destruct nx.
    + apply andb_true_iff in Hnx. destruct Hnx as [_ Hrec].
      intros [H|H]; [discriminate|]. exact (IH _ _ _ Hrec H).
    + apply andb_true_iff in Hnx. destruct Hnx as [Hn _]. destruct os; [|discriminate].
      intros [H|[]]. discriminate.
Qed.

(* HEADLINE, key-token servers: every RPC (its configuration read from the tree), any listing,
   any first token, ANY page size on each request *)
Theorem key_pages_enumerate s keys dropkey sizes tok extra :
  keys_wf keys = true -> in32 (zlen keys) = true ->
  Forall (fun z => 0 <= z) sizes -> tok <> TokMalformed -> Forall is_byte extra ->
  let rest := expected_after keys tok in
  zlen rest < zlen sizes ->
  let obs := key_chain (cfg_of s) keys dropkey sizes (WFirst tok extra) in
  chain_shape_ok obs = true
  /\ concat_keys obs = rest
  /\ NoDup (concat_keys obs)
  /\ pages_within_sizes (zlen keys) sizes obs
  /\ zlen obs = calls_key (zlen rest) sizes
  /\ zlen obs <= zlen rest + 1.
Proof.
  intros Hwf H32 Hpos Htok Hex rest Hfuel obs.
  destruct (key_chain_good (cfg_of s) keys dropkey sizes tok extra (all_cfg_ok s) Hwf Htok Hex Hfuel) as [He Hn].
  rewrite (in32_wrap _ H32) in He.
  destruct (enumerates_spec sizes _ _ _ Hpos He) as [Hsh [Hcat Hw]].
  fold obs in Hsh, Hcat, Hw, Hn. fold rest in Hcat, Hn.
  repeat split; auto.
  - rewrite Hcat. apply SS_NoDup.
    destruct (keys_wf_spec keys Hwf) as [Hs _].
    destruct (token_split VGreater keys tok Hs Htok) as [pre [Hk _]].
    rewrite Hk in Hs. destruct (SS_app_inv _ _ _ Hs) as [_ [Hr _]]. exact Hr.
  - rewrite Hn. apply calls_key_le. apply zlen_nonneg.
Qed.

Lemma pages_within_const {T} size n : forall fuel (obs : list (outcome T)),
  pages_within_sizes n (const_sizes size fuel) obs -> pages_within (spec_cap size) n obs.
Proof.
  induction fuel as [|f IH]; intros obs H; destruct obs as [|o os]; try constructor; simpl in H; try contradiction.
  - destruct H as [Ho _]. exact Ho.
  - destruct H as [_ Hr]. apply IH. exact Hr.
Qed.

(* the same page size on every request: exactly |rest|/cap + 1 calls *)
Corollary key_pages_enumerate_const s keys dropkey size tok extra fuel :
  keys_wf keys = true -> in32 (zlen keys) = true -> 0 <= size -> tok <> TokMalformed -> Forall is_byte extra ->
  let rest := expected_after keys tok in
  let c := cap_page_size size in
  zlen rest / c + 1 <= Z.of_nat fuel -> zlen rest < Z.of_nat fuel ->
  let obs := key_chain (cfg_of s) keys dropkey (const_sizes size fuel) (WFirst tok extra) in
  zlen obs = zlen rest / c + 1
  /\ chain_shape_ok obs = true
  /\ concat_keys obs = rest
  /\ NoDup (concat_keys obs)
  /\ pages_within c (zlen keys) obs.
Proof.
  intros Hwf H32 Hsize Htok Hex rest c Hfuel Hfuel2 obs.
  assert (Hpos : Forall (fun z => 0 <= z) (const_sizes size fuel)).
  { apply Forall_forall. intros z Hz. apply repeat_spec in Hz. lia. }
  assert (Hlen : zlen (const_sizes size fuel) = Z.of_nat fuel).
  { unfold zlen, const_sizes. rewrite repeat_length. reflexivity. }
  destruct (key_pages_enumerate s keys dropkey (const_sizes size fuel) tok extra Hwf H32 Hpos Htok Hex
              ltac:(rewrite Hlen; exact Hfuel2)) as [Hsh [Hcat [Hnd [Hw [Hn _]]]]].
  fold obs in Hsh, Hcat, Hnd, Hw, Hn. fold rest in Hcat, Hn.
  repeat split; auto.
  - rewrite Hn. apply calls_key_const; auto. apply zlen_nonneg.
  - unfold c. rewrite <- (cap_is_spec size Hsize). eapply pages_within_const. exact Hw.
Qed.

Lemma cap_page_size_spec size : 0 <= size ->
  cap_page_size size = (if size =? 0 then 50 else Z.min size 1000).
Proof. intros H. symmetry. apply (cap_is_spec size H). Qed.

(* the parent handler's search-then-skip is the same function as the others' search *)
Theorem next_index_variants_agree keys k :
  strictly_sorted keys = true -> next_index VGeSkip keys k = next_index VGreater keys k.
Proof.
  intros Hs. apply strictly_sorted_SS in Hs.
  assert (Ht : TokKey k <> TokMalformed) by discriminate.
  destruct (token_split VGeSkip keys (TokKey k) Hs Ht) as [p1 [H1 N1]].
  destruct (token_split VGreater keys (TokKey k) Hs Ht) as [p2 [H2 N2]].
  simpl last_key in *. rewrite N1, N2.
  assert (zlen keys = zlen p1 + zlen (expected_after keys (TokKey k))) by (rewrite <- zlen_app; f_equal; exact H1).
  assert (zlen keys = zlen p2 + zlen (expected_after keys (TokKey k))) by (rewrite <- zlen_app; f_equal; exact H2).
  lia.
Qed.

Theorem key_page_variants_agree c keys w size :
  strictly_sorted keys = true ->
  key_page (with_variant c VGeSkip) keys false w size = key_page (with_variant c VGreater) keys false w size.
Proof.
  intros Hs. unfold key_page.
  change (token_of (with_variant c VGeSkip) w) with (token_of c w).
  change (token_of (with_variant c VGreater) w) with (token_of c w).
  cbn [pc_validates pc_mask_before with_variant]. rewrite !andb_false_r.
  change (extra_of (with_variant c VGeSkip) w) with (extra_of c w).
  change (extra_of (with_variant c VGreater) w) with (extra_of c w).
  assert (Hcore : forall k, key_page_core (with_variant c VGeSkip) keys keys k (extra_of c w) size
                            = key_page_core (with_variant c VGreater) keys keys k (extra_of c w) size).
  { intros k. unfold key_page_core, cap_of. cbn [pc_variant pc_enc pc_default pc_max with_variant].
    rewrite (next_index_variants_agree keys k Hs). reflexivity. }
  destruct (token_of c w); try reflexivity; rewrite Hcore; reflexivity.
Qed.

(* bad inputs: one InvalidArgument answer, whatever the collection (no hypotheses on keys) *)
Theorem key_bad_input_rejected s keys dropkey size sizes tok extra :
  tok = TokMalformed \/ size < 0 ->
  key_chain (cfg_of s) keys dropkey (size :: sizes) (WFirst tok extra) = [OErr InvalidArgument].
Proof.
  intros [->|Hneg].
  - apply key_chain_rejects; [reflexivity|discriminate].
  - unfold key_chain. cbn [chain_req]. rewrite key_page_negative; auto. apply all_cfg_ok.
Qed.

Theorem waste_bad_input_rejected ids size sizes tok :
  tok = WMalformed \/ (exists z, tok = WNum z /\ (z < 0 \/ zlen ids < z)) \/ size < 0 ->
  waste_chain ids (size :: sizes) tok = [OErr InvalidArgument].
Proof.
  intros [->|[[z [-> Hz]]|H]].
  - apply waste_chain_rejects; [reflexivity|discriminate].
  - apply waste_chain_rejects; [|discriminate].
    simpl. apply orb_true_iff. destruct Hz; [left; apply Z.ltb_lt|right; apply Z.ltb_lt]; assumption.
  - unfold waste_chain. cbn [chain_req]. unfold waste_page.
    destruct tok as [|z|]; [| |reflexivity].
    + destruct ((zlen ids <? 0) || (zlen ids <? zlen ids)); [reflexivity|].
      destruct (Z.ltb_spec size 0); [reflexivity|lia].
    + destruct ((z <? 0) || (zlen ids <? z)); [reflexivity|].
      destruct (Z.ltb_spec size 0); [reflexivity|lia].
Qed.

(* a chain cut short is a prefix of the longer one *)
Lemma chain_req_prefix {T Tok} (page : Tok -> Z -> outcome T) wrap : forall s1 s2 tok,
  exists t, chain_req page wrap (s1 ++ s2) tok = chain_req page wrap s1 tok ++ t.
Proof.
  induction s1 as [|s ss IH]; intros s2 tok.
  - exists (chain_req page wrap s2 tok). reflexivity.
  - cbn [app chain_req]. destruct (page tok s) as [k [x|] t| |]; try (exists []; rewrite app_nil_r; reflexivity).
    destruct (IH s2 (wrap x)) as [t' Ht']. exists t'. rewrite Ht'. reflexivity.
Qed.

(* a panic is never an outcome of the current handlers on a sorted listing, however many calls
   the client makes, whatever token and whatever page sizes it sends *)
Theorem key_never_panics s keys dropkey sizes tok extra :
  keys_wf keys = true -> Forall is_byte extra ->
  ~ In OPanic (key_chain (cfg_of s) keys dropkey sizes (WFirst tok extra)).
Proof.
  intros Hwf Hex Hin.
  destruct sizes as [|s0 ss]; [exact Hin|].
  assert (Hgood : tok <> TokMalformed -> False).
  { intros Htok. set (pad := repeat 0 (S (List.length keys))).
    destruct (chain_req_prefix (key_page (cfg_of s) keys dropkey) WRaw (s0 :: ss) pad (WFirst tok extra)) as [t Ht].
    assert (Hlen : zlen (expected_after keys tok) < zlen ((s0 :: ss) ++ pad)).
    { pose proof (expected_after_len keys tok). unfold zlen in *. rewrite app_length. unfold pad. rewrite repeat_length. lia. }
    destruct (key_chain_good (cfg_of s) keys dropkey _ tok extra (all_cfg_ok s) Hwf Htok Hex Hlen) as [He _].
    apply enumerates_no_panic in He. apply He. unfold key_chain. rewrite Ht. apply in_or_app. left. exact Hin. }
  destruct tok as [|k|].
  - apply Hgood. discriminate.
  - apply Hgood. discriminate.
  - rewrite key_chain_rejects in Hin; [|reflexivity|discriminate]. destruct Hin as [H|[]]. discriminate.
Qed.

(* every answer of a well-shaped chain is a page *)
Lemma shape_pages {T} : forall l : list (outcome T), chain_shape_ok l = true ->
  forall o, In o l -> exists k nx t, o = OPage k nx t.
Proof.
  induction l as [|a l IH]; intros Hs o Hin; [destruct Hin|].
  destruct a as [k [x|] t| |]; simpl in Hs; try discriminate.
  - destruct Hin as [<-|Hin]; [eauto|]. apply IH; auto.
  - destruct l; [|discriminate]. destruct Hin as [<-|[]]. eauto.
Qed.

(* HEADLINE, waste: any log, any page size on each request; newest first, no empty page unless
   the log is empty *)
Theorem waste_pages_enumerate ids sizes :
  in32 (zlen ids) = true -> Forall (fun z => 0 <= z) sizes ->
  Z.max (zlen ids) 1 <= zlen sizes ->
  let obs := waste_chain ids sizes WEmpty in
  chain_shape_ok obs = true
  /\ concat_keys obs = rev ids
  /\ pages_within_sizes (zlen ids) sizes obs
  /\ zlen obs = calls_waste (zlen ids) sizes
  /\ zlen obs <= Z.max (zlen ids) 1
  /\ (ids <> [] -> Forall (fun o => page_keys o <> []) obs).
Proof.
  intros H32 Hpos Hfuel obs. unfold obs. rewrite waste_chain_empty_tok.
  pose proof (zlen_nonneg ids) as Hn0.
  destruct (waste_chain_from ids sizes (zlen ids) ltac:(lia) Hfuel) as [He [Hn Hne]].
  rewrite (in32_wrap _ H32) in He.
  destruct (enumerates_spec sizes _ _ _ Hpos He) as [Hsh [Hcat Hw]].
  repeat split; auto.
  - rewrite Hcat. unfold newest_first. rewrite to_nat_zlen, firstn_all. reflexivity.
  - rewrite Hn. apply calls_waste_le. lia.
  - intros Hids.
    assert (Hp : 0 < zlen ids) by (destruct ids as [|x l]; [contradiction|rewrite zlen_cons; pose proof (zlen_nonneg l); lia]).
    specialize (Hne Hp). apply Forall_forall. intros o Ho Hnil.
    rewrite forallb_forall in Hne. specialize (Hne o Ho).
    destruct (shape_pages _ Hsh o Ho) as [k [nx [t ->]]]. simpl in Hnil. subst k. discriminate.
Qed.

Corollary waste_pages_enumerate_const ids size fuel :
  in32 (zlen ids) = true -> 0 <= size ->
  let c := waste_count size in
  let calls := (Z.max (zlen ids) 1 - 1) / c + 1 in
  Z.max (zlen ids) 1 <= Z.of_nat fuel ->
  let obs := waste_chain ids (const_sizes size fuel) WEmpty in
  zlen obs = calls
  /\ chain_shape_ok obs = true
  /\ concat_keys obs = rev ids
  /\ pages_within c (zlen ids) obs
  /\ (ids <> [] -> Forall (fun o => page_keys o <> []) obs).
Proof.
  intros H32 Hsize c calls Hfuel obs.
  assert (Hpos : Forall (fun z => 0 <= z) (const_sizes size fuel)).
  { apply Forall_forall. intros z Hz. apply repeat_spec in Hz. lia. }
  assert (Hlen : zlen (const_sizes size fuel) = Z.of_nat fuel).
  { unfold zlen, const_sizes. rewrite repeat_length. reflexivity. }
  destruct (waste_pages_enumerate ids (const_sizes size fuel) H32 Hpos ltac:(rewrite Hlen; exact Hfuel))
    as [Hsh [Hcat [Hw [Hn [_ Hne]]]]].
  fold obs in Hsh, Hcat, Hw, Hn, Hne.
  pose proof (zlen_nonneg ids). pose proof (waste_count_bounds size Hsize) as Hc. fold c in Hc.
  repeat split; auto.
  - rewrite Hn. apply calls_waste_const; auto.
    unfold waste_calls. fold c. pose proof (div_le_self (Z.max (zlen ids) 1 - 1) c). lia.
  - unfold c. rewrite <- (waste_count_is_spec size Hsize). eapply pages_within_const. exact Hw.
Qed.

(* ---- what was wrong before the fixes, for every collection ---- *)

(* before 97d7676 (no validatePageSize): a negative page size panics *)
Theorem key_page_no_validate_negative_panics c keys dropkey size :
  pc_default c = 50 -> pc_max c = 1000 -> size < 0 ->
  key_page (cfg_no_validate c) keys dropkey (WFirst TokEmpty []) size = OPanic.
Proof.
  intros Hd Hm Hneg. unfold key_page, token_of, cfg_no_validate. cbn [pc_validates andb last_key].
  unfold key_page_core, next_index. cbn [key_eqb String.eqb pc_variant].
  assert (Hc : forall c', pc_default c' = 50 -> pc_max c' = 1000 -> cap_of c' size = size).
  { intros c' Hd' Hm'. unfold cap_of. rewrite Hd', Hm'. destruct (Z.eqb_spec size 0); [lia|]. destruct (Z.ltb_spec 1000 size); lia. }
  rewrite Hc by assumption.
  match goal with |- context [zlen ?l <? 0 + size] => pose proof (zlen_nonneg l); destruct (Z.ltb_spec (zlen l) (0 + size)); [lia|] end.
  destruct (Z.ltb_spec (0 + size - 1) 0); [reflexivity|lia].
Qed.

Lemma zlen_blank keys : zlen (blank_keys keys) = zlen keys.
Proof. unfold zlen, blank_keys. rewrite map_length. reflexivity. Qed.

Lemma nth_blank keys i : nth_key (blank_keys keys) i = EmptyString.
Proof.
  unfold nth_key, blank_keys. generalize (Z.to_nat i) as m. induction keys as [|k l IH]; intros [|m]; simpl; auto.
Qed.

(* before the read-mask fix: with a read mask that leaves the key field out, the listing that was
   paged had blank keys, so every token named "" and the chain never ended: as long as a full page
   fits, EVERY answer is the same first page with the same token *)
Definition at_start (c : pager_cfg) (w : wiretok) : Prop :=
  last_key (token_of c w) = EmptyString /\ token_of c w <> TokMalformed /\ extra_of c w = [].

Theorem key_chain_mask_before_endless c keys size :
  cfg_ok c = true -> 0 <= size -> cap_page_size size <= zlen keys ->
  forall sizes, Forall (fun z => z = size) sizes ->
  forall w, at_start (cfg_mask_before c) w ->
  key_chain (cfg_mask_before c) keys true sizes w
  = map (fun _ => OPage (firstn (Z.to_nat (cap_page_size size)) keys) (Some (encode_token (pc_enc c) EmptyString)) (wrap32 (zlen keys))) sizes.
Proof.
  intros Hc Hsize Hfit. destruct (cfg_ok_spec c Hc) as [Hd [Hm [He [Hv _]]]].
  pose proof (cap_bounds size Hsize) as Hcb.
  assert (Hpage : forall w, at_start (cfg_mask_before c) w ->
            key_page (cfg_mask_before c) keys true w size
            = OPage (firstn (Z.to_nat (cap_page_size size)) keys) (Some (encode_token (pc_enc c) EmptyString)) (wrap32 (zlen keys))).
  { intros w [Hlk [Htm Hex]]. unfold key_page. cbn [pc_validates pc_mask_before cfg_mask_before andb].
    rewrite Hv. cbn [andb]. destruct (Z.ltb_spec size 0); [lia|]. rewrite Hex.
    assert (Hcore : key_page_core (cfg_mask_before c) (blank_keys keys) keys EmptyString [] size
              = OPage (firstn (Z.to_nat (cap_page_size size)) keys) (Some (encode_token (pc_enc c) EmptyString)) (wrap32 (zlen keys))).
    { unfold key_page_core. rewrite zlen_blank, nth_blank.
      assert (Hcap : cap_of (cfg_mask_before c) size = cap_page_size size).
      { unfold cap_of, cap_page_size, default_page_size, max_page_size. simpl. rewrite Hd, Hm. reflexivity. }
      rewrite Hcap. unfold next_index. cbn [key_eqb String.eqb].
      destruct (Z.ltb_spec (zlen keys) (0 + cap_page_size size)); [lia|].
      destruct (Z.ltb_spec (0 + cap_page_size size - 1) 0); [lia|].
      destruct (Z.ltb_spec (0 + cap_page_size size) 0); [lia|].
      cbn [pc_enc cfg_mask_before]. rewrite encode_token_x_nil.
      unfold slice. simpl skipn. replace (0 + cap_page_size size - 0) with (cap_page_size size) by lia. reflexivity. }
    destruct (token_of (cfg_mask_before c) w) eqn:Ht; try contradiction.
    - exact Hcore.
    - simpl in Hlk. subst. exact Hcore. }
  assert (Hmint : at_start (cfg_mask_before c) (WRaw (encode_token (pc_enc c) EmptyString))).
  { unfold at_start, token_of, extra_of. cbn [pc_dec cfg_mask_before]. rewrite <- He.
    rewrite <- encode_token_x_nil. rewrite minted_roundtrip; [|reflexivity|constructor].
    repeat split. discriminate. }
  induction sizes as [|s ss IH]; intros Hall w Hw; [reflexivity|].
  inversion Hall as [|? ? Hs Hss]; subst.
  unfold key_chain. cbn [chain_req map]. rewrite (Hpage w Hw). f_equal.
  fold (key_chain (cfg_mask_before c) keys true). apply IH; auto.
Qed.

(* total_size = int32(len(items)): a listing of 2^31 items reports -2^31 *)
Theorem total_size_wraps c keys :
  cfg_ok c = true -> zlen keys = 2147483648 ->
  exists ks nx, key_page c keys false (WFirst TokEmpty []) 0 = OPage ks nx (-2147483648).
Proof.
  intros Hc Hn.
  rewrite (key_page_ok_tok c keys false (WFirst TokEmpty []) 0 Hc) by (simpl; try discriminate; lia).
  simpl token_of. simpl last_key. simpl extra_of.
  assert (Hni : next_index (pc_variant c) keys EmptyString = zlen (@nil string)) by reflexivity.
  assert (Hcap : cap_of c 0 = 50) by (rewrite (cap_of_ok c 0 Hc); reflexivity).
  rewrite (key_page_core_split c keys [] keys EmptyString [] 0 eq_refl Hni) by lia.
  rewrite Hcap, Hn. change (2147483648 <? 50) with false. cbv iota.
  change (wrap32 2147483648) with (-2147483648). eauto.
Qed.
